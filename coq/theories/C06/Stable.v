(** C06/Stable.v — lock-step simulation of two printer runs on IRs with the same metrics: every
    layout decision is the same. *)
From EV Require Import C05.Model C05.Facts C06.StableModel.
From EV Require C05.Total.
Module Total := EV.C05.Total.
From Coq Require Import ZArith.
Local Open Scope N_scope.

(** * states of the two runs *)

Definition SIM (st st' : state) : Prop :=
  col st = col st' /\ level st = level st' /\ pending st = pending st' /\ gmap st = gmap st' /\
  Forall2 MSL (sfx st) (sfx st') /\ map erase (evs st) = map erase (evs st').

Definition ORel (o o' : option state) : Prop :=
  match o, o' with
  | Some s, Some s' => SIM s s'
  | None, None => True
  | _, _ => False
  end.

Lemma orel_bind : forall (a a' : option state) (k k' : state -> option state),
  ORel a a' -> (forall s s', SIM s s' -> ORel (k s) (k' s')) -> ORel (bind a k) (bind a' k').
Proof.
  intros [s|] [s'|] k k' H Hk; cbn [ORel bind] in *; try contradiction; [apply Hk; exact H|exact I].
Qed.

Lemma orel_some : forall s s', SIM s s' -> ORel (Some s) (Some s').
Proof. intros s s' H. exact H. Qed.

Lemma sim_flush_pending : forall c s s' st st', SIM st st' -> isnil s = isnil s' ->
  SIM (flush_pending c s st) (flush_pending c s' st').
Proof.
  intros c s s' st st' H Hn. pose proof H as [H1 [H2 [H3 [H4 [H5 H6]]]]]. unfold flush_pending. rewrite <- H3.
  destruct (pending st) as [w|] eqn:Ep; [|exact H].
  destruct s as [|x s], s' as [|x' s']; try discriminate; [exact H|].
  unfold SIM. cbn [col level pending gmap sfx evs map erase]. rewrite H6.
  split; [reflexivity|]. split; [exact H2|]. split; [reflexivity|]. split; [exact H4|]. split; [exact H5|reflexivity].
Qed.

Lemma sim_push_atom : forall c s s' st st', SIM st st' -> metrics s = metrics s' ->
  SIM (push_text c true s st) (push_text c true s' st').
Proof.
  intros c s s' st st' H Hm. unfold metrics in Hm. inversion Hm as [[Hb Ha Hn]].
  pose proof (sim_flush_pending c s s' st st' H Hn) as [H1 [H2 [H3 [H4 [H5 H6]]]]].
  unfold push_text, SIM. cbn [col level pending gmap sfx evs map erase]. unfold metrics.
  rewrite Ha, Hb, Hn, H1, H6. repeat split; try assumption.
Qed.

Lemma sim_push_blank : forall c s st st', SIM st st' -> SIM (push_text c false s st) (push_text c false s st').
Proof.
  intros c s st st' H.
  pose proof (sim_flush_pending c s s st st' H eq_refl) as [H1 [H2 [H3 [H4 [H5 H6]]]]].
  unfold push_text, SIM. cbn [col level pending gmap sfx evs map erase].
  rewrite H1, H6. repeat split; try assumption.
Qed.

Lemma sim_push_spaces : forall c k st st', SIM st st' -> SIM (push_spaces c k st) (push_spaces c k st').
Proof. intros c k st st' H. unfold push_spaces. destruct (0 <? k); [apply sim_push_blank|]; exact H. Qed.

Lemma sim_newline : forall c st st', SIM st st' -> SIM (push_newline c st) (push_newline c st').
Proof.
  intros c st st' [H1 [H2 [H3 [H4 [H5 H6]]]]]. unfold push_newline, SIM.
  cbn [col level pending gmap sfx evs map erase]. rewrite H2, H6. repeat split; try assumption.
Qed.

Lemma sim_set_level : forall l st st', SIM st st' -> SIM (set_level l st) (set_level l st').
Proof. intros l st st' [H1 [H2 [H3 [H4 [H5 H6]]]]]. unfold set_level, SIM. cbn. repeat split; assumption. Qed.

Lemma sim_gm_insert : forall g b st st', SIM st st' -> SIM (gm_insert g b st) (gm_insert g b st').
Proof.
  intros g b st st' [H1 [H2 [H3 [H4 [H5 H6]]]]]. unfold gm_insert, SIM. cbn [col level pending gmap sfx evs].
  rewrite H4. repeat split; assumption.
Qed.

Lemma sim_set_sfx : forall x x' st st', SIM st st' -> Forall2 MSL x x' -> SIM (set_sfx x st) (set_sfx x' st').
Proof. intros x x' st st' [H1 [H2 [H3 [H4 [H5 H6]]]]] Hx. unfold set_sfx, SIM. cbn. repeat split; assumption. Qed.

(** * the pure functions agree *)

Lemma sum_opt_ms : forall f f' ds ds', MSL ds ds' -> (forall d d', MS d d' -> f d = f' d') -> sum_opt f ds = sum_opt f' ds'.
Proof.
  intros f f' ds ds' H Hf. induction H; [reflexivity|]. cbn [sum_opt]. rewrite (Hf _ _ H), IHMSL. reflexivity.
Qed.

Lemma any_opt_ms : forall f f' ds ds', MSL ds ds' -> (forall d d', MS d d' -> f d = f' d') -> any_opt f ds = any_opt f' ds'.
Proof.
  intros f f' ds ds' H Hf. induction H; [reflexivity|]. cbn [any_opt]. rewrite (Hf _ _ H), IHMSL. reflexivity.
Qed.

Lemma fits_list_ms : forall f f' ds ds', MSL ds ds' -> (forall d d' m rem, MS d d' -> f d m rem = f' d' m rem) ->
  forall m rem, fits_list f ds m rem = fits_list f' ds' m rem.
Proof.
  intros f f' ds ds' H Hf. induction H; intros m rem; [reflexivity|]. cbn [fits_list]. rewrite (Hf _ _ _ _ H).
  destruct (f' d' m rem) as [[b|r0]|]; cbn [bind]; [reflexivity|apply IHMSL|reflexivity].
Qed.

Lemma mse_length : forall es es', MSE es es' -> length es = length es'.
Proof. induction 1; cbn [length]; congruence. Qed.

Definition fw_entry (n : nat) (e : entry) : option N :=
  let fwl := sum_opt (fw_doc n) in
  let trail := fun t : option (list doc) => match t with Some tr => do w <- fwl tr; Some (1 + w) | None => Some 0 end in
  match e with
  | Aligned b a t => do x <- fwl b; do y <- fwl a; do z <- trail t; Some (x + y + z)
  | ALine c t => do x <- fwl c; do z <- trail t; Some (x + z)
  end.

Lemma fw_ag : forall n es, fw_doc (S n) (AlignGroup es) = max_opt (fw_entry n) es.
Proof. reflexivity. Qed.

Lemma fw_entries_ms : forall n,
  (forall ds ds', MSL ds ds' -> sum_opt (fw_doc n) ds = sum_opt (fw_doc n) ds') ->
  forall es es', MSE es es' -> max_opt (fw_entry n) es = max_opt (fw_entry n) es'.
Proof.
  intros n HL es es' H.
  induction H as [| b b' a a' t t' r r' Hb Ha Ht Hr IHr | ct ct' t t' r r' Hc Ht Hr IHr]; [reflexivity| |].
  - cbn [max_opt]. rewrite IHr. f_equal. unfold fw_entry. rewrite (HL _ _ Hb), (HL _ _ Ha).
    inversion Ht as [|l l' Hl]; subst; [reflexivity|]. rewrite (HL _ _ Hl). reflexivity.
  - cbn [max_opt]. rewrite IHr. f_equal. unfold fw_entry. rewrite (HL _ _ Hc).
    inversion Ht as [|l l' Hl]; subst; [reflexivity|]. rewrite (HL _ _ Hl). reflexivity.
Qed.

Lemma fw_ms : forall n d d', MS d d' -> fw_doc n d = fw_doc n d'.
Proof.
  induction n as [|n IH]; intros d d' H; [reflexivity|].
  assert (forall ds ds', MSL ds ds' -> sum_opt (fw_doc n) ds = sum_opt (fw_doc n) ds') as HL.
  { intros ds ds' Hl. apply sum_opt_ms; [exact Hl|exact IH]. }
  inversion H as [k k' s s' Hm| | | | |ds ds' Hl|ds ds' sb id Hl|ds ds' Hl|b b' f f' g Hb Hf|ds ds' Hl|ds ds' Hl|es es' He]; subst;
    try reflexivity; try (cbn [fw_doc]; apply HL; assumption).
  - cbn [fw_doc]. unfold metrics in Hm. inversion Hm. reflexivity.
  - cbn [fw_doc]. apply IH. exact Hf.
  - rewrite !fw_ag. apply fw_entries_ms; assumption.
Qed.

Lemma flat_width_ms : forall n ds ds', MSL ds ds' -> flat_width n ds = flat_width n ds'.
Proof. intros n ds ds' H. unfold flat_width. apply sum_opt_ms; [exact H|]. intros d d' Hd. apply fw_ms. exact Hd. Qed.

Lemma hh_ms : forall n d d', MS d d' -> hh_doc n d = hh_doc n d'.
Proof.
  induction n as [|n IH]; intros d d' H; [reflexivity|].
  inversion H as [k k' s s' Hm| | | | |ds ds' Hl|ds ds' sb id Hl|ds ds' Hl|b b' f f' g Hb Hf|ds ds' Hl|ds ds' Hl|es es' He]; subst;
    cbn [hh_doc]; try reflexivity; try (apply any_opt_ms; [assumption|exact IH]).
  rewrite (mse_length _ _ He). reflexivity.
Qed.

Lemma has_hard_line_ms : forall n ds ds', MSL ds ds' -> has_hard_line n ds = has_hard_line n ds'.
Proof. intros n ds ds' H. unfold has_hard_line. apply any_opt_ms; [exact H|]. intros d d' Hd. apply hh_ms. exact Hd. Qed.

Definition fits_entry (n : nat) (gm : list (N * bool)) (m : mode) (e : entry) (rem : Z) : option fres :=
  let fl := fits_list (fits_doc n gm) in
  let ft := fun (t : option (list doc)) m rem => match t with Some tr => fl tr m rem | None => Some (Cont rem) end in
  match e with
  | Aligned b a t => fseq (ft t m rem) (fun r1 => fseq (fl a m r1) (fun r2 => fl b m r2))
  | ALine c t => fseq (ft t m rem) (fun r1 => fl c m r1)
  end.

Lemma fits_ag : forall n gm es m rem, (rem <? 0)%Z = false ->
  fits_doc (S n) gm (AlignGroup es) m rem = fits_rev (fits_entry n gm m) es rem.
Proof. intros n gm es m rem H. cbn [fits_doc]. rewrite H. reflexivity. Qed.

Lemma fits_entries_ms : forall n gm m,
  (forall ds ds' m rem, MSL ds ds' -> fits_list (fits_doc n gm) ds m rem = fits_list (fits_doc n gm) ds' m rem) ->
  forall es es', MSE es es' -> forall rem, fits_rev (fits_entry n gm m) es rem = fits_rev (fits_entry n gm m) es' rem.
Proof.
  intros n gm m HL es es' H.
  induction H as [| b b' a a' t t' r r' Hb Ha Ht Hr IHr | ct ct' t t' r r' Hc Ht Hr IHr]; intros rem; [reflexivity| |].
  - cbn [fits_rev]. rewrite IHr. destruct (fits_rev (fits_entry n gm m) r' rem) as [[b0|r0]|]; cbn [bind]; try reflexivity.
    unfold fits_entry.
    assert (match t with Some tr => fits_list (fits_doc n gm) tr m r0 | None => Some (Cont r0) end =
            match t' with Some tr => fits_list (fits_doc n gm) tr m r0 | None => Some (Cont r0) end) as Et.
    { inversion Ht as [|l l' Hl]; subst; [reflexivity|]. apply HL. exact Hl. }
    rewrite Et. unfold fseq.
    destruct (match t' with Some tr => fits_list (fits_doc n gm) tr m r0 | None => Some (Cont r0) end) as [[b1|r1]|]; cbn [bind]; try reflexivity.
    rewrite (HL _ _ m r1 Ha). destruct (fits_list (fits_doc n gm) a' m r1) as [[b2|r2]|]; cbn [bind]; try reflexivity.
    apply HL. exact Hb.
  - cbn [fits_rev]. rewrite IHr. destruct (fits_rev (fits_entry n gm m) r' rem) as [[b0|r0]|]; cbn [bind]; try reflexivity.
    unfold fits_entry.
    assert (match t with Some tr => fits_list (fits_doc n gm) tr m r0 | None => Some (Cont r0) end =
            match t' with Some tr => fits_list (fits_doc n gm) tr m r0 | None => Some (Cont r0) end) as Et.
    { inversion Ht as [|l l' Hl]; subst; [reflexivity|]. apply HL. exact Hl. }
    rewrite Et. unfold fseq.
    destruct (match t' with Some tr => fits_list (fits_doc n gm) tr m r0 | None => Some (Cont r0) end) as [[b1|r1]|]; cbn [bind]; try reflexivity.
    apply HL. exact Hc.
Qed.

Lemma fits_ms : forall n gm d d' m rem, MS d d' -> fits_doc n gm d m rem = fits_doc n gm d' m rem.
Proof.
  induction n as [|n IH]; intros gm d d' m rem H; [reflexivity|].
  assert (forall ds ds' m rem, MSL ds ds' -> fits_list (fits_doc n gm) ds m rem = fits_list (fits_doc n gm) ds' m rem) as HL.
  { intros ds ds' m0 r0 Hl. apply fits_list_ms; [exact Hl|]. intros x x' m1 r1 Hx. apply IH. exact Hx. }
  destruct (rem <? 0)%Z eqn:Er.
  - cbn [fits_doc]. rewrite Er. reflexivity.
  - inversion H as [k k' s s' Hm| | | | |ds ds' Hl|ds ds' sb id Hl|ds ds' Hl|b b' f f' g Hb Hf|ds ds' Hl|ds ds' Hl|es es' He]; subst;
      try reflexivity; try (cbn [fits_doc]; rewrite Er; apply HL; assumption).
    + cbn [fits_doc]. rewrite Er. unfold metrics in Hm. inversion Hm. reflexivity.
    + cbn [fits_doc]. rewrite Er.
      destruct (match g with Some g0 => gm_get gm g0 | None => mode_eqb m Break end); apply IH; assumption.
    + rewrite !fits_ag by exact Er. apply fits_entries_ms; assumption.
Qed.

Lemma fits_impl_ms : forall n gm ds ds' rem, MSL ds ds' -> fits_impl n gm ds rem = fits_impl n gm ds' rem.
Proof.
  intros n gm ds ds' rem H. unfold fits_impl.
  rewrite (fits_list_ms (fits_doc n gm) (fits_doc n gm) ds ds' H); [reflexivity|].
  intros d d' m r Hd. apply fits_ms. exact Hd.
Qed.

(** * one level of the printer in lock step *)

Section LockStep.
  Variable c : cfg.
  Variables pd pd' : doc -> mode -> state -> option state.
  Variables fw fw' : list doc -> option N.
  Variables fit fit' : list (N * bool) -> list doc -> Z -> option bool.
  Variables hh hh' : list doc -> option bool.
  Hypothesis Hpd : forall d d' m st st', MS d d' -> SIM st st' -> ORel (pd d m st) (pd' d' m st').
  Hypothesis Hfw : forall ds ds', MSL ds ds' -> fw ds = fw' ds'.
  Hypothesis Hfit : forall gm ds ds' rem, MSL ds ds' -> fit gm ds rem = fit' gm ds' rem.
  Hypothesis Hhh : forall ds ds', MSL ds ds' -> hh ds = hh' ds'.

  Lemma docs_sim : forall ds ds' m st st', MSL ds ds' -> SIM st st' ->
    ORel (docs_with pd ds m st) (docs_with pd' ds' m st').
  Proof.
    unfold docs_with. intros ds ds' m st st' H. revert st st'. induction H; intros st st' Hs; cbn [fold_docs].
    - exact Hs.
    - apply orel_bind; [apply Hpd; assumption|]. intros s s' Hss. apply IHMSL. exact Hss.
  Qed.

  Lemma flush_fold_sim : forall L L' st st', Forall2 MSL L L' -> SIM st st' ->
    ORel (fold_lists (fun s st => docs_with pd s Break st) L st) (fold_lists (fun s st => docs_with pd' s Break st) L' st').
  Proof.
    intros L L' st st' H. revert st st'. induction H; intros st st' Hs; cbn [fold_lists].
    - exact Hs.
    - apply orel_bind; [apply docs_sim; assumption|]. intros s s' Hss. apply IHForall2. exact Hss.
  Qed.

  Lemma flush_sim : forall st st', SIM st st' -> ORel (flush_with pd st) (flush_with pd' st').
  Proof.
    intros st st' Hs. unfold flush_with. pose proof Hs as [_ [_ [_ [_ [H5 _]]]]].
    destruct (sfx st) as [|x L] eqn:E, (sfx st') as [|x' L'] eqn:E'; try (inversion H5; fail).
    - exact Hs.
    - apply flush_fold_sim; [exact H5|]. apply sim_set_sfx; [exact Hs|constructor].
  Qed.

  Lemma newline_sim : forall st st', SIM st st' -> ORel (newline_with c pd st) (newline_with c pd' st').
  Proof.
    intros st st' Hs. unfold newline_with. apply orel_bind; [apply flush_sim; exact Hs|].
    intros s s' Hss. apply sim_newline. exact Hss.
  Qed.

  Lemma remaining_sim : forall st st', SIM st st' -> remaining c st = remaining c st'.
  Proof. intros st st' [H1 _]. unfold remaining. rewrite H1. reflexivity. Qed.

  Lemma fill_sim : forall k l l' st st', (length l <= k)%nat -> MSL l l' -> SIM st st' ->
    ORel (fill_with c pd fit l st) (fill_with c pd' fit' l' st').
  Proof.
    induction k as [|k IH]; intros l l' st st' Hk Hl Hs.
    - inversion Hl; subst; [exact Hs|cbn [length] in Hk; lia].
    - inversion Hl as [|content content' rest rest' Hc Hr]; subst; [exact Hs|].
      cbn [fill_with].
      assert (gmap st = gmap st') as Hg by apply Hs.
      rewrite (Hfit (gmap st) [content] [content'] (remaining c st)) by (constructor; [exact Hc|constructor]).
      rewrite (remaining_sim st st' Hs), Hg.
      destruct (fit' (gmap st') [content'] (remaining c st')) as [cf|]; cbn [bind]; [|exact I].
      apply orel_bind; [apply Hpd; assumption|]. intros s1 s1' Hs1.
      inversion Hr as [|sep sep' rest2 rest2' Hsep Hr2]; subst; [exact Hs1|].
      assert (gmap s1 = gmap s1') as Hg1 by apply Hs1.
      assert (match rest2 with [] => Some true | nxt :: _ => fit (gmap s1) [sep; nxt] (remaining c s1) end =
              match rest2' with [] => Some true | nxt :: _ => fit' (gmap s1') [sep'; nxt] (remaining c s1') end) as En.
      { inversion Hr2 as [|nxt nxt' r3 r3' Hn Hr3]; subst; [reflexivity|].
        rewrite (remaining_sim s1 s1' Hs1), Hg1. apply Hfit. constructor; [exact Hsep|constructor; [exact Hn|constructor]]. }
      rewrite En. destruct (match rest2' with [] => Some true | nxt :: _ => _ end) as [nf|]; cbn [bind]; [|exact I].
      apply orel_bind; [apply Hpd; assumption|]. intros s2 s2' Hs2.
      apply IH; [cbn [length] in Hk; lia|exact Hr2|exact Hs2].
  Qed.

  Lemma trail_sim : forall m mc t t' cw st st', MSO t t' -> SIM st st' ->
    ORel (trail_with c pd m mc t cw st) (trail_with c pd' m mc t' cw st').
  Proof.
    intros m mc t t' cw st st' Ht Hs. unfold trail_with. inversion Ht as [|l l' Hl]; subst; [exact Hs|].
    apply docs_sim; [exact Hl|]. apply sim_push_spaces. exact Hs.
  Qed.

  Lemma align_sim : forall m mb mc l l' first st st', MSE l l' -> SIM st st' ->
    ORel (align_with c pd fw m mb mc l first st) (align_with c pd' fw' m mb mc l' first st').
  Proof.
    intros m mb mc l l' first st st' H. revert first st st'.
    induction H as [| b b' a a' t t' r r' Hb Ha Ht Hr IHr | ct ct' t t' r r' Hc Ht Hr IHr]; intros first st st' Hs; cbn [align_with].
    - exact Hs.
    - apply orel_bind.
      { destruct first; [exact Hs|apply newline_sim; exact Hs]. }
      intros s0 s0' Hs0. apply orel_bind; [|intros s1 s1' Hs1; apply IHr; exact Hs1].
      unfold entry_with. rewrite (Hfw _ _ Hb). destruct (fw' b') as [bw|]; cbn [bind]; [|exact I].
      apply orel_bind; [apply docs_sim; assumption|]. intros s1 s1' Hs1.
      apply orel_bind; [apply docs_sim; [assumption|]; apply sim_push_blank; apply sim_push_spaces; exact Hs1|].
      intros s3 s3' Hs3. rewrite (Hfw _ _ Ha). destruct (fw' a') as [aw|]; cbn [bind]; [|exact I].
      apply trail_sim; assumption.
    - apply orel_bind.
      { destruct first; [exact Hs|apply newline_sim; exact Hs]. }
      intros s0 s0' Hs0. apply orel_bind; [|intros s1 s1' Hs1; apply IHr; exact Hs1].
      unfold entry_with. apply orel_bind; [apply docs_sim; assumption|]. intros s1 s1' Hs1.
      rewrite (Hfw _ _ Hc). destruct (fw' ct') as [cw|]; cbn [bind]; [|exact I].
      apply trail_sim; assumption.
  Qed.

  Lemma max_before_ms : forall es es', MSE es es' -> max_before_of fw es = max_before_of fw' es'.
  Proof.
    intros es es' H. unfold max_before_of.
    induction H as [| b b' a a' t t' r r' Hb Ha Ht Hr IHr | ct ct' t t' r r' Hc Ht Hr IHr]; [reflexivity| |]; cbn [max_opt].
    - rewrite (Hfw _ _ Hb), IHr. reflexivity.
    - rewrite IHr. reflexivity.
  Qed.

  Lemma has_trailing_ms : forall es es', MSE es es' -> existsb has_trailing es = existsb has_trailing es'.
  Proof.
    intros es es' H.
    induction H as [| b b' a a' t t' r r' Hb Ha Ht Hr IHr | ct ct' t t' r r' Hc Ht Hr IHr]; [reflexivity| |]; cbn [existsb]; rewrite IHr; f_equal.
    - inversion Ht; reflexivity.
    - inversion Ht; reflexivity.
  Qed.

  Lemma max_content_ms : forall mb es es', MSE es es' -> max_content_of fw mb es = max_content_of fw' mb es'.
  Proof.
    intros mb es es' H. unfold max_content_of. rewrite (has_trailing_ms _ _ H).
    destruct (existsb has_trailing es'); [|reflexivity].
    induction H as [| b b' a a' t t' r r' Hb Ha Ht Hr IHr | ct ct' t t' r r' Hc Ht Hr IHr]; [reflexivity| |]; cbn [max_opt].
    - rewrite (Hfw _ _ Ha), IHr. reflexivity.
    - rewrite (Hfw _ _ Hc), IHr. reflexivity.
  Qed.

  Lemma step_sim : forall d d' m st st', MS d d' -> SIM st st' ->
    ORel (step c pd fw fit hh d m st) (step c pd' fw' fit' hh' d' m st').
  Proof.
    intros d d' m st st' H Hs.
    inversion H as [k k' s s' Hm| | | | |ds ds' Hl|ds ds' sb id Hl|ds ds' Hl|b b' f f' g Hb Hf|ds ds' Hl|ds ds' Hl|es es' He]; subst; cbn [step].
    - apply sim_push_atom; assumption.
    - apply newline_sim; exact Hs.
    - destruct m; [apply sim_push_blank; exact Hs|apply newline_sim; exact Hs].
    - destruct m; [exact Hs|apply newline_sim; exact Hs].
    - apply sim_push_blank; exact Hs.
    - assert (level st = level st') as Hlv by apply Hs. rewrite Hlv.
      apply orel_bind; [apply docs_sim; [assumption|apply sim_set_level; exact Hs]|].
      intros s1 s1' Hs1. assert (level s1 = level s1') as Hl1 by apply Hs1. rewrite Hl1.
      apply sim_set_level. exact Hs1.
    - rewrite (Hhh _ _ Hl). destruct (hh' ds') as [h|]; cbn [bind]; [|exact I].
      assert (gmap st = gmap st') as Hg by apply Hs.
      rewrite (Hfit (gmap st) _ _ (remaining c st) Hl), (remaining_sim st st' Hs), Hg.
      destruct (if sb || h then Some Break else do f <- fit' (gmap st') ds' (remaining c st'); Some (if f then Flat else Break))
        as [child|]; cbn [bind]; [|exact I].
      apply docs_sim; [assumption|]. destruct id; [apply sim_gm_insert|]; exact Hs.
    - apply docs_sim; assumption.
    - assert (gmap st = gmap st') as Hg by apply Hs. rewrite Hg.
      destruct (match g with Some g0 => gm_get (gmap st') g0 | None => mode_eqb m Break end); apply Hpd; assumption.
    - apply (fill_sim (length ds)); [apply le_n|assumption|exact Hs].
    - apply sim_set_sfx; [exact Hs|]. apply Forall2_app; [apply Hs|]. constructor; [assumption|constructor].
    - rewrite (max_before_ms _ _ He). destruct (max_before_of fw' es') as [mb|]; cbn [bind]; [|exact I].
      rewrite (max_content_ms mb _ _ He). destruct (max_content_of fw' mb es') as [mc|]; cbn [bind]; [|exact I].
      apply align_sim; assumption.
  Qed.
End LockStep.

Lemma print_doc_sim : forall n c d d' m st st', MS d d' -> SIM st st' ->
  ORel (print_doc n c d m st) (print_doc n c d' m st').
Proof.
  induction n as [|n IH]; intros c d d' m st st' H Hs; cbn [print_doc]; [exact I|].
  apply step_sim; try assumption.
  - intros x x' m0 s s' Hx Hss. apply IH; assumption.
  - intros ds ds' Hl. apply flat_width_ms. exact Hl.
  - intros gm ds ds' rem Hl. apply fits_impl_ms. exact Hl.
  - intros ds ds' Hl. apply has_hard_line_ms. exact Hl.
Qed.

Scheme MS_mut := Induction for MS Sort Prop
  with MSL_mut := Induction for MSL Sort Prop
  with MSO_mut := Induction for MSO Sort Prop
  with MSE_mut := Induction for MSE Sort Prop.

Lemma msl_size : forall ds ds', MSL ds ds' -> size_list ds = size_list ds'.
Proof.
  apply (MSL_mut
           (fun d d' _ => size d = size d')
           (fun l l' _ => size_list l = size_list l')
           (fun t t' _ => Total.osize t = Total.osize t')
           (fun es es' _ => Total.size_entries es = Total.size_entries es')); intros; try reflexivity.
  - rewrite !Total.size_indent. congruence.
  - rewrite !Total.size_group. congruence.
  - rewrite !Total.size_dlist. congruence.
  - rewrite !Total.size_ifb. congruence.
  - rewrite !Total.size_fill. congruence.
  - rewrite !Total.size_ls. congruence.
  - rewrite !Total.size_ag. congruence.
  - cbn [size_list]. congruence.
  - cbn [Total.osize]. congruence.
  - cbn [Total.size_entries Total.entry_size]. congruence.
  - cbn [Total.size_entries Total.entry_size]. congruence.
Qed.

Lemma sim_init : SIM init init.
Proof. unfold SIM, init. cbn. repeat split; try reflexivity. constructor. Qed.

Lemma run_sim : forall c ds ds', MSL ds ds' -> ORel (run c ds) (run c ds').
Proof.
  intros c ds ds' H. unfold run, print_docs. rewrite <- (msl_size _ _ H).
  set (n := S (S (size_list ds))).
  apply orel_bind.
  - apply (docs_sim (print_doc n c) (print_doc n c)); [|exact H|exact sim_init].
    intros d d' m st st' Hd Hs. apply print_doc_sim; assumption.
  - intros s s' Hs. apply (flush_sim (print_doc n c) (print_doc n c)); [|exact Hs].
    intros d d' m st st' Hd Hss. apply print_doc_sim; assumption.
Qed.

(** the layout of a run depends only on the shape of the IR and the metrics of its atoms *)
Lemma print_stable : forall c ds ds', MSL ds ds' -> layout c ds = layout c ds'.
Proof.
  intros c ds ds' H. pose proof (run_sim c ds ds' H) as R. unfold layout.
  destruct (run c ds) as [st|], (run c ds') as [st'|]; cbn [ORel bind] in *; try contradiction; [|reflexivity].
  destruct R as [_ [_ [_ [_ [_ R]]]]]. rewrite R. reflexivity.
Qed.

(** * the printed text is the rendering of the events *)

Definition I2 (c : cfg) (st : state) : Prop := rout st = rrender c (evs st).

Lemma I2_flush_pending : forall c s st, I2 c st -> I2 c (flush_pending c s st).
Proof.
  intros c s st H. unfold flush_pending. destruct (pending st); [|exact H]. destruct s; [exact H|].
  unfold I2 in *. cbn [rout evs rrender]. rewrite H. reflexivity.
Qed.

Lemma print_doc_I2 : forall c n d m st st', print_doc n c d m st = Some st' -> I2 c st -> I2 c st'.
Proof.
  intros c. apply (print_doc_pres c (I2 c)).
  - intros s st H. unfold push_text, I2. cbn [rout evs rrender]. rewrite (I2_flush_pending c s st H). reflexivity.
  - intros s st _ H. unfold push_text, I2. cbn [rout evs rrender]. rewrite (I2_flush_pending c s st H). reflexivity.
  - intros st H. unfold push_newline, I2 in *. cbn [rout evs rrender]. rewrite H. reflexivity.
  - intros l st H. exact H.
  - intros st H. exact H.
  - intros ds st H. exact H.
  - intros g b st H. exact H.
Qed.

Lemma run_rendered : forall c ds st, run c ds = Some st -> rout st = rrender c (evs st).
Proof.
  intros c ds st H. unfold run in H. bind_as H s E.
  eapply (flush_with_pres (I2 c)); [| |exact H|].
  - intros s0 H0. exact H0.
  - intros d m s0 s1 Hd Hs. eapply print_doc_I2; eassumption.
  - unfold print_docs in E. eapply (docs_with_pres (I2 c)); [|exact E|reflexivity].
    intros d m s0 s1 Hd Hs. eapply print_doc_I2; eassumption.
Qed.

Lemma stable_example :
  let a := [Group [Atom KText [97; 98]; SoftLine;
                                Atom KText [99]] false None] in
  let b := [Group [Atom KSourceToken [120; 121]; SoftLine;
                                Atom KText [122]] false None] in
  MSL a b /\
  layout (mkCfg 3 false 4 false 1 0) a =
    Some [LAtom (2, None, false); LNewline; LBlank [];
          LAtom (1, None, false)] /\
  print (mkCfg 3 false 4 false 1 0) b = Some [120; 121; 10; 122].
Proof. split; [repeat constructor|]. split; vm_compute; reflexivity. Qed.
