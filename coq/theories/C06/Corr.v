(** C06/Corr.v — the alignment kernel against the real formatter: a generated doc block whose
    columns are known by construction, and the tag lines the formatter printed for it. *)
From EV Require Import C06.Model.
Local Open Scope N_scope.

Fixpoint text_eqb (a b : text) : bool :=
  match a, b with
  | [], [] => true
  | x :: a', y :: b' => (x =? y) && text_eqb a' b'
  | _, _ => false
  end.

Record case := mkCase {
  c_prefix : text;               (* "---@" *)
  c_rows : list (list text);     (* columns of every tag line, first column is the tag name *)
  c_lines : list text            (* the lines the formatter printed *)
}.

Definition check_case (c : case) : bool :=
  let ws := widths (c_rows c) in
  (N.of_nat (length (c_rows c)) =? N.of_nat (length (c_lines c)))
  && forallb (fun '(row, line) => text_eqb (c_prefix c ++ render_row ws false row) line) (combine (c_rows c) (c_lines c)).
