(** C06/AlignFacts.v — the alignment kernel is a fixpoint on its own output. *)
From EV Require Import C06.Model.
Local Open Scope N_scope.

Lemma rtrim_rev_spaces : forall k r, rtrim_rev (repeat SPc k ++ r) = rtrim_rev r.
Proof.
  induction k as [|k IH]; intros r; [reflexivity|].
  cbn [repeat app rtrim_rev]. replace (SPc =? SPc) with true by reflexivity. apply IH.
Qed.

Lemma rev_repeat : forall (x : cp) k, rev (repeat x k) = repeat x k.
Proof.
  intros x. induction k as [|k IH]; [reflexivity|]. cbn [repeat rev]. rewrite IH.
  clear IH. induction k as [|k IH]; [reflexivity|]. cbn [repeat app]. rewrite IH. reflexivity.
Qed.

Lemma rtrim_rev_trimmed : forall r, match r with c :: _ => negb (c =? SPc) | [] => true end = true -> rtrim_rev r = r.
Proof. intros [|c r] H; [reflexivity|]. cbn [rtrim_rev]. destruct (c =? SPc); [discriminate|reflexivity]. Qed.

Lemma rtrim_pad : forall c k, trimmed c = true -> rtrim (c ++ spaces k) = c.
Proof.
  intros c k H. unfold rtrim, spaces. rewrite rev_app_distr, rev_repeat, rtrim_rev_spaces.
  unfold trimmed in H. rewrite (rtrim_rev_trimmed _ H). apply rev_involutive.
Qed.

Lemma rtrim_trimmed : forall c, trimmed c = true -> rtrim c = c.
Proof. intros c H. rewrite <- (app_nil_r c) at 1. apply (rtrim_pad c 0 H). Qed.

(** re-extracting the columns of an aligned line (trimming each) gives the original columns *)
Lemma pad_row_retrim : forall ws cols, forallb trimmed cols = true -> map rtrim (pad_row ws cols) = cols.
Proof.
  intros ws cols. revert ws. induction cols as [|c rest IH]; intros ws H; [reflexivity|].
  cbn [forallb] in H. apply andb_true_iff in H. destruct H as [Hc Hr].
  cbn [pad_row]. destruct rest as [|c2 rest].
  - cbn [map]. rewrite rtrim_trimmed by exact Hc. reflexivity.
  - destruct ws as [|w ws]; cbn [map].
    + rewrite rtrim_trimmed by exact Hc. f_equal. apply IH. exact Hr.
    + rewrite rtrim_pad by exact Hc. f_equal. apply IH. exact Hr.
Qed.

Lemma pad_rows_retrim : forall rows, forallb (forallb trimmed) rows = true ->
  map (map rtrim) (pad_rows rows) = rows.
Proof.
  intros rows H. unfold pad_rows. generalize (widths rows) as ws. intros ws.
  induction rows as [|r rows IH]; [reflexivity|].
  cbn [forallb] in H. apply andb_true_iff in H. destruct H as [H1 H2].
  cbn [map]. rewrite pad_row_retrim by exact H1. f_equal. apply IH. exact H2.
Qed.

Lemma align_idempotent : forall rows, forallb (forallb trimmed) rows = true ->
  pad_rows (map (map rtrim) (pad_rows rows)) = pad_rows rows.
Proof. intros rows H. rewrite pad_rows_retrim by exact H. reflexivity. Qed.

(** alignment only adds spaces *)
Lemma nospace_app : forall a b, nospace (a ++ b) = nospace a ++ nospace b.
Proof. intros. unfold nospace. apply filter_app. Qed.

Lemma nospace_spaces : forall k, nospace (spaces k) = [].
Proof.
  intros k. unfold spaces. induction (N.to_nat k) as [|n IH]; [reflexivity|].
  cbn [repeat]. unfold nospace in *. cbn [filter]. unfold is_space. replace (SPc =? SPc) with true by reflexivity.
  cbn [negb]. exact IH.
Qed.

Lemma join_nospace : forall cols b, nospace (join_cols b cols) = nospace (concat cols).
Proof.
  induction cols as [|c rest IH]; intros b; [reflexivity|].
  cbn [join_cols concat]. rewrite !nospace_app, IH. destruct b; reflexivity.
Qed.

Lemma pad_row_cons2 : forall ws c c2 rest,
  pad_row ws (c :: c2 :: rest) =
  match ws with
  | w :: ws' => (c ++ spaces (w - bytes c)) :: pad_row ws' (c2 :: rest)
  | [] => c :: pad_row [] (c2 :: rest)
  end.
Proof. intros. destruct ws; reflexivity. Qed.

Lemma concat_cons : forall (x : text) l, concat (x :: l) = x ++ concat l.
Proof. reflexivity. Qed.

Lemma pad_row_nospace : forall ws cols, nospace (concat (pad_row ws cols)) = nospace (concat cols).
Proof.
  intros ws cols. revert ws. induction cols as [|c rest IH]; intros ws; [reflexivity|].
  destruct rest as [|c2 rest]; [reflexivity|].
  rewrite pad_row_cons2. destruct ws as [|w ws].
  - rewrite (concat_cons c (pad_row [] (c2 :: rest))), (concat_cons c (c2 :: rest)).
    rewrite (nospace_app c), (nospace_app c (concat (c2 :: rest))), IH. reflexivity.
  - rewrite (concat_cons _ (pad_row ws (c2 :: rest))), (concat_cons c (c2 :: rest)).
    rewrite (nospace_app (c ++ spaces (w - bytes c))), (nospace_app c (spaces _)), nospace_spaces, app_nil_r.
    rewrite (nospace_app c (concat (c2 :: rest))), IH. reflexivity.
Qed.

Lemma align_only_adds_spaces : forall ws b cols, nospace (render_row ws b cols) = nospace (concat cols).
Proof. intros. unfold render_row. rewrite join_nospace. apply pad_row_nospace. Qed.

(** the padded columns line up: every padded (non-last) column has the width of its column *)
Fixpoint le_widths (cols : list text) (ws : list N) : Prop :=
  match cols, ws with
  | c :: rest, w :: ws' => bytes c <= w /\ le_widths rest ws'
  | _, _ => True
  end.

Lemma bytes_app : forall p r, bytes (p ++ r) = bytes p + bytes r.
Proof. induction p as [|c p IH]; intros r; cbn [app bytes]; [lia|]. rewrite IH. lia. Qed.

Lemma bytes_spaces : forall k, bytes (spaces k) = k.
Proof.
  intros k. unfold spaces. rewrite <- (N2Nat.id k) at 2. induction (N.to_nat k) as [|n IH]; [reflexivity|].
  cbn [repeat bytes]. rewrite IH. change (blen SPc) with 1. lia.
Qed.

Lemma pad_row_widths : forall cols ws i c w,
  le_widths cols ws -> nth_error (pad_row ws cols) i = Some c -> nth_error ws i = Some w ->
  (S i < length cols)%nat -> bytes c = w.
Proof.
  induction cols as [|c0 rest IH]; intros ws i c w Hle Hc Hw Hi; [cbn [length] in Hi; lia|].
  destruct rest as [|c1 rest]; [cbn [length] in Hi; lia|].
  destruct ws as [|w0 ws]; [destruct i; discriminate|].
  cbn [le_widths] in Hle. destruct Hle as [H0 Hle].
  change (pad_row (w0 :: ws) (c0 :: c1 :: rest)) with ((c0 ++ spaces (w0 - bytes c0)) :: pad_row ws (c1 :: rest)) in Hc.
  destruct i as [|i].
  - cbn [nth_error] in Hc, Hw. inversion Hc; inversion Hw; subst. rewrite bytes_app, bytes_spaces. lia.
  - cbn [nth_error] in Hc, Hw. eapply IH; [exact Hle|exact Hc|exact Hw|cbn [length] in *; lia].
Qed.

Lemma align_example :
  let rows := [[[112;97;114;97;109]; [97]; [115;116;114;105;110;103]; [100;101;115;99]];
               [[112;97;114;97;109]; [108;111;110;103;101;114]; [84]]] in
  widths rows = [5; 6; 6; 4] /\
  render_row (widths rows) false (nth 1 rows []) = [112;97;114;97;109;32;108;111;110;103;101;114;32;84] /\
  render_row (widths rows) false (nth 0 rows []) =
    [112;97;114;97;109;32;97;32;32;32;32;32;32;115;116;114;105;110;103;32;100;101;115;99] /\
  pad_rows (map (map rtrim) (pad_rows rows)) = pad_rows rows.
Proof. vm_compute. repeat split; reflexivity. Qed.
