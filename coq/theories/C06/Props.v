(** C06/Props.v — property theorems only.  Each is closed by [exact] of a lemma.

    Alignment kernel and printer kernel proved; idempotence of the whole pipeline additionally
    needs "the IR built from the printed text has the same columns / the same layout skeleton as
    the IR it was printed from", a property of the IR builder and of the parser, which is checked
    on real runs ([fmt (fmt x) = fmt x] search), not proved. *)
From EV Require Import C06.Model.
From EV Require C06.AlignFacts C06.StableModel C06.Stable.
Local Open Scope N_scope.

(** Aligning the columns re-extracted from an aligned group (each column trimmed, as the renderer
    does) gives the same padded columns again: widths and padding are a fixpoint. *)
Theorem align_idempotent : forall (rows : list (list text)),
  forallb (forallb trimmed) rows = true ->
  pad_rows (map (map rtrim) (pad_rows rows)) = pad_rows rows.
Proof. exact AlignFacts.align_idempotent. Qed.

(** Alignment only inserts spaces. *)
Theorem align_only_adds_spaces : forall (ws : list N) (b : bool) (cols : list text),
  nospace (render_row ws b cols) = nospace (concat cols).
Proof. exact AlignFacts.align_only_adds_spaces. Qed.

(** The layout decisions of the printer (group modes, fill, IfBreak branches, indentation,
    alignment padding, line breaks) depend only on the shape of the IR and on the byte width, the
    width after the last newline and the emptiness of each atom text — not on the text itself:
    two such IRs give the same sequence of layout events under every configuration. *)
Theorem print_stable : forall (c : EV.C05.Model.cfg) (ds ds' : list EV.C05.Model.doc),
  EV.C06.StableModel.MSL ds ds' -> EV.C06.StableModel.layout c ds = EV.C06.StableModel.layout c ds'.
Proof. exact EV.C06.Stable.print_stable. Qed.

(** ... and the printed text is the rendering of those events (atoms and blanks appended, a
    newline trims trailing spaces first). *)
Theorem output_is_rendered_events : forall (c : EV.C05.Model.cfg) (ds : list EV.C05.Model.doc) (st : EV.C05.Model.state),
  EV.C05.Model.run c ds = Some st ->
  EV.C05.Model.rout st = EV.C06.StableModel.rrender c (EV.C05.Model.evs st).
Proof. exact EV.C06.Stable.run_rendered. Qed.

Example stable_example :
  let a := [EV.C05.Model.Group [EV.C05.Model.Atom EV.C05.Model.KText [97; 98]; EV.C05.Model.SoftLine;
                                EV.C05.Model.Atom EV.C05.Model.KText [99]] false None] in
  let b := [EV.C05.Model.Group [EV.C05.Model.Atom EV.C05.Model.KSourceToken [120; 121]; EV.C05.Model.SoftLine;
                                EV.C05.Model.Atom EV.C05.Model.KText [122]] false None] in
  EV.C06.StableModel.MSL a b /\
  EV.C06.StableModel.layout (EV.C05.Model.mkCfg 3 false 4 false 1 0) a =
    Some [EV.C06.StableModel.LAtom (2, None, false); EV.C06.StableModel.LNewline; EV.C06.StableModel.LBlank [];
          EV.C06.StableModel.LAtom (1, None, false)] /\
  EV.C05.Model.print (EV.C05.Model.mkCfg 3 false 4 false 1 0) b = Some [120; 121; 10; 122].
Proof. exact EV.C06.Stable.stable_example. Qed.

Example align_example :
  let rows := [[[112;97;114;97;109]; [97]; [115;116;114;105;110;103]; [100;101;115;99]];
               [[112;97;114;97;109]; [108;111;110;103;101;114]; [84]]] in
  widths rows = [5; 6; 6; 4] /\
  render_row (widths rows) false (nth 1 rows []) = [112;97;114;97;109;32;108;111;110;103;101;114;32;84] /\
  render_row (widths rows) false (nth 0 rows []) =
    [112;97;114;97;109;32;97;32;32;32;32;32;32;115;116;114;105;110;103;32;100;101;115;99] /\
  pad_rows (map (map rtrim) (pad_rows rows)) = pad_rows rows.
Proof. exact AlignFacts.align_example. Qed.
