(** C06/Model.v — the column-alignment kernel of the doc-comment renderer
    (crates/emmylua_formatter/src/formatter/render/comments_ast.rs, [apply_alignment]): the widths of
    the columns of a group of tag lines and the padding of every column but the last.  The columns
    themselves ("param", name, type, description, ...) are extracted from the syntax tree by
    [extract_columns] / [continue_line_columns], a client that is not modelled; since the fix
    49b5b23 a line whose columns do not reproduce its text is left alone.
    The printer part of C06 ([print_stable]) is about EV.C05.Model.
    Executable definitions only. *)
From EV Require Export Base.Text.
Local Open Scope N_scope.

Definition SPc : cp := 32.
Definition spaces (k : N) : text := repeat SPc (N.to_nat k).

(** column-wise maximum of two width lists of possibly different length *)
Fixpoint zip_max (a b : list N) : list N :=
  match a, b with
  | [], _ => b
  | _, [] => a
  | x :: a', y :: b' => N.max x y :: zip_max a' b'
  end.

(** [widths[i] = max over the lines of cols[i].len()] *)
Definition widths (rows : list (list text)) : list N :=
  fold_right (fun r acc => zip_max (map bytes r) acc) [] rows.

(** every column but the last is padded to the width of its column ([i < cols.len() - 1 && i < widths.len()]) *)
Fixpoint pad_row (ws : list N) (cols : list text) : list text :=
  match cols with
  | [] => []
  | [c] => [c]
  | c :: rest => match ws with
                 | w :: ws' => (c ++ spaces (w - bytes c)) :: pad_row ws' rest
                 | [] => c :: pad_row [] rest
                 end
  end.

Definition pad_rows (rows : list (list text)) : list (list text) :=
  map (pad_row (widths rows)) rows.

(** the line after its prefix token: a space before every column except the first of a tag line
    (continuation lines [--- |] get one before the first column too) *)
Fixpoint join_cols (first_space : bool) (cols : list text) : text :=
  match cols with
  | [] => []
  | c :: rest => (if first_space then [SPc] else []) ++ c ++ join_cols true rest
  end.

Definition render_row (ws : list N) (is_continue : bool) (cols : list text) : text :=
  join_cols is_continue (pad_row ws cols).

(** what a second pass sees of a padded column: [trim()] of the re-extracted text *)
Fixpoint rtrim_rev (r : text) : text :=
  match r with
  | c :: r' => if c =? SPc then rtrim_rev r' else r
  | [] => []
  end.
Definition rtrim (t : text) : text := rev (rtrim_rev (rev t)).
Definition trimmed (t : text) : bool :=
  match rev t with c :: _ => negb (c =? SPc) | [] => true end.

Definition is_space (c : cp) : bool := c =? SPc.
Definition nospace (t : text) : text := filter (fun c => negb (is_space c)) t.
