(** C10/Proofs.v — lemmas behind C10/Props.v. *)
From EV Require Import Base.StoreSM C33.Model C33.Spec C33.Lemmas C33.Proofs C08.Module C08.PropertyModel C08.SimpleModels.
Local Open Scope N_scope.

Lemma remove_no_mention : forall (c : cfg) (ops : list (hop mfacts)) (f : N),
  mod_mentions (state _ _ _ _ (mod_store c) (ops ++ [HRemove _ f])) f = false.
Proof. intros c ops f. exact (StoreSM.remove_no_mention _ _ _ _ (mod_store c) (mod_refinement c) ops f). Qed.

Lemma remove_frees : forall (c : cfg) (ops : list (hop mfacts)) (f : N),
  (forall q, mod_obs c (state _ _ _ _ (mod_store c) (ops ++ [HRemove _ f])) q
             = mod_obs c (state _ _ _ _ (mod_store c) (without _ f ops)) q) /\
  mod_size (state _ _ _ _ (mod_store c) (ops ++ [HRemove _ f])) = mod_size (state _ _ _ _ (mod_store c) (without _ f ops)).
Proof. intros c ops f. exact (StoreSM.remove_frees _ _ _ _ (mod_store c) (mod_refinement c) ops f). Qed.

Notation nget_del := (aget_adel N.eqb_spec).

(** DiagnosticIndex: after remove(f) neither map has the key f *)
Lemma diagnostic_remove_no_mention : forall s f, d_mentions (d_remove f s) f = false.
Proof.
  intros s f. unfold d_mentions, d_remove. cbn [d_dis d_en].
  assert (H : forall m : list (N * list N), existsb (fun kv => fst kv =? f) (ndelN f m) = false).
  { induction m as [|[g l] m IH]; cbn [adel existsb]; [reflexivity|].
    destruct (N.eqb_spec f g) as [->|Hne]; [exact IH|]. cbn [existsb fst].
    destruct (N.eqb_spec g f); [congruence | exact IH]. }
  rewrite !H. reflexivity.
Qed.

(** LuaGlobalIndex: after remove(f) no declaration id of any name carries f, and no name is left with an empty list *)
Lemma global_remove_no_mention : forall s f, g_mentions (g_remove f s) f = false.
Proof.
  intros s f. unfold g_mentions. induction s as [|[nm l] s IH]; cbn [g_remove existsb]; [reflexivity|].
  destruct (is_nil (filter (fun d => negb (fst d =? f)) l)); [exact IH|].
  cbn [existsb snd]. rewrite IH, orb_false_r.
  induction l as [|d l IHl]; cbn [filter existsb]; [reflexivity|].
  destruct (N.eqb_spec (fst d) f) as [E|Hne]; cbn [negb]; [exact IHl|].
  cbn [existsb]. destruct (N.eqb_spec (fst d) f); [contradiction | exact IHl].
Qed.

Lemma global_remove_no_empty : forall s f nm l, In (nm, l) (g_remove f s) -> l <> [].
Proof.
  induction s as [|[nm0 l0] s IH]; intros f nm l Hin; cbn [g_remove] in Hin; [destruct Hin|].
  destruct (filter (fun d => negb (fst d =? f)) l0) as [|d r] eqn:E; cbn [is_nil] in Hin; [eauto|].
  destruct Hin as [Heq|Hin]; [inversion Heq; discriminate | eauto].
Qed.

(** LuaPropertyIndex: after remove(f) the file has no owner set *)
Lemma property_remove_no_file : forall s f, ngetN f (px_infile (p_remove f s)) = None.
Proof.
  intros s f. unfold p_remove. destruct (ngetN f (px_infile s)) as [l|] eqn:E; [|exact E].
  destruct (fold_left _ l (px_props s, px_owners s)) as [props omap]. cbn [px_infile].
  rewrite nget_del, N.eqb_refl. reflexivity.
Qed.

Lemma remove_example :
  let c := ex_cfg in
  let ops := [HUpdate mfacts 1 ([97; 46; 98], 1, false); HUpdate _ 2 ([97; 46; 99], 1, false); HUpdate _ 1 ([97; 46; 98], 1, false)] in
  mod_obs c (state _ _ _ _ (mod_store c) ops) [98] = Some (1, [97; 46; 98], 1, false) /\
  mod_obs c (state _ _ _ _ (mod_store c) (ops ++ [HRemove _ 1])) [98] = None /\
  mod_size (state _ _ _ _ (mod_store c) ops) = [4; 2; 2] /\
  mod_size (state _ _ _ _ (mod_store c) (ops ++ [HRemove _ 1])) = [3; 1; 1] /\
  without _ 1 ops = [HUpdate _ 2 ([97; 46; 99], 1, false)].
Proof. cbv zeta. repeat split; vm_compute; reflexivity. Qed.
