(** C10/Proofs.v — lemmas behind C10/Props.v. *)
From EV Require Import Base.StoreSM C33.Model C33.Spec C33.Lemmas C33.Proofs C08.Module C08.PropertyModel C08.SimpleModels C08.RefModel C10.TypeModel.
Local Open Scope N_scope.

Lemma remove_no_mention : forall (c : cfg) (ops : list (hop mfacts)) (f : N),
  mod_mentions (state _ _ _ _ (mod_store c) (ops ++ [HRemove _ f])) f = false.
Proof. intros c ops f. exact (StoreSM.remove_no_mention _ _ _ _ (mod_store c) (mod_refinement c) ops f). Qed.

Lemma remove_frees : forall (c : cfg) (ops : list (hop mfacts)) (f : N),
  (forall q, mod_obs c (state _ _ _ _ (mod_store c) (ops ++ [HRemove _ f])) q
             = mod_obs c (state _ _ _ _ (mod_store c) (without _ f ops)) q) /\
  mod_size (state _ _ _ _ (mod_store c) (ops ++ [HRemove _ f])) = mod_size (state _ _ _ _ (mod_store c) (without _ f ops)).
Proof. intros c ops f. exact (StoreSM.remove_frees _ _ _ _ (mod_store c) (mod_refinement c) ops f). Qed.

Notation nget_del := (aget_adel N.eqb_spec).

(** DiagnosticIndex: after remove(f) neither map has the key f *)
Lemma diagnostic_remove_no_mention : forall s f, d_mentions (d_remove f s) f = false.
Proof.
  intros s f. unfold d_mentions, d_remove. cbn [d_dis d_en].
  assert (H : forall m : list (N * list N), existsb (fun kv => fst kv =? f) (ndelN f m) = false).
  { induction m as [|[g l] m IH]; cbn [adel existsb]; [reflexivity|].
    destruct (N.eqb_spec f g) as [->|Hne]; [exact IH|]. cbn [existsb fst].
    destruct (N.eqb_spec g f); [congruence | exact IH]. }
  rewrite !H. reflexivity.
Qed.

(** LuaGlobalIndex: after remove(f) no declaration id of any name carries f, and no name is left with an empty list *)
Lemma global_remove_no_mention : forall s f, g_mentions (g_remove f s) f = false.
Proof.
  intros s f. unfold g_mentions. induction s as [|[nm l] s IH]; cbn [g_remove existsb]; [reflexivity|].
  destruct (is_nil (filter (fun d => negb (fst d =? f)) l)); [exact IH|].
  cbn [existsb snd]. rewrite IH, orb_false_r.
  induction l as [|d l IHl]; cbn [filter existsb]; [reflexivity|].
  destruct (N.eqb_spec (fst d) f) as [E|Hne]; cbn [negb]; [exact IHl|].
  cbn [existsb]. destruct (N.eqb_spec (fst d) f); [contradiction | exact IHl].
Qed.

Lemma global_remove_no_empty : forall s f nm l, In (nm, l) (g_remove f s) -> l <> [].
Proof.
  induction s as [|[nm0 l0] s IH]; intros f nm l Hin; cbn [g_remove] in Hin; [destruct Hin|].
  destruct (filter (fun d => negb (fst d =? f)) l0) as [|d r] eqn:E; cbn [is_nil] in Hin; [eauto|].
  destruct Hin as [Heq|Hin]; [inversion Heq; discriminate | eauto].
Qed.

(** LuaPropertyIndex: after remove(f) the file has no owner set *)
Lemma property_remove_no_file : forall s f, ngetN f (px_infile (p_remove f s)) = None.
Proof.
  intros s f. unfold p_remove. destruct (ngetN f (px_infile s)) as [l|] eqn:E; [|exact E].
  destruct (fold_left _ l (px_props s, px_owners s)) as [props omap]. cbn [px_infile].
  rewrite nget_del, N.eqb_refl. reflexivity.
Qed.

(** ---- LuaTypeIndex: for every type the removed file declared, no surviving location or super clause carries it ---- *)
Notation nget_set := (aget_aset N.eqb_spec).

Definition clean_at (f id : N) (s : tidx) : Prop :=
  (forall l, ngetN id (t_supers s) = Some l -> forall x, In x l -> fst x <> f) /\
  (forall l, ngetN id (t_decls s) = Some l -> forall x, In x l -> fst x <> f).

Lemma keep_not_clean : forall f l x, In x (keep_not f l) -> fst x <> f.
Proof.
  intros f l x H. apply filter_In in H. destruct H as [_ H]. destruct (N.eqb_spec (fst x) f); [discriminate | assumption].
Qed.

Lemma rm_id_establish : forall f s id, clean_at f id (t_rm_id f s id).
Proof.
  intros f s id. unfold t_rm_id, clean_at.
  destruct (ngetN id (t_decls s)) as [locs|] eqn:Ed; destruct (ngetN id (t_supers s)) as [sup|] eqn:Es;
    try destruct (is_nil (keep_not f locs)); try destruct (is_nil (keep_not f sup)); cbn [t_supers t_decls]; split; intros l Hl x Hx;
    rewrite ?nget_set, ?nget_del, ?N.eqb_refl in Hl; try discriminate;
    try (inversion Hl; subst l; eapply keep_not_clean; exact Hx); congruence.
Qed.

Lemma rm_id_preserve : forall f s id id', clean_at f id s -> clean_at f id (t_rm_id f s id').
Proof.
  intros f s id id' H. destruct (N.eq_dec id id') as [->|Hne]; [apply rm_id_establish|].
  destruct H as [H1 H2]. unfold t_rm_id, clean_at.
  destruct (ngetN id' (t_decls s)) as [locs|] eqn:Ed; destruct (ngetN id' (t_supers s)) as [sup|] eqn:Es;
    try destruct (is_nil (keep_not f locs)); try destruct (is_nil (keep_not f sup)); cbn [t_supers t_decls]; split; intros l Hl;
    rewrite ?nget_set, ?nget_del in Hl; destruct (N.eqb_spec id id'); try contradiction; eauto.
Qed.

Lemma rm_fold_clean : forall f ids s id, In id ids \/ clean_at f id s -> clean_at f id (fold_left (t_rm_id f) ids s).
Proof.
  induction ids as [|i ids IH]; intros s id H; cbn [fold_left].
  - destruct H as [[]|H]; exact H.
  - apply IH. destruct H as [[->|H]|H].
    + right. apply rm_id_establish.
    + left. exact H.
    + right. apply rm_id_preserve. exact H.
Qed.

Lemma type_remove_clean : forall s f ids id,
  ngetN f (t_ftypes s) = Some ids -> In id ids -> clean_at f id (t_remove f s).
Proof. intros s f ids id H Hin. unfold t_remove. rewrite H. apply rm_fold_clean. left. exact Hin. Qed.

Lemma type_remove_file_maps : forall s f,
  ngetN f (t_ns (t_remove f s)) = None /\ ngetN f (t_using (t_remove f s)) = None /\ ngetN f (t_ftypes (t_remove f s)) = None.
Proof.
  intros s f. unfold t_remove.
  assert (H : forall ids s0, t_ns (fold_left (t_rm_id f) ids s0) = t_ns s0 /\ t_using (fold_left (t_rm_id f) ids s0) = t_using s0
                             /\ t_ftypes (fold_left (t_rm_id f) ids s0) = t_ftypes s0).
  { induction ids as [|i ids IH]; intro s0; cbn [fold_left]; [auto|].
    destruct (IH (t_rm_id f s0 i)) as [A [B C]]. rewrite A, B, C. unfold t_rm_id.
    destruct (ngetN i (t_decls s0)) as [locs|]; [destruct (is_nil (keep_not f locs))|]; cbn; auto. }
  destruct (ngetN f (t_ftypes s)) as [ids|].
  - destruct (H ids (mkTidx (ndelN f (t_ns s)) (ndelN f (t_using s)) (ndelN f (t_ftypes s)) (t_decls s) (t_supers s) (t_names s))) as [A [B C]].
    rewrite A, B, C. cbn [t_ns t_using t_ftypes]. rewrite !nget_del, N.eqb_refl. auto.
  - cbn [t_ns t_using t_ftypes]. rewrite !nget_del, N.eqb_refl. auto.
Qed.

(** ---- LuaReferenceIndex (global_references / index_reference): after remove(f) no key lists f, no key is left empty ---- *)
Lemma adel_no_key : forall (V : Type) f (m : list (N * V)), existsb (fun kv => fst kv =? f) (ndelN f m) = false.
Proof.
  induction m as [|[g l] m IH]; cbn [adel existsb]; [reflexivity|].
  destruct (N.eqb_spec f g) as [->|Hne]; [exact IH|]. cbn [existsb fst].
  destruct (N.eqb_spec g f); [congruence | exact IH].
Qed.

Lemma rmap_remove_no_mention : forall f m, rmap_mentions (rmap_remove f m) f = false.
Proof.
  intros f m. unfold rmap_mentions. induction m as [|[k files] m IH]; cbn [rmap_remove existsb]; [reflexivity|].
  destruct (is_nil (ndelN f files)); [exact IH|]. cbn [existsb snd]. rewrite IH, orb_false_r. apply adel_no_key.
Qed.

Lemma reference_remove_no_mention : forall s f,
  rmap_mentions (r_glob (r_remove f s)) f = false /\ rmap_mentions (r_idx (r_remove f s)) f = false.
Proof. intros s f. split; apply rmap_remove_no_mention. Qed.

Lemma reference_remove_no_empty : forall f m k files, In (k, files) (rmap_remove f m) -> files <> [].
Proof.
  induction m as [|[k0 fs] m IH]; intros k files Hin; cbn [rmap_remove] in Hin; [destruct Hin|].
  destruct (ndelN f fs) as [|x r] eqn:E; cbn [is_nil] in Hin; [eauto|].
  destruct Hin as [Heq|Hin]; [inversion Heq; discriminate | eauto].
Qed.

Lemma remove_example :
  let c := ex_cfg in
  let ops := [HUpdate mfacts 1 ([97; 46; 98], 1, false); HUpdate _ 2 ([97; 46; 99], 1, false); HUpdate _ 1 ([97; 46; 98], 1, false)] in
  mod_obs c (state _ _ _ _ (mod_store c) ops) [98] = Some (1, [97; 46; 98], 1, false) /\
  mod_obs c (state _ _ _ _ (mod_store c) (ops ++ [HRemove _ 1])) [98] = None /\
  mod_size (state _ _ _ _ (mod_store c) ops) = [4; 2; 2] /\
  mod_size (state _ _ _ _ (mod_store c) (ops ++ [HRemove _ 1])) = [3; 1; 1] /\
  without _ 1 ops = [HUpdate _ 2 ([97; 46; 99], 1, false)].
Proof. cbv zeta. repeat split; vm_compute; reflexivity. Qed.
