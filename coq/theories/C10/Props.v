(** C10/Props.v — property theorems only (removed files leave no trace). *)
From EV Require Import Base.StoreSM C33.Model C33.Spec C08.Module C08.PropertyModel C33.Proofs C08.SimpleModels C08.Global C08.Diag C08.Product C08.RefModel C10.TypeModel C10.Proofs.
Local Open Scope N_scope.

(** After [remove_file_by_uri f], no container of the module index holds the file id [f] (file map keys and
    records, node file lists, fuzzy-name lists) — after ANY history. *)
Theorem remove_no_mention : forall (c : cfg) (ops : list (hop mfacts)) (f : N),
  mod_mentions (state _ _ _ _ (mod_store c) (ops ++ [HRemove _ f])) f = false.
Proof. exact Proofs.remove_no_mention. Qed.

(** ... and the index is, observably and in size, what it would be had the file never been submitted:
    every answer and every container count equals those of the history with all operations on [f] deleted. *)
Theorem remove_frees : forall (c : cfg) (ops : list (hop mfacts)) (f : N),
  (forall q, mod_obs c (state _ _ _ _ (mod_store c) (ops ++ [HRemove _ f])) q
             = mod_obs c (state _ _ _ _ (mod_store c) (without _ f ops)) q) /\
  mod_size (state _ _ _ _ (mod_store c) (ops ++ [HRemove _ f])) = mod_size (state _ _ _ _ (mod_store c) (without _ f ops)).
Proof. exact Proofs.remove_frees. Qed.

(** The product store (LuaModuleIndex x LuaGlobalIndex x DiagnosticIndex = the modelled part of DbIndex): after
    remove_file_by_uri(f) no container of any of the three indexes holds f, and the whole store is what it would be
    had f never been submitted — after ANY history. *)
Theorem product_remove_no_mention : forall c ops f, db_mentions c (db_state c (ops ++ [HRemove _ f])) f = false.
Proof. exact Product.db_remove_no_mention. Qed.
Theorem product_remove_frees : forall c ops f,
  (forall q, db_obs c (db_state c (ops ++ [HRemove _ f])) q = db_obs c (db_state c (without _ f ops)) q) /\
  db_size c (db_state c (ops ++ [HRemove _ f])) = db_size c (db_state c (without _ f ops)).
Proof. exact Product.db_remove_frees. Qed.
Theorem global_remove_frees : forall ops f,
  (forall q, g_get (state _ _ _ _ glob_store (ops ++ [HRemove _ f])) q = g_get (state _ _ _ _ glob_store (without _ f ops)) q) /\
  length (state _ _ _ _ glob_store (ops ++ [HRemove _ f])) = length (state _ _ _ _ glob_store (without _ f ops)).
Proof. exact Product.glob_remove_frees. Qed.

(** the simple indexes, for every state *)
Theorem diagnostic_remove_no_mention : forall s f, d_mentions (d_remove f s) f = false.
Proof. exact Proofs.diagnostic_remove_no_mention. Qed.
Theorem global_remove_no_mention : forall s f, g_mentions (g_remove f s) f = false.
Proof. exact Proofs.global_remove_no_mention. Qed.
Theorem global_remove_no_empty : forall s f nm l, In (nm, l) (g_remove f s) -> l <> [].
Proof. exact Proofs.global_remove_no_empty. Qed.
Theorem property_remove_no_file : forall s f, ngetN f (px_infile (p_remove f s)) = None.
Proof. exact Proofs.property_remove_no_file. Qed.

(** LuaTypeIndex (transcribed part: namespaces, file_types, declaration locations, super clauses): after remove(f), for
    every type the file declared, no surviving declaration location and no surviving super clause carries f — also
    when another file still declares the type; and f has no namespace / using / file_types entry. *)
Theorem type_remove_no_mention : forall s f ids id,
  ngetN f (t_ftypes s) = Some ids -> In id ids -> clean_at f id (t_remove f s).
Proof. exact Proofs.type_remove_clean. Qed.
Theorem type_remove_file_maps : forall s f,
  ngetN f (t_ns (t_remove f s)) = None /\ ngetN f (t_using (t_remove f s)) = None /\ ngetN f (t_ftypes (t_remove f s)) = None.
Proof. exact Proofs.type_remove_file_maps. Qed.

(** LuaReferenceIndex (transcribed: global_references and index_reference): after remove(f) no key lists the file, and
    no key is left with an empty file map. *)
Theorem reference_remove_no_mention : forall s f,
  rmap_mentions (r_glob (r_remove f s)) f = false /\ rmap_mentions (r_idx (r_remove f s)) f = false.
Proof. exact Proofs.reference_remove_no_mention. Qed.
Theorem reference_remove_no_empty : forall f m k files, In (k, files) (rmap_remove f m) -> files <> [].
Proof. exact Proofs.reference_remove_no_empty. Qed.

Example remove_example :
  let c := ex_cfg in
  let ops := [HUpdate mfacts 1 ([97; 46; 98], 1, false); HUpdate _ 2 ([97; 46; 99], 1, false); HUpdate _ 1 ([97; 46; 98], 1, false)] in
  mod_obs c (state _ _ _ _ (mod_store c) ops) [98] = Some (1, [97; 46; 98], 1, false) /\
  mod_obs c (state _ _ _ _ (mod_store c) (ops ++ [HRemove _ 1])) [98] = None /\
  mod_size (state _ _ _ _ (mod_store c) ops) = [4; 2; 2] /\
  mod_size (state _ _ _ _ (mod_store c) (ops ++ [HRemove _ 1])) = [3; 1; 1] /\
  without _ 1 ops = [HUpdate _ 2 ([97; 46; 99], 1, false)].
Proof. exact Proofs.remove_example. Qed.
