(** C10/TypeModel.v — transcription of the per-file part of [LuaTypeIndex] (db_index/type/mod.rs): file namespaces,
    file_types, declaration locations, super clauses, the global name map.  Executable definitions only.
    Type ids and names are numbers (global identifiers only); a location is (file, start offset). *)
From EV Require Export C33.Model.
Local Open Scope N_scope.

Record tidx := mkTidx {
  t_ns : list (N * N);                     (* file_namespace *)
  t_using : list (N * list N);             (* file_using_namespace *)
  t_ftypes : list (N * list N);            (* file_types : file -> Vec<LuaTypeDeclId> (duplicates kept) *)
  t_decls : list (N * list (N * N));       (* full_name_type_map : id -> locations *)
  t_supers : list (N * list (N * N));      (* supers : id -> [(file, super)] *)
  t_names : list (N * N)                   (* global_name_type_map : name -> id *)
}.
Definition t_init : tidx := mkTidx [] [] [] [] [] [].
Definition t_clear (s : tidx) : tidx := t_init.

(** facts: (kind, a, b): 0 = add_file_namespace a; 1 = add_file_using_namespace a; 2 = add_type_decl (class a at b);
    3 = add_super_type (a : b) *)
Definition push {A} (k : N) (x : A) (m : list (N * list A)) : list (N * list A) :=
  match ngetN k m with Some l => nsetN k (l ++ [x]) m | None => nsetN k [x] m end.

Definition t_fact (f : N) (s : tidx) (x : N * N * N) : tidx :=
  match x with (kind, a, b) =>
    if kind =? 0 then mkTidx (nsetN f a (t_ns s)) (t_using s) (t_ftypes s) (t_decls s) (t_supers s) (t_names s)
    else if kind =? 1 then mkTidx (t_ns s) (push f a (t_using s)) (t_ftypes s) (t_decls s) (t_supers s) (t_names s)
    else if kind =? 2 then
      mkTidx (t_ns s) (t_using s) (push f a (t_ftypes s)) (push a (f, b) (t_decls s)) (t_supers s)
             (match ngetN a (t_names s) with Some _ => t_names s | None => nsetN a a (t_names s) end)
    else mkTidx (t_ns s) (t_using s) (t_ftypes s) (t_decls s) (push a (f, b) (t_supers s)) (t_names s)
  end.
Definition t_add (f : N) (facts : list (N * N * N)) (s : tidx) : tidx := fold_left (t_fact f) facts s.

Definition keep_not (f : N) (l : list (N * N)) : list (N * N) := filter (fun x => negb (fst x =? f)) l.

(** the body of the [for id in type_id_list] loop of [remove] *)
Definition t_rm_id (f : N) (s : tidx) (id : N) : tidx :=
  let '(decls, removed) :=
    match ngetN id (t_decls s) with
    | Some locs => let locs' := keep_not f locs in
                   if is_nil locs' then (ndelN id (t_decls s), true) else (nsetN id locs' (t_decls s), false)
    | None => (t_decls s, false)
    end in
  let supers :=
    match ngetN id (t_supers s) with
    | Some l => let l' := keep_not f l in if is_nil l' then ndelN id (t_supers s) else nsetN id l' (t_supers s)
    | None => t_supers s
    end in
  mkTidx (t_ns s) (t_using s) (t_ftypes s) decls supers (if removed then ndelN id (t_names s) else t_names s).

Definition t_remove (f : N) (s : tidx) : tidx :=
  let s1 := mkTidx (ndelN f (t_ns s)) (ndelN f (t_using s)) (ndelN f (t_ftypes s)) (t_decls s) (t_supers s) (t_names s) in
  match ngetN f (t_ftypes s) with
  | Some ids => fold_left (t_rm_id f) ids s1
  | None => s1
  end.

(** [get_file_type_decls]: the ids of the file, de-duplicated, that still have a declaration *)
Fixpoint dedupN (l : list N) (seen : list N) : list N :=
  match l with
  | [] => []
  | x :: r => if existsb (N.eqb x) seen then dedupN r seen else x :: dedupN r (x :: seen)
  end.
Definition t_file_decls (s : tidx) (f : N) : list N :=
  match ngetN f (t_ftypes s) with
  | Some ids => filter (fun id => match ngetN id (t_decls s) with Some _ => true | None => false end) (dedupN ids [])
  | None => []
  end.
Definition t_found (s : tidx) (name : N) : bool :=
  match ngetN name (t_names s) with
  | Some id => match ngetN id (t_decls s) with Some _ => true | None => false end
  | None => false
  end.
Definition t_sizes (s : tidx) : list N :=
  [N.of_nat (length (t_ns s)); N.of_nat (length (t_using s)); N.of_nat (length (t_ftypes s)); sum_len (fun kv => snd kv) (t_ftypes s);
   N.of_nat (length (t_decls s)); sum_len (fun kv => snd kv) (t_decls s); 0;
   N.of_nat (length (t_supers s)); sum_len (fun kv => snd kv) (t_supers s); 0; 0; 0;
   N.of_nat (length (t_names s)); 0; 0; 0; 0].
