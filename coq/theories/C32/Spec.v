(** C32/Spec.v — the vocabulary the C32 theorems are stated in (definitions only).  Model: C31/Model.v. *)
From EV Require Export C31.Model.
Local Open Scope N_scope.

(** the settings of a value: its (dotted key, leaf) pairs in visiting order, before the hash map removes
    repeated keys.  A flat key and its nested spelling give the same settings. *)
Fixpoint flat_entries (p : text) (v : json) : list (text * json) :=
  match v with
  | JObj m =>
      (fix go (m : list (text * json)) : list (text * json) :=
         match m with
         | [] => []
         | (k, x) :: r => flat_entries (new_key p k) x ++ go r
         end) m
  | _ => [(p, v)]
  end.

Definition settings (v : json) : list (text * json) := flat_entries [] v.

(** inverse of [split_dot] *)
Fixpoint join_dot (ss : list text) : text :=
  match ss with
  | [] => []
  | s :: r => match r with [] => s | _ :: _ => s ++ DOT :: join_dot r end
  end.

(** the same inputs, possibly iterated in different orders *)
Definition cfg_equiv (c c' : cfg_json) : Prop :=
  fst c = fst c' /\ Permutation (snd c) (parse (fst c)) /\ Permutation (snd c') (parse (fst c)).

Definition file_equiv (f f' : file) : Prop :=
  match f, f' with
  | Unreadable, Unreadable => True
  | Invalid, Invalid => True
  | Parsed v it, Parsed v' it' => cfg_equiv (v, it) (v', it')
  | _, _ => False
  end.

(** a scalar: neither an object nor an array *)
Definition scalar (v : json) : bool := negb (is_obj v) && negb (is_arr v).

(** the nested value [v] says nothing about the path [ks]: walking down [ks] through objects leaves [v]
    before the end (so it neither sets [ks], nor replaces one of its prefixes by a non-object, nor sets
    something below it) *)
Fixpoint silent (ks : list text) (v : json) : Prop :=
  match ks with
  | [] => False
  | k :: r =>
      match v with
      | JObj m => match bt_get k m with
                  | None => True
                  | Some x => is_obj x = true /\ r <> [] /\ silent r x
                  end
      | _ => False
      end
  end.

(** the nested form of a configuration under a given iteration order *)
Definition normal_form (c : cfg_json) (n : json) : Prop := to_emmyrc_json (snd c) = Val n.

(** [load_configs_raw] on a list of parsed configurations (files and client partials alike) *)
Definition load_list (cs : list cfg_json) : res json := load_configs_raw [] cs.
