(** C32/Props.v — property theorems only: configuration merging is deterministic and later files win.
    Model: C31/Model.v; vocabulary: C32/Spec.v.  Each is closed by [exact] of a lemma of Proofs.v. *)
From EV Require Import C31.Model C32.Spec C32.Proofs.
Local Open Scope N_scope.

(** Determinism: the same files in the same order (and the same client partials) give the same raw and
    typed configuration, whatever order each flattened hash map is iterated in. *)
Theorem merge_deterministic : forall (C : Type) (decode : json -> option C) (dflt : C)
    (files files' : list file) (partials partials' : list cfg_json),
  Forall2 file_equiv files files' -> Forall2 cfg_equiv partials partials' ->
  load_configs_raw files partials = load_configs_raw files' partials' /\
  load_configs decode dflt files partials = load_configs decode dflt files' partials'.
Proof. exact Proofs.merge_deterministic. Qed.

(** the nested form of one file does not depend on the iteration order *)
Theorem nested_form_order_independent : forall (v : json) (it : hmap),
  Permutation it (parse v) -> to_emmyrc_json it = to_emmyrc_json (parse v).
Proof. exact Proofs.normal_form_iter. Qed.

(** Flat = nested.  An object with the flat entry ["k1.k2": v] (anywhere, [lf]) and an object with the nested
    entry ["k1": {"k2": v}] instead (anywhere, [ln]) and otherwise the same entries have the same nested
    form under any iteration orders — provided the file gives no setting twice. *)
Theorem flat_eq_nested : forall (lf ln l : list (text * json)) (k1 k2 : text) (v : json) (it it' : hmap),
  k1 <> [] ->
  Permutation lf ((k1 ++ DOT :: k2, v) :: l) ->
  Permutation ln ((k1, JObj [(k2, v)]) :: l) ->
  NoDup (map fst (settings (JObj lf))) ->
  Permutation it (parse (JObj lf)) -> Permutation it' (parse (JObj ln)) ->
  to_emmyrc_json it = to_emmyrc_json it'.
Proof. exact Proofs.flat_eq_nested. Qed.

(** the general form: files with the same settings have the same nested form … *)
Theorem same_settings_same_config : forall (v1 v2 : json) (it1 it2 : hmap),
  Permutation it1 (parse v1) -> Permutation it2 (parse v2) -> Permutation (parse v1) (parse v2) ->
  to_emmyrc_json it1 = to_emmyrc_json it2.
Proof. exact Proofs.same_settings. Qed.

(** … and the settings are insensitive to the spelling, at any depth ([p] is the enclosing dotted prefix):
    a flat key is its nested spelling, settings of an object are those of its entries *)
Theorem settings_respell : forall (p k1 k2 : text) (v : json), (p <> [] \/ k1 <> []) ->
  flat_entries p (JObj [(k1 ++ DOT :: k2, v)]) = flat_entries p (JObj [(k1, JObj [(k2, v)])]).
Proof. exact Proofs.flat_entries_respell. Qed.

Theorem settings_app : forall (p : text) (l1 l2 : list (text * json)),
  flat_entries p (JObj (l1 ++ l2)) = flat_entries p (JObj l1) ++ flat_entries p (JObj l2).
Proof. exact Proofs.flat_entries_app. Qed.

Theorem settings_parse : forall (v : json), NoDup (map fst (settings v)) -> parse v = settings v.
Proof. exact Proofs.parse_settings. Qed.

(** a file that sets the key [k] to [s] (in whichever spelling: [parse] has forgotten it) and no key that
    extends [k] has [s] at the path of [k] in its nested form *)
Theorem setting_in_nested_form : forall (v : json) (it : hmap) (k : text) (s n : json),
  Permutation it (parse v) -> In (k, s) (parse v) ->
  (forall k' s', In (k', s') (parse v) -> k' <> k -> forall ext, split_dot k' <> split_dot k ++ ext) ->
  to_emmyrc_json it = Val n -> lookup (split_dot k) n = Some s.
Proof. exact Proofs.setting_in_normal_form. Qed.

(** Later wins.  [c] is the last configuration that has a scalar [s] at the path [ks] of its nested form;
    the later ones are silent about [ks]; then the loaded configuration has [s] at [ks] — whatever the
    earlier ones say, in whichever spelling, under any iteration orders. *)
Theorem later_wins : forall (cs1 : list cfg_json) (c : cfg_json) (cs2 : list cfg_json) (n : json)
    (ks : list text) (s : json),
  Forall iter_ok (cs1 ++ c :: cs2) ->
  normal_form c n -> ks <> [] -> lookup ks n = Some s -> scalar s = true ->
  (forall c' n', In c' cs2 -> normal_form c' n' -> silent ks n') ->
  exists j, load_list (cs1 ++ c :: cs2) = Val j /\ lookup ks j = Some s.
Proof. exact Proofs.later_wins. Qed.

(** Arrays.  Merging an array into an array appends exactly the items that are new, each once, in order of
    first appearance; a duplicate-free base stays duplicate-free. *)
Theorem arrays_nodup : forall (ba oa : list json), exists added,
  merge_values (JArr ba) (JArr oa) = JArr (ba ++ added) /\
  NoDup added /\
  (forall x, In x added -> ~ In x ba /\ In x oa) /\
  (forall x, In x oa -> In x ba \/ In x added) /\
  (NoDup ba -> NoDup (ba ++ added)).
Proof. exact Proofs.arrays_nodup. Qed.

(** loading the same array again changes nothing *)
Theorem array_again : forall (ba : list json), merge_values (JArr ba) (JArr ba) = JArr ba.
Proof. exact Proofs.array_again. Qed.

(** non-vacuity *)
Example later_wins_example :
  load_list [ex_cfg (ex_flat false); ex_cfg (ex_nested true)] = Val (ex_nested true) /\
  load_list [ex_cfg (ex_nested true); ex_cfg (ex_flat false)] = Val (ex_nested false) /\
  load_list [ex_cfg (ex_flat false); ex_cfg (ex_flat true)] = Val (ex_nested true) /\
  lookup [k_diag; k_enable] (ex_nested true) = Some (JBool true) /\
  silent [k_diag; k_enable] (JObj [(k_diag, JObj [(k_globals, JArr [])])]).
Proof. exact Proofs.later_wins_example. Qed.

Example arrays_example :
  let g := JObj [(k_diag, JObj [(k_globals, JArr [JStr [97]])])] in
  let h := JObj [(k_diag ++ DOT :: k_globals, JArr [JStr [98]; JStr [97]; JStr [98]])] in
  load_list [ex_cfg g; ex_cfg g] = Val g /\
  load_list [ex_cfg g; ex_cfg h] = Val (JObj [(k_diag, JObj [(k_globals, JArr [JStr [97]; JStr [98]])])]).
Proof. exact Proofs.arrays_example. Qed.

Example flat_eq_nested_example :
  let v1 := JObj [([97], JObj [([100], JNull)]); ([97;45;99], JNum 2); ([97;46;98], JNum 1)] in
  let v2 := JObj [([97], JObj [([98], JNum 1); ([100], JNull)]); ([97;45;99], JNum 2)] in
  NoDup (map fst (settings v1)) /\ Permutation (parse v1) (parse v2) /\
  to_emmyrc_json (rev (parse v1)) = to_emmyrc_json (parse v2) /\
  to_emmyrc_json (parse v2) = Val v2.
Proof. exact Proofs.flat_eq_nested_example. Qed.

Example merge_deterministic_example :
  let v := JObj [([97], JNum 1); ([97;46;98], JNum 2); ([99], JNull); ([99;46;100], JNum 3)] in
  Forall2 file_equiv [Parsed v (parse v); Invalid] [Parsed v (rev (parse v)); Invalid] /\
  load_configs_raw [Parsed v (parse v); Invalid] [] = load_configs_raw [Parsed v (rev (parse v)); Invalid] [] /\
  load_configs_raw [Parsed v (parse v); Invalid] [] = Val (JObj [([97], JObj [([98], JNum 2)]); ([99], JObj [([100], JNum 3)])]).
Proof. exact Proofs.merge_deterministic_example. Qed.
