(** C32/Proofs.v — lemmas: the nested form does not depend on the hash iteration order; flat and nested
    spellings denote the same settings; merging lets the later file win and appends arrays without
    duplicates.  Model: C31/Model.v. *)
From EV Require Import Base.JsonFacts C31.Model C32.Spec.
Local Open Scope N_scope.

(* ================================================================== A. set_path on objects, purely *)

Definition sub_obj (o : option json) : list (text * json) :=
  match o with Some (JObj x) => x | _ => [] end.

Definition holds_obj (o : option json) : bool :=
  match o with Some old => is_obj old | None => false end.

(** [set_path ks v (JObj m)] as a function on the object's entries *)
Fixpoint sp (ks : list text) (v : json) (m : list (text * json)) : list (text * json) :=
  match ks with
  | [] => m
  | k :: rest =>
      match rest with
      | [] => if holds_obj (bt_get k m) then m else bt_insert k v m
      | _ :: _ => bt_insert k (JObj (sp rest v (sub_obj (bt_get k m)))) m
      end
  end.

Lemma set_path_sp : forall ks v m, set_path ks v (JObj m) = Val (JObj (sp ks v m)).
Proof.
  induction ks as [|k rest IH]; intros v m; cbn [set_path sp]; [reflexivity|].
  destruct rest as [|k2 rest'].
  - cbn [val_get]. unfold holds_obj. destruct (match bt_get k m with Some old => is_obj old | None => false end); reflexivity.
  - assert (Hn : (if is_obj (match bt_get k m with Some x => x | None => JObj [] end)
                  then match bt_get k m with Some x => x | None => JObj [] end else JObj [])
                 = JObj (sub_obj (bt_get k m))).
    { unfold sub_obj. destruct (bt_get k m) as [[| | | | |o]|]; reflexivity. }
    rewrite Hn. rewrite IH. reflexivity.
Qed.

(** what one [sp] does to the slot of its first key: [None] = leave the map alone *)
Definition slot (rest : list text) (v : json) (o : option json) : option json :=
  match rest with
  | [] => if holds_obj o then None else Some v
  | _ :: _ => Some (JObj (sp rest v (sub_obj o)))
  end.

Definition upd (k : text) (o : option json) (m : list (text * json)) : list (text * json) :=
  match o with Some x => bt_insert k x m | None => m end.

Lemma sp_cons : forall k rest v m, sp (k :: rest) v m = upd k (slot rest v (bt_get k m)) m.
Proof.
  intros k rest v m. cbn [sp]. unfold slot, upd. destruct rest; [destruct (holds_obj (bt_get k m))|]; reflexivity.
Qed.

Lemma bt_get_upd_other : forall k k' o m, k <> k' -> bt_get k (upd k' o m) = bt_get k m.
Proof. intros k k' [x|] m H; cbn [upd]; [apply bt_get_insert_other; exact H|reflexivity]. Qed.

Lemma upd_comm : forall k1 k2 o1 o2 m, k1 <> k2 -> upd k1 o1 (upd k2 o2 m) = upd k2 o2 (upd k1 o1 m).
Proof.
  intros k1 k2 [x1|] [x2|] m H; cbn [upd]; try reflexivity. apply bt_insert_comm. exact H.
Qed.

Lemma holds_obj_false_sub : forall o, holds_obj o = false -> sub_obj o = [].
Proof. intros [[| | | | |x]|]; cbn; intros H; try reflexivity. discriminate. Qed.

(** two different keys can be set in either order (leaves are never objects: [flatten_object] descends
    into every object) *)
Lemma sp_comm : forall ks1 ks2 v1 v2 m,
  ks1 <> ks2 -> ks1 <> [] -> ks2 <> [] -> is_obj v1 = false -> is_obj v2 = false ->
  sp ks1 v1 (sp ks2 v2 m) = sp ks2 v2 (sp ks1 v1 m).
Proof.
  induction ks1 as [|k1 r1 IH]; intros ks2 v1 v2 m Hne H1 H2 Hv1 Hv2; [congruence|].
  destruct ks2 as [|k2 r2]; [congruence|].
  rewrite !sp_cons.
  destruct (text_eq_dec k1 k2) as [->|Hk].
  - (* same first key, different rests *)
    assert (Hr : r1 <> r2) by congruence.
    assert (Hs1 : sub_obj (Some v1) = []) by (destruct v1; try reflexivity; discriminate).
    assert (Hs2 : sub_obj (Some v2) = []) by (destruct v2; try reflexivity; discriminate).
    destruct r1 as [|a1 r1']; destruct r2 as [|a2 r2']; [congruence| | |].
    + (* [k] against [k; a2; …] *)
      cbn [slot]. destruct (holds_obj (bt_get k2 m)) eqn:Ho; cbn [upd].
      * rewrite bt_get_insert_same. cbn [holds_obj is_obj upd]. reflexivity.
      * rewrite !bt_get_insert_same. cbn [holds_obj is_obj upd]. rewrite Hs1.
        rewrite (holds_obj_false_sub _ Ho). rewrite bt_insert_insert_same. reflexivity.
    + (* [k; a1; …] against [k] *)
      cbn [slot]. destruct (holds_obj (bt_get k2 m)) eqn:Ho; cbn [upd].
      * rewrite bt_get_insert_same. cbn [holds_obj is_obj upd]. reflexivity.
      * rewrite !bt_get_insert_same. cbn [holds_obj is_obj upd]. rewrite Hs2.
        rewrite (holds_obj_false_sub _ Ho). rewrite bt_insert_insert_same. reflexivity.
    + (* both go deeper *)
      cbn [slot upd]. rewrite !bt_get_insert_same. cbn [sub_obj]. rewrite !bt_insert_insert_same.
      f_equal. f_equal. apply IH; congruence.
  - (* different first keys: independent slots *)
    rewrite (bt_get_upd_other k1 k2) by exact Hk.
    rewrite (bt_get_upd_other k2 k1) by congruence.
    apply upd_comm. exact Hk.
Qed.

(* ================================================================== B. split / join *)
Lemma split_dot_nonempty : forall t, split_dot t <> [].
Proof.
  induction t as [|c r IH]; cbn [split_dot]; [discriminate|].
  destruct (c =? DOT); [discriminate|]. destruct (split_dot r); discriminate.
Qed.

Lemma join_split : forall t, join_dot (split_dot t) = t.
Proof.
  induction t as [|c r IH]; cbn [split_dot]; [reflexivity|].
  destruct (N.eqb_spec c DOT) as [->|Hc].
  - destruct (split_dot r) as [|s ss] eqn:E; [exfalso; apply (split_dot_nonempty r); exact E|].
    cbn [join_dot app]. cbn [join_dot] in IH. rewrite IH. reflexivity.
  - destruct (split_dot r) as [|s ss] eqn:E; [exfalso; apply (split_dot_nonempty r); exact E|].
    cbn [join_dot] in *. destruct ss; cbn [app]; rewrite <- IH; reflexivity.
Qed.

Lemma split_dot_inj : forall a b, split_dot a = split_dot b -> a = b.
Proof. intros a b H. rewrite <- (join_split a), <- (join_split b), H. reflexivity. Qed.

Lemma split_dot_app : forall a b, split_dot (a ++ DOT :: b) = split_dot a ++ split_dot b.
Proof.
  induction a as [|c r IH]; intros b; cbn [app split_dot].
  - rewrite N.eqb_refl. reflexivity.
  - destruct (c =? DOT).
    + rewrite IH. reflexivity.
    + rewrite IH. destruct (split_dot r) as [|s ss] eqn:E; [exfalso; apply (split_dot_nonempty r); exact E|].
      reflexivity.
Qed.

(* ================================================================== C. iteration order *)
Definition ins (m : list (text * json)) (kv : text * json) : list (text * json) :=
  sp (split_dot (fst kv)) (snd kv) m.

Definition leaves_ok (it : hmap) : Prop := Forall (fun kv => is_obj (snd kv) = false) it.

Lemma to_emmyrc_json_fold_from : forall it m0,
  fold_left (fun acc kv => match acc with
                           | Val e => set_path (split_dot (fst kv)) (snd kv) e
                           | Nothing => Nothing
                           | Panic => Panic
                           end) it (Val (JObj m0)) = Val (JObj (fold_left ins it m0)).
Proof.
  induction it as [|kv it IH]; intros m0; cbn [fold_left]; [reflexivity|].
  rewrite set_path_sp. apply IH.
Qed.

Lemma to_emmyrc_json_fold : forall it, to_emmyrc_json it = Val (JObj (fold_left ins it [])).
Proof. intros it. unfold to_emmyrc_json. apply to_emmyrc_json_fold_from. Qed.

Lemma ins_comm : forall m x y, fst x <> fst y -> is_obj (snd x) = false -> is_obj (snd y) = false ->
  ins (ins m x) y = ins (ins m y) x.
Proof.
  intros m x y Hk Hx Hy. unfold ins. apply sp_comm; try assumption; try apply split_dot_nonempty.
  intros H. apply split_dot_inj in H. congruence.
Qed.

Lemma fold_ins_perm : forall it it', Permutation it it' ->
  NoDup (map fst it) -> leaves_ok it -> forall m, fold_left ins it m = fold_left ins it' m.
Proof.
  induction 1 as [|x l l' HP IH|x y l|l l' l'' HP1 IH1 HP2 IH2]; intros Hnd Hl m.
  - reflexivity.
  - cbn [fold_left]. cbn [map] in Hnd. inversion Hnd; subst. inversion Hl; subst. apply IH; assumption.
  - cbn [fold_left]. cbn [map] in Hnd. inversion Hnd as [|? ? Hnotin Hnd']; subst.
    inversion Hl as [|? ? Hy Hl']; subst. inversion Hl' as [|? ? Hx Hl'']; subst.
    rewrite (ins_comm m y x); [reflexivity| |assumption|assumption].
    intros E. apply Hnotin. cbn [map In]. left. symmetry. exact E.
  - rewrite IH1 by assumption. apply IH2.
    + eapply Permutation_NoDup; [apply Permutation_map; exact HP1|exact Hnd].
    + unfold leaves_ok in *. eapply Permutation_Forall; eassumption.
Qed.

(* ================================================================== D. flatten_object *)
Definition hmi (c : hmap) (kv : text * json) : hmap := hm_insert (fst kv) (snd kv) c.

Lemma flat_entries_obj_cons : forall p k x r,
  flat_entries p (JObj ((k, x) :: r)) = flat_entries (new_key p k) x ++ flat_entries p (JObj r).
Proof. reflexivity. Qed.

Lemma flatten_object_obj_cons : forall p k x r cfg,
  flatten_object p (JObj ((k, x) :: r)) cfg = flatten_object p (JObj r) (flatten_object (new_key p k) x cfg).
Proof. reflexivity. Qed.

Lemma flatten_fold : forall v p cfg, flatten_object p v cfg = fold_left hmi (flat_entries p v) cfg.
Proof.
  induction v using json_ind'; intros p cfg; try reflexivity.
  revert cfg. induction H as [|[k x] m Hx Hm IH]; intros cfg; [reflexivity|].
  rewrite flatten_object_obj_cons, flat_entries_obj_cons, fold_left_app.
  cbn [snd] in Hx. rewrite <- Hx. apply IH.
Qed.

Lemma flat_entries_leaves : forall v p, leaves_ok (flat_entries p v).
Proof.
  induction v using json_ind'; intros p; try (repeat constructor).
  unfold leaves_ok. induction H as [|[k x] m Hx Hm IH]; [constructor|].
  rewrite flat_entries_obj_cons. apply Forall_app. split; [apply Hx|apply IH].
Qed.

Lemma hm_insert_keys : forall k v m k', In k' (map fst (hm_insert k v m)) <-> k' = k \/ In k' (map fst m).
Proof.
  intros k v m k'. induction m as [|[k2 v2] r IH]; cbn [hm_insert map fst In].
  - intuition.
  - destruct (text_eqb_spec k k2) as [->|Hne]; cbn [map fst In]; [intuition|]. rewrite IH. intuition.
Qed.

Lemma hm_insert_nodup : forall k v m, NoDup (map fst m) -> NoDup (map fst (hm_insert k v m)).
Proof.
  intros k v. induction m as [|[k2 v2] r IH]; cbn [hm_insert map fst]; intros Hnd.
  - constructor; [intros []|constructor].
  - inversion Hnd as [|? ? Hnotin Hnd']; subst.
    destruct (text_eqb_spec k k2) as [->|Hne]; cbn [map fst].
    + constructor; assumption.
    + constructor; [|apply IH; exact Hnd'].
      rewrite hm_insert_keys. intros [E|E]; [congruence|contradiction].
Qed.

Lemma hm_insert_leaves : forall k v m, is_obj v = false -> leaves_ok m -> leaves_ok (hm_insert k v m).
Proof.
  intros k v m Hv. unfold leaves_ok. induction m as [|[k2 v2] r IH]; cbn [hm_insert]; intros Hl.
  - constructor; [exact Hv|constructor].
  - inversion Hl; subst. destruct (text_eqb k k2); constructor; auto.
Qed.

Lemma fold_hmi_inv : forall l cfg, leaves_ok l -> NoDup (map fst cfg) -> leaves_ok cfg ->
  NoDup (map fst (fold_left hmi l cfg)) /\ leaves_ok (fold_left hmi l cfg).
Proof.
  induction l as [|[k v] l IH]; intros cfg Hl Hnd Hc; cbn [fold_left]; [split; assumption|].
  inversion Hl; subst. apply IH; [assumption| |].
  - apply hm_insert_nodup. exact Hnd.
  - apply hm_insert_leaves; assumption.
Qed.

Lemma parse_fold : forall v, parse v = fold_left hmi (flat_entries [] v) [].
Proof. intros v. unfold parse. apply flatten_fold. Qed.

Lemma parse_nodup : forall v, NoDup (map fst (parse v)).
Proof.
  intros v. rewrite parse_fold.
  apply (fold_hmi_inv (flat_entries [] v) []); [apply flat_entries_leaves|constructor|constructor].
Qed.

Lemma parse_leaves : forall v, leaves_ok (parse v).
Proof.
  intros v. rewrite parse_fold.
  apply (fold_hmi_inv (flat_entries [] v) []); [apply flat_entries_leaves|constructor|constructor].
Qed.

(** when no setting is given twice, the map is the list of settings *)
Lemma hm_insert_fresh : forall k v m, ~ In k (map fst m) -> hm_insert k v m = m ++ [(k, v)].
Proof.
  intros k v. induction m as [|[k2 v2] r IH]; cbn [hm_insert map fst In app]; intros Hn; [reflexivity|].
  destruct (text_eqb_spec k k2) as [->|Hne]; [exfalso; apply Hn; left; reflexivity|].
  rewrite IH; [reflexivity|]. intros Hin. apply Hn. right. exact Hin.
Qed.

Lemma fold_hmi_nodup : forall l cfg, NoDup (map fst (cfg ++ l)) -> fold_left hmi l cfg = cfg ++ l.
Proof.
  induction l as [|[k v] l IH]; intros cfg Hnd; cbn [fold_left]; [rewrite app_nil_r; reflexivity|].
  unfold hmi at 2. cbn [fst snd]. rewrite hm_insert_fresh.
  - rewrite IH; rewrite <- app_assoc; [reflexivity|exact Hnd].
  - rewrite map_app in Hnd. cbn [map fst] in Hnd. apply NoDup_remove_2 in Hnd.
    intros Hin. apply Hnd. apply in_or_app. left. exact Hin.
Qed.

Lemma parse_settings : forall v, NoDup (map fst (flat_entries [] v)) -> parse v = flat_entries [] v.
Proof. intros v H. rewrite parse_fold. apply (fold_hmi_nodup (flat_entries [] v) []). exact H. Qed.

(** the nested form of one file under one iteration order *)
Lemma normal_form_perm : forall it it', Permutation it it' -> NoDup (map fst it) -> leaves_ok it ->
  to_emmyrc_json it = to_emmyrc_json it'.
Proof.
  intros it it' HP Hnd Hl. rewrite !to_emmyrc_json_fold. rewrite (fold_ins_perm it it' HP Hnd Hl). reflexivity.
Qed.

Lemma normal_form_iter : forall v it, Permutation it (parse v) -> to_emmyrc_json it = to_emmyrc_json (parse v).
Proof.
  intros v it HP. symmetry. apply normal_form_perm.
  - apply Permutation_sym. exact HP.
  - apply parse_nodup.
  - apply parse_leaves.
Qed.

(* ================================================================== E. flat = nested *)
Lemma new_key_assoc : forall p k1 k2, (p <> [] \/ k1 <> []) ->
  new_key (new_key p k1) k2 = new_key p (k1 ++ DOT :: k2).
Proof.
  intros [|c p] k1 k2 H; cbn [new_key].
  - destruct k1 as [|c1 k1]; [destruct H; congruence|]. reflexivity.
  - cbn [new_key app]. f_equal. rewrite <- app_assoc. reflexivity.
Qed.

Lemma flat_entries_respell : forall p k1 k2 v, (p <> [] \/ k1 <> []) ->
  flat_entries p (JObj [(k1 ++ DOT :: k2, v)]) = flat_entries p (JObj [(k1, JObj [(k2, v)])]).
Proof.
  intros p k1 k2 v H. rewrite !flat_entries_obj_cons. rewrite (new_key_assoc p k1 k2 H).
  cbn [flat_entries]. rewrite !app_nil_r. reflexivity.
Qed.

Lemma flat_entries_app : forall p l1 l2,
  flat_entries p (JObj (l1 ++ l2)) = flat_entries p (JObj l1) ++ flat_entries p (JObj l2).
Proof.
  intros p. induction l1 as [|[k x] l1 IH]; intros l2; [reflexivity|].
  cbn [app]. rewrite !flat_entries_obj_cons, IH, app_assoc. reflexivity.
Qed.

Lemma flat_entries_perm : forall p l l', Permutation l l' ->
  Permutation (flat_entries p (JObj l)) (flat_entries p (JObj l')).
Proof.
  intros p. induction 1 as [|[k x] l l' HP IH|[k x] [k' y] l|l l' l'' HP1 IH1 HP2 IH2].
  - apply Permutation_refl.
  - rewrite !flat_entries_obj_cons. apply Permutation_app_head. exact IH.
  - rewrite !flat_entries_obj_cons. rewrite !app_assoc. apply Permutation_app_tail. apply Permutation_app_comm.
  - eapply Permutation_trans; eassumption.
Qed.

(** files with the same settings have the same nested form, whatever the iteration orders *)
Lemma same_settings : forall v1 v2 it1 it2,
  Permutation it1 (parse v1) -> Permutation it2 (parse v2) -> Permutation (parse v1) (parse v2) ->
  to_emmyrc_json it1 = to_emmyrc_json it2.
Proof.
  intros v1 v2 it1 it2 H1 H2 H12.
  rewrite (normal_form_iter v1 it1 H1), (normal_form_iter v2 it2 H2).
  apply normal_form_perm; [exact H12|apply parse_nodup|apply parse_leaves].
Qed.

Lemma flat_eq_nested : forall lf ln l k1 k2 v it it',
  k1 <> [] ->
  Permutation lf ((k1 ++ DOT :: k2, v) :: l) ->
  Permutation ln ((k1, JObj [(k2, v)]) :: l) ->
  NoDup (map fst (settings (JObj lf))) ->
  Permutation it (parse (JObj lf)) -> Permutation it' (parse (JObj ln)) ->
  to_emmyrc_json it = to_emmyrc_json it'.
Proof.
  intros lf ln l k1 k2 v it it' Hk Hf Hn Hnd Hit Hit'.
  assert (HS : Permutation (settings (JObj lf)) (settings (JObj ln))).
  { unfold settings.
    eapply Permutation_trans; [apply flat_entries_perm; exact Hf|].
    eapply Permutation_trans; [|apply flat_entries_perm; apply Permutation_sym; exact Hn].
    change ((k1 ++ DOT :: k2, v) :: l) with ([(k1 ++ DOT :: k2, v)] ++ l).
    change ((k1, JObj [(k2, v)]) :: l) with ([(k1, JObj [(k2, v)])] ++ l).
    rewrite !flat_entries_app. rewrite flat_entries_respell by (right; exact Hk). apply Permutation_refl. }
  assert (Hnd' : NoDup (map fst (settings (JObj ln)))).
  { eapply Permutation_NoDup; [apply Permutation_map; exact HS|exact Hnd]. }
  apply (same_settings (JObj lf) (JObj ln)); try assumption.
  unfold settings in *. rewrite (parse_settings _ Hnd), (parse_settings _ Hnd'). exact HS.
Qed.

(* ================================================================== F. merge_values *)
Fixpoint mgo (om bm : list (text * json)) : list (text * json) :=
  match om with
  | [] => bm
  | (k, ov) :: r =>
      mgo r (match bt_get k bm with
             | Some bv => bt_insert k (merge_values bv ov) bm
             | None => bt_insert k ov bm
             end)
  end.

Lemma merge_obj : forall bm om, merge_values (JObj bm) (JObj om) = JObj (mgo om bm).
Proof.
  intros bm om. reflexivity.
Qed.

Lemma merge_non_obj_base : forall b om, is_obj b = false -> merge_values b (JObj om) = JObj om.
Proof. intros [| | | | |x] om H; try reflexivity. discriminate. Qed.

Lemma merge_scalar : forall b s, scalar s = true -> merge_values b s = s.
Proof.
  intros b s H. unfold scalar in H. apply andb_prop in H. destruct H as [H1 H2].
  destruct s; try discriminate; destruct b; reflexivity.
Qed.

Definition lt_all (k : text) (r : list (text * json)) : Prop :=
  Forall (fun kv => text_cmp k (fst kv) = Lt) r.

Fixpoint sorted (m : list (text * json)) : Prop :=
  match m with
  | [] => True
  | (k, _) :: r => lt_all k r /\ sorted r
  end.

Lemma bt_get_lt_all : forall k r, lt_all k r -> bt_get k r = None.
Proof.
  intros k r H. induction H as [|[k' v] r Hk Hr IH]; [reflexivity|].
  cbn [bt_get]. cbn [fst] in Hk. unfold text_eqb. rewrite Hk. exact IH.
Qed.

Lemma mgo_get : forall om bm k, sorted om ->
  bt_get k (mgo om bm) =
  match bt_get k om with
  | Some ov => Some (match bt_get k bm with Some bv => merge_values bv ov | None => ov end)
  | None => bt_get k bm
  end.
Proof.
  induction om as [|[k0 ov0] r IH]; intros bm k Hs; [reflexivity|].
  cbn [sorted] in Hs. destruct Hs as [Hlt Hs]. cbn [mgo bt_get]. rewrite IH by exact Hs.
  destruct (text_eqb_spec k k0) as [->|Hne].
  - rewrite (bt_get_lt_all k0 r Hlt). destruct (bt_get k0 bm); rewrite bt_get_insert_same; reflexivity.
  - destruct (bt_get k0 bm); rewrite (bt_get_insert_other k k0) by exact Hne; reflexivity.
Qed.

(** objects reachable through objects have strictly increasing keys *)
Fixpoint wfo (v : json) : Prop :=
  match v with
  | JObj m => sorted m /\
              (fix go (m : list (text * json)) : Prop :=
                 match m with [] => True | (_, x) :: r => wfo x /\ go r end) m
  | _ => True
  end.

Definition wfm (m : list (text * json)) : Prop := sorted m /\ Forall (fun kv => wfo (snd kv)) m.

Lemma wfo_obj : forall m, wfo (JObj m) <-> wfm m.
Proof.
  intros m. unfold wfm. cbn [wfo]. split; intros [H1 H2]; split; try exact H1.
  - induction m as [|[k x] r IH]; [constructor|]. destruct H2 as [Hx Hr]. constructor; [exact Hx|].
    apply IH; [|exact Hr]. cbn [sorted] in H1. tauto.
  - induction m as [|[k x] r IH]; [exact I|]. inversion H2; subst. split; [assumption|].
    apply IH; [|assumption]. cbn [sorted] in H1. tauto.
Qed.

Lemma wfo_non_obj : forall v, is_obj v = false -> wfo v.
Proof. intros [| | | | |m] H; try exact I. discriminate. Qed.

Lemma Forall_bt_get : forall (P : json -> Prop) m k y,
  Forall (fun kv => P (snd kv)) m -> bt_get k m = Some y -> P y.
Proof.
  intros P m k y H. induction H as [|[k' v] r Hv Hr IH]; cbn [bt_get]; [discriminate|].
  destruct (text_eqb k k'); [intros E; inversion E; subst; exact Hv|exact IH].
Qed.

Lemma lookup_cons_obj : forall k r v x, lookup (k :: r) v = Some x ->
  exists m y, v = JObj m /\ bt_get k m = Some y /\ lookup r y = Some x.
Proof.
  intros k r v x H. cbn [lookup] in H. destruct v as [| | | | |m]; cbn [val_get] in H; try discriminate.
  destruct (bt_get k m) as [y|] eqn:E; [|discriminate]. exists m, y. repeat split; assumption.
Qed.

Lemma lookup_non_obj : forall k r v, is_obj v = false -> lookup (k :: r) v = None.
Proof. intros k r [| | | | |m] H; try reflexivity. discriminate. Qed.

(** the value at a path after merging, when the overlay has a value there *)
Lemma lookup_merge : forall ks ov base x, wfo ov -> ks <> [] -> lookup ks ov = Some x ->
  lookup ks (merge_values base ov) =
  Some (match lookup ks base with Some b => merge_values b x | None => x end).
Proof.
  induction ks as [|k r IH]; intros ov base x Hw Hne Hl; [congruence|].
  destruct (lookup_cons_obj k r ov x Hl) as [om [y [-> [Hy Hr]]]].
  apply wfo_obj in Hw. destruct Hw as [Hs Hf].
  destruct (is_obj base) eqn:Hb.
  2:{ rewrite merge_non_obj_base by exact Hb. rewrite (lookup_non_obj k r base) by exact Hb. exact Hl. }
  destruct base as [| | | | |bm]; try discriminate.
  rewrite merge_obj. cbn [lookup val_get]. rewrite (mgo_get om bm k Hs), Hy.
  destruct r as [|k2 r'].
  - cbn [lookup] in *. inversion Hr; subst. destruct (bt_get k bm); reflexivity.
  - destruct (bt_get k bm) as [bv|].
    + apply IH; [|discriminate|exact Hr]. exact (Forall_bt_get wfo om k y Hf Hy).
    + exact Hr.
Qed.

Lemma silent_lookup_none : forall ks v, silent ks v -> lookup ks v = None.
Proof.
  induction ks as [|k r IH]; intros v H; cbn [silent] in H; [contradiction|].
  destruct v as [| | | | |m]; try contradiction. cbn [lookup val_get].
  destruct (bt_get k m) as [x|]; [|reflexivity]. destruct H as [_ [_ H]]. apply IH. exact H.
Qed.

(** … and when the overlay is silent about the path *)
Lemma lookup_merge_silent : forall ks ov base, wfo ov -> silent ks ov ->
  lookup ks (merge_values base ov) = lookup ks base.
Proof.
  induction ks as [|k r IH]; intros ov base Hw Hsil; cbn [silent] in Hsil; [contradiction|].
  destruct ov as [| | | | |om]; try contradiction.
  apply wfo_obj in Hw. destruct Hw as [Hs Hf].
  destruct (is_obj base) eqn:Hb.
  2:{ rewrite merge_non_obj_base by exact Hb. rewrite (lookup_non_obj k r base) by exact Hb.
      apply (silent_lookup_none (k :: r) (JObj om)). exact Hsil. }
  destruct base as [| | | | |bm]; try discriminate.
  rewrite merge_obj. cbn [lookup val_get]. rewrite (mgo_get om bm k Hs).
  destruct (bt_get k om) as [x|] eqn:Hx; [|reflexivity].
  destruct Hsil as [Hobj [Hr Hsil]].
  destruct (bt_get k bm) as [bv|].
  - apply IH; [exact (Forall_bt_get wfo om k x Hf Hx)|exact Hsil].
  - apply silent_lookup_none. exact Hsil.
Qed.

(* ------------------------------------------------------------------ nested forms are well formed *)
Lemma Forall_bt_insert : forall (P : text * json -> Prop) k v m, P (k, v) -> Forall P m -> Forall P (bt_insert k v m).
Proof.
  intros P k v m Hkv H. induction H as [|[k' v'] r Hx Hr IH]; cbn [bt_insert]; [repeat constructor; exact Hkv|].
  destruct (text_cmp k k'); repeat constructor; assumption.
Qed.

Lemma bt_insert_sorted : forall k v m, sorted m -> sorted (bt_insert k v m).
Proof.
  intros k v. induction m as [|[k' v'] r IH]; intros Hs; cbn [bt_insert]; [split; [constructor|exact I]|].
  cbn [sorted] in Hs. destruct Hs as [Hlt Hs].
  destruct (text_cmp k k') eqn:E; cbn [sorted].
  - apply text_cmp_eq in E. subst k'. split; assumption.
  - split; [|split; assumption]. constructor; [exact E|].
    unfold lt_all in *. eapply Forall_impl; [|exact Hlt]. intros [k2 v2] H2. cbn [fst] in *.
    eapply text_cmp_lt_trans; eassumption.
  - split; [|apply IH; exact Hs]. apply Forall_bt_insert; [cbn [fst]; apply text_cmp_gt_lt; exact E|exact Hlt].
Qed.

Lemma bt_insert_wfm : forall k v m, wfo v -> wfm m -> wfm (bt_insert k v m).
Proof.
  intros k v m Hv [Hs Hf]. split; [apply bt_insert_sorted; exact Hs|].
  apply Forall_bt_insert; [exact Hv|exact Hf].
Qed.

Lemma sub_obj_wfm : forall m k, wfm m -> wfm (sub_obj (bt_get k m)).
Proof.
  intros m k [Hs Hf]. unfold sub_obj. destruct (bt_get k m) as [y|] eqn:E; [|split; [exact I|constructor]].
  destruct y; try (split; [exact I|constructor]). apply wfo_obj. exact (Forall_bt_get wfo m k _ Hf E).
Qed.

Lemma sp_wfm : forall ks v m, is_obj v = false -> wfm m -> wfm (sp ks v m).
Proof.
  induction ks as [|k rest IH]; intros v m Hv Hm; cbn [sp]; [exact Hm|].
  destruct rest as [|k2 rest'].
  - destruct (holds_obj (bt_get k m)); [exact Hm|]. apply bt_insert_wfm; [apply wfo_non_obj; exact Hv|exact Hm].
  - apply bt_insert_wfm; [|exact Hm]. apply wfo_obj. apply IH; [exact Hv|apply sub_obj_wfm; exact Hm].
Qed.

Lemma fold_ins_wfm : forall it m, leaves_ok it -> wfm m -> wfm (fold_left ins it m).
Proof.
  induction it as [|kv it IH]; intros m Hl Hm; cbn [fold_left]; [exact Hm|].
  inversion Hl; subst. apply IH; [assumption|]. unfold ins. apply sp_wfm; assumption.
Qed.

Lemma normal_wfo : forall it n, leaves_ok it -> to_emmyrc_json it = Val n -> wfo n.
Proof.
  intros it n Hl H. rewrite to_emmyrc_json_fold in H. inversion H; subst.
  apply wfo_obj. apply fold_ins_wfm; [exact Hl|split; [exact I|constructor]].
Qed.

Lemma iter_ok_leaves : forall c, iter_ok c -> leaves_ok (snd c).
Proof.
  intros c H. unfold iter_ok in H. unfold leaves_ok.
  eapply Permutation_Forall; [apply Permutation_sym; exact H|apply parse_leaves].
Qed.

(* ------------------------------------------------------------------ several files *)
Lemma load_list_fold : forall cs, load_list cs = fold_left load_step cs (Val (JObj [])).
Proof. intros cs. unfold load_list, load_configs_raw, config_jsons. cbn [flat_map app]. destruct cs; reflexivity. Qed.

Lemma load_raw_fold : forall files partials,
  load_configs_raw files partials = fold_left load_step (config_jsons files partials) (Val (JObj [])).
Proof. intros. unfold load_configs_raw. destruct (config_jsons files partials); reflexivity. Qed.

Lemma fold_load_val : forall cs a, exists j, fold_left load_step cs (Val a) = Val j.
Proof.
  induction cs as [|c cs IH]; intros a; cbn [fold_left]; [eexists; reflexivity|].
  unfold load_step at 2. rewrite to_emmyrc_json_fold. apply IH.
Qed.

(** the later file wins: the last configuration that has a scalar at [ks], followed only by configurations
    that are silent about [ks] *)
Lemma later_wins_fold : forall cs2 a ks s, Forall iter_ok cs2 ->
  lookup ks a = Some s ->
  (forall c n, In c cs2 -> normal_form c n -> silent ks n) ->
  exists j, fold_left load_step cs2 (Val a) = Val j /\ lookup ks j = Some s.
Proof.
  induction cs2 as [|c cs2 IH]; intros a ks s Hok Ha Hsil; cbn [fold_left].
  - exists a. split; [reflexivity|exact Ha].
  - inversion Hok; subst. unfold load_step at 2. rewrite to_emmyrc_json_fold.
    apply IH; [assumption| |].
    + rewrite lookup_merge_silent; [exact Ha| |].
      * eapply normal_wfo; [apply iter_ok_leaves; eassumption|apply to_emmyrc_json_fold].
      * apply (Hsil c); [left; reflexivity|]. unfold normal_form. apply to_emmyrc_json_fold.
    + intros c' n' Hin Hn. apply (Hsil c'); [right; exact Hin|exact Hn].
Qed.

Lemma later_wins : forall cs1 c cs2 n ks s,
  Forall iter_ok (cs1 ++ c :: cs2) ->
  normal_form c n -> ks <> [] -> lookup ks n = Some s -> scalar s = true ->
  (forall c' n', In c' cs2 -> normal_form c' n' -> silent ks n') ->
  exists j, load_list (cs1 ++ c :: cs2) = Val j /\ lookup ks j = Some s.
Proof.
  intros cs1 c cs2 n ks s Hok Hn Hks Hl Hsc Hsil.
  rewrite load_list_fold, fold_left_app. cbn [fold_left].
  destruct (fold_load_val cs1 (JObj [])) as [a Ha]. rewrite Ha.
  apply Forall_app in Hok. destruct Hok as [_ Hok]. inversion Hok; subst.
  unfold load_step at 2. unfold normal_form in Hn. rewrite Hn.
  apply later_wins_fold; [assumption| |exact Hsil].
  rewrite (lookup_merge ks n a s); [| |exact Hks|exact Hl].
  - destruct (lookup ks a); [rewrite merge_scalar by exact Hsc|]; reflexivity.
  - eapply normal_wfo; [apply iter_ok_leaves; eassumption|exact Hn].
Qed.

(* ================================================================== G. arrays *)
Lemma filter_unseen_spec : forall ov seen,
  NoDup (filter_unseen seen ov) /\
  (forall x, In x (filter_unseen seen ov) -> ~ In x seen /\ In x ov) /\
  (forall x, In x ov -> In x seen \/ In x (filter_unseen seen ov)).
Proof.
  induction ov as [|y r IH]; intros seen; cbn [filter_unseen].
  - split; [constructor|]. split; [intros x []|intros x []].
  - destruct (json_mem y seen) eqn:E.
    + destruct (IH seen) as [H1 [H2 H3]]. split; [exact H1|]. split.
      * intros x Hx. destruct (H2 x Hx) as [Ha Hb]. split; [exact Ha|right; exact Hb].
      * intros x [->|Hx]; [left; apply json_mem_In; exact E|apply H3; exact Hx].
    + destruct (IH (y :: seen)) as [H1 [H2 H3]]. apply json_mem_false in E. split; [|split].
      * constructor; [|exact H1]. intros Hin. destruct (H2 y Hin) as [Ha _]. apply Ha. left. reflexivity.
      * intros x [->|Hx]; [split; [exact E|left; reflexivity]|].
        destruct (H2 x Hx) as [Ha Hb]. split; [|right; exact Hb]. intros Hin. apply Ha. right. exact Hin.
      * intros x [->|Hx]; [right; left; reflexivity|].
        destruct (H3 x Hx) as [[->|Hs]|Hf]; [right; left; reflexivity|left; exact Hs|right; right; exact Hf].
Qed.

Lemma nodup_app : forall (A : Type) (a b : list A), NoDup a -> NoDup b -> (forall x, In x b -> ~ In x a) -> NoDup (a ++ b).
Proof.
  intros A a b Ha Hb Hd. induction Ha as [|x a Hx Ha IH]; cbn [app]; [exact Hb|].
  constructor.
  - intros Hin. apply in_app_or in Hin. destruct Hin as [Hin|Hin]; [contradiction|]. apply (Hd x Hin). left. reflexivity.
  - apply IH. intros y Hy Hin. apply (Hd y Hy). right. exact Hin.
Qed.

Lemma arrays_nodup : forall ba oa, exists added,
  merge_values (JArr ba) (JArr oa) = JArr (ba ++ added) /\
  NoDup added /\
  (forall x, In x added -> ~ In x ba /\ In x oa) /\
  (forall x, In x oa -> In x ba \/ In x added) /\
  (NoDup ba -> NoDup (ba ++ added)).
Proof.
  intros ba oa. exists (filter_unseen ba oa). destruct (filter_unseen_spec oa ba) as [H1 [H2 H3]].
  split; [reflexivity|]. split; [exact H1|]. split; [exact H2|]. split; [exact H3|].
  intros Hnd. apply nodup_app; [exact Hnd|exact H1|]. intros x Hx. destruct (H2 x Hx) as [Ha _]. exact Ha.
Qed.

Lemma filter_unseen_all_seen : forall ov seen, (forall x, In x ov -> In x seen) -> filter_unseen seen ov = [].
Proof.
  induction ov as [|y r IH]; intros seen H; cbn [filter_unseen]; [reflexivity|].
  assert (E : json_mem y seen = true) by (apply json_mem_In; apply H; left; reflexivity).
  rewrite E. apply IH. intros x Hx. apply H. right. exact Hx.
Qed.

(** loading the same array again changes nothing *)
Lemma array_again : forall ba, merge_values (JArr ba) (JArr ba) = JArr ba.
Proof.
  intros ba. cbn [merge_values]. rewrite filter_unseen_all_seen by auto. rewrite app_nil_r. reflexivity.
Qed.

(** the array at a path of the merged configuration *)
Lemma arrays_at_path : forall ks base ov ba oa, wfo ov -> ks <> [] ->
  lookup ks base = Some (JArr ba) -> lookup ks ov = Some (JArr oa) ->
  lookup ks (merge_values base ov) = Some (JArr (ba ++ filter_unseen ba oa)).
Proof.
  intros ks base ov ba oa Hw Hks Hb Ho. rewrite (lookup_merge ks ov base (JArr oa) Hw Hks Ho). rewrite Hb. reflexivity.
Qed.

(* ================================================================== H. a setting of a file in its nested form *)
Lemma lookup_sp_new : forall ks s, ks <> [] -> lookup ks (JObj (sp ks s [])) = Some s.
Proof.
  induction ks as [|k r IH]; intros s Hne; [congruence|].
  cbn [sp]. destruct r as [|k2 r'].
  - cbn [bt_get holds_obj bt_insert lookup val_get]. rewrite text_eqb_refl. reflexivity.
  - cbn [bt_get sub_obj bt_insert]. cbn [lookup val_get bt_get]. rewrite text_eqb_refl.
    apply IH. discriminate.
Qed.

(** setting another key [ks'] keeps the scalar at [ks], unless [ks'] goes through [ks] *)
Lemma lookup_sp_preserved : forall ks' ks m v' s,
  lookup ks (JObj m) = Some s -> is_obj s = false -> (forall ext, ks' <> ks ++ ext) ->
  lookup ks (JObj (sp ks' v' m)) = Some s.
Proof.
  induction ks' as [|k' r' IH]; intros ks m v' s Hl Hs Hpre; [exact Hl|].
  destruct ks as [|k r].
  { cbn [lookup] in Hl. inversion Hl; subst. discriminate. }
  rewrite sp_cons. cbn [lookup val_get] in *.
  destruct (text_eq_dec k k') as [<-|Hk].
  2:{ rewrite bt_get_upd_other by exact Hk. exact Hl. }
  destruct (bt_get k m) as [x|] eqn:Hx; [|discriminate].
  destruct r' as [|a' r0'].
  - (* ks' = [k] : a leaf never replaces the object above [ks] *)
    destruct r as [|a r0]; [exfalso; apply (Hpre []); reflexivity|].
    assert (Hobj : is_obj x = true).
    { destruct x; try reflexivity; cbn [lookup val_get] in Hl; discriminate. }
    cbn [slot holds_obj]. rewrite Hobj. cbn [upd]. rewrite Hx. exact Hl.
  - cbn [slot upd]. rewrite bt_get_insert_same.
    destruct r as [|a r0].
    + exfalso. apply (Hpre (a' :: r0')). reflexivity.
    + destruct x as [| | | | |o]; cbn [lookup val_get] in Hl; try discriminate.
      cbn [sub_obj]. apply IH; [exact Hl|exact Hs|].
      intros ext E. apply (Hpre ext). cbn [app]. rewrite E. reflexivity.
Qed.

Lemma fold_ins_preserved : forall rest m ks s,
  lookup ks (JObj m) = Some s -> is_obj s = false ->
  (forall kv, In kv rest -> forall ext, split_dot (fst kv) <> ks ++ ext) ->
  lookup ks (JObj (fold_left ins rest m)) = Some s.
Proof.
  induction rest as [|kv rest IH]; intros m ks s Hl Hs Hpre; cbn [fold_left]; [exact Hl|].
  apply IH; [|exact Hs|].
  - unfold ins. apply lookup_sp_preserved; [exact Hl|exact Hs|]. apply Hpre. left. reflexivity.
  - intros kv' Hin. apply Hpre. right. exact Hin.
Qed.

(** a file that gives the key [k] (in whichever spelling: [parse] has already forgotten it) the value [s],
    and no other key that extends [k], has [s] at the path of [k] in its nested form *)
Lemma setting_in_normal_form : forall v it k s n,
  Permutation it (parse v) -> In (k, s) (parse v) ->
  (forall k' s', In (k', s') (parse v) -> k' <> k -> forall ext, split_dot k' <> split_dot k ++ ext) ->
  to_emmyrc_json it = Val n -> lookup (split_dot k) n = Some s.
Proof.
  intros v it k s n Hit Hin Hpre Hn.
  rewrite (normal_form_iter v it Hit) in Hn.
  destruct (in_split _ _ Hin) as [l1 [l2 E]].
  assert (HP : Permutation (parse v) ((k, s) :: l1 ++ l2)).
  { rewrite E. apply Permutation_sym. apply Permutation_middle. }
  rewrite (normal_form_perm _ _ HP (parse_nodup v) (parse_leaves v)) in Hn.
  rewrite to_emmyrc_json_fold in Hn. inversion Hn; subst n. cbn [fold_left]. unfold ins at 2. cbn [fst snd].
  assert (Hs : is_obj s = false).
  { pose proof (parse_leaves v) as Hl. unfold leaves_ok in Hl. rewrite Forall_forall in Hl. apply (Hl (k, s) Hin). }
  apply fold_ins_preserved; [apply lookup_sp_new; apply split_dot_nonempty|exact Hs|].
  intros [k' s'] Hin' ext. cbn [fst].
  assert (Hin2 : In (k', s') (parse v)).
  { rewrite E. apply in_or_app. apply in_app_or in Hin'. destruct Hin' as [H|H]; [left; exact H|right; right; exact H]. }
  apply (Hpre k' s' Hin2).
  intros ->. pose proof (parse_nodup v) as Hnd. rewrite E in Hnd. rewrite map_app in Hnd. cbn [map fst] in Hnd.
  apply NoDup_remove_2 in Hnd. apply Hnd. rewrite <- map_app.
  change k with (fst (k, s')). apply in_map. exact Hin'.
Qed.

(* ================================================================== I. determinism *)
Lemma cfg_equiv_normal : forall c c', cfg_equiv c c' -> to_emmyrc_json (snd c) = to_emmyrc_json (snd c').
Proof.
  intros [v it] [v' it'] [Hv [H1 H2]]. cbn [fst snd] in *. subst v'.
  rewrite (normal_form_iter v it H1), (normal_form_iter v it' H2). reflexivity.
Qed.

Lemma fold_load_equiv : forall cs cs', Forall2 cfg_equiv cs cs' ->
  forall a, fold_left load_step cs a = fold_left load_step cs' a.
Proof.
  induction 1 as [|c c' cs cs' Hc Hcs IH]; intros a; cbn [fold_left]; [reflexivity|].
  assert (E : load_step a c = load_step a c').
  { unfold load_step. rewrite (cfg_equiv_normal c c' Hc). reflexivity. }
  rewrite E. apply IH.
Qed.

Lemma config_jsons_equiv : forall files files' partials partials',
  Forall2 file_equiv files files' -> Forall2 cfg_equiv partials partials' ->
  Forall2 cfg_equiv (config_jsons files partials) (config_jsons files' partials').
Proof.
  intros files files' partials partials' Hf Hp. unfold config_jsons. apply Forall2_app; [|exact Hp].
  induction Hf as [|f f' fs fs' Hff Hfs IH]; cbn [flat_map]; [constructor|].
  apply Forall2_app; [|exact IH].
  destruct f as [| |v it], f' as [| |v' it']; cbn [file_equiv] in Hff; try contradiction; cbn [file_jsons].
  - constructor.
  - constructor.
  - constructor; [exact Hff|constructor].
Qed.

(** the same files in the same order give the same configuration, whatever order the hash maps are
    iterated in *)
Lemma merge_deterministic : forall (C : Type) (decode : json -> option C) (dflt : C) files files' partials partials',
  Forall2 file_equiv files files' -> Forall2 cfg_equiv partials partials' ->
  load_configs_raw files partials = load_configs_raw files' partials' /\
  load_configs decode dflt files partials = load_configs decode dflt files' partials'.
Proof.
  intros C decode dflt files files' partials partials' Hf Hp.
  assert (H : load_configs_raw files partials = load_configs_raw files' partials').
  { rewrite !load_raw_fold. apply fold_load_equiv. apply config_jsons_equiv; assumption. }
  split; [exact H|]. unfold load_configs. rewrite H. reflexivity.
Qed.

(* ================================================================== examples *)
Definition k_diag_enable : text := [100;105;97;103;110;111;115;116;105;99;115;46;101;110;97;98;108;101].
Definition k_diag : text := [100;105;97;103;110;111;115;116;105;99;115].
Definition k_enable : text := [101;110;97;98;108;101].
Definition k_globals : text := [103;108;111;98;97;108;115].
Definition ex_flat (b : bool) : json := JObj [(k_diag_enable, JBool b)].
Definition ex_nested (b : bool) : json := JObj [(k_diag, JObj [(k_enable, JBool b)])].
Definition ex_cfg (v : json) : cfg_json := (v, parse v).
Definition ex_cfg_rev (v : json) : cfg_json := (v, rev (parse v)).

(** the two defects of the unchanged tree, on the repaired model: the later file wins in both orders and
    both spellings; the same globals twice stay one *)
Lemma later_wins_example :
  load_list [ex_cfg (ex_flat false); ex_cfg (ex_nested true)] = Val (ex_nested true) /\
  load_list [ex_cfg (ex_nested true); ex_cfg (ex_flat false)] = Val (ex_nested false) /\
  load_list [ex_cfg (ex_flat false); ex_cfg (ex_flat true)] = Val (ex_nested true) /\
  lookup [k_diag; k_enable] (ex_nested true) = Some (JBool true) /\
  silent [k_diag; k_enable] (JObj [(k_diag, JObj [(k_globals, JArr [])])]).
Proof. vm_compute. repeat split; try reflexivity; intros H; discriminate H. Qed.

Lemma arrays_example :
  let g := JObj [(k_diag, JObj [(k_globals, JArr [JStr [97]])])] in
  let h := JObj [(k_diag ++ DOT :: k_globals, JArr [JStr [98]; JStr [97]; JStr [98]])] in
  load_list [ex_cfg g; ex_cfg g] = Val g /\
  load_list [ex_cfg g; ex_cfg h] = Val (JObj [(k_diag, JObj [(k_globals, JArr [JStr [97]; JStr [98]])])]).
Proof. vm_compute. split; reflexivity. Qed.

Lemma flat_eq_nested_example :
  let v1 := JObj [([97], JObj [([100], JNull)]); ([97;45;99], JNum 2); ([97;46;98], JNum 1)] in
  let v2 := JObj [([97], JObj [([98], JNum 1); ([100], JNull)]); ([97;45;99], JNum 2)] in
  NoDup (map fst (settings v1)) /\ Permutation (parse v1) (parse v2) /\
  to_emmyrc_json (rev (parse v1)) = to_emmyrc_json (parse v2) /\
  to_emmyrc_json (parse v2) = Val v2.
Proof.
  cbv zeta. split; [|split; [|split]].
  - vm_compute. repeat constructor; cbn; intuition discriminate.
  - vm_compute.
    match goal with |- Permutation [?a; ?b; ?c] _ => apply Permutation_sym; exact (Permutation_cons_append [a; b] c) end.
  - vm_compute. reflexivity.
  - vm_compute. reflexivity.
Qed.

Lemma merge_deterministic_example :
  let v := JObj [([97], JNum 1); ([97;46;98], JNum 2); ([99], JNull); ([99;46;100], JNum 3)] in
  Forall2 file_equiv [Parsed v (parse v); Invalid] [Parsed v (rev (parse v)); Invalid] /\
  load_configs_raw [Parsed v (parse v); Invalid] [] = load_configs_raw [Parsed v (rev (parse v)); Invalid] [] /\
  load_configs_raw [Parsed v (parse v); Invalid] [] = Val (JObj [([97], JObj [([98], JNum 2)]); ([99], JObj [([100], JNum 3)])]).
Proof.
  cbv zeta. split; [|split; vm_compute; reflexivity].
  constructor; [|constructor; [exact I|constructor]].
  cbn [file_equiv]. unfold cfg_equiv. cbn [fst snd]. split; [reflexivity|]. split; [apply Permutation_refl|].
  apply Permutation_sym. apply Permutation_rev.
Qed.
