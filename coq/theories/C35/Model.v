(** C35/Model.v — the JSON documentation export of emmylua_doc_cli
    (crates/emmylua_doc_cli/src/json_generator/export.rs: [export_modules], [export_types],
    [export_globals], [export_loc_for_type]) as "render (sort (iterate the index))".
    Executable definitions only.

    The index maps ([file_module_map], [full_name_type_map], [global_decl]) are hash maps: the
    order in which their entries are enumerated is an input of the model (the argument lists),
    and the theorems quantify over every permutation of it.  Which functions sort / de-duplicate
    is not written here by hand: the flags come from [Gen.C35_sort], regenerated from the source
    on every run.  Rendering of one entry (members, types, descriptions) is abstract: an
    exported entry is represented by the index item it was rendered from. *)
From Coq Require Export List NArith Bool.
From EV Require Export Base.Perm.
From EV Require Import Gen.C35_sort.
Export ListNotations.
Local Open Scope N_scope.

Definition text := list N.          (* a string: its code points (Rust compares bytes = code points) *)
Definition path := list text.       (* a PathBuf: its components (Rust compares paths by component) *)
Definition path_cmp : path -> path -> comparison := list_cmp text_cmp.

(** one entry of [LuaModuleIndex::file_module_map] *)
Record module_info := {
  mi_file : N;                 (* FileId: the key of the map *)
  mi_path : option path;       (* vfs.get_file_path(file_id) *)
  mi_name : text;              (* full_module_name *)
  mi_main : bool;              (* module_index.is_main(file_id) *)
  mi_export : bool             (* export_type.is_some(): the file returns something *)
}.

(** one declaration location of a type *)
Record loc := {
  l_path : option path;        (* None: the vfs has no document for the file *)
  l_start : N;                 (* range.start() *)
  l_line : N;                  (* 1-based line *)
  l_main : bool                (* module_index.is_main(loc.file_id) *)
}.

(** one entry of [LuaTypeIndex::full_name_type_map] *)
Record type_decl := {
  td_id : N;                   (* stands for the LuaTypeDeclId: the key of the map *)
  td_name : text;              (* get_full_name() *)
  td_kind : N;                 (* 0 class, 1 enum, 2 alias, other: not exported *)
  td_locs : list loc
}.

(** one declaration id of [LuaGlobalIndex::global_decl] (flattened by [get_all_global_decl_ids]) *)
Record global_decl := {
  g_name : option text;        (* decl_index.get_decl(id).map(name) *)
  g_path : option path;
  g_pos : N;                   (* LuaDeclId.position *)
  g_line : N;
  g_main : bool;               (* module_index.is_main(id.file_id) *)
  g_typed : bool               (* the decl exists and has a type cache: the [?]s of the filter_map *)
}.

Definition sort_if {A K : Type} (b : bool) (key : A -> K) (cmp : K -> K -> comparison) (l : list A) : list A :=
  if b then isort key cmp l else l.

(** ** modules *)
(** the sort key: the module name, then (when the code's comparator has it — [Gen.C35_sort]) the file path *)
Definition mkey_k (with_path : bool) (m : module_info) : text * option path :=
  (mi_name m, if with_path then mi_path m else None).
Definition mkey := mkey_k modules_key_has_path.
Definition mkey_cmp := pair_cmp text_cmp (opt_cmp path_cmp).

Definition export_modules_k (with_path sorted skip : bool) (ms : list module_info) : list module_info :=
  filter (fun m => negb (skip && negb (mi_export m)))
         (filter mi_main (sort_if sorted (mkey_k with_path) mkey_cmp ms)).
Definition export_modules_f := export_modules_k modules_key_has_path.

Definition export_modules : list module_info -> list module_info :=
  export_modules_f modules_sorted modules_skip_no_export.

(** ** types *)
Definition lkey (l : loc) : option path * N := (l_path l, l_start l).
Definition lkey_cmp := pair_cmp (opt_cmp path_cmp) N.compare.
(** the sorted declaration sites of a type: they identify the declaration (one site declares one type) *)
Definition tlocs (t : type_decl) : list (option path * N) := isort (fun k => k) lkey_cmp (map lkey (td_locs t)).
Definition tkey_k (with_locs : bool) (t : type_decl) : text * list (option path * N) :=
  (td_name t, if with_locs then tlocs t else []).
Definition tkey := tkey_k types_key_has_locs.
Definition tkey_cmp := pair_cmp text_cmp (list_cmp lkey_cmp).

Definition type_is_main (t : type_decl) : bool := existsb l_main (td_locs t).
Definition type_exported_kind (t : type_decl) : bool := td_kind t <? 3.

(** [export_loc_for_type]: locations with a document, sorted by (file, line) *)
Fixpoint rendered_locs (ls : list loc) : list (path * N) :=
  match ls with
  | [] => []
  | l :: r => match l_path l with
              | Some p => (p, l_line l) :: rendered_locs r
              | None => rendered_locs r
              end
  end.
Definition rloc_cmp := pair_cmp path_cmp N.compare.
Definition export_locs_f (sorted : bool) (t : type_decl) : list (path * N) :=
  sort_if sorted (fun k => k) rloc_cmp (rendered_locs (td_locs t)).

Definition export_types_f (sorted locs_sorted : bool) (ts : list type_decl) : list (type_decl * list (path * N)) :=
  map (fun t => (t, export_locs_f locs_sorted t))
      (filter type_exported_kind (sort_if sorted tkey tkey_cmp (filter type_is_main ts))).

Definition export_types := export_types_f types_sorted type_locs_sorted.

(** ** globals *)
(** the declaration id (file, position) identifies a global declaration *)
Definition gid (g : global_decl) : option path * N := (g_path g, g_pos g).
(** [str::to_lowercase] on ASCII letters (enough to tell exact from case-folded keys) *)
Definition fold_case (t : text) : text := map (fun c => if (65 <=? c) && (c <=? 90) then c + 32 else c) t.
(** the name component of the sort key: the exact name — the one [dedup_by] compares — when the
    code's key expression is the reviewed one ([Gen.C35_sort.globals_key_exact_name]); [exact =
    false] stands for a key that identifies names the de-duplication tells apart *)
Definition gkey_n (exact with_id : bool) (g : global_decl) : option text * (option path * N) :=
  (if exact then g_name g else option_map fold_case (g_name g), if with_id then gid g else (None, 0)).
Definition gkey_k := gkey_n globals_key_exact_name.
Definition gkey := gkey_k globals_key_has_decl_id.
Definition gkey_cmp := pair_cmp (opt_cmp text_cmp) (pair_cmp (opt_cmp path_cmp) N.compare).
Definition gname_cmp := opt_cmp text_cmp.

Definition global_rendered (g : global_decl) : bool :=
  match g_name g with Some _ => g_typed g | None => false end.

Definition export_globals_n (exact sorted dedupf : bool) (gs : list global_decl) : list global_decl :=
  let rendered := filter global_rendered (sort_if sorted (gkey_n exact globals_key_has_decl_id) gkey_cmp (filter g_main gs)) in
  if dedupf then dedup g_name gname_cmp rendered else rendered.
Definition export_globals_f := export_globals_n globals_key_exact_name.

Definition export_globals := export_globals_f globals_sorted globals_dedup.

(** ** the whole export *)
Definition export (ms : list module_info) (ts : list type_decl) (gs : list global_decl) :=
  (export_modules ms, export_types ts, export_globals gs).

(** structural facts of the index: distinct files have distinct paths, distinct type
    declarations have distinct declaration sites, distinct global declarations differ in file or
    position.  The sort keys identify the entries ([wf_*]) when they contain these components. *)
Definition modules_distinct (ms : list module_info) : Prop := NoDup (map mi_path ms).
Definition types_distinct (ts : list type_decl) : Prop := NoDup (map tlocs (filter type_is_main ts)).
Definition globals_distinct (gs : list global_decl) : Prop := NoDup (map gid (filter g_main gs)).
Definition wf_modules (ms : list module_info) : Prop := NoDup (map mkey ms).
Definition wf_types (ts : list type_decl) : Prop := NoDup (map tkey (filter type_is_main ts)).
Definition wf_globals (gs : list global_decl) : Prop := NoDup (map gkey (filter g_main gs)).

(** number of items of [l] whose [key] is [k] *)
Definition occ {A K : Type} (key : A -> K) (cmp : K -> K -> comparison) (k : K) (l : list A) : nat :=
  length (filter (fun y => match cmp (key y) k with Eq => true | _ => false end) l).

(** ** index CONTENT that is merged in analysis order
    The super types (and the description) of a class declared in several files are merged per
    declaration, in the order in which [EmmyLuaAnalysis::update_files_by_uri] hands the files
    to the analyzer: the iteration order of a [HashSet], sorted by file id when
    [Gen.C35_sort.update_files_sorted].  [parts] lists the declarations as the hash set
    enumerates their files.  (Small content model; not part of the correspondence check.) *)
Record class_part := { cp_file : N; cp_bases : list text }.
Definition merged_bases_f (sorted : bool) (parts : list class_part) : list text :=
  flat_map cp_bases (sort_if sorted cp_file N.compare parts).
Definition merged_bases := merged_bases_f update_files_sorted.
