(** C35/Proofs.v — lemmas: the export is a function of the index as a multiset (sorting
    with entry-identifying keys), every main-workspace item is rendered exactly once. *)
From Coq Require Import Permutation Sorting.Sorted Lia.
From EV Require Import C35.Model Gen.C35_sort.
Local Open Scope N_scope.

(** * generic list facts *)
Lemma perm_filter : forall A (p : A -> bool) l l', Permutation l l' -> Permutation (filter p l) (filter p l').
Proof.
  induction 1; cbn [filter].
  - constructor.
  - destruct (p x); [apply perm_skip|]; assumption.
  - destruct (p x), (p y); try apply Permutation_refl. apply perm_swap.
  - eapply perm_trans; eassumption.
Qed.

Lemma sort_if_perm : forall A K b (key : A -> K) cmp l, Permutation (sort_if b key cmp l) l.
Proof. intros. destruct b; cbn [sort_if]; [apply isort_perm|apply Permutation_refl]. Qed.

Lemma filter_true : forall A (l : list A), filter (fun _ => true) l = l.
Proof. induction l as [|x r IH]; cbn [filter]; [reflexivity|]. rewrite IH. reflexivity. Qed.

Lemma occ_perm : forall A K (key : A -> K) cmp k l l', Permutation l l' -> occ key cmp k l = occ key cmp k l'.
Proof. intros. unfold occ. apply Permutation_length. apply perm_filter. assumption. Qed.

Lemma occ_zero : forall A K (key : A -> K) cmp k l, total_order cmp ->
  (forall y, In y l -> key y <> k) -> occ key cmp k l = 0%nat.
Proof.
  intros A K key cmp k l Ho. unfold occ. induction l as [|x r IH]; intros H; cbn [filter length]; [reflexivity|].
  destruct (cmp (key x) k) eqn:E.
  - exfalso. apply (H x); [left; reflexivity|]. apply (to_eq _ Ho). exact E.
  - apply IH. intros y Hy. apply H. right. exact Hy.
  - apply IH. intros y Hy. apply H. right. exact Hy.
Qed.

Lemma occ_one : forall A K (key : A -> K) cmp l x, total_order cmp ->
  NoDup (map key l) -> In x l -> occ key cmp (key x) l = 1%nat.
Proof.
  intros A K key cmp l x Ho. induction l as [|y r IH]; intros Hnd Hin; [destruct Hin|].
  cbn [map] in Hnd. inversion Hnd as [|? ? Hy Hr]; subst.
  unfold occ. cbn [filter]. destruct Hin as [Hin|Hin].
  - subst y. rewrite (to_refl _ Ho). cbn [length]. f_equal.
    apply (occ_zero _ _ key cmp (key x) r Ho). intros z Hz Heq. apply Hy. rewrite <- Heq. apply in_map. exact Hz.
  - destruct (cmp (key y) (key x)) eqn:E.
    + exfalso. apply Hy. apply (to_eq _ Ho) in E. rewrite E. apply in_map. exact Hin.
    + apply IH; assumption.
    + apply IH; assumption.
Qed.

Lemma occ_map : forall A B K (f : A -> B) (key : B -> K) cmp k l,
  occ key cmp k (map f l) = occ (fun a => key (f a)) cmp k l.
Proof.
  intros. unfold occ. induction l as [|x r IH]; cbn [map filter]; [reflexivity|].
  destruct (cmp (key (f x)) k); cbn [length]; rewrite ?IH; reflexivity.
Qed.

Lemma occ_map_fst : forall A B K (f : A -> B) (key : A -> K) cmp k l,
  occ (fun e => key (fst e)) cmp k (map (fun a => (a, f a)) l) = occ key cmp k l.
Proof.
  intros. unfold occ. induction l as [|x r IH]; cbn [map filter fst]; [reflexivity|].
  destruct (cmp (key x) k); cbn [length]; rewrite ?IH; reflexivity.
Qed.

Lemma NoDup_map_filter : forall A K (key : A -> K) p l, NoDup (map key l) -> NoDup (map key (filter p l)).
Proof.
  induction l as [|x r IH]; intros H; cbn [filter map]; [constructor|].
  cbn [map] in H. inversion H as [|? ? Hx Hr]; subst.
  destruct (p x); [|apply IH; exact Hr].
  cbn [map]. constructor; [|apply IH; exact Hr].
  intros Hin. apply Hx. apply in_map_iff in Hin. destruct Hin as (z & Hz1 & Hz2).
  apply filter_In in Hz2. rewrite <- Hz1. apply in_map. apply Hz2.
Qed.

Lemma NoDup_map_inj : forall A K (key : A -> K) l x y,
  NoDup (map key l) -> In x l -> In y l -> key x = key y -> x = y.
Proof.
  induction l as [|z r IH]; intros x y H Hx Hy Heq; [destruct Hx|].
  cbn [map] in H. inversion H as [|? ? Hz Hr]; subst.
  destruct Hx as [Hx|Hx], Hy as [Hy|Hy]; subst.
  - reflexivity.
  - exfalso. apply Hz. rewrite Heq. apply in_map. exact Hy.
  - exfalso. apply Hz. rewrite <- Heq. apply in_map. exact Hx.
  - apply IH; assumption.
Qed.

Lemma StronglySorted_weaken : forall A (R S : A -> A -> Prop) l,
  (forall x y, R x y -> S x y) -> StronglySorted R l -> StronglySorted S l.
Proof.
  intros A R S l H. induction 1 as [|x r Hr IH Hall]; constructor; [exact IH|].
  eapply Forall_impl; [|exact Hall]. intros z. apply H.
Qed.

(** * the orders *)
Lemma path_total_order : total_order path_cmp.
Proof. apply list_total_order. exact text_total_order. Qed.
Lemma mkey_total_order : total_order mkey_cmp.
Proof. apply pair_total_order; [exact text_total_order|apply opt_total_order; exact path_total_order]. Qed.
Lemma lkey_total_order : total_order lkey_cmp.
Proof. apply pair_total_order; [apply opt_total_order; exact path_total_order|exact N_total_order]. Qed.
Lemma tkey_total_order : total_order tkey_cmp.
Proof. apply pair_total_order; [exact text_total_order|apply list_total_order; exact lkey_total_order]. Qed.
Lemma gname_total_order : total_order gname_cmp.
Proof. apply opt_total_order. exact text_total_order. Qed.
Lemma gkey_total_order : total_order gkey_cmp.
Proof. apply pair_total_order; [exact gname_total_order|exact lkey_total_order]. Qed.
Lemma rloc_total_order : total_order rloc_cmp.
Proof. apply pair_total_order; [exact path_total_order|exact N_total_order]. Qed.

(** * the keys identify the entries *)
Lemma NoDup_map_pair_r : forall A B C (f : A -> B) (g : A -> C) l,
  NoDup (map g l) -> NoDup (map (fun x => (f x, g x)) l).
Proof.
  induction l as [|x r IH]; intros H; cbn [map]; [constructor|].
  cbn [map] in H. inversion H as [|? ? Hx Hr]; subst. constructor; [|apply IH; exact Hr].
  intros Hin. apply Hx. apply in_map_iff in Hin. destruct Hin as (y & Hy1 & Hy2).
  apply in_map_iff. exists y. split; [congruence|exact Hy2].
Qed.

Lemma wf_modules_of_distinct : forall ms, modules_distinct ms -> wf_modules ms.
Proof. intros ms H. unfold wf_modules, mkey, mkey_k, modules_key_has_path. apply NoDup_map_pair_r. exact H. Qed.
Lemma wf_types_of_distinct : forall ts, types_distinct ts -> wf_types ts.
Proof. intros ts H. unfold wf_types, tkey, tkey_k, types_key_has_locs. apply NoDup_map_pair_r. exact H. Qed.
Lemma wf_globals_of_distinct : forall gs, globals_distinct gs -> wf_globals gs.
Proof. intros gs H. unfold wf_globals, gkey, gkey_k, gkey_n, globals_key_exact_name, globals_key_has_decl_id. apply NoDup_map_pair_r. exact H. Qed.

(** * reproducibility *)
Lemma modules_reproducible : forall ms ms',
  wf_modules ms -> Permutation ms ms' -> export_modules ms = export_modules ms'.
Proof.
  intros ms ms' Hwf Hp. unfold export_modules, export_modules_f, export_modules_k, modules_sorted, sort_if. fold mkey.
  rewrite (isort_perm_invariant _ _ mkey mkey_cmp mkey_total_order ms ms' Hwf Hp). reflexivity.
Qed.

Lemma types_reproducible : forall ts ts',
  wf_types ts -> Permutation ts ts' -> export_types ts = export_types ts'.
Proof.
  intros ts ts' Hwf Hp. unfold export_types, export_types_f, types_sorted, sort_if.
  rewrite (isort_perm_invariant _ _ tkey tkey_cmp tkey_total_order
             (filter type_is_main ts) (filter type_is_main ts') Hwf (perm_filter _ _ _ _ Hp)).
  reflexivity.
Qed.

Lemma globals_reproducible : forall gs gs',
  wf_globals gs -> Permutation gs gs' -> export_globals gs = export_globals gs'.
Proof.
  intros gs gs' Hwf Hp. unfold export_globals, export_globals_f, export_globals_n, globals_sorted, sort_if. fold gkey_k. fold gkey.
  rewrite (isort_perm_invariant _ _ gkey gkey_cmp gkey_total_order
             (filter g_main gs) (filter g_main gs') Hwf (perm_filter _ _ _ _ Hp)).
  reflexivity.
Qed.

Lemma export_reproducible : forall ms ms' ts ts' gs gs',
  modules_distinct ms -> types_distinct ts -> globals_distinct gs ->
  Permutation ms ms' -> Permutation ts ts' -> Permutation gs gs' ->
  export ms ts gs = export ms' ts' gs'.
Proof.
  intros. unfold export.
  rewrite (modules_reproducible ms ms'), (types_reproducible ts ts'), (globals_reproducible gs gs');
    auto using wf_modules_of_distinct, wf_types_of_distinct, wf_globals_of_distinct.
Qed.

(** the location list of one type does not depend on the order in which its files were analysed *)
Lemma type_locs_reproducible : forall t t',
  NoDup (rendered_locs (td_locs t)) -> Permutation (td_locs t) (td_locs t') ->
  export_locs_f type_locs_sorted t = export_locs_f type_locs_sorted t'.
Proof.
  intros t t' Hnd Hp. unfold export_locs_f, type_locs_sorted, sort_if.
  assert (forall l l', Permutation l l' -> Permutation (rendered_locs l) (rendered_locs l')) as Hr.
  { induction 1; cbn [rendered_locs].
    - constructor.
    - destruct (l_path x); [apply perm_skip|]; assumption.
    - destruct (l_path x), (l_path y); try apply Permutation_refl. apply perm_swap.
    - eapply perm_trans; eassumption. }
  apply (isort_perm_invariant _ _ (fun k => k) rloc_cmp rloc_total_order).
  - rewrite map_id. exact Hnd.
  - apply Hr. exact Hp.
Qed.

(** * exactly once *)
Lemma modules_complete_once : forall ms m,
  NoDup (map mi_file ms) -> In m ms ->
  occ mi_file N.compare (mi_file m) (export_modules ms) = if mi_main m then 1%nat else 0%nat.
Proof.
  intros ms m Hnd Hin. unfold export_modules, export_modules_f, export_modules_k, modules_skip_no_export.
  cbn [andb negb]. rewrite filter_true.
  rewrite (occ_perm _ _ mi_file N.compare (mi_file m) _ (filter mi_main ms)
             (perm_filter _ mi_main _ _ (sort_if_perm _ _ modules_sorted (mkey_k modules_key_has_path) mkey_cmp ms))).
  destruct (mi_main m) eqn:Em.
  - apply occ_one; [exact N_total_order|apply NoDup_map_filter; exact Hnd|].
    apply filter_In. split; assumption.
  - apply occ_zero; [exact N_total_order|]. intros y Hy Heq.
    apply filter_In in Hy. destruct Hy as [Hy Hmain].
    assert (y = m) by (eapply NoDup_map_inj; eassumption). subst y. congruence.
Qed.

Lemma types_complete_once : forall ts t,
  NoDup (map td_id ts) -> In t ts ->
  occ (fun e => td_id (fst e)) N.compare (td_id t) (export_types ts)
  = if type_is_main t && type_exported_kind t then 1%nat else 0%nat.
Proof.
  intros ts t Hnd Hin. unfold export_types, export_types_f.
  rewrite occ_map_fst.
  set (l := filter type_exported_kind (sort_if types_sorted tkey tkey_cmp (filter type_is_main ts))).
  assert (Permutation l (filter type_exported_kind (filter type_is_main ts))) as Hp.
  { apply perm_filter. apply sort_if_perm. }
  rewrite (occ_perm _ _ td_id N.compare (td_id t) _ _ Hp).
  destruct (type_is_main t && type_exported_kind t) eqn:E.
  - apply andb_true_iff in E. destruct E as [E1 E2].
    apply occ_one; [exact N_total_order|apply NoDup_map_filter, NoDup_map_filter; exact Hnd|].
    apply filter_In. split; [apply filter_In; split; assumption|exact E2].
  - apply occ_zero; [exact N_total_order|]. intros y Hy Heq.
    apply filter_In in Hy. destruct Hy as [Hy Hk]. apply filter_In in Hy. destruct Hy as [Hy Hm].
    assert (y = t) by (eapply NoDup_map_inj; eassumption). subst y.
    rewrite Hm, Hk in E. discriminate.
Qed.

Lemma gkey_le_name : forall x y, lek gkey gkey_cmp x y -> lek g_name gname_cmp x y.
Proof.
  unfold lek, gkey, gkey_k, gkey_n, globals_key_exact_name, gkey_cmp, pair_cmp. cbn [fst snd]. intros x y H Hgt. apply H.
  unfold gname_cmp in Hgt. rewrite Hgt. reflexivity.
Qed.

(** what is rendered before the de-duplication, sorted by name *)
Definition rendered_globals (gs : list global_decl) : list global_decl :=
  filter global_rendered (sort_if globals_sorted gkey gkey_cmp (filter g_main gs)).

Lemma rendered_globals_sorted : forall gs, StronglySorted (lek g_name gname_cmp) (rendered_globals gs).
Proof.
  intros gs. unfold rendered_globals, globals_sorted, sort_if.
  apply StronglySorted_filter. eapply StronglySorted_weaken; [apply gkey_le_name|].
  apply isort_sorted_le. exact gkey_total_order.
Qed.

Lemma rendered_globals_In : forall gs g,
  In g (rendered_globals gs) <-> (In g gs /\ g_main g = true /\ global_rendered g = true).
Proof.
  intros gs g. unfold rendered_globals. rewrite filter_In. split.
  - intros [H1 H2]. apply (Permutation_in _ (sort_if_perm _ _ _ _ _ _)) in H1.
    apply filter_In in H1. tauto.
  - intros (H1 & H2 & H3). split; [|exact H3].
    apply (Permutation_in _ (Permutation_sym (sort_if_perm _ _ _ _ _ _))). apply filter_In. tauto.
Qed.

Lemma export_globals_dedup : forall gs, export_globals gs = dedup g_name gname_cmp (rendered_globals gs).
Proof. reflexivity. Qed.

Lemma globals_subset : forall gs e, In e (export_globals gs) -> In e gs /\ g_main e = true /\ g_typed e = true.
Proof.
  intros gs e H. rewrite export_globals_dedup in H.
  destruct (dedup_sorted_spec _ _ g_name gname_cmp gname_total_order _ (rendered_globals_sorted gs)) as (_ & _ & Hsub).
  apply Hsub in H. apply rendered_globals_In in H. destruct H as (H1 & H2 & H3).
  split; [exact H1|]. split; [exact H2|].
  unfold global_rendered in H3. destruct (g_name e); [exact H3|discriminate].
Qed.

Lemma globals_once : forall gs n,
  (exists g, In g gs /\ g_main g = true /\ g_typed g = true /\ g_name g = Some n) ->
  occ g_name gname_cmp (Some n) (export_globals gs) = 1%nat.
Proof.
  intros gs n (g & H1 & H2 & H3 & H4). rewrite export_globals_dedup.
  destruct (dedup_sorted_spec _ _ g_name gname_cmp gname_total_order _ (rendered_globals_sorted gs)) as (Hnd & Hkeys & _).
  assert (In (Some n) (map g_name (dedup g_name gname_cmp (rendered_globals gs)))) as Hin.
  { apply Hkeys. rewrite <- H4. apply in_map. apply rendered_globals_In.
    split; [exact H1|]. split; [exact H2|]. unfold global_rendered. rewrite H4. exact H3. }
  apply in_map_iff in Hin. destruct Hin as (x & Hx1 & Hx2). rewrite <- Hx1.
  apply occ_one; [exact gname_total_order|exact Hnd|exact Hx2].
Qed.

Lemma globals_none : forall gs n,
  (forall g, In g gs -> g_main g = true -> g_typed g = true -> g_name g <> Some n) ->
  occ g_name gname_cmp (Some n) (export_globals gs) = 0%nat.
Proof.
  intros gs n H. apply occ_zero; [exact gname_total_order|].
  intros y Hy. apply globals_subset in Hy. destruct Hy as (H1 & H2 & H3). apply H; assumption.
Qed.

(** * the flags matter: without the sort / the de-duplication / with the skip the statements fail *)
Definition mA : module_info := {| mi_file := 1; mi_path := Some [[97]]; mi_name := [97]; mi_main := true; mi_export := true |}.
Definition mB : module_info := {| mi_file := 2; mi_path := Some [[98]]; mi_name := [98]; mi_main := true; mi_export := false |}.

Lemma wf_mAB : wf_modules [mA; mB].
Proof.
  unfold wf_modules. cbn. constructor; [|constructor; [|constructor]]; cbn; intuition discriminate.
Qed.

Lemma modules_reproducible_iff_sorted : forall sorted,
  (forall ms ms', wf_modules ms -> Permutation ms ms' ->
     export_modules_f sorted false ms = export_modules_f sorted false ms') <-> sorted = true.
Proof.
  intros sorted. split.
  - intros H. destruct sorted; [reflexivity|]. exfalso.
    specialize (H [mA; mB] [mB; mA] wf_mAB (perm_swap _ _ _)). vm_compute in H. discriminate.
  - intros -> ms ms' Hwf Hp. unfold export_modules_f, export_modules_k, sort_if. fold mkey.
    rewrite (isort_perm_invariant _ _ mkey mkey_cmp mkey_total_order ms ms' Hwf Hp). reflexivity.
Qed.

Definition mC : module_info := {| mi_file := 3; mi_path := Some [[97]; [105]]; mi_name := [97]; mi_main := true; mi_export := true |}.

(** ties of a key that does not identify the module stay in enumeration order *)
Lemma modules_reproducible_iff_key_has_path : forall with_path,
  (forall ms ms', modules_distinct ms -> Permutation ms ms' ->
     export_modules_k with_path true false ms = export_modules_k with_path true false ms') <-> with_path = true.
Proof.
  intros with_path. split.
  - intros H. destruct with_path; [reflexivity|]. exfalso.
    assert (modules_distinct [mA; mC]) as Hd.
    { unfold modules_distinct. cbn. constructor; [|constructor; [|constructor]]; cbn; intuition discriminate. }
    specialize (H [mA; mC] [mC; mA] Hd (perm_swap _ _ _)). vm_compute in H. discriminate.
  - intros -> ms ms' Hd Hp. unfold export_modules_k, sort_if.
    rewrite (isort_perm_invariant _ _ (mkey_k true) mkey_cmp mkey_total_order ms ms'); [reflexivity| |exact Hp].
    unfold mkey_k. apply NoDup_map_pair_r. exact Hd.
Qed.

Lemma modules_complete_iff_not_skipped : forall skip,
  (forall ms m, NoDup (map mi_file ms) -> In m ms -> mi_main m = true ->
     occ mi_file N.compare (mi_file m) (export_modules_f true skip ms) = 1%nat) <-> skip = false.
Proof.
  intros skip. split.
  - intros H. destruct skip; [|reflexivity]. exfalso.
    assert (NoDup (map mi_file [mA; mB])) as Hnd.
    { cbn. constructor; [|constructor; [|constructor]]; cbn; intuition discriminate. }
    specialize (H [mA; mB] mB Hnd (or_intror (or_introl eq_refl)) eq_refl). vm_compute in H. discriminate.
  - intros -> ms m Hnd Hin Hmain. unfold export_modules_f, export_modules_k. cbn [andb negb]. rewrite filter_true.
    rewrite (occ_perm _ _ mi_file N.compare (mi_file m) _ (filter mi_main ms)
               (perm_filter _ mi_main _ _ (sort_if_perm _ _ true (mkey_k modules_key_has_path) mkey_cmp ms))).
    apply occ_one; [exact N_total_order|apply NoDup_map_filter; exact Hnd|].
    apply filter_In. split; assumption.
Qed.

Definition gA1 : global_decl := {| g_name := Some [71]; g_path := Some [[97]]; g_pos := 0; g_line := 1; g_main := true; g_typed := true |}.
Definition gA2 : global_decl := {| g_name := Some [71]; g_path := Some [[98]]; g_pos := 4; g_line := 2; g_main := true; g_typed := true |}.

Lemma globals_once_iff_dedup : forall dedupf,
  (forall gs n, (exists g, In g gs /\ g_main g = true /\ g_typed g = true /\ g_name g = Some n) ->
     occ g_name gname_cmp (Some n) (export_globals_f true dedupf gs) = 1%nat) <-> dedupf = true.
Proof.
  intros dedupf. split.
  - intros H. destruct dedupf; [reflexivity|]. exfalso.
    specialize (H [gA1; gA2] [71]).
    assert (exists g, In g [gA1; gA2] /\ g_main g = true /\ g_typed g = true /\ g_name g = Some [71]) as Hex.
    { exists gA1. cbn. auto. }
    specialize (H Hex). vm_compute in H. discriminate.
  - intros -> gs n Hex. apply (globals_once gs n Hex).
Qed.


(** the de-duplication needs the sort to keep equal names adjacent: sorted by the exact name *)
Definition gS1 : global_decl := {| g_name := Some [83]; g_path := Some [[97]]; g_pos := 0; g_line := 1; g_main := true; g_typed := true |}.
Definition gs1 : global_decl := {| g_name := Some [115]; g_path := Some [[97]]; g_pos := 11; g_line := 2; g_main := true; g_typed := true |}.
Definition gS2 : global_decl := {| g_name := Some [83]; g_path := Some [[98]]; g_pos := 0; g_line := 1; g_main := true; g_typed := true |}.

Lemma globals_once_iff_sort_refines_dedup : forall exact,
  (forall gs n, (exists g, In g gs /\ g_main g = true /\ g_typed g = true /\ g_name g = Some n) ->
     occ g_name gname_cmp (Some n) (export_globals_n exact true true gs) = 1%nat) <-> exact = true.
Proof.
  intros exact. split.
  - intros H. destruct exact; [reflexivity|]. exfalso.
    specialize (H [gS1; gs1; gS2] [83]).
    assert (exists g, In g [gS1; gs1; gS2] /\ g_main g = true /\ g_typed g = true /\ g_name g = Some [83]) as Hex.
    { exists gS1. cbn. auto. }
    specialize (H Hex). vm_compute in H. discriminate.
  - intros -> gs n Hex. apply (globals_once gs n Hex).
Qed.

(** * content merged in analysis order *)
Lemma split_class_content_reproducible : forall parts parts',
  NoDup (map cp_file parts) -> Permutation parts parts' -> merged_bases parts = merged_bases parts'.
Proof.
  intros parts parts' Hnd Hp. unfold merged_bases, merged_bases_f, update_files_sorted, sort_if.
  rewrite (isort_perm_invariant _ _ cp_file N.compare N_total_order parts parts' Hnd Hp). reflexivity.
Qed.

Lemma split_class_reproducible_iff_sorted : forall sorted,
  (forall parts parts', NoDup (map cp_file parts) -> Permutation parts parts' ->
     merged_bases_f sorted parts = merged_bases_f sorted parts') <-> sorted = true.
Proof.
  intros sorted. split.
  - intros H. destruct sorted; [reflexivity|]. exfalso.
    specialize (H [ {| cp_file := 1; cp_bases := [[70]] |}; {| cp_file := 2; cp_bases := [[66]] |} ]
                  [ {| cp_file := 2; cp_bases := [[66]] |}; {| cp_file := 1; cp_bases := [[70]] |} ]).
    assert (NoDup (map cp_file [ {| cp_file := 1; cp_bases := [[70]] |}; {| cp_file := 2; cp_bases := [[66]] |} ])) as Hnd.
    { cbn. constructor; [|constructor; [|constructor]]; cbn; intuition discriminate. }
    specialize (H Hnd (perm_swap _ _ _)). vm_compute in H. discriminate.
  - intros -> parts parts' Hnd Hp. unfold merged_bases_f, sort_if.
    rewrite (isort_perm_invariant _ _ cp_file N.compare N_total_order parts parts' Hnd Hp). reflexivity.
Qed.

(** * examples *)
Definition ex_modules : list module_info :=
  [ {| mi_file := 7; mi_path := Some [[109]; [98]]; mi_name := [98]; mi_main := true; mi_export := false |};
    {| mi_file := 3; mi_path := None; mi_name := [115]; mi_main := false; mi_export := true |};
    {| mi_file := 5; mi_path := Some [[109]; [97]]; mi_name := [97]; mi_main := true; mi_export := true |};
    {| mi_file := 9; mi_path := Some [[108]; [97]]; mi_name := [97]; mi_main := false; mi_export := true |} ].

Definition ex_globals : list global_decl :=
  [ {| g_name := Some [71; 50]; g_path := Some [[109]; [98]]; g_pos := 0; g_line := 1; g_main := true; g_typed := true |};
    {| g_name := Some [71; 49]; g_path := Some [[109]; [98]]; g_pos := 9; g_line := 2; g_main := true; g_typed := true |};
    {| g_name := Some [71; 49]; g_path := Some [[109]; [97]]; g_pos := 3; g_line := 1; g_main := true; g_typed := true |};
    {| g_name := Some [76]; g_path := Some [[108]; [97]]; g_pos := 0; g_line := 1; g_main := false; g_typed := true |} ].

Lemma export_example :
  map mi_file (export_modules ex_modules) = [5; 7]
  /\ map mi_file (export_modules (rev ex_modules)) = [5; 7]
  /\ map (fun g => (g_name g, g_line g)) (export_globals ex_globals) = [(Some [71; 49], 1); (Some [71; 50], 1)]
  /\ export_globals (rev ex_globals) = export_globals ex_globals.
Proof. vm_compute. repeat split. Qed.
