(** C35/Props.v — property theorems only.  Each is closed by [exact] of a lemma of Proofs.v.
    The export functions are those of Model.v instantiated with the flags of [Gen.C35_sort]
    (regenerated from crates/emmylua_doc_cli/src/json_generator/export.rs on every run). *)
From Coq Require Import Permutation.
From EV Require Import C35.Model C35.Proofs.
Local Open Scope N_scope.

(** Reproducible: the export does not depend on the order in which the three hash maps of the
    index are enumerated ([ms'], [ts'], [gs'] are arbitrary permutations).  The hypotheses are
    structural facts of any index (distinct files have distinct paths, ...), NOT "the sort keys
    are distinct": that the keys identify the entries is derived from what the code's
    comparators contain (regenerated into [Gen.C35_sort]); items may share names. *)
Theorem export_reproducible : forall ms ms' ts ts' gs gs',
  modules_distinct ms -> types_distinct ts -> globals_distinct gs ->
  Permutation ms ms' -> Permutation ts ts' -> Permutation gs gs' ->
  export ms ts gs = export ms' ts' gs'.
Proof. exact Proofs.export_reproducible. Qed.

(** ... and the location list of a type declared in several files does not depend on the order
    in which its files were analysed. *)
Theorem type_locs_reproducible : forall t t',
  NoDup (rendered_locs (td_locs t)) -> Permutation (td_locs t) (td_locs t') ->
  export_locs_f Gen.C35_sort.type_locs_sorted t = export_locs_f Gen.C35_sort.type_locs_sorted t'.
Proof. exact Proofs.type_locs_reproducible. Qed.

(** Complete, exactly once, nothing foreign — for every enumeration order:
    a module is listed once if its file is in the main workspace and not at all otherwise;
    a type declaration is listed once if it is a class/enum/alias with a declaration in the main
    workspace and not at all otherwise; a global name is listed once if some declaration of it
    lies in the main workspace, not at all otherwise, and every listed global is such a declaration. *)
Theorem export_complete_once :
  (forall ms m, NoDup (map mi_file ms) -> In m ms ->
     occ mi_file N.compare (mi_file m) (export_modules ms) = if mi_main m then 1%nat else 0%nat)
  /\ (forall ts t, NoDup (map td_id ts) -> In t ts ->
        occ (fun e => td_id (fst e)) N.compare (td_id t) (export_types ts)
        = if type_is_main t && type_exported_kind t then 1%nat else 0%nat)
  /\ (forall gs n,
        (exists g, In g gs /\ g_main g = true /\ g_typed g = true /\ g_name g = Some n) ->
        occ g_name gname_cmp (Some n) (export_globals gs) = 1%nat)
  /\ (forall gs n,
        (forall g, In g gs -> g_main g = true -> g_typed g = true -> g_name g <> Some n) ->
        occ g_name gname_cmp (Some n) (export_globals gs) = 0%nat)
  /\ (forall gs e, In e (export_globals gs) -> In e gs /\ g_main e = true /\ g_typed e = true).
Proof.
  exact (conj Proofs.modules_complete_once (conj Proofs.types_complete_once
          (conj Proofs.globals_once (conj Proofs.globals_none Proofs.globals_subset)))).
Qed.

(** The statements hold exactly because the code sorts, de-duplicates and does not skip:
    with the flag off each of them is false. *)
Theorem modules_reproducible_iff_sorted : forall sorted,
  (forall ms ms', wf_modules ms -> Permutation ms ms' ->
     export_modules_f sorted false ms = export_modules_f sorted false ms') <-> sorted = true.
Proof. exact Proofs.modules_reproducible_iff_sorted. Qed.

Theorem modules_reproducible_iff_key_has_path : forall with_path,
  (forall ms ms', modules_distinct ms -> Permutation ms ms' ->
     export_modules_k with_path true false ms = export_modules_k with_path true false ms') <-> with_path = true.
Proof. exact Proofs.modules_reproducible_iff_key_has_path. Qed.

Theorem modules_complete_iff_not_skipped : forall skip,
  (forall ms m, NoDup (map mi_file ms) -> In m ms -> mi_main m = true ->
     occ mi_file N.compare (mi_file m) (export_modules_f true skip ms) = 1%nat) <-> skip = false.
Proof. exact Proofs.modules_complete_iff_not_skipped. Qed.

Theorem globals_once_iff_dedup : forall dedupf,
  (forall gs n, (exists g, In g gs /\ g_main g = true /\ g_typed g = true /\ g_name g = Some n) ->
     occ g_name gname_cmp (Some n) (export_globals_f true dedupf gs) = 1%nat) <-> dedupf = true.
Proof. exact Proofs.globals_once_iff_dedup. Qed.

(** [dedup_by] only merges ADJACENT entries with the same exact name: "exactly once" needs the
    sort key's name component to be that same exact name (pinned: the key expressions of
    export.rs are compared with the reviewed ones on every run); a case-folded key breaks it. *)
Theorem globals_once_iff_sort_refines_dedup : forall exact,
  (forall gs n, (exists g, In g gs /\ g_main g = true /\ g_typed g = true /\ g_name g = Some n) ->
     occ g_name gname_cmp (Some n) (export_globals_n exact true true gs) = 1%nat) <-> exact = true.
Proof. exact Proofs.globals_once_iff_sort_refines_dedup. Qed.

(** The CONTENT of the index entry of a class declared in several files (super types,
    description) is merged per declaration in analysis order.  It does not depend on the hash-set
    order of the batch because [update_files_by_uri] sorts the file ids (flag regenerated from
    crates/emmylua_code_analysis/src/lib.rs) — and only because of that. *)
Theorem split_class_content_reproducible : forall parts parts',
  NoDup (map cp_file parts) -> Permutation parts parts' -> merged_bases parts = merged_bases parts'.
Proof. exact Proofs.split_class_content_reproducible. Qed.

Theorem split_class_reproducible_iff_sorted : forall sorted,
  (forall parts parts', NoDup (map cp_file parts) -> Permutation parts parts' ->
     merged_bases_f sorted parts = merged_bases_f sorted parts') <-> sorted = true.
Proof. exact Proofs.split_class_reproducible_iff_sorted. Qed.

(** non-vacuity: a main module without return value, a std module, a library module with the
    same name as a main one; a global assigned in two main files and a library global *)
Example export_example :
  map mi_file (export_modules ex_modules) = [5; 7]
  /\ map mi_file (export_modules (rev ex_modules)) = [5; 7]
  /\ map (fun g => (g_name g, g_line g)) (export_globals ex_globals) = [(Some [71; 49], 1); (Some [71; 50], 1)]
  /\ export_globals (rev ex_globals) = export_globals ex_globals.
Proof. exact Proofs.export_example. Qed.
