(** C35/Corr.v — executable comparison of what the real [emmylua_doc_cli] binary exported with the
    model's export of the index content (dumped in-process by harness vh_cli/c35).
    Paths are relative to the case directory (a common prefix does not change the order). *)
From EV Require Import C35.Model.
Local Open Scope N_scope.

Fixpoint list_eqb {A B} (eqb : A -> B -> bool) (x : list A) (y : list B) : bool :=
  match x, y with
  | [], [] => true
  | a :: x', b :: y' => eqb a b && list_eqb eqb x' y'
  | _, _ => false
  end.
Definition opt_eqb {A} (eqb : A -> A -> bool) (x y : option A) : bool :=
  match x, y with Some a, Some b => eqb a b | None, None => true | _, _ => false end.
Definition text_eqb : text -> text -> bool := list_eqb N.eqb.
Definition path_eqb : path -> path -> bool := list_eqb text_eqb.

Record case := {
  c_modules : list module_info;
  c_types : list type_decl;
  c_globals : list global_decl;
  c_obs_modules : list (text * option path);            (* name, file *)
  c_obs_types : list (N * text * list (path * N));      (* kind, name, loc (file, line) *)
  c_obs_globals : list (text * option path * N)         (* name, loc.file, loc.line *)
}.

Definition check_case (c : case) : bool :=
  list_eqb (fun m o => text_eqb (mi_name m) (fst o) && opt_eqb path_eqb (mi_path m) (snd o))
           (export_modules (c_modules c)) (c_obs_modules c)
  && list_eqb (fun e o => let '(t, ls) := e in let '(k, n, ols) := o in
                 (td_kind t =? k) && text_eqb (td_name t) n
                 && list_eqb (fun a b => path_eqb (fst a) (fst b) && (snd a =? snd b)) ls ols)
              (export_types (c_types c)) (c_obs_types c)
  && list_eqb (fun g o => let '(n, p, l) := o in
                 opt_eqb text_eqb (g_name g) (Some n) && opt_eqb path_eqb (g_path g) p && (g_line g =? l))
              (export_globals (c_globals c)) (c_obs_globals c).
