(** C14/Proofs.v — the lemmas behind C14/Props.v (Refs.v: reference index and rename edits; Alpha.v: alpha-renaming). *)
From EV Require Import C13.Model C13.Corr C14.Model C14.Refs C14.Tokens C14.Alpha C14.Agree C14.Corr.
Local Open Scope N_scope.

Definition refs_eq_preimage := Refs.refs_eq_preimage.
Definition refs_contain_resolved := Refs.refs_contain_resolved.
Definition refs_only_resolved := Refs.refs_only_resolved.
Definition rename_edits_exact := Refs.rename_edits_exact.
Definition cells_are_tokens := Tokens.cells_are_tokens.
Definition rename_edits_disjoint := Tokens.rename_edits_disjoint.
Definition rename_preserves_resolution := Alpha.alpha_preserves_resolution.
Definition ord_resolver_agrees := Agree.ord_agrees_positional.

(** in byte positions: the k-th use of the program and of the renamed program resolve to the declaration with the
    same ordinal (or both to a global) *)
Lemma rename_preserves_resolution_positional : forall (p : program) (d : nat) (y : name),
  fresh y p -> real_decl p d \/ (List.length (dk_block p) <= d)%nat ->
  map snd (ref_resolve p) = map (dec (dpos_block p 0)) (ord_resolve p) /\
  map snd (ref_resolve (alpha d y p)) = map (dec (dpos_block (alpha d y p) 0)) (ord_resolve p).
Proof.
  intros p d y Hf Hd. split; [apply Agree.ord_agrees_positional|].
  rewrite <- (Alpha.alpha_preserves_resolution p d y Hf Hd). apply Agree.ord_agrees_positional.
Qed.

(** non-vacuity: [local a = 1 do local a = a f(a) end f(a)]: the outer a (ordinal 0) has the declaration at 6, the
    use at 25 (the initialiser of the inner a) and the use at 38; renaming it to v9001 gives the printed text of
    alpha and leaves the resolution structure unchanged; the inner a (ordinal 1) has the use at 29 only *)
Example rename_example :
  let p := BCons (SLocal [0] (ECons (ENum 1) ENil))
          (BCons (SDo (BCons (SLocal [0] (ECons (EName 0) ENil)) (BCons (SCall (EName 3) (ECons (EName 0) ENil)) BNil)))
          (BCons (SCall (EName 3) (ECons (EName 0) ENil)) BNil)) in
  let st := walk_program p in
  impl_references st 6 = [6; 25; 38]
  /\ impl_references st 21 = [21; 29]
  /\ impl_rename st 6 0 9001 = [(6, 7, 9001); (25, 26, 9001); (38, 39, 9001)]
  /\ ord_resolve p = [Some 0%nat; None; Some 1%nat; None; Some 0%nat]
  /\ ord_resolve (alpha 0 9001 p) = ord_resolve p
  /\ real_decl p 0 /\ fresh 9001 p
  /\ check_case {| c_prog := p; c_text := pr_program p; c_fresh := 9001;
                   c_decls := [{| o_pos := 6; o_name := 0; o_cells := [(25, 26); (38, 39)];
                                  o_edits := [(6, 7, 9001); (25, 26, 9001); (38, 39, 9001)] |}] |} = true.
Proof.
  cbv zeta.
  split; [vm_compute; reflexivity|]. split; [vm_compute; reflexivity|]. split; [vm_compute; reflexivity|].
  split; [vm_compute; reflexivity|]. split; [vm_compute; reflexivity|]. split; [vm_compute; reflexivity|].
  split; [|vm_compute; reflexivity].
  split; [|discriminate].
  intros H. vm_compute in H. repeat (destruct H as [H|H]; [discriminate|]). exact H.
Qed.
