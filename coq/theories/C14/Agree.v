(** C14/Agree.v — the ordinal presentation of the reference resolver (A) used by the alpha-renaming theorem is the
    positional resolver of C13 up to the numbering of the declarations:
      map snd (ref_resolve p) = map (decode (dpos_block p 0)) (ord_resolve p). *)
From EV Require Import C13.Model C14.Model.
From Coq Require Import Arith.
Local Open Scope N_scope.

Section Agree.
Variable DP : list N.

Definition dec (oi : option nat) : option N := match oi with Some i => Some (nth i DP 0) | None => None end.
Definition decenv (r : oenv) : env := map (fun b => (fst b, nth (snd b) DP 0)) r.

(** the declarations of a construct are the slice of [DP] that starts at ordinal [k] *)
Definition sub (k : nat) (l : list N) : Prop := forall j, (j < List.length l)%nat -> nth (k + j) DP 0 = nth j l 0.

Lemma sub_app : forall k a b, sub k (a ++ b) -> sub k a /\ sub (k + List.length a) b.
Proof.
  intros k a b H. split.
  - intros j Hj. rewrite H by (rewrite app_length; lia). apply app_nth1. exact Hj.
  - intros j Hj. replace (k + List.length a + j)%nat with (k + (List.length a + j))%nat by lia.
    rewrite H by (rewrite app_length; lia). rewrite app_nth2 by lia. f_equal. lia.
Qed.

Lemma sub_cons : forall k a l, sub k (a :: l) -> nth k DP 0 = a /\ sub (S k) l.
Proof.
  intros k a l H. split.
  - specialize (H 0%nat ltac:(cbn; lia)). rewrite Nat.add_0_r in H. exact H.
  - intros j Hj. replace (S k + j)%nat with (k + S j)%nat by lia. apply (H (S j)). cbn. lia.
Qed.

Lemma lookup_dec : forall x r, lookup x (decenv r) = dec (olookup x r).
Proof.
  intros x r. unfold lookup, olookup, decenv. induction r as [|b t IH]; [reflexivity|].
  cbn [map find fst]. unfold name in *. destruct (fst b =? x); [reflexivity|exact IH].
Qed.

Lemma names_pos_length : forall xs o, List.length (names_pos xs o) = List.length xs.
Proof. induction xs as [|x t IH]; intros o; [reflexivity|]. cbn [names_pos List.length]. rewrite IH. reflexivity. Qed.

Lemma bind_dec : forall xs o k r, sub k (names_pos xs o) -> bind_names xs o (decenv r) = decenv (obind xs k r).
Proof.
  induction xs as [|x t IH]; intros o k r H; [reflexivity|].
  cbn [bind_names obind names_pos] in *. apply sub_cons in H. destruct H as (H0 & Ht).
  rewrite <- (IH (o + nlen x + 2) (S k) ((x, k) :: r) Ht). cbn [decenv map fst snd]. rewrite H0. reflexivity.
Qed.

Lemma falses_length : forall xs, List.length (falses xs) = List.length xs.
Proof. intros. unfold falses. apply map_length. Qed.

(** the number of declaration positions is the number of ordinals *)
Lemma dpos_length :
  (forall e o, List.length (dpos_expr e o) = cnt_expr e) /\
  (forall es o, List.length (dpos_exprs es o) = cnt_exprs es) /\
  (forall s o, List.length (dpos_stat s o) = cnt_stat s) /\
  (forall els o, List.length (dpos_elifs els o) = cnt_elifs els) /\
  (forall b o, List.length (dpos_block b o) = cnt_block b).
Proof.
  unfold cnt_expr, cnt_exprs, cnt_stat, cnt_elifs, cnt_block.
  apply syntax_mutind; intros;
    cbn [dpos_expr dpos_exprs dpos_stat dpos_elifs dpos_block dk_expr dk_exprs dk_stat dk_elifs dk_block];
    try (destruct meth);
    cbn [List.length app]; repeat rewrite ?app_length, ?falses_length, ?names_pos_length; cbn [List.length];
    repeat match goal with H : forall o, List.length _ = _ |- _ => rewrite H; clear H end;
    try reflexivity; try lia.
Qed.

Ltac split_sub :=
  repeat match goal with
         | H : sub _ (_ ++ _) |- _ => apply sub_app in H; destruct H
         | H : sub _ (_ :: _) |- _ => apply sub_cons in H; destruct H
         end.

Definition len_e := proj1 dpos_length.
Definition len_es := proj1 (proj2 dpos_length).
Definition len_s := proj1 (proj2 (proj2 dpos_length)).
Definition len_el := proj1 (proj2 (proj2 (proj2 dpos_length))).
Definition len_b := proj2 (proj2 (proj2 (proj2 dpos_length))).

(** the environment after a statement *)
Lemma env_after_dec : forall s r o k, sub k (dpos_stat s o) -> snd (ref_stat (decenv r) s o) = decenv (env_after r s k).
Proof.
  intros s r o k H. destruct s; cbn [ref_stat env_after snd dpos_stat] in *; try reflexivity.
  - split_sub. apply bind_dec. assumption.
  - split_sub. unfold decenv. cbn [map fst snd]. congruence.
  - destruct (ref_block (decenv r) b (o + 6 + 1)). reflexivity.
  - split_sub. apply bind_dec. assumption.
Qed.

Lemma agree :
  (forall e r o k, sub k (dpos_expr e o) -> map snd (ref_expr (decenv r) e o) = map dec (ord_expr r e k)) /\
  (forall es r o k, sub k (dpos_exprs es o) -> map snd (ref_exprs (decenv r) es o) = map dec (ord_exprs r es k)) /\
  (forall s r o k, sub k (dpos_stat s o) -> map snd (fst (ref_stat (decenv r) s o)) = map dec (ord_stat r s k)) /\
  (forall els r o k, sub k (dpos_elifs els o) -> map snd (ref_elifs (decenv r) els o) = map dec (ord_elifs r els k)) /\
  (forall b r o k, sub k (dpos_block b o) ->
     map snd (fst (ref_block (decenv r) b o)) = map dec (ord_block r b k)
     /\ snd (ref_block (decenv r) b o) = decenv (benv_after r b k)).
Proof.
  apply syntax_mutind.
  - reflexivity.
  - intros x r o k _. cbn [ref_expr ord_expr map snd]. rewrite lookup_dec. reflexivity.
  - intros e IHe f r o k H. cbn [ref_expr ord_expr dpos_expr] in *. apply IHe. exact H.
  - intros f IHf args IHa r o k H. cbn [ref_expr ord_expr dpos_expr] in *. split_sub.
    rewrite !map_app. rewrite len_e in *. f_equal; [apply IHf|apply IHa]; assumption.
  - intros a IHa b IHb r o k H. cbn [ref_expr ord_expr dpos_expr] in *. split_sub.
    rewrite !map_app. rewrite len_e in *. f_equal; [apply IHa|apply IHb]; assumption.
  - intros ps b IHb r o k H. cbn [ref_expr ord_expr dpos_expr] in *. split_sub.
    rewrite names_pos_length in *. rewrite (bind_dec ps (o + 8 + 1) k r) by assumption.
    apply IHb. assumption.
  - reflexivity.
  - (* ETable *) intros es IHes r o k H. cbn [ref_expr ord_expr dpos_expr] in *. apply IHes. exact H.
  - (* EMeth *) intros e IHe m args IHa r o k H. cbn [ref_expr ord_expr dpos_expr] in *. split_sub.
    rewrite !map_app. rewrite len_e in *. f_equal; [apply IHe|apply IHa]; assumption.
  - reflexivity.
  - intros e IHe es IHes r o k H. cbn [ref_exprs ord_exprs dpos_exprs] in *. split_sub.
    rewrite !map_app. rewrite len_e in *. f_equal; [apply IHe|apply IHes]; assumption.
  - (* SLocal *) intros xs es IHes r o k H. cbn [ref_stat ord_stat dpos_stat fst] in *. split_sub.
    rewrite names_pos_length in *. apply IHes. assumption.
  - (* SAssign *) intros vs IHvs es IHes r o k H. cbn [ref_stat ord_stat dpos_stat fst] in *. split_sub.
    rewrite !map_app. rewrite len_es in *. f_equal; [apply IHvs|apply IHes]; assumption.
  - (* SCall *) intros f IHf args IHa r o k H. cbn [ref_stat ord_stat dpos_stat fst] in *. split_sub.
    rewrite !map_app. rewrite len_e in *. f_equal; [apply IHf|apply IHa]; assumption.
  - (* SLocalFun *) intros f ps b IHb r o k H. cbn [ref_stat ord_stat dpos_stat fst] in *. split_sub.
    rewrite names_pos_length in *.
    replace ((f, o + 15) :: decenv r) with (decenv ((f, k) :: r)) by (unfold decenv; cbn [map fst snd]; congruence).
    rewrite (bind_dec ps (o + 15 + nlen f + 1) (S k) ((f, k) :: r)) by assumption.
    apply IHb. assumption.
  - (* SFun *) intros root fields meth ps b IHb r o k H. cbn [ref_stat ord_stat dpos_stat fst] in *.
    cbn [map snd]. rewrite lookup_dec. f_equal.
    destruct meth as [m|]; cbn [meth_cnt meth_env app] in *; split_sub; rewrite ?names_pos_length in *.
    + replace ((self_name, o + 9 + nlen root + len_fields fields) :: decenv r) with (decenv ((self_name, k) :: r))
        by (unfold decenv; cbn [map fst snd]; congruence).
      replace (k + 1)%nat with (S k) by lia.
      rewrite (bind_dec ps _ (S k) ((self_name, k) :: r)) by assumption. apply IHb. assumption.
    + replace (k + 0)%nat with k by lia.
      rewrite (bind_dec ps _ k r) by assumption. apply IHb. assumption.
  - (* SDo *) intros b IHb r o k H. cbn [ref_stat ord_stat dpos_stat fst] in *. apply IHb. exact H.
  - (* SWhile *) intros c IHc b IHb r o k H. cbn [ref_stat ord_stat dpos_stat fst] in *. split_sub.
    rewrite !map_app. rewrite len_e in *. f_equal; [apply IHc|apply IHb]; assumption.
  - (* SRepeat *) intros b IHb c IHc r o k H. cbn [ref_stat ord_stat dpos_stat] in *. split_sub.
    rewrite len_b in *.
    destruct (IHb r (o + 6 + 1) k ltac:(assumption)) as (Hl & He).
    destruct (ref_block (decenv r) b (o + 6 + 1)) as (l, r1) eqn:E. cbn [fst snd] in *. subst r1.
    rewrite !map_app. f_equal; [exact Hl|]. apply IHc. assumption.
  - (* SIf *) intros c IHc b IHb els IHe r o k H. cbn [ref_stat ord_stat dpos_stat fst] in *. split_sub.
    rewrite !map_app. rewrite len_e, ?len_b in *. f_equal; [apply IHc; assumption|].
    f_equal; [apply IHb; assumption|]. apply IHe. assumption.
  - (* SFor *) intros x es IHes b IHb r o k H. cbn [ref_stat ord_stat dpos_stat fst] in *. split_sub.
    rewrite !map_app. rewrite len_es in *. f_equal; [apply IHes; assumption|].
    replace ((x, o + 4) :: decenv r) with (decenv ((x, k) :: r)) by (unfold decenv; cbn [map fst snd]; congruence).
    apply IHb. assumption.
  - (* SForIn *) intros xs es IHes b IHb r o k H. cbn [ref_stat ord_stat dpos_stat fst] in *. split_sub.
    rewrite !map_app. rewrite names_pos_length, ?len_es in *. f_equal; [apply IHes; assumption|].
    rewrite (bind_dec xs (o + 4) k r) by assumption. apply IHb. assumption.
  - (* SLabel *) reflexivity.
  - (* SGoto *) reflexivity.
  - (* SLocalAttr *) intros x cl es IHes r o k H. cbn [ref_stat ord_stat dpos_stat fst] in *. split_sub.
    rewrite names_pos_length in *. apply IHes. assumption.
  - reflexivity.
  - (* ElElse *) intros b IHb r o k H. cbn [ref_elifs ord_elifs dpos_elifs] in *. apply IHb. exact H.
  - (* ElIf *) intros c IHc b IHb t IHt r o k H. cbn [ref_elifs ord_elifs dpos_elifs] in *. split_sub.
    rewrite !map_app. rewrite len_e, ?len_b in *. f_equal; [apply IHc; assumption|].
    f_equal; [apply IHb; assumption|]. apply IHt. assumption.
  - (* BNil *) intros r o k _. split; reflexivity.
  - (* BRet *) intros es IHes r o k H. cbn [ref_block ord_block dpos_block benv_after fst snd] in *.
    split; [apply IHes; exact H|reflexivity].
  - (* BCons *) intros s IHs t IHt r o k H. cbn [ref_block ord_block dpos_block benv_after] in *. split_sub.
    rewrite len_s in *.
    pose proof (IHs r o k ltac:(assumption)) as Hl1.
    pose proof (env_after_dec s r o k ltac:(assumption)) as He1.
    destruct (ref_stat (decenv r) s o) as (l1, r1) eqn:E1. cbn [fst snd] in *. subst r1.
    destruct (IHt (env_after r s k) (o + len_stat s + 1) (k + cnt_stat s)%nat ltac:(assumption)) as (Hl2 & He2).
    destruct (ref_block (decenv (env_after r s k)) t (o + len_stat s + 1)) as (l2, r2) eqn:E2. cbn [fst snd] in *.
    split; [rewrite !map_app; f_equal; assumption|exact He2].
Qed.

End Agree.

(** the two presentations of (A) agree on every program *)
Theorem ord_agrees_positional : forall p : program,
  map snd (ref_resolve p) = map (dec (dpos_block p 0)) (ord_resolve p).
Proof.
  intros p. unfold ref_resolve, ord_resolve.
  assert (H : sub (dpos_block p 0) 0 (dpos_block p 0)) by (intros j _; reflexivity).
  exact (proj1 (proj2 (proj2 (proj2 (proj2 (agree (dpos_block p 0))))) p [] 0 0%nat H)).
Qed.
