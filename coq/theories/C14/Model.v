(** C14/Model.v — rename and references on the C13 model.  Executable definitions only.

    Transcribed (for local declarations and parameters):
      crates/emmylua_code_analysis/src/db_index/reference/file_reference.rs
          FileReference::{add_decl_reference, get_decl_references}: the cell list of a declaration receives a cell
          exactly when [references_to_decl] receives the entry (C13.Model.add_ref), in the same order
      crates/emmylua_ls/src/handlers/references/reference_searcher.rs   search_decl_references_with_ctx (local branch,
          include_declaration): the declaration's range, then its cells
      crates/emmylua_ls/src/handlers/rename/rename_decl.rs              rename_decl_references (local branch): a map
          range -> new name holding the cells and the declaration's range
    Not modelled: the alias following of references (SemanticDeclLevel::Trace in find_decl, enqueue_value_alias_references),
    doc-comment @param renaming, globals, members, types.

    For the alpha-renaming theorem the reference resolver (A) is given a second presentation in which declarations
    are identified by their ordinal in source order instead of their byte position ([ord_*]); renaming changes the
    byte positions but not the ordinals.  [alpha d y] renames the declaration with ordinal [d] and every use that
    (A) resolves to it. *)
From EV Require Export C13.Model.
Local Open Scope N_scope.

(** * the reference index as a multimap *)

Definition decl_cells (st : state) (d : N) : list N :=
  map fst (filter (fun r => d_pos (snd r) =? d) (st_refs st)).

Definition impl_references (st : state) (d : N) : list N := d :: decl_cells st d.

Fixpoint nodupN (l : list N) : list N :=
  match l with
  | [] => []
  | a :: r => if existsb (N.eqb a) r then nodupN r else a :: nodupN r
  end.

(** an edit: start, end, new name *)
Definition edit := (N * N * name)%type.

Definition impl_rename (st : state) (d : N) (x new : name) : list edit :=
  map (fun q => (q, q + nlen x, new)) (nodupN (d :: decl_cells st d)).

(** * (A) with ordinal identities *)

Definition oenv := list (name * nat).

Definition olookup (x : name) (r : oenv) : option nat :=
  match find (fun b => fst b =? x) r with Some b => Some (snd b) | None => None end.

(** bindings of a name list, the first name gets ordinal [k] *)
Fixpoint obind (xs : list name) (k : nat) (r : oenv) : oenv :=
  match xs with
  | [] => r
  | x :: t => obind t (S k) ((x, k) :: r)
  end.

Definition olen (xs : list name) : nat := List.length xs.

(** resolutions of the uses in source order, and the next free ordinal *)
Fixpoint ord_expr (r : oenv) (e : expr) (k : nat) : list (option nat) * nat :=
  match e with
  | ENum _ => ([], k)
  | EName x => ([olookup x r], k)
  | EIdx e1 _ => ord_expr r e1 k
  | ECall f args =>
      let '(l1, k1) := ord_expr r f k in
      let '(l2, k2) := ord_exprs r args k1 in (l1 ++ l2, k2)
  | EBin a b =>
      let '(l1, k1) := ord_expr r a k in
      let '(l2, k2) := ord_expr r b k1 in (l1 ++ l2, k2)
  | EFun ps b =>
      let '(l, _, k1) := ord_block (obind ps k r) b (k + olen ps)%nat in (l, k1)
  end
with ord_exprs (r : oenv) (es : exprs) (k : nat) : list (option nat) * nat :=
  match es with
  | ENil => ([], k)
  | ECons e t =>
      let '(l1, k1) := ord_expr r e k in
      let '(l2, k2) := ord_exprs r t k1 in (l1 ++ l2, k2)
  end
(** a statement: resolutions, the environment after it, the next ordinal *)
with ord_stat (r : oenv) (s : stat) (k : nat) : list (option nat) * oenv * nat :=
  match s with
  | SLocal xs es =>
      let '(l, k1) := ord_exprs r es (k + olen xs)%nat in (l, obind xs k r, k1)
  | SAssign vs es =>
      let '(l1, k1) := ord_exprs r vs k in
      let '(l2, k2) := ord_exprs r es k1 in (l1 ++ l2, r, k2)
  | SCall f args =>
      let '(l1, k1) := ord_expr r f k in
      let '(l2, k2) := ord_exprs r args k1 in (l1 ++ l2, r, k2)
  | SLocalFun f ps b =>
      let r1 := (f, k) :: r in
      let '(l, _, k1) := ord_block (obind ps (S k) r1) b (S k + olen ps)%nat in (l, r1, k1)
  | SFun root fields meth ps b =>
      (* the implicit self of a method is a declaration without a token: it takes an ordinal too *)
      let '(r1, k0) := match meth with Some _ => ((self_name, k) :: r, S k) | None => (r, k) end in
      let '(l, _, k1) := ord_block (obind ps k0 r1) b (k0 + olen ps)%nat in
      (olookup root r :: l, r, k1)
  | SDo b => let '(l, _, k1) := ord_block r b k in (l, r, k1)
  | SWhile c b =>
      let '(l1, k1) := ord_expr r c k in
      let '(l2, _, k2) := ord_block r b k1 in (l1 ++ l2, r, k2)
  | SRepeat b c =>
      let '(l1, r1, k1) := ord_block r b k in
      let '(l2, k2) := ord_expr r1 c k1 in (l1 ++ l2, r, k2)
  | SIf c b els =>
      let '(l1, k1) := ord_expr r c k in
      let '(l2, _, k2) := ord_block r b k1 in
      let '(l3, k3) := ord_elifs r els k2 in (l1 ++ l2 ++ l3, r, k3)
  | SFor x es b =>
      let '(l1, k1) := ord_exprs r es (S k) in
      let '(l2, _, k2) := ord_block ((x, k) :: r) b k1 in (l1 ++ l2, r, k2)
  | SForIn xs es b =>
      let '(l1, k1) := ord_exprs r es (k + olen xs)%nat in
      let '(l2, _, k2) := ord_block (obind xs k r) b k1 in (l1 ++ l2, r, k2)
  end
with ord_elifs (r : oenv) (els : elifs) (k : nat) : list (option nat) * nat :=
  match els with
  | ElEnd => ([], k)
  | ElElse b => let '(l, _, k1) := ord_block r b k in (l, k1)
  | ElIf c b t =>
      let '(l1, k1) := ord_expr r c k in
      let '(l2, _, k2) := ord_block r b k1 in
      let '(l3, k3) := ord_elifs r t k2 in (l1 ++ l2 ++ l3, k3)
  end
with ord_block (r : oenv) (b : block) (k : nat) : list (option nat) * oenv * nat :=
  match b with
  | BNil => ([], r, k)
  | BRet es => let '(l, k1) := ord_exprs r es k in (l, r, k1)
  | BCons s t =>
      let '(l1, r1, k1) := ord_stat r s k in
      let '(l2, r2, k2) := ord_block r1 t k1 in (l1 ++ l2, r2, k2)
  end.

Definition ord_resolve (p : program) : list (option nat) := fst (fst (ord_block [] p 0%nat)).

(** * alpha-renaming: the declaration with ordinal [d] and the uses (A) resolves to it get the name [y] *)

Fixpoint al_names (d : nat) (y : name) (xs : list name) (k : nat) : list name :=
  match xs with
  | [] => []
  | x :: t => (if Nat.eqb k d then y else x) :: al_names d y t (S k)
  end.

Definition al_use (d : nat) (y : name) (r : oenv) (x : name) : name :=
  match olookup x r with
  | Some i => if Nat.eqb i d then y else x
  | None => x
  end.

(** the renamed construct and the next ordinal (the environment is the one of the ORIGINAL program) *)
Fixpoint al_expr (d : nat) (y : name) (r : oenv) (e : expr) (k : nat) : expr * nat :=
  match e with
  | ENum n => (ENum n, k)
  | EName x => (EName (al_use d y r x), k)
  | EIdx e1 f => let '(e1', k1) := al_expr d y r e1 k in (EIdx e1' f, k1)
  | ECall f args =>
      let '(f', k1) := al_expr d y r f k in
      let '(args', k2) := al_exprs d y r args k1 in (ECall f' args', k2)
  | EBin a b =>
      let '(a', k1) := al_expr d y r a k in
      let '(b', k2) := al_expr d y r b k1 in (EBin a' b', k2)
  | EFun ps b =>
      let '(b', _, k1) := al_block d y (obind ps k r) b (k + olen ps)%nat in
      (EFun (al_names d y ps k) b', k1)
  end
with al_exprs (d : nat) (y : name) (r : oenv) (es : exprs) (k : nat) : exprs * nat :=
  match es with
  | ENil => (ENil, k)
  | ECons e t =>
      let '(e', k1) := al_expr d y r e k in
      let '(t', k2) := al_exprs d y r t k1 in (ECons e' t', k2)
  end
with al_stat (d : nat) (y : name) (r : oenv) (s : stat) (k : nat) : stat * oenv * nat :=
  match s with
  | SLocal xs es =>
      let '(es', k1) := al_exprs d y r es (k + olen xs)%nat in
      (SLocal (al_names d y xs k) es', obind xs k r, k1)
  | SAssign vs es =>
      let '(vs', k1) := al_exprs d y r vs k in
      let '(es', k2) := al_exprs d y r es k1 in (SAssign vs' es', r, k2)
  | SCall f args =>
      let '(f', k1) := al_expr d y r f k in
      let '(args', k2) := al_exprs d y r args k1 in (SCall f' args', r, k2)
  | SLocalFun f ps b =>
      let r1 := (f, k) :: r in
      let '(b', _, k1) := al_block d y (obind ps (S k) r1) b (S k + olen ps)%nat in
      (SLocalFun (if Nat.eqb k d then y else f) (al_names d y ps (S k)) b', r1, k1)
  | SFun root fields meth ps b =>
      let '(r1, k0) := match meth with Some _ => ((self_name, k) :: r, S k) | None => (r, k) end in
      let '(b', _, k1) := al_block d y (obind ps k0 r1) b (k0 + olen ps)%nat in
      (SFun (al_use d y r root) fields meth (al_names d y ps k0) b', r, k1)
  | SDo b => let '(b', _, k1) := al_block d y r b k in (SDo b', r, k1)
  | SWhile c b =>
      let '(c', k1) := al_expr d y r c k in
      let '(b', _, k2) := al_block d y r b k1 in (SWhile c' b', r, k2)
  | SRepeat b c =>
      let '(b', r1, k1) := al_block d y r b k in
      let '(c', k2) := al_expr d y r1 c k1 in (SRepeat b' c', r, k2)
  | SIf c b els =>
      let '(c', k1) := al_expr d y r c k in
      let '(b', _, k2) := al_block d y r b k1 in
      let '(els', k3) := al_elifs d y r els k2 in (SIf c' b' els', r, k3)
  | SFor x es b =>
      let '(es', k1) := al_exprs d y r es (S k) in
      let '(b', _, k2) := al_block d y ((x, k) :: r) b k1 in
      (SFor (if Nat.eqb k d then y else x) es' b', r, k2)
  | SForIn xs es b =>
      let '(es', k1) := al_exprs d y r es (k + olen xs)%nat in
      let '(b', _, k2) := al_block d y (obind xs k r) b k1 in
      (SForIn (al_names d y xs k) es' b', r, k2)
  end
with al_elifs (d : nat) (y : name) (r : oenv) (els : elifs) (k : nat) : elifs * nat :=
  match els with
  | ElEnd => (ElEnd, k)
  | ElElse b => let '(b', _, k1) := al_block d y r b k in (ElElse b', k1)
  | ElIf c b t =>
      let '(c', k1) := al_expr d y r c k in
      let '(b', _, k2) := al_block d y r b k1 in
      let '(t', k3) := al_elifs d y r t k2 in (ElIf c' b' t', k3)
  end
with al_block (d : nat) (y : name) (r : oenv) (b : block) (k : nat) : block * oenv * nat :=
  match b with
  | BNil => (BNil, r, k)
  | BRet es => let '(es', k1) := al_exprs d y r es k in (BRet es', r, k1)
  | BCons s t =>
      let '(s', r1, k1) := al_stat d y r s k in
      let '(t', r2, k2) := al_block d y r1 t k1 in (BCons s' t', r2, k2)
  end.

Definition alpha (d : nat) (y : name) (p : program) : program := fst (fst (al_block d y [] p 0%nat)).

(** the variable names of a construct (declarations and uses; not fields, not method names) *)
Fixpoint names_expr (e : expr) : list name :=
  match e with
  | ENum _ => []
  | EName x => [x]
  | EIdx e1 _ => names_expr e1
  | ECall f args => names_expr f ++ names_exprs args
  | EBin a b => names_expr a ++ names_expr b
  | EFun ps b => ps ++ names_block b
  end
with names_exprs (es : exprs) : list name :=
  match es with ENil => [] | ECons e t => names_expr e ++ names_exprs t end
with names_stat (s : stat) : list name :=
  match s with
  | SLocal xs es => xs ++ names_exprs es
  | SAssign vs es => names_exprs vs ++ names_exprs es
  | SCall f args => names_expr f ++ names_exprs args
  | SLocalFun f ps b => f :: ps ++ names_block b
  | SFun root _ _ ps b => root :: ps ++ names_block b
  | SDo b => names_block b
  | SWhile c b => names_expr c ++ names_block b
  | SRepeat b c => names_block b ++ names_expr c
  | SIf c b els => names_expr c ++ names_block b ++ names_elifs els
  | SFor x es b => x :: names_exprs es ++ names_block b
  | SForIn xs es b => xs ++ names_exprs es ++ names_block b
  end
with names_elifs (els : elifs) : list name :=
  match els with
  | ElEnd => []
  | ElElse b => names_block b
  | ElIf c b t => names_expr c ++ names_block b ++ names_elifs t
  end
with names_block (b : block) : list name :=
  match b with
  | BNil => []
  | BRet es => names_exprs es
  | BCons s t => names_stat s ++ names_block t
  end.

(** [y] is fresh for the program: no variable is called [y] (and it is not the implicit [self]) *)
Definition fresh (y : name) (p : program) : Prop := ~ In y (names_block p) /\ y <> self_name.

(** * which ordinals are implicit selfs (declarations without a token: they cannot be renamed) *)
Definition falses (xs : list name) : list bool := map (fun _ => false) xs.

Fixpoint dk_expr (e : expr) : list bool :=
  match e with
  | ENum _ | EName _ => []
  | EIdx e1 _ => dk_expr e1
  | ECall f args => dk_expr f ++ dk_exprs args
  | EBin a b => dk_expr a ++ dk_expr b
  | EFun ps b => falses ps ++ dk_block b
  end
with dk_exprs (es : exprs) : list bool :=
  match es with ENil => [] | ECons e t => dk_expr e ++ dk_exprs t end
with dk_stat (s : stat) : list bool :=
  match s with
  | SLocal xs es => falses xs ++ dk_exprs es
  | SAssign vs es => dk_exprs vs ++ dk_exprs es
  | SCall f args => dk_expr f ++ dk_exprs args
  | SLocalFun f ps b => false :: falses ps ++ dk_block b
  | SFun _ _ meth ps b => match meth with Some _ => [true] | None => [] end ++ falses ps ++ dk_block b
  | SDo b => dk_block b
  | SWhile c b => dk_expr c ++ dk_block b
  | SRepeat b c => dk_block b ++ dk_expr c
  | SIf c b els => dk_expr c ++ dk_block b ++ dk_elifs els
  | SFor x es b => false :: dk_exprs es ++ dk_block b
  | SForIn xs es b => falses xs ++ dk_exprs es ++ dk_block b
  end
with dk_elifs (els : elifs) : list bool :=
  match els with
  | ElEnd => []
  | ElElse b => dk_block b
  | ElIf c b t => dk_expr c ++ dk_block b ++ dk_elifs t
  end
with dk_block (b : block) : list bool :=
  match b with
  | BNil => []
  | BRet es => dk_exprs es
  | BCons s t => dk_stat s ++ dk_block t
  end.

(** [d] is the ordinal of a declaration that has a token (a local, a parameter, a loop variable, a local function) *)
Definition real_decl (p : program) (d : nat) : Prop := nth_error (dk_block p) d = Some false.

(** * the positions of the declarations in source order (the implicit self of a method at its colon) *)
Fixpoint names_pos (xs : list name) (o : N) : list N :=
  match xs with [] => [] | x :: t => o :: names_pos t (o + nlen x + 2) end.

Fixpoint dpos_expr (e : expr) (o : N) : list N :=
  match e with
  | ENum _ | EName _ => []
  | EIdx e1 _ => dpos_expr e1 (o + paren e1)
  | ECall f args => dpos_expr f (o + paren f) ++ dpos_exprs args (o + paren f + len_expr f + paren f + 1)
  | EBin a b => dpos_expr a o ++ dpos_expr b (o + len_expr a + 3)
  | EFun ps b => names_pos ps (o + 8 + 1) ++ dpos_block b (o + 8 + (1 + len_names ps + 1) + 1)
  end
with dpos_exprs (es : exprs) (o : N) : list N :=
  match es with ENil => [] | ECons e t => dpos_expr e o ++ dpos_exprs t (o + len_expr e + 2) end
with dpos_stat (s : stat) (o : N) : list N :=
  match s with
  | SLocal xs es => names_pos xs (o + 6) ++ dpos_exprs es (o + 6 + len_names xs + 3)
  | SAssign vs es => dpos_exprs vs o ++ dpos_exprs es (o + len_exprs vs + 3)
  | SCall f args => dpos_expr f (o + paren f) ++ dpos_exprs args (o + paren f + len_expr f + paren f + 1)
  | SLocalFun f ps b =>
      let po := o + 15 + nlen f in
      (o + 15) :: names_pos ps (po + 1) ++ dpos_block b (po + (1 + len_names ps + 1) + 1)
  | SFun root fields meth ps b =>
      let colon := o + 9 + nlen root + len_fields fields in
      let po := colon + len_meth meth in
      match meth with Some _ => [colon] | None => [] end
      ++ names_pos ps (po + 1) ++ dpos_block b (po + (1 + len_names ps + 1) + 1)
  | SDo b => dpos_block b (o + 2 + 1)
  | SWhile c b => dpos_expr c (o + 6) ++ dpos_block b (o + 6 + len_expr c + 3 + 1)
  | SRepeat b c => dpos_block b (o + 6 + 1) ++ dpos_expr c (o + 6 + (1 + len_block b) + 6)
  | SIf c b els =>
      dpos_expr c (o + 3) ++ dpos_block b (o + 3 + len_expr c + 5 + 1)
      ++ dpos_elifs els (o + 3 + len_expr c + 5 + (1 + len_block b))
  | SFor x es b =>
      (o + 4) :: dpos_exprs es (o + 4 + nlen x + 3) ++ dpos_block b (o + 4 + nlen x + 3 + len_exprs es + 3 + 1)
  | SForIn xs es b =>
      names_pos xs (o + 4) ++ dpos_exprs es (o + 4 + len_names xs + 4)
      ++ dpos_block b (o + 4 + len_names xs + 4 + len_exprs es + 3 + 1)
  end
with dpos_elifs (els : elifs) (o : N) : list N :=
  match els with
  | ElEnd => []
  | ElElse b => dpos_block b (o + 4 + 1)
  | ElIf c b t =>
      dpos_expr c (o + 7) ++ dpos_block b (o + 7 + len_expr c + 5 + 1)
      ++ dpos_elifs t (o + 7 + len_expr c + 5 + (1 + len_block b))
  end
with dpos_block (b : block) (o : N) : list N :=
  match b with
  | BNil => []
  | BRet es => dpos_exprs es (o + 7)
  | BCons s t => dpos_stat s o ++ dpos_block t (o + len_stat s + 1)
  end.

(** the positional resolver and the ordinal resolver tell the same story (executable; checked per case) *)
Definition ord_agrees (p : program) : bool :=
  let dp := dpos_block p 0 in
  let a := map snd (ref_resolve p) in
  let b := map (fun oi => match oi with Some i => Some (nth i dp 0) | None => None end) (ord_resolve p) in
  (fix eq (x y : list (option N)) : bool :=
     match x, y with
     | [], [] => true
     | Some u :: x', Some v :: y' => (u =? v) && eq x' y'
     | None :: x', None :: y' => eq x' y'
     | _, _ => false
     end) a b.
