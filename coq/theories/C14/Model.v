(** C14/Model.v — rename and references on the C13 model.  Executable definitions only.

    Transcribed (for local declarations and parameters):
      crates/emmylua_code_analysis/src/db_index/reference/file_reference.rs
          FileReference::{add_decl_reference, get_decl_references}: the cell list of a declaration receives a cell
          exactly when [references_to_decl] receives the entry (C13.Model.add_ref), in the same order
      crates/emmylua_ls/src/handlers/references/reference_searcher.rs   search_decl_references_with_ctx (local branch,
          include_declaration): the declaration's range, then its cells
      crates/emmylua_ls/src/handlers/rename/rename_decl.rs              rename_decl_references (local branch): a map
          range -> new name holding the cells and the declaration's range
    Not modelled: the alias following of references (SemanticDeclLevel::Trace in find_decl, enqueue_value_alias_references),
    doc-comment @param renaming, globals, members, types.

    For the alpha-renaming theorem the reference resolver (A) is given a second presentation in which declarations
    are identified by their ordinal in source order instead of their byte position ([ord_*]); renaming changes the
    byte positions but not the ordinals.  [alpha d y] renames the declaration with ordinal [d] and every use that
    (A) resolves to it. *)
From EV Require Export C13.Model.
Local Open Scope N_scope.

(** * the reference index as a multimap *)

(** the cells of the declaration at [d] (FileReference::decl_references): ranges of the referring tokens, in order *)
Definition decl_cell_ranges (st : state) (d : N) : list (N * N) :=
  map snd (filter (fun c => fst c =? d) (st_cells st)).

Definition decl_cells (st : state) (d : N) : list N := map fst (decl_cell_ranges st d).

Definition impl_references (st : state) (d : N) : list N := d :: decl_cells st d.

Definition range_eqb (a b : N * N) : bool := (fst a =? fst b) && (snd a =? snd b).

Fixpoint nodupR (l : list (N * N)) : list (N * N) :=
  match l with
  | [] => []
  | a :: r => if existsb (range_eqb a) r then nodupR r else a :: nodupR r
  end.

(** an edit: start, end, new name *)
Definition edit := (N * N * name)%type.

(** rename_decl_references, local branch: a map from ranges to the new name holding the range of every cell and
    the range of the declaration ([x] is the declaration's name) *)
Definition impl_rename (st : state) (d : N) (x new : name) : list edit :=
  map (fun r => (fst r, snd r, new)) (nodupR ((d, d + nlen x) :: decl_cell_ranges st d)).

(** * all name tokens (declarations and uses) of a construct in source order, with their names *)
Fixpoint names_toks (xs : list name) (o : N) : list (N * name) :=
  match xs with [] => [] | x :: t => (o, x) :: names_toks t (o + nlen x + 2) end.

Fixpoint toks_expr (e : expr) (o : N) : list (N * name) :=
  match e with
  | ENum _ => []
  | EName x => [(o, x)]
  | EIdx e1 _ => toks_expr e1 (o + paren e1)
  | ECall f args => toks_expr f (o + paren f) ++ toks_exprs args (o + paren f + len_expr f + paren f + 1)
  | EBin a b => toks_expr a o ++ toks_expr b (o + len_expr a + 3)
  | EFun ps b => names_toks ps (o + 8 + 1) ++ toks_block b (o + 8 + (1 + len_names ps + 1) + 1)
  | EStr _ => []
  | ETable es => toks_exprs es (o + 1)
  | EMeth e1 m args =>
      toks_expr e1 (o + paren e1) ++ toks_exprs args (o + paren e1 + len_expr e1 + paren e1 + 1 + nlen m + 1)
  end
with toks_exprs (es : exprs) (o : N) : list (N * name) :=
  match es with
  | ENil => []
  | ECons e r => toks_expr e o ++ toks_exprs r (o + len_expr e + 2)
  end
with toks_stat (s : stat) (o : N) : list (N * name) :=
  match s with
  | SLocal xs es => names_toks xs (o + 6) ++ toks_exprs es (o + 6 + len_names xs + 3)
  | SAssign vs es => toks_exprs vs o ++ toks_exprs es (o + len_exprs vs + 3)
  | SCall f args => toks_expr f (o + paren f) ++ toks_exprs args (o + paren f + len_expr f + paren f + 1)
  | SLocalFun f ps b =>
      (o + 15, f) :: names_toks ps (o + 15 + nlen f + 1) ++ toks_block b (o + 15 + nlen f + (1 + len_names ps + 1) + 1)
  | SFun root fields meth ps b =>
      let po := o + 9 + nlen root + len_fields fields + len_meth meth in
      (o + 9, root) :: names_toks ps (po + 1) ++ toks_block b (po + (1 + len_names ps + 1) + 1)
  | SDo b => toks_block b (o + 2 + 1)
  | SWhile c b => toks_expr c (o + 6) ++ toks_block b (o + 6 + len_expr c + 3 + 1)
  | SRepeat b c => toks_block b (o + 6 + 1) ++ toks_expr c (o + 6 + (1 + len_block b) + 6)
  | SIf c b els =>
      toks_expr c (o + 3) ++ toks_block b (o + 3 + len_expr c + 5 + 1)
      ++ toks_elifs els (o + 3 + len_expr c + 5 + (1 + len_block b))
  | SFor x es b =>
      (o + 4, x) :: toks_exprs es (o + 4 + nlen x + 3) ++ toks_block b (o + 4 + nlen x + 3 + len_exprs es + 3 + 1)
  | SForIn xs es b =>
      names_toks xs (o + 4) ++ toks_exprs es (o + 4 + len_names xs + 4)
      ++ toks_block b (o + 4 + len_names xs + 4 + len_exprs es + 3 + 1)
  | SLabel _ | SGoto _ => []
  | SLocalAttr x _ es => names_toks [x] (o + 6) ++ toks_exprs es (o + 6 + nlen x + 8 + 3)
  end
with toks_elifs (els : elifs) (o : N) : list (N * name) :=
  match els with
  | ElEnd => []
  | ElElse b => toks_block b (o + 4 + 1)
  | ElIf c b r =>
      toks_expr c (o + 7) ++ toks_block b (o + 7 + len_expr c + 5 + 1)
      ++ toks_elifs r (o + 7 + len_expr c + 5 + (1 + len_block b))
  end
with toks_block (b : block) (o : N) : list (N * name) :=
  match b with
  | BNil => []
  | BRet es => toks_exprs es (o + 7)
  | BCons s r => toks_stat s o ++ toks_block r (o + len_stat s + 1)
  end.

(** * which ordinals are implicit selfs (declarations without a token: they cannot be renamed) *)
Definition falses (xs : list name) : list bool := map (fun _ => false) xs.

Fixpoint dk_expr (e : expr) : list bool :=
  match e with
  | ENum _ | EName _ => []
  | EIdx e1 _ => dk_expr e1
  | ECall f args => dk_expr f ++ dk_exprs args
  | EBin a b => dk_expr a ++ dk_expr b
  | EFun ps b => falses ps ++ dk_block b
  | EStr _ => []
  | ETable es => dk_exprs es
  | EMeth e1 _ args => dk_expr e1 ++ dk_exprs args
  end
with dk_exprs (es : exprs) : list bool :=
  match es with ENil => [] | ECons e t => dk_expr e ++ dk_exprs t end
with dk_stat (s : stat) : list bool :=
  match s with
  | SLocal xs es => falses xs ++ dk_exprs es
  | SAssign vs es => dk_exprs vs ++ dk_exprs es
  | SCall f args => dk_expr f ++ dk_exprs args
  | SLocalFun f ps b => false :: falses ps ++ dk_block b
  | SFun _ _ meth ps b => match meth with Some _ => [true] | None => [] end ++ falses ps ++ dk_block b
  | SDo b => dk_block b
  | SWhile c b => dk_expr c ++ dk_block b
  | SRepeat b c => dk_block b ++ dk_expr c
  | SIf c b els => dk_expr c ++ dk_block b ++ dk_elifs els
  | SFor x es b => false :: dk_exprs es ++ dk_block b
  | SForIn xs es b => falses xs ++ dk_exprs es ++ dk_block b
  | SLabel _ | SGoto _ => []
  | SLocalAttr x _ es => falses [x] ++ dk_exprs es
  end
with dk_elifs (els : elifs) : list bool :=
  match els with
  | ElEnd => []
  | ElElse b => dk_block b
  | ElIf c b t => dk_expr c ++ dk_block b ++ dk_elifs t
  end
with dk_block (b : block) : list bool :=
  match b with
  | BNil => []
  | BRet es => dk_exprs es
  | BCons s t => dk_stat s ++ dk_block t
  end.

(** [d] is the ordinal of a declaration that has a token (a local, a parameter, a loop variable, a local function) *)
Definition real_decl (p : program) (d : nat) : Prop := nth_error (dk_block p) d = Some false.

(** * (A) with ordinal identities

    Declarations are numbered in source order (the implicit self of a method takes a number too); [cnt_x] is the
    number of declarations inside a construct, so the ordinal of every declaration is known without threading. *)

Definition oenv := list (name * nat).

Definition olookup (x : name) (r : oenv) : option nat :=
  match find (fun b => fst b =? x) r with Some b => Some (snd b) | None => None end.

(** bindings of a name list, the first name gets ordinal [k] *)
Fixpoint obind (xs : list name) (k : nat) (r : oenv) : oenv :=
  match xs with
  | [] => r
  | x :: t => obind t (S k) ((x, k) :: r)
  end.

Definition olen (xs : list name) : nat := List.length xs.

Definition cnt_expr (e : expr) : nat := List.length (dk_expr e).
Definition cnt_exprs (es : exprs) : nat := List.length (dk_exprs es).
Definition cnt_stat (s : stat) : nat := List.length (dk_stat s).
Definition cnt_elifs (els : elifs) : nat := List.length (dk_elifs els).
Definition cnt_block (b : block) : nat := List.length (dk_block b).

(** the environment after a statement / at the end of a block whose first declaration has ordinal [k] *)
Definition env_after (r : oenv) (s : stat) (k : nat) : oenv :=
  match s with
  | SLocal xs _ => obind xs k r
  | SLocalFun f _ _ => (f, k) :: r
  | SLocalAttr x _ _ => obind [x] k r
  | _ => r
  end.

Fixpoint benv_after (r : oenv) (b : block) (k : nat) : oenv :=
  match b with
  | BNil | BRet _ => r
  | BCons s t => benv_after (env_after r s k) t (k + cnt_stat s)%nat
  end.

(** environment and first ordinal of the body of a function statement (the implicit self of a method first) *)
Definition meth_env (meth : option name) (r : oenv) (k : nat) : oenv :=
  match meth with Some _ => (self_name, k) :: r | None => r end.
Definition meth_cnt (meth : option name) : nat := match meth with Some _ => 1%nat | None => 0%nat end.

(** resolutions of the uses in source order; [k] is the ordinal of the first declaration of the construct *)
Fixpoint ord_expr (r : oenv) (e : expr) (k : nat) : list (option nat) :=
  match e with
  | ENum _ => []
  | EName x => [olookup x r]
  | EIdx e1 _ => ord_expr r e1 k
  | ECall f args => ord_expr r f k ++ ord_exprs r args (k + cnt_expr f)%nat
  | EBin a b => ord_expr r a k ++ ord_expr r b (k + cnt_expr a)%nat
  | EFun ps b => ord_block (obind ps k r) b (k + olen ps)%nat
  | EStr _ => []
  | ETable es => ord_exprs r es k
  | EMeth e1 _ args => ord_expr r e1 k ++ ord_exprs r args (k + cnt_expr e1)%nat
  end
with ord_exprs (r : oenv) (es : exprs) (k : nat) : list (option nat) :=
  match es with
  | ENil => []
  | ECons e t => ord_expr r e k ++ ord_exprs r t (k + cnt_expr e)%nat
  end
with ord_stat (r : oenv) (s : stat) (k : nat) : list (option nat) :=
  match s with
  | SLocal xs es => ord_exprs r es (k + olen xs)%nat
  | SAssign vs es => ord_exprs r vs k ++ ord_exprs r es (k + cnt_exprs vs)%nat
  | SCall f args => ord_expr r f k ++ ord_exprs r args (k + cnt_expr f)%nat
  | SLocalFun f ps b => ord_block (obind ps (S k) ((f, k) :: r)) b (S k + olen ps)%nat
  | SFun root fields meth ps b =>
      olookup root r
      :: ord_block (obind ps (k + meth_cnt meth)%nat (meth_env meth r k)) b (k + meth_cnt meth + olen ps)%nat
  | SDo b => ord_block r b k
  | SWhile c b => ord_expr r c k ++ ord_block r b (k + cnt_expr c)%nat
  | SRepeat b c => ord_block r b k ++ ord_expr (benv_after r b k) c (k + cnt_block b)%nat
  | SIf c b els =>
      ord_expr r c k ++ ord_block r b (k + cnt_expr c)%nat ++ ord_elifs r els (k + cnt_expr c + cnt_block b)%nat
  | SFor x es b => ord_exprs r es (S k) ++ ord_block ((x, k) :: r) b (S k + cnt_exprs es)%nat
  | SForIn xs es b =>
      ord_exprs r es (k + olen xs)%nat ++ ord_block (obind xs k r) b (k + olen xs + cnt_exprs es)%nat
  | SLabel _ | SGoto _ => []
  | SLocalAttr x _ es => ord_exprs r es (k + olen [x])%nat
  end
with ord_elifs (r : oenv) (els : elifs) (k : nat) : list (option nat) :=
  match els with
  | ElEnd => []
  | ElElse b => ord_block r b k
  | ElIf c b t =>
      ord_expr r c k ++ ord_block r b (k + cnt_expr c)%nat ++ ord_elifs r t (k + cnt_expr c + cnt_block b)%nat
  end
with ord_block (r : oenv) (b : block) (k : nat) : list (option nat) :=
  match b with
  | BNil => []
  | BRet es => ord_exprs r es k
  | BCons s t => ord_stat r s k ++ ord_block (env_after r s k) t (k + cnt_stat s)%nat
  end.

Definition ord_resolve (p : program) : list (option nat) := ord_block [] p 0%nat.

(** * alpha-renaming: the declaration with ordinal [d] and the uses (A) resolves to it get the name [y] *)

Fixpoint al_names (d : nat) (y : name) (xs : list name) (k : nat) : list name :=
  match xs with
  | [] => []
  | x :: t => (if Nat.eqb k d then y else x) :: al_names d y t (S k)
  end.

Definition al_use (d : nat) (y : name) (r : oenv) (x : name) : name :=
  match olookup x r with
  | Some i => if Nat.eqb i d then y else x
  | None => x
  end.

(** the renamed construct ([r] is the environment of the ORIGINAL program) *)
Fixpoint al_expr (d : nat) (y : name) (r : oenv) (e : expr) (k : nat) : expr :=
  match e with
  | ENum n => ENum n
  | EName x => EName (al_use d y r x)
  | EIdx e1 f => EIdx (al_expr d y r e1 k) f
  | ECall f args => ECall (al_expr d y r f k) (al_exprs d y r args (k + cnt_expr f)%nat)
  | EBin a b => EBin (al_expr d y r a k) (al_expr d y r b (k + cnt_expr a)%nat)
  | EFun ps b => EFun (al_names d y ps k) (al_block d y (obind ps k r) b (k + olen ps)%nat)
  | EStr n => EStr n
  | ETable es => ETable (al_exprs d y r es k)
  | EMeth e1 m args => EMeth (al_expr d y r e1 k) m (al_exprs d y r args (k + cnt_expr e1)%nat)
  end
with al_exprs (d : nat) (y : name) (r : oenv) (es : exprs) (k : nat) : exprs :=
  match es with
  | ENil => ENil
  | ECons e t => ECons (al_expr d y r e k) (al_exprs d y r t (k + cnt_expr e)%nat)
  end
with al_stat (d : nat) (y : name) (r : oenv) (s : stat) (k : nat) : stat :=
  match s with
  | SLocal xs es => SLocal (al_names d y xs k) (al_exprs d y r es (k + olen xs)%nat)
  | SAssign vs es => SAssign (al_exprs d y r vs k) (al_exprs d y r es (k + cnt_exprs vs)%nat)
  | SCall f args => SCall (al_expr d y r f k) (al_exprs d y r args (k + cnt_expr f)%nat)
  | SLocalFun f ps b =>
      SLocalFun (if Nat.eqb k d then y else f) (al_names d y ps (S k))
                (al_block d y (obind ps (S k) ((f, k) :: r)) b (S k + olen ps)%nat)
  | SFun root fields meth ps b =>
      SFun (al_use d y r root) fields meth (al_names d y ps (k + meth_cnt meth)%nat)
           (al_block d y (obind ps (k + meth_cnt meth)%nat (meth_env meth r k)) b (k + meth_cnt meth + olen ps)%nat)
  | SDo b => SDo (al_block d y r b k)
  | SWhile c b => SWhile (al_expr d y r c k) (al_block d y r b (k + cnt_expr c)%nat)
  | SRepeat b c => SRepeat (al_block d y r b k) (al_expr d y (benv_after r b k) c (k + cnt_block b)%nat)
  | SIf c b els =>
      SIf (al_expr d y r c k) (al_block d y r b (k + cnt_expr c)%nat)
          (al_elifs d y r els (k + cnt_expr c + cnt_block b)%nat)
  | SFor x es b =>
      SFor (if Nat.eqb k d then y else x) (al_exprs d y r es (S k))
           (al_block d y ((x, k) :: r) b (S k + cnt_exprs es)%nat)
  | SForIn xs es b =>
      SForIn (al_names d y xs k) (al_exprs d y r es (k + olen xs)%nat)
             (al_block d y (obind xs k r) b (k + olen xs + cnt_exprs es)%nat)
  | SLabel l => SLabel l
  | SGoto l => SGoto l
  | SLocalAttr x cl es => SLocalAttr (if Nat.eqb k d then y else x) cl (al_exprs d y r es (k + olen [x])%nat)
  end
with al_elifs (d : nat) (y : name) (r : oenv) (els : elifs) (k : nat) : elifs :=
  match els with
  | ElEnd => ElEnd
  | ElElse b => ElElse (al_block d y r b k)
  | ElIf c b t =>
      ElIf (al_expr d y r c k) (al_block d y r b (k + cnt_expr c)%nat)
           (al_elifs d y r t (k + cnt_expr c + cnt_block b)%nat)
  end
with al_block (d : nat) (y : name) (r : oenv) (b : block) (k : nat) : block :=
  match b with
  | BNil => BNil
  | BRet es => BRet (al_exprs d y r es k)
  | BCons s t => BCons (al_stat d y r s k) (al_block d y (env_after r s k) t (k + cnt_stat s)%nat)
  end.

Definition alpha (d : nat) (y : name) (p : program) : program := al_block d y [] p 0%nat.

(** the variable names of a construct (declarations and uses; not fields, not method names) *)
Fixpoint names_expr (e : expr) : list name :=
  match e with
  | ENum _ => []
  | EName x => [x]
  | EIdx e1 _ => names_expr e1
  | ECall f args => names_expr f ++ names_exprs args
  | EBin a b => names_expr a ++ names_expr b
  | EFun ps b => ps ++ names_block b
  | EStr _ => []
  | ETable es => names_exprs es
  | EMeth e1 _ args => names_expr e1 ++ names_exprs args
  end
with names_exprs (es : exprs) : list name :=
  match es with ENil => [] | ECons e t => names_expr e ++ names_exprs t end
with names_stat (s : stat) : list name :=
  match s with
  | SLocal xs es => xs ++ names_exprs es
  | SAssign vs es => names_exprs vs ++ names_exprs es
  | SCall f args => names_expr f ++ names_exprs args
  | SLocalFun f ps b => f :: ps ++ names_block b
  | SFun root _ _ ps b => root :: ps ++ names_block b
  | SDo b => names_block b
  | SWhile c b => names_expr c ++ names_block b
  | SRepeat b c => names_block b ++ names_expr c
  | SIf c b els => names_expr c ++ names_block b ++ names_elifs els
  | SFor x es b => x :: names_exprs es ++ names_block b
  | SForIn xs es b => xs ++ names_exprs es ++ names_block b
  | SLabel _ | SGoto _ => []
  | SLocalAttr x _ es => [x] ++ names_exprs es
  end
with names_elifs (els : elifs) : list name :=
  match els with
  | ElEnd => []
  | ElElse b => names_block b
  | ElIf c b t => names_expr c ++ names_block b ++ names_elifs t
  end
with names_block (b : block) : list name :=
  match b with
  | BNil => []
  | BRet es => names_exprs es
  | BCons s t => names_stat s ++ names_block t
  end.

(** [y] is fresh for the program: no variable is called [y] (and it is not the implicit [self]) *)
Definition fresh (y : name) (p : program) : Prop := ~ In y (names_block p) /\ y <> self_name.

(** * the positions of the declarations in source order (the implicit self of a method at its colon) *)
Fixpoint names_pos (xs : list name) (o : N) : list N :=
  match xs with [] => [] | x :: t => o :: names_pos t (o + nlen x + 2) end.

Fixpoint dpos_expr (e : expr) (o : N) : list N :=
  match e with
  | ENum _ | EName _ => []
  | EIdx e1 _ => dpos_expr e1 (o + paren e1)
  | ECall f args => dpos_expr f (o + paren f) ++ dpos_exprs args (o + paren f + len_expr f + paren f + 1)
  | EBin a b => dpos_expr a o ++ dpos_expr b (o + len_expr a + 3)
  | EFun ps b => names_pos ps (o + 8 + 1) ++ dpos_block b (o + 8 + (1 + len_names ps + 1) + 1)
  | EStr _ => []
  | ETable es => dpos_exprs es (o + 1)
  | EMeth e1 m args =>
      dpos_expr e1 (o + paren e1) ++ dpos_exprs args (o + paren e1 + len_expr e1 + paren e1 + 1 + nlen m + 1)
  end
with dpos_exprs (es : exprs) (o : N) : list N :=
  match es with ENil => [] | ECons e t => dpos_expr e o ++ dpos_exprs t (o + len_expr e + 2) end
with dpos_stat (s : stat) (o : N) : list N :=
  match s with
  | SLocal xs es => names_pos xs (o + 6) ++ dpos_exprs es (o + 6 + len_names xs + 3)
  | SAssign vs es => dpos_exprs vs o ++ dpos_exprs es (o + len_exprs vs + 3)
  | SCall f args => dpos_expr f (o + paren f) ++ dpos_exprs args (o + paren f + len_expr f + paren f + 1)
  | SLocalFun f ps b =>
      let po := o + 15 + nlen f in
      (o + 15) :: names_pos ps (po + 1) ++ dpos_block b (po + (1 + len_names ps + 1) + 1)
  | SFun root fields meth ps b =>
      let colon := o + 9 + nlen root + len_fields fields in
      let po := colon + len_meth meth in
      match meth with Some _ => [colon] | None => [] end
      ++ names_pos ps (po + 1) ++ dpos_block b (po + (1 + len_names ps + 1) + 1)
  | SDo b => dpos_block b (o + 2 + 1)
  | SWhile c b => dpos_expr c (o + 6) ++ dpos_block b (o + 6 + len_expr c + 3 + 1)
  | SRepeat b c => dpos_block b (o + 6 + 1) ++ dpos_expr c (o + 6 + (1 + len_block b) + 6)
  | SIf c b els =>
      dpos_expr c (o + 3) ++ dpos_block b (o + 3 + len_expr c + 5 + 1)
      ++ dpos_elifs els (o + 3 + len_expr c + 5 + (1 + len_block b))
  | SFor x es b =>
      (o + 4) :: dpos_exprs es (o + 4 + nlen x + 3) ++ dpos_block b (o + 4 + nlen x + 3 + len_exprs es + 3 + 1)
  | SForIn xs es b =>
      names_pos xs (o + 4) ++ dpos_exprs es (o + 4 + len_names xs + 4)
      ++ dpos_block b (o + 4 + len_names xs + 4 + len_exprs es + 3 + 1)
  | SLabel _ | SGoto _ => []
  | SLocalAttr x _ es => names_pos [x] (o + 6) ++ dpos_exprs es (o + 6 + nlen x + 8 + 3)
  end
with dpos_elifs (els : elifs) (o : N) : list N :=
  match els with
  | ElEnd => []
  | ElElse b => dpos_block b (o + 4 + 1)
  | ElIf c b t =>
      dpos_expr c (o + 7) ++ dpos_block b (o + 7 + len_expr c + 5 + 1)
      ++ dpos_elifs t (o + 7 + len_expr c + 5 + (1 + len_block b))
  end
with dpos_block (b : block) (o : N) : list N :=
  match b with
  | BNil => []
  | BRet es => dpos_exprs es (o + 7)
  | BCons s t => dpos_stat s o ++ dpos_block t (o + len_stat s + 1)
  end.

(** the positional resolver and the ordinal resolver tell the same story (executable; checked per case) *)
Definition ord_agrees (p : program) : bool :=
  let dp := dpos_block p 0 in
  let a := map snd (ref_resolve p) in
  let b := map (fun oi => match oi with Some i => Some (nth i dp 0) | None => None end) (ord_resolve p) in
  (fix eq (x y : list (option N)) : bool :=
     match x, y with
     | [], [] => true
     | Some u :: x', Some v :: y' => (u =? v) && eq x' y'
     | None :: x', None :: y' => eq x' y'
     | _, _ => false
     end) a b.
