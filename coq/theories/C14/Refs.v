(** C14/Refs.v — the reference index of the C13 model as the inverse image of resolution; rename edits. *)
From EV Require Import C13.Model C13.Corr C13.Proofs C14.Model.
Local Open Scope N_scope.

(** * the keys of the reference map are pairwise different (add_decl_reference never overwrites) *)

Definition Q (st : state) : Prop :=
  NoDup (map fst (st_refs st)) /\
  map (fun c => (fst (snd c), fst c)) (st_cells st) = map (fun r => (fst r, d_pos (snd r))) (st_refs st).

Lemma lookup_ref_none_notin : forall p refs, lookup_ref p refs = None -> ~ In p (map fst refs).
Proof.
  intros p refs H Hin. unfold lookup_ref in H.
  destruct (find (fun r => fst r =? p) refs) as [r|] eqn:E; [discriminate|].
  apply in_map_iff in Hin. destruct Hin as (r & Hr & Hin).
  pose proof (find_none _ _ E r Hin) as Hn. cbv beta in Hn. rewrite Hr, N.eqb_refl in Hn. discriminate.
Qed.

Lemma NoDup_snoc : forall (l : list N) a, NoDup l -> ~ In a l -> NoDup (l ++ [a]).
Proof.
  induction l as [|b r IH]; intros a Hnd Hni; [constructor; [intros []|constructor]|].
  inversion Hnd as [|? ? Hb Hr]; subst. cbn [app]. constructor.
  - intros H. apply in_app_or in H. destruct H as [H|[H|[]]]; [contradiction|]. apply Hni. left. symmetry. exact H.
  - apply IH; [exact Hr|]. intros H. apply Hni. right. exact H.
Qed.

Lemma Q_add_ref : forall p e d st, Q st -> Q (add_ref p e d st).
Proof.
  intros p e d st (H & Hl). unfold add_ref. destruct (lookup_ref p (st_refs st)) eqn:E; [split; assumption|].
  unfold Q. cbn [st_refs st_cells]. rewrite !map_app. cbn [map fst snd]. split.
  - apply NoDup_snoc; [exact H|apply lookup_ref_none_notin; exact E].
  - rewrite Hl. reflexivity.
Qed.

Lemma Q_same : forall st st', st_refs st' = st_refs st /\ st_cells st' = st_cells st -> Q st -> Q st'.
Proof. intros st st' (E & E') H. unfold Q. rewrite E, E'. exact H. Qed.

Lemma refs_add_decl : forall d st, st_refs (add_decl d st) = st_refs st /\ st_cells (add_decl d st) = st_cells st.
Proof. intros d st. unfold add_decl. destruct (st_z st); split; reflexivity. Qed.
Lemma refs_pop : forall st, st_refs (pop_scope st) = st_refs st /\ st_cells (pop_scope st) = st_cells st.
Proof. intros st. unfold pop_scope. destruct (st_z st) as [|f [|g z]]; split; reflexivity. Qed.

Definition Pres (f : state -> state) : Prop := forall st, Q st -> Q (f st).

Lemma Pres_add_decl : forall d, Pres (add_decl d).
Proof. intros d st H. eapply Q_same; [apply refs_add_decl|exact H]. Qed.
Lemma Pres_create : forall s e k, Pres (create_scope s e k).
Proof. intros s e k st H. exact H. Qed.
Lemma Pres_pop : Pres pop_scope.
Proof. intros st H. eapply Q_same; [apply refs_pop|exact H]. Qed.
Lemma Pres_add_ref : forall p e d, Pres (add_ref p e d).
Proof. intros p e d st H. apply Q_add_ref. exact H. Qed.
Lemma Pres_id : Pres (fun st => st).
Proof. intros st H. exact H. Qed.
Lemma Pres_comp : forall f g, Pres f -> Pres g -> Pres (fun st => g (f st)).
Proof. intros f g Hf Hg st H. apply Hg, Hf, H. Qed.

Lemma Pres_name : forall x p, Pres (analyze_name_expr x p).
Proof.
  intros x p st H. unfold analyze_name_expr. cbv zeta.
  destruct (get_decl p st); [apply Q_add_ref; exact H|].
  destruct (find_decl x p st) as [d|]; [|exact H].
  destruct (is_local d); [apply Q_add_ref; exact H|].
  destruct (d_pos d =? p); [exact H|apply Q_add_ref; exact H].
Qed.

Lemma Pres_name_decls : forall xs o, Pres (add_name_decls xs o).
Proof.
  induction xs as [|x r IH]; intros o st H; [exact H|]. cbn [add_name_decls]. apply IH. apply Pres_add_decl. exact H.
Qed.

Lemma Pres_assign_vars : forall vs o, Pres (analyze_assign_vars vs o).
Proof.
  induction vs as [|v r IH]; intros o st H; [exact H|]. cbn [analyze_assign_vars]. apply IH.
  destruct v; try exact H.
  destruct (find_decl x o st); [apply Q_add_ref; exact H|apply Pres_add_decl; exact H].
Qed.

Lemma Pres_body : forall (w : N -> state -> state) len hi bo, (forall o, Pres (w o)) -> Pres (walk_body w len hi bo).
Proof.
  intros w len hi bo Hw st H. unfold walk_body. destruct hi; [|exact H].
  apply Pres_pop. apply Hw. exact H.
Qed.

Lemma Pres_closure : forall (w : N -> state -> state) len hi self ps cs ce po,
  (forall o, Pres (w o)) -> Pres (walk_closure w len hi self ps cs ce po).
Proof.
  intros w len hi self ps cs ce po Hw st H. unfold walk_closure. cbv zeta.
  apply Pres_pop.
  assert (H3 : Q (add_name_decls ps (po + 1)
                    match self with
                    | Some c => add_decl (mkDecl c self_name DSelf) (create_scope cs ce KClosure st)
                    | None => create_scope cs ce KClosure st
                    end)).
  { apply Pres_name_decls. destruct self; [apply Pres_add_decl|]; exact H. }
  destruct hi; [|exact H3]. apply Pres_pop. apply Hw. exact H3.
Qed.

Lemma Pres_walk :
  (forall e o, Pres (walk_expr e o)) /\ (forall es o, Pres (walk_exprs es o)) /\
  (forall s o, Pres (walk_stat s o)) /\ (forall els o, Pres (walk_elifs els o)) /\
  (forall b o, Pres (walk_block b o)).
Proof.
  apply syntax_mutind; intros; intros st HQ;
    cbn [walk_expr walk_exprs walk_stat walk_elifs walk_block];
    repeat match goal with
           | |- Q (pop_scope _) => apply Pres_pop
           | |- Q (walk_body _ _ _ _ _) => apply Pres_body; [assumption|]
           | |- Q (walk_closure _ _ _ _ _ _ _ _ _) => apply Pres_closure; [assumption|]
           | |- Q (create_scope _ _ _ _) => apply Pres_create
           | |- Q (add_decl _ _) => apply Pres_add_decl
           | |- Q (add_name_decls _ _ _) => apply Pres_name_decls
           | |- Q (analyze_assign_vars _ _ _) => apply Pres_assign_vars
           | |- Q (analyze_name_expr _ _ _) => apply Pres_name
           | H : forall o, Pres (?w ?x o) |- Q (?w ?x _ _) => apply H
           | |- Q (match ?m with _ => _ end) => destruct m
           end;
    try assumption.
Qed.

Lemma Q_program : forall p, Q (walk_program p).
Proof.
  intros p. unfold walk_program.
  assert (H0 : Q (create_scope 0 (len_block p) KNormal (mkState [] [] [] []))) by (split; [constructor|reflexivity]).
  destruct (has_items p); [|exact H0].
  apply Pres_pop. apply (proj2 (proj2 (proj2 (proj2 Pres_walk)))). exact H0.
Qed.

(** * cells = inverse image of the map *)

Lemma lookup_ref_in_nodup : forall refs u dd,
  NoDup (map fst refs) -> In (u, dd) refs -> lookup_ref u refs = Some dd.
Proof.
  induction refs as [|r t IH]; intros u dd Hnd Hin; [destruct Hin|].
  cbn [map] in Hnd. inversion Hnd as [|? ? Hni Hnd']; subst.
  unfold lookup_ref. cbn [find]. destruct Hin as [-> | Hin].
  - cbn [fst]. rewrite N.eqb_refl. reflexivity.
  - destruct (N.eqb_spec (fst r) u) as [E|E].
    + exfalso. apply Hni. rewrite E. apply in_map_iff. exists (u, dd). split; [reflexivity|exact Hin].
    + apply (IH u dd Hnd' Hin).
Qed.

Lemma lookup_ref_some_in : forall refs u dd, lookup_ref u refs = Some dd -> In (u, dd) refs.
Proof.
  intros refs u dd H. unfold lookup_ref in H.
  destruct (find (fun r => fst r =? u) refs) as [r|] eqn:E; [|discriminate].
  injection H as <-. apply find_some in E. destruct E as (Hin & Hk). apply N.eqb_eq in Hk.
  destruct r as [k v]. cbn [fst snd] in *. subst k. exact Hin.
Qed.

Lemma cells_preimage : forall refs d u,
  NoDup (map fst refs) ->
  (In u (map fst (filter (fun r => d_pos (snd r) =? d) refs))
   <-> exists dd, lookup_ref u refs = Some dd /\ d_pos dd = d).
Proof.
  intros refs d u Hnd. split.
  - intros H. apply in_map_iff in H. destruct H as ((k & dd) & Hk & Hin). cbn [fst] in Hk. subst k.
    apply filter_In in Hin. destruct Hin as (Hin & Hd). cbn [snd] in Hd. apply N.eqb_eq in Hd.
    exists dd. split; [apply lookup_ref_in_nodup; assumption|exact Hd].
  - intros (dd & Hl & Hd). apply in_map_iff. exists (u, dd). split; [reflexivity|].
    apply filter_In. split; [apply lookup_ref_some_in; exact Hl|]. cbn [snd]. apply N.eqb_eq. exact Hd.
Qed.

(** the declaration (identified by its position, as [LuaDeclId]) the reference index maps a position to *)
Definition resolve_B (st : state) (u : N) : option N :=
  match lookup_ref u (st_refs st) with Some dd => Some (d_pos dd) | None => None end.

(** the cell lists and the map are filled in lockstep *)
Lemma cells_of_refs : forall (cells : list (N * (N * N))) (refs : list (N * decl)) d,
  map (fun c => (fst (snd c), fst c)) cells = map (fun r => (fst r, d_pos (snd r))) refs ->
  map fst (map snd (filter (fun c => fst c =? d) cells)) = map fst (filter (fun r => d_pos (snd r) =? d) refs).
Proof.
  induction cells as [|c t IH]; intros refs d H; destruct refs as [|r t']; try discriminate; [reflexivity|].
  cbn [map] in H. injection H as H1 H2 H3. cbn [filter]. rewrite H2.
  destruct (d_pos (snd r) =? d); cbn [map]; rewrite (IH t' d H3); [rewrite H1|]; reflexivity.
Qed.

Lemma decl_cells_refs : forall p d,
  decl_cells (walk_program p) d = map fst (filter (fun r => d_pos (snd r) =? d) (st_refs (walk_program p))).
Proof. intros p d. unfold decl_cells, decl_cell_ranges. apply cells_of_refs. apply (proj2 (Q_program p)). Qed.

Theorem refs_eq_preimage : forall (p : program) (d u : N),
  In u (decl_cells (walk_program p) d) <-> resolve_B (walk_program p) u = Some d.
Proof.
  intros p d u. rewrite decl_cells_refs. unfold resolve_B. rewrite (cells_preimage _ d u (proj1 (Q_program p))). split.
  - intros (dd & Hl & Hd). rewrite Hl, Hd. reflexivity.
  - intros H. destruct (lookup_ref u (st_refs (walk_program p))) as [dd|]; [|discriminate].
    injection H as H. exists dd. split; [reflexivity|exact H].
Qed.

(** with C13: every use that Lua scoping resolves to the local declaration at [d] is a cell of [d] *)
Theorem refs_contain_resolved : forall (p : program) (u d : N),
  In (u, Some d) (ref_resolve p) -> In u (decl_cells (walk_program p) d).
Proof.
  intros p u d H. rewrite <- impl_resolver_eq_reference in H. unfold impl_resolve in H.
  apply in_map_iff in H. destruct H as ((u' & x) & Heq & _). cbn [fst] in Heq. injection Heq as -> Himpl.
  apply refs_eq_preimage. unfold resolve_B. unfold impl_at, classify in Himpl.
  destruct (lookup_ref u (st_refs (walk_program p))) as [dd|]; [|discriminate].
  destruct (d_kind dd); try discriminate; injection Himpl as <-; reflexivity.
Qed.

(** and a cell of a declaration that is local (not a global's) is a position the reference index — hence, for the
    name uses of the program, Lua scoping — resolves to it *)
Theorem refs_only_resolved : forall (p : program) (u d : N) (x : name),
  In u (decl_cells (walk_program p) d) -> In (u, x) (uses_block p 0) ->
  (forall dd, lookup_ref u (st_refs (walk_program p)) = Some dd -> d_kind dd <> DGlobal) ->
  In (u, Some d) (ref_resolve p).
Proof.
  intros p u d x Hc Hu Hk. apply refs_eq_preimage in Hc. unfold resolve_B in Hc.
  rewrite <- impl_resolver_eq_reference. unfold impl_resolve. apply in_map_iff. exists (u, x). split; [|exact Hu].
  cbn [fst]. f_equal. unfold impl_at, classify.
  destruct (lookup_ref u (st_refs (walk_program p))) as [dd|] eqn:E; [|discriminate].
  injection Hc as Hc. specialize (Hk dd eq_refl). destruct (d_kind dd); try congruence; rewrite Hc; reflexivity.
Qed.

(** * rename edits *)

Lemma range_eqb_eq : forall a b, range_eqb a b = true <-> a = b.
Proof.
  intros [a1 a2] [b1 b2]. unfold range_eqb. cbn [fst snd]. rewrite andb_true_iff, !N.eqb_eq. split.
  - intros (-> & ->). reflexivity.
  - intros E. injection E as -> ->. split; reflexivity.
Qed.

Lemma nodupR_in : forall l a, In a (nodupR l) <-> In a l.
Proof.
  induction l as [|b r IH]; intros a; [reflexivity|]. cbn [nodupR].
  destruct (existsb (range_eqb b) r) eqn:E.
  - rewrite IH. split; [intros H; right; exact H|]. intros [<- | H]; [|exact H].
    apply existsb_exists in E. destruct E as (c & Hc & Hbc). apply range_eqb_eq in Hbc. subst c. exact Hc.
  - cbn [In]. rewrite IH. reflexivity.
Qed.

Lemma nodupR_nodup : forall l, NoDup (nodupR l).
Proof.
  induction l as [|b r IH]; [constructor|]. cbn [nodupR].
  destruct (existsb (range_eqb b) r) eqn:E; [exact IH|].
  constructor; [|exact IH]. intros H. apply (proj1 (nodupR_in r b)) in H.
  assert (existsb (range_eqb b) r = true) by (apply existsb_exists; exists b; split; [exact H|apply range_eqb_eq; reflexivity]). congruence.
Qed.

Definition edit_start (e : edit) : N := fst (fst e).
Definition edit_range (e : edit) : N * N := fst e.

(** the edits of a rename are exactly the declaration token and the references of the declaration: each range
    once, with the new name *)
Theorem rename_edits_exact : forall (p : program) (d : N) (x new : name),
  let st := walk_program p in
  let es := impl_rename st d x new in
  (forall r, In r (map edit_range es) <-> r = (d, d + nlen x) \/ In r (decl_cell_ranges st d)) /\
  (forall q, In q (map edit_start es) <-> q = d \/ resolve_B st q = Some d) /\
  NoDup (map edit_range es) /\
  Forall (fun e => snd e = new) es.
Proof.
  intros p d x new st es. unfold es, impl_rename.
  set (rs := nodupR ((d, d + nlen x) :: decl_cell_ranges st d)).
  assert (Hmap : map edit_range (map (fun r => (fst r, snd r, new)) rs) = rs).
  { rewrite map_map. unfold edit_range. cbn [fst]. rewrite <- (map_id rs) at 2. apply map_ext. intros [a b]. reflexivity. }
  assert (Hstart : map edit_start (map (fun r => (fst r, snd r, new)) rs) = map fst rs).
  { rewrite map_map. reflexivity. }
  split; [|split; [|split]].
  - intros r. rewrite Hmap. unfold rs. rewrite nodupR_in. cbn [In]. split; intros [H|H]; auto.
  - intros q. rewrite Hstart. unfold st. rewrite <- (refs_eq_preimage p d q). unfold decl_cells. split.
    + intros H. apply in_map_iff in H. destruct H as (r & <- & Hr). unfold rs in Hr. apply (proj1 (nodupR_in _ _)) in Hr.
      destruct Hr as [<- | Hr]; [left; reflexivity|right; apply in_map; exact Hr].
    + intros [-> | H].
      * apply in_map_iff. exists (d, d + nlen x). split; [reflexivity|]. unfold rs. apply (proj2 (nodupR_in _ _)). left. reflexivity.
      * apply in_map_iff in H. destruct H as (r & <- & Hr). apply in_map. unfold rs. apply (proj2 (nodupR_in _ _)). right. exact Hr.
  - rewrite Hmap. apply nodupR_nodup.
  - apply Forall_forall. intros e He. apply in_map_iff in He. destruct He as (r & <- & _). reflexivity.
Qed.
