(** C14/Props.v — property theorems only.  Each is closed by [exact] of a lemma of Proofs.v.

    C14 "Rename and references agree with name resolution", on the C13 model of the implementation:
    [decl_cells st d]     the cells of [FileReference::decl_references] for the declaration at position [d];
    [impl_references]     what search_decl_references returns for a local declaration (declaration, then cells);
    [impl_rename]         the edits of rename_decl_references for a local declaration;
    [resolve_B st u]      the declaration the reference index maps the position [u] to;
    [ref_resolve p]       (A), the reference resolver of C13;  [ord_resolve], (A) with declarations identified by
                          their ordinal in source order;  [alpha d y p], the program with the declaration [d] and the
                          uses (A) resolves to it renamed to [y]. *)
From EV Require Import C13.Model C13.Corr C14.Model C14.Refs C14.Tokens C14.Agree C14.Corr C14.Proofs.
Local Open Scope N_scope.

(** The cells of a declaration are exactly the positions the reference index resolves to it
    (the two maps of the reference index are inverse images of each other), for every program. *)
Theorem refs_eq_preimage : forall (p : program) (d u : N),
  In u (decl_cells (walk_program p) d) <-> resolve_B (walk_program p) u = Some d.
Proof. exact Proofs.refs_eq_preimage. Qed.

(** With C13: every use that Lua scoping resolves to the local declaration at [d] is among its references ... *)
Theorem refs_contain_resolved : forall (p : program) (u d : N),
  In (u, Some d) (ref_resolve p) -> In u (decl_cells (walk_program p) d).
Proof. exact Proofs.refs_contain_resolved. Qed.

(** ... and nothing else is: a cell of a local declaration that is a name use of the program is a use that Lua
    scoping resolves to it. *)
Theorem refs_only_resolved : forall (p : program) (u d : N) (x : name),
  In u (decl_cells (walk_program p) d) -> In (u, x) (uses_block p 0) ->
  (forall dd, lookup_ref u (st_refs (walk_program p)) = Some dd -> d_kind dd <> DGlobal) ->
  In (u, Some d) (ref_resolve p).
Proof. exact Proofs.refs_only_resolved. Qed.

(** The edits of a rename ([x] is the name of the declaration at [d]): their ranges are the range of the declaration
    token and the ranges of the cells of the declaration and nothing else; their starts are the declaration and the
    positions the reference index resolves to it; no range occurs twice; every edit carries the new name. *)
Theorem rename_edits_exact : forall (p : program) (d : N) (x new : name),
  let st := walk_program p in
  let es := impl_rename st d x new in
  (forall r, In r (map edit_range es) <-> r = (d, d + nlen x) \/ In r (decl_cell_ranges st d)) /\
  (forall q, In q (map edit_start es) <-> q = d \/ resolve_B st q = Some d) /\
  NoDup (map edit_range es) /\
  Forall (fun e => snd e = new) es.
Proof. exact Proofs.rename_edits_exact. Qed.

(** Every cell of the reference index is the range of a name token of the printed program (the range of the
    referring token is carried by the model's reference map, as in FileReference). *)
Theorem cells_are_tokens : forall (p : program) (d : N) (r : N * N),
  In r (decl_cell_ranges (walk_program p) d) ->
  exists x, In (fst r, x) (toks_block p 0) /\ snd r = fst r + nlen x.
Proof. exact Proofs.cells_are_tokens. Qed.

(** The ranges edited by a rename of the declaration token [d] (a name token of the program, named [x]) are
    pairwise disjoint: two different edits never overlap. *)
Theorem rename_edits_disjoint : forall (p : program) (d : N) (x new : name),
  In (d, x) (toks_block p 0) ->
  forall e1 e2, In e1 (impl_rename (walk_program p) d x new) -> In e2 (impl_rename (walk_program p) d x new) ->
  edit_range e1 <> edit_range e2 ->
  snd (edit_range e1) <= fst (edit_range e2) \/ snd (edit_range e2) <= fst (edit_range e1).
Proof. exact Proofs.rename_edits_disjoint. Qed.

(** Alpha-renaming: renaming a declaration that has a token (ordinal [d]) and exactly the uses that Lua scoping
    resolves to it, to a name that no variable of the program carries, leaves the resolution of every use unchanged
    (same declaration ordinal, or still global). *)
Theorem rename_preserves_resolution : forall (p : program) (d : nat) (y : name),
  fresh y p -> real_decl p d \/ (List.length (dk_block p) <= d)%nat ->
  ord_resolve (alpha d y p) = ord_resolve p.
Proof. exact Proofs.rename_preserves_resolution. Qed.

(** The ordinal presentation of the reference resolver used above is the positional resolver of C13: the k-th use
    resolves to the position of the declaration with that ordinal ([dpos_block]: the declaration positions in source
    order), or to the global. *)
Theorem ord_resolver_agrees : forall p : program,
  map snd (ref_resolve p) = map (dec (dpos_block p 0)) (ord_resolve p).
Proof. exact Proofs.ord_resolver_agrees. Qed.

(** Hence, in byte positions: after the renaming the k-th use resolves to the declaration with the same ordinal as
    before (the positions move with the text, the structure does not). *)
Theorem rename_preserves_resolution_positional : forall (p : program) (d : nat) (y : name),
  fresh y p -> real_decl p d \/ (List.length (dk_block p) <= d)%nat ->
  map snd (ref_resolve p) = map (dec (dpos_block p 0)) (ord_resolve p) /\
  map snd (ref_resolve (alpha d y p)) = map (dec (dpos_block (alpha d y p) 0)) (ord_resolve p).
Proof. exact Proofs.rename_preserves_resolution_positional. Qed.

Example rename_example :
  let p := BCons (SLocal [0] (ECons (ENum 1) ENil))
          (BCons (SDo (BCons (SLocal [0] (ECons (EName 0) ENil)) (BCons (SCall (EName 3) (ECons (EName 0) ENil)) BNil)))
          (BCons (SCall (EName 3) (ECons (EName 0) ENil)) BNil)) in
  let st := walk_program p in
  impl_references st 6 = [6; 25; 38]
  /\ impl_references st 21 = [21; 29]
  /\ impl_rename st 6 0 9001 = [(6, 7, 9001); (25, 26, 9001); (38, 39, 9001)]
  /\ ord_resolve p = [Some 0%nat; None; Some 1%nat; None; Some 0%nat]
  /\ ord_resolve (alpha 0 9001 p) = ord_resolve p
  /\ real_decl p 0 /\ fresh 9001 p
  /\ check_case {| c_prog := p; c_text := pr_program p; c_fresh := 9001;
                   c_decls := [{| o_pos := 6; o_name := 0; o_cells := [(25, 26); (38, 39)];
                                  o_edits := [(6, 7, 9001); (25, 26, 9001); (38, 39, 9001)] |}] |} = true.
Proof. exact Proofs.rename_example. Qed.
