(** C14/Alpha.v — alpha-renaming: renaming a declaration that has a token, and exactly the uses that resolve to
    it, to a fresh name leaves the resolution structure of the reference resolver (A) unchanged. *)
From EV Require Import C13.Model C14.Model.
From Coq Require Import Arith.

(** renaming does not change which ordinals exist *)
Lemma falses_length : forall xs, List.length (falses xs) = List.length xs.
Proof. intros. unfold falses. apply map_length. Qed.

Section Alpha.
Variable d : nat.
Variable y : name.

Lemma al_names_length : forall xs k, List.length (al_names d y xs k) = List.length xs.
Proof. induction xs as [|x t IH]; intros k; [reflexivity|]. cbn [al_names List.length]. rewrite IH. reflexivity. Qed.

Lemma falses_al_names : forall xs k, falses (al_names d y xs k) = falses xs.
Proof. induction xs as [|x t IH]; intros k; [reflexivity|]. cbn [al_names falses map]. f_equal. apply IH. Qed.

Lemma al_dk :
  (forall e r k, dk_expr (al_expr d y r e k) = dk_expr e) /\
  (forall es r k, dk_exprs (al_exprs d y r es k) = dk_exprs es) /\
  (forall s r k, dk_stat (al_stat d y r s k) = dk_stat s) /\
  (forall els r k, dk_elifs (al_elifs d y r els k) = dk_elifs els) /\
  (forall b r k, dk_block (al_block d y r b k) = dk_block b).
Proof.
  apply syntax_mutind; intros;
    cbn [al_expr al_exprs al_stat al_elifs al_block dk_expr dk_exprs dk_stat dk_elifs dk_block];
    rewrite ?falses_al_names; cbn [falses map]; congruence.
Qed.

Lemma al_cnt_expr : forall e r k, cnt_expr (al_expr d y r e k) = cnt_expr e.
Proof. intros. unfold cnt_expr. rewrite (proj1 al_dk). reflexivity. Qed.
Lemma al_cnt_exprs : forall es r k, cnt_exprs (al_exprs d y r es k) = cnt_exprs es.
Proof. intros. unfold cnt_exprs. rewrite (proj1 (proj2 al_dk)). reflexivity. Qed.
Lemma al_cnt_stat : forall s r k, cnt_stat (al_stat d y r s k) = cnt_stat s.
Proof. intros. unfold cnt_stat. rewrite (proj1 (proj2 (proj2 al_dk))). reflexivity. Qed.
Lemma al_cnt_block : forall b r k, cnt_block (al_block d y r b k) = cnt_block b.
Proof. intros. unfold cnt_block. rewrite (proj2 (proj2 (proj2 (proj2 al_dk)))). reflexivity. Qed.

(** * the renamed environment *)

Definition ren (r : oenv) : oenv := map (fun b => if Nat.eqb (snd b) d then (y, snd b) else b) r.

Definition env_ok (r : oenv) : Prop := ~ In y (map fst r).

Lemma olookup_cons : forall (x : N) (b : N * nat) (t : list (N * nat)),
  olookup x (b :: t) = if (fst b =? x)%N then Some (snd b) else olookup x t.
Proof. intros x b t. unfold olookup. cbn [find]. unfold name in *. destruct (fst b =? x)%N; reflexivity. Qed.

Lemma al_use_cons_ne : forall (x : N) (b : N * nat) (t : list (N * nat)),
  (fst b =? x)%N = false -> al_use d y (b :: t) x = al_use d y t x.
Proof. intros x b t H. unfold al_use. rewrite olookup_cons. unfold name in *. rewrite H. reflexivity. Qed.

(** a use looks up in the renamed environment what it looked up in the original one *)
Lemma olookup_ren : forall r x, env_ok r -> x <> y -> olookup (al_use d y r x) (ren r) = olookup x r.
Proof.
  induction r as [|[x0 i0] t IH]; intros x Hok Hxy; unfold name in *.
  - reflexivity.
  - assert (Hok' : env_ok t) by (intros H; apply Hok; right; exact H).
    assert (Hx0 : x0 <> y) by (intros E; apply Hok; left; exact E).
    cbn [ren map snd]. fold (ren t). rewrite (olookup_cons x (x0, i0) t). cbn [fst snd].
    destruct (N.eqb_spec x0 x) as [E|E].
    + subst x0.
      assert (Hl : olookup x ((x, i0) :: t) = Some i0)
        by (rewrite olookup_cons; cbn [fst snd]; rewrite N.eqb_refl; reflexivity).
      unfold al_use. rewrite Hl.
      destruct (Nat.eqb i0 d); rewrite olookup_cons; cbn [fst snd]; rewrite N.eqb_refl; reflexivity.
    + rewrite al_use_cons_ne by (cbn [fst]; apply N.eqb_neq; exact E).
      specialize (IH x Hok' Hxy).
      assert (Hu : al_use d y t x = x \/ (al_use d y t x = y /\ olookup x t = Some d)).
      { unfold al_use. destruct (olookup x t) as [i|]; [|left; reflexivity].
        destruct (Nat.eqb_spec i d); [right; split; [reflexivity|congruence]|left; reflexivity]. }
      destruct (Nat.eqb_spec i0 d) as [Ei|Ei].
      * rewrite olookup_cons. cbn [fst snd].
        destruct Hu as [Hu|(Hu & Hl)]; rewrite Hu in *.
        -- replace (y =? x)%N with false by (symmetry; apply N.eqb_neq; congruence). exact IH.
        -- rewrite N.eqb_refl. rewrite Hl. congruence.
      * rewrite olookup_cons. cbn [fst snd].
        destruct Hu as [Hu|(Hu & Hl)]; rewrite Hu in *.
        -- replace (x0 =? x)%N with false by (symmetry; apply N.eqb_neq; exact E). exact IH.
        -- replace (x0 =? y)%N with false by (symmetry; apply N.eqb_neq; exact Hx0). exact IH.
Qed.

Lemma ren_obind : forall xs k r, ren (obind xs k r) = obind (al_names d y xs k) k (ren r).
Proof.
  induction xs as [|x t IH]; intros k r; [reflexivity|].
  cbn [obind al_names]. rewrite IH. f_equal. cbn [ren map snd]. destruct (Nat.eqb k d); reflexivity.
Qed.

Lemma env_ok_obind : forall xs k r, env_ok r -> ~ In y xs -> env_ok (obind xs k r).
Proof.
  induction xs as [|x t IH]; intros k r Hok Hn; [exact Hok|].
  cbn [obind]. apply IH.
  - intros [E|H]; [apply Hn; left; exact E|apply Hok; exact H].
  - intros H. apply Hn. right. exact H.
Qed.

Lemma env_ok_cons : forall x i r, env_ok r -> y <> x -> env_ok ((x, i) :: r).
Proof. intros x i r Hok Hx [E|H]; [apply Hx; symmetry; exact E|apply Hok; exact H]. Qed.

(** * no implicit self has the ordinal [d] *)

Definition noself (k : nat) (l : list bool) : Prop := forall j, nth_error l j = Some true -> (k + j)%nat <> d.

Lemma noself_app : forall k a b, noself k (a ++ b) -> noself k a /\ noself (k + List.length a) b.
Proof.
  intros k a b H. split.
  - intros j Hj. apply H. rewrite nth_error_app1; [exact Hj|]. apply nth_error_Some. congruence.
  - intros j Hj. replace (k + List.length a + j)%nat with (k + (List.length a + j))%nat by lia. apply H.
    rewrite nth_error_app2 by lia. replace (List.length a + j - List.length a)%nat with j by lia. exact Hj.
Qed.

Lemma noself_cons_false : forall k l, noself k (false :: l) -> noself (S k) l.
Proof. intros k l H j Hj. replace (S k + j)%nat with (k + S j)%nat by lia. apply H. exact Hj. Qed.

Lemma noself_cons_true : forall k l, noself k (true :: l) -> k <> d /\ noself (S k) l.
Proof.
  intros k l H. split.
  - specialize (H 0%nat eq_refl). rewrite Nat.add_0_r in H. exact H.
  - intros j Hj. replace (S k + j)%nat with (k + S j)%nat by lia. apply H. exact Hj.
Qed.

Lemma noself_falses : forall k xs l, noself k (falses xs ++ l) -> noself (k + List.length xs) l.
Proof. intros k xs l H. apply noself_app in H. destruct H as (_ & H). rewrite falses_length in H. exact H. Qed.


(** * the environments of the renamed program are the renamed environments *)

Hypothesis Hself : y <> self_name.

Lemma ren_env_after : forall s r k, env_after (ren r) (al_stat d y r s k) k = ren (env_after r s k).
Proof.
  intros s r k. destruct s; cbn [al_stat env_after]; try reflexivity.
  - symmetry. apply ren_obind.
  - cbn [ren map snd]. destruct (Nat.eqb k d); reflexivity.
  - cbn [obind ren map snd]. destruct (Nat.eqb k d); reflexivity.
Qed.

Lemma ren_benv_after : forall b r k, benv_after (ren r) (al_block d y r b k) k = ren (benv_after r b k).
Proof.
  induction b as [|es|s t IH]; intros r k; cbn [al_block benv_after]; try reflexivity.
  rewrite al_cnt_stat, ren_env_after. apply IH.
Qed.

Lemma not_in_app : forall (a b : list name), ~ In y (a ++ b) -> ~ In y a /\ ~ In y b.
Proof. intros a b H. split; intros Hin; apply H; apply in_or_app; [left|right]; exact Hin. Qed.

Lemma env_ok_after : forall s r k, env_ok r -> ~ In y (names_stat s) -> env_ok (env_after r s k).
Proof.
  intros s r k Hok Hn. destruct s; cbn [env_after names_stat] in *; try exact Hok.
  - apply not_in_app in Hn. apply env_ok_obind; [exact Hok|apply Hn].
  - apply env_ok_cons; [exact Hok|]. intros E. apply Hn. left. symmetry. exact E.
  - cbn [obind]. apply env_ok_cons; [exact Hok|]. intros E. apply Hn. left. symmetry. exact E.
Qed.

Lemma env_ok_bafter : forall b r k, env_ok r -> ~ In y (names_block b) -> env_ok (benv_after r b k).
Proof.
  induction b as [|es|s t IH]; intros r k Hok Hn; cbn [benv_after names_block] in *; try exact Hok.
  apply not_in_app in Hn. destruct Hn as (Hn1 & Hn2). apply IH; [apply env_ok_after; assumption|exact Hn2].
Qed.

Lemma env_ok_meth : forall meth r k, env_ok r -> env_ok (meth_env meth r k).
Proof.
  intros [m|] r k Hok; cbn [meth_env]; [|exact Hok]. apply env_ok_cons; [exact Hok|exact Hself].
Qed.

Lemma ren_meth : forall meth r k, (meth <> None -> k <> d) -> ren (meth_env meth r k) = meth_env meth (ren r) k.
Proof.
  intros [m|] r k H; cbn [meth_env]; [|reflexivity]. cbn [ren map snd].
  destruct (Nat.eqb_spec k d) as [E|E]; [exfalso; apply H; [discriminate|exact E]|reflexivity].
Qed.

Lemma olookup_use : forall r x, env_ok r -> x <> y -> olookup (al_use d y r x) (ren r) = olookup x r.
Proof. exact olookup_ren. Qed.

Ltac split_names :=
  repeat match goal with
         | H : ~ In y (_ ++ _) |- _ => apply not_in_app in H; destruct H
         | H : ~ In y (_ :: _) |- _ => apply not_in_cons in H; destruct H
         end.

Ltac split_noself :=
  repeat match goal with
         | H : noself _ (falses _ ++ _) |- _ => apply noself_falses in H
         | H : noself _ (_ ++ _) |- _ => apply noself_app in H; destruct H
         | H : noself _ (false :: _) |- _ => apply noself_cons_false in H
         end.

(** * alpha-renaming preserves the resolution of every use *)
Lemma alpha_ord :
  (forall e r k, env_ok r -> ~ In y (names_expr e) -> noself k (dk_expr e) ->
                 ord_expr (ren r) (al_expr d y r e k) k = ord_expr r e k) /\
  (forall es r k, env_ok r -> ~ In y (names_exprs es) -> noself k (dk_exprs es) ->
                  ord_exprs (ren r) (al_exprs d y r es k) k = ord_exprs r es k) /\
  (forall s r k, env_ok r -> ~ In y (names_stat s) -> noself k (dk_stat s) ->
                 ord_stat (ren r) (al_stat d y r s k) k = ord_stat r s k) /\
  (forall els r k, env_ok r -> ~ In y (names_elifs els) -> noself k (dk_elifs els) ->
                   ord_elifs (ren r) (al_elifs d y r els k) k = ord_elifs r els k) /\
  (forall b r k, env_ok r -> ~ In y (names_block b) -> noself k (dk_block b) ->
                 ord_block (ren r) (al_block d y r b k) k = ord_block r b k).
Proof.
  apply syntax_mutind.
  - (* ENum *) reflexivity.
  - (* EName *) intros x r k Hok Hn _. cbn [al_expr ord_expr names_expr] in *. f_equal.
    apply olookup_use; [exact Hok|]. intros E. apply Hn. left. exact E.
  - (* EIdx *) intros e IHe f r k Hok Hn Hs. cbn [al_expr ord_expr names_expr dk_expr] in *. apply IHe; assumption.
  - (* ECall *) intros f IHf args IHa r k Hok Hn Hs. cbn [al_expr ord_expr names_expr dk_expr] in *.
    split_names. split_noself. rewrite al_cnt_expr. f_equal; [apply IHf|apply IHa]; assumption.
  - (* EBin *) intros a IHa b IHb r k Hok Hn Hs. cbn [al_expr ord_expr names_expr dk_expr] in *.
    split_names. split_noself. rewrite al_cnt_expr. f_equal; [apply IHa|apply IHb]; assumption.
  - (* EFun *) intros ps b IHb r k Hok Hn Hs. cbn [al_expr ord_expr names_expr dk_expr] in *.
    split_names. split_noself. unfold olen. rewrite al_names_length, <- ren_obind.
    apply IHb; [apply env_ok_obind; assumption|assumption|assumption].
  - (* EStr *) reflexivity.
  - (* ETable *) intros es IHes r k Hok Hn Hs. cbn [al_expr ord_expr names_expr dk_expr] in *. apply IHes; assumption.
  - (* EMeth *) intros e IHe m args IHa r k Hok Hn Hs. cbn [al_expr ord_expr names_expr dk_expr] in *.
    split_names. split_noself. rewrite al_cnt_expr. f_equal; [apply IHe|apply IHa]; assumption.
  - (* ENil *) reflexivity.
  - (* ECons *) intros e IHe es IHes r k Hok Hn Hs. cbn [al_exprs ord_exprs names_exprs dk_exprs] in *.
    split_names. split_noself. rewrite al_cnt_expr. f_equal; [apply IHe|apply IHes]; assumption.
  - (* SLocal *) intros xs es IHes r k Hok Hn Hs. cbn [al_stat ord_stat names_stat dk_stat] in *.
    split_names. split_noself. unfold olen. rewrite al_names_length. apply IHes; assumption.
  - (* SAssign *) intros vs IHvs es IHes r k Hok Hn Hs. cbn [al_stat ord_stat names_stat dk_stat] in *.
    split_names. split_noself. rewrite al_cnt_exprs. f_equal; [apply IHvs|apply IHes]; assumption.
  - (* SCall *) intros f IHf args IHa r k Hok Hn Hs. cbn [al_stat ord_stat names_stat dk_stat] in *.
    split_names. split_noself. rewrite al_cnt_expr. f_equal; [apply IHf|apply IHa]; assumption.
  - (* SLocalFun *) intros f ps b IHb r k Hok Hn Hs. cbn [al_stat ord_stat names_stat dk_stat] in *.
    split_names. split_noself. unfold olen. rewrite al_names_length.
    replace ((if Nat.eqb k d then y else f, k) :: ren r) with (ren ((f, k) :: r))
      by (cbn [ren map snd]; destruct (Nat.eqb k d); reflexivity).
    rewrite <- ren_obind.
    apply IHb; [apply env_ok_obind; [apply env_ok_cons; assumption|assumption]|assumption|].
    replace (S k + List.length ps)%nat with (S k + List.length ps)%nat by reflexivity. assumption.
  - (* SFun *) intros root fields meth ps b IHb r k Hok Hn Hs. cbn [al_stat ord_stat names_stat dk_stat] in *.
    split_names.
    assert (Hm : (meth <> None -> k <> d) /\ noself (k + meth_cnt meth + List.length ps) (dk_block b)).
    { destruct meth as [m|]; cbn [meth_cnt app] in *.
      - apply noself_cons_true in Hs. destruct Hs as (Hk & Hs). split; [intros _; exact Hk|].
        apply noself_falses in Hs. replace (k + 1 + List.length ps)%nat with (S k + List.length ps)%nat by lia. exact Hs.
      - split; [intros E; congruence|]. apply noself_falses in Hs.
        replace (k + 0 + List.length ps)%nat with (k + List.length ps)%nat by lia. exact Hs. }
    destruct Hm as (Hm & Hsb).
    f_equal; [apply olookup_use; [exact Hok|congruence]|].
    unfold olen. rewrite al_names_length, <- (ren_meth meth r k Hm), <- ren_obind.
    apply IHb; [apply env_ok_obind; [apply env_ok_meth; exact Hok|assumption]|assumption|exact Hsb].
  - (* SDo *) intros b IHb r k Hok Hn Hs. cbn [al_stat ord_stat names_stat dk_stat] in *. apply IHb; assumption.
  - (* SWhile *) intros c IHc b IHb r k Hok Hn Hs. cbn [al_stat ord_stat names_stat dk_stat] in *.
    split_names. split_noself. rewrite al_cnt_expr. f_equal; [apply IHc|apply IHb]; assumption.
  - (* SRepeat *) intros b IHb c IHc r k Hok Hn Hs. cbn [al_stat ord_stat names_stat dk_stat] in *.
    split_names. split_noself. rewrite al_cnt_block, ren_benv_after. f_equal; [apply IHb; assumption|].
    apply IHc; [apply env_ok_bafter; assumption|assumption|assumption].
  - (* SIf *) intros c IHc b IHb els IHe r k Hok Hn Hs. cbn [al_stat ord_stat names_stat dk_stat] in *.
    split_names. split_noself. rewrite al_cnt_expr, al_cnt_block.
    f_equal; [apply IHc; assumption|]. f_equal; [apply IHb; assumption|].
    apply IHe; assumption.
  - (* SFor *) intros x es IHes b IHb r k Hok Hn Hs. cbn [al_stat ord_stat names_stat dk_stat] in *.
    split_names. split_noself. rewrite al_cnt_exprs. f_equal; [apply IHes; assumption|].
    replace ((if Nat.eqb k d then y else x, k) :: ren r) with (ren ((x, k) :: r))
      by (cbn [ren map snd]; destruct (Nat.eqb k d); reflexivity).
    apply IHb; [apply env_ok_cons; assumption|assumption|assumption].
  - (* SForIn *) intros xs es IHes b IHb r k Hok Hn Hs. cbn [al_stat ord_stat names_stat dk_stat] in *.
    split_names. split_noself. unfold olen. rewrite al_names_length, al_cnt_exprs, <- ren_obind.
    f_equal; [apply IHes; assumption|]. apply IHb; [apply env_ok_obind; assumption|assumption|assumption].
  - (* SLabel *) reflexivity.
  - (* SGoto *) reflexivity.
  - (* SLocalAttr *) intros x cl es IHes r k Hok Hn Hs. cbn [al_stat ord_stat names_stat dk_stat] in *.
    split_names. split_noself. unfold olen in *. cbn [List.length] in *. apply IHes; assumption.
  - (* ElEnd *) reflexivity.
  - (* ElElse *) intros b IHb r k Hok Hn Hs. cbn [al_elifs ord_elifs names_elifs dk_elifs] in *. apply IHb; assumption.
  - (* ElIf *) intros c IHc b IHb t IHt r k Hok Hn Hs. cbn [al_elifs ord_elifs names_elifs dk_elifs] in *.
    split_names. split_noself. rewrite al_cnt_expr, al_cnt_block.
    f_equal; [apply IHc; assumption|]. f_equal; [apply IHb; assumption|]. apply IHt; assumption.
  - (* BNil *) reflexivity.
  - (* BRet *) intros es IHes r k Hok Hn Hs. cbn [al_block ord_block names_block dk_block] in *. apply IHes; assumption.
  - (* BCons *) intros s IHs t IHt r k Hok Hn Hs. cbn [al_block ord_block names_block dk_block] in *.
    split_names. split_noself. rewrite al_cnt_stat, ren_env_after.
    f_equal; [apply IHs; assumption|]. apply IHt; [apply env_ok_after; assumption|assumption|assumption].
Qed.

End Alpha.

(** renaming the declaration with ordinal [d] (one that has a token) and its uses to a fresh name leaves the
    resolution of every use unchanged *)
Theorem alpha_preserves_resolution : forall (p : program) (d : nat) (y : name),
  fresh y p -> real_decl p d \/ List.length (dk_block p) <= d ->
  ord_resolve (alpha d y p) = ord_resolve p.
Proof.
  intros p d y (Hn & Hs) Hd. unfold ord_resolve, alpha.
  apply (proj2 (proj2 (proj2 (proj2 (alpha_ord d y Hs)))) p [] 0%nat).
  - intros H. exact H.
  - exact Hn.
  - intros j Hj E. cbn [Nat.add] in E. subst j. destruct Hd as [Hd|Hd].
    + unfold real_decl in Hd. congruence.
    + apply nth_error_None in Hd. congruence.
Qed.
