(** C14/Alpha.v — alpha-renaming: renaming a declaration that has a token, and exactly the uses that resolve to
    it, to a fresh name leaves the resolution structure of the reference resolver (A) unchanged. *)
From EV Require Import C13.Model C14.Model.
From Coq Require Import Arith.

Ltac break_lets :=
  repeat match goal with
         | |- context [let '(_, _) := ?t in _] => destruct t eqn:?
         end.

(** * counters: the next ordinal does not depend on the environment nor on the names *)

Lemma falses_length : forall xs, List.length (falses xs) = List.length xs.
Proof. intros. unfold falses. apply map_length. Qed.

Ltac use_cnt :=
  repeat match goal with
         | IH : forall r k, snd (?f r ?x k) = _, E : ?f ?r0 ?x ?k0 = _ |- _ =>
             let H := fresh "Hc" in pose proof (IH r0 k0) as H; rewrite E in H; cbn [snd fst] in H; clear E
         end.

Lemma ord_cnt :
  (forall e r k, snd (ord_expr r e k) = (k + List.length (dk_expr e))%nat) /\
  (forall es r k, snd (ord_exprs r es k) = (k + List.length (dk_exprs es))%nat) /\
  (forall s r k, snd (ord_stat r s k) = (k + List.length (dk_stat s))%nat) /\
  (forall els r k, snd (ord_elifs r els k) = (k + List.length (dk_elifs els))%nat) /\
  (forall b r k, snd (ord_block r b k) = (k + List.length (dk_block b))%nat).
Proof.
  apply syntax_mutind; intros;
    cbn [ord_expr ord_exprs ord_stat ord_elifs ord_block dk_expr dk_exprs dk_stat dk_elifs dk_block];
    try (destruct meth); break_lets; use_cnt; subst; cbn [snd fst];
    cbn [List.length]; repeat rewrite ?app_length, ?falses_length; cbn [List.length]; unfold olen in *; try lia; auto.
Qed.

Ltac use_cnt_al :=
  repeat match goal with
         | IH : forall r k, snd (al_expr ?d ?y r ?x k) = _, E : al_expr ?d ?y ?r0 ?x ?k0 = _ |- _ =>
             let H := fresh "Hc" in pose proof (IH r0 k0) as H; rewrite E in H; cbn [snd fst] in H; clear E
         | IH : forall r k, snd (al_exprs ?d ?y r ?x k) = _, E : al_exprs ?d ?y ?r0 ?x ?k0 = _ |- _ =>
             let H := fresh "Hc" in pose proof (IH r0 k0) as H; rewrite E in H; cbn [snd fst] in H; clear E
         | IH : forall r k, snd (al_stat ?d ?y r ?x k) = _, E : al_stat ?d ?y ?r0 ?x ?k0 = _ |- _ =>
             let H := fresh "Hc" in pose proof (IH r0 k0) as H; rewrite E in H; cbn [snd fst] in H; clear E
         | IH : forall r k, snd (al_elifs ?d ?y r ?x k) = _, E : al_elifs ?d ?y ?r0 ?x ?k0 = _ |- _ =>
             let H := fresh "Hc" in pose proof (IH r0 k0) as H; rewrite E in H; cbn [snd fst] in H; clear E
         | IH : forall r k, snd (al_block ?d ?y r ?x k) = _, E : al_block ?d ?y ?r0 ?x ?k0 = _ |- _ =>
             let H := fresh "Hc" in pose proof (IH r0 k0) as H; rewrite E in H; cbn [snd fst] in H; clear E
         end.

Section Alpha.
Variable d : nat.
Variable y : name.

Lemma al_cnt :
  (forall e r k, snd (al_expr d y r e k) = (k + List.length (dk_expr e))%nat) /\
  (forall es r k, snd (al_exprs d y r es k) = (k + List.length (dk_exprs es))%nat) /\
  (forall s r k, snd (al_stat d y r s k) = (k + List.length (dk_stat s))%nat) /\
  (forall els r k, snd (al_elifs d y r els k) = (k + List.length (dk_elifs els))%nat) /\
  (forall b r k, snd (al_block d y r b k) = (k + List.length (dk_block b))%nat).
Proof.
  apply syntax_mutind; intros;
    cbn [al_expr al_exprs al_stat al_elifs al_block dk_expr dk_exprs dk_stat dk_elifs dk_block];
    try (destruct meth); break_lets; use_cnt_al; subst; cbn [snd fst];
    cbn [List.length]; repeat rewrite ?app_length, ?falses_length; cbn [List.length]; unfold olen in *; try lia; auto.
Qed.

Lemma al_names_length : forall xs k, List.length (al_names d y xs k) = List.length xs.
Proof. induction xs as [|x t IH]; intros k; [reflexivity|]. cbn [al_names List.length]. rewrite IH. reflexivity. Qed.

Lemma falses_al_names : forall xs k, falses (al_names d y xs k) = falses xs.
Proof. induction xs as [|x t IH]; intros k; [reflexivity|]. cbn [al_names falses map]. f_equal. apply IH. Qed.

(** renaming does not change which ordinals exist *)
Lemma al_dk :
  (forall e r k, dk_expr (fst (al_expr d y r e k)) = dk_expr e) /\
  (forall es r k, dk_exprs (fst (al_exprs d y r es k)) = dk_exprs es) /\
  (forall s r k, dk_stat (fst (fst (al_stat d y r s k))) = dk_stat s) /\
  (forall els r k, dk_elifs (fst (al_elifs d y r els k)) = dk_elifs els) /\
  (forall b r k, dk_block (fst (fst (al_block d y r b k))) = dk_block b).
Proof.
  apply syntax_mutind; intros;
    cbn [al_expr al_exprs al_stat al_elifs al_block];
    try (destruct meth); break_lets; cbn [fst snd dk_expr dk_exprs dk_stat dk_elifs dk_block];
    repeat match goal with
           | IH : forall r k, _ (fst (?f ?d ?y r ?x k)) = _, E : ?f ?d ?y ?r0 ?x ?k0 = _ |- _ =>
               let H := fresh "Hd" in pose proof (IH r0 k0) as H; rewrite E in H; cbn [fst snd] in H; clear E
           | IH : forall r k, _ (fst (fst (?f ?d ?y r ?x k))) = _, E : ?f ?d ?y ?r0 ?x ?k0 = _ |- _ =>
               let H := fresh "Hd" in pose proof (IH r0 k0) as H; rewrite E in H; cbn [fst snd] in H; clear E
           end;
    rewrite ?falses_al_names; congruence.
Qed.

(** * the environment after a statement / at the end of a block *)

Definition env_after (r : oenv) (s : stat) (k : nat) : oenv :=
  match s with
  | SLocal xs _ => obind xs k r
  | SLocalFun f _ _ => (f, k) :: r
  | _ => r
  end.

Fixpoint benv_after (r : oenv) (b : block) (k : nat) : oenv :=
  match b with
  | BNil | BRet _ => r
  | BCons s t => benv_after (env_after r s k) t (k + List.length (dk_stat s))%nat
  end.

Lemma ord_stat_env : forall s r k, snd (fst (ord_stat r s k)) = env_after r s k.
Proof. intros s r k. destruct s; cbn [ord_stat env_after]; try (destruct meth); break_lets; reflexivity. Qed.

Lemma ord_block_env : forall b r k, snd (fst (ord_block r b k)) = benv_after r b k.
Proof.
  induction b as [|es|s t IH]; intros r k; cbn [ord_block benv_after]; break_lets; try reflexivity.
  cbn [fst snd].
  pose proof (ord_stat_env s r k) as H1. pose proof (proj1 (proj2 (proj2 ord_cnt)) s r k) as H2.
  match goal with E : ord_stat r s k = _ |- _ => rewrite E in H1, H2 end. cbn [fst snd] in H1, H2. subst.
  match goal with E : ord_block _ t _ = _ |- _ => pose proof (IH (env_after r s k) (k + List.length (dk_stat s))%nat) as H3; rewrite E in H3 end.
  exact H3.
Qed.

Lemma al_stat_env : forall s r k, snd (fst (al_stat d y r s k)) = env_after r s k.
Proof. intros s r k. destruct s; cbn [al_stat env_after]; try (destruct meth); break_lets; reflexivity. Qed.

Lemma al_block_env : forall b r k, snd (fst (al_block d y r b k)) = benv_after r b k.
Proof.
  induction b as [|es|s t IH]; intros r k; cbn [al_block benv_after]; break_lets; try reflexivity.
  cbn [fst snd].
  pose proof (al_stat_env s r k) as H1. pose proof (proj1 (proj2 (proj2 al_cnt)) s r k) as H2.
  match goal with E : al_stat d y r s k = _ |- _ => rewrite E in H1, H2 end. cbn [fst snd] in H1, H2. subst.
  match goal with E : al_block d y _ t _ = _ |- _ => pose proof (IH (env_after r s k) (k + List.length (dk_stat s))%nat) as H3; rewrite E in H3 end.
  exact H3.
Qed.

(** * the renamed environment *)

Definition ren (r : oenv) : oenv := map (fun b => if Nat.eqb (snd b) d then (y, snd b) else b) r.

Definition env_ok (r : oenv) : Prop := ~ In y (map fst r).

Lemma olookup_cons : forall x b t, olookup x (b :: t) = if (fst b =? x)%N then Some (snd b) else olookup x t.
Proof. intros x b t. unfold olookup. cbn [find]. unfold name in *. destruct (fst b =? x)%N; reflexivity. Qed.

Lemma al_use_cons_ne : forall x b t, (fst b =? x)%N = false -> al_use d y (b :: t) x = al_use d y t x.
Proof. intros x b t H. unfold al_use. rewrite olookup_cons. unfold name in *. rewrite H. reflexivity. Qed.

(** a use looks up in the renamed environment what it looked up in the original one *)
Lemma olookup_ren : forall r x, env_ok r -> x <> y -> olookup (al_use d y r x) (ren r) = olookup x r.
Proof.
  induction r as [|[x0 i0] t IH]; intros x Hok Hxy; unfold name in *.
  - reflexivity.
  - assert (Hok' : env_ok t) by (intros H; apply Hok; right; exact H).
    assert (Hx0 : x0 <> y) by (intros E; apply Hok; left; exact E).
    cbn [ren map snd]. fold (ren t). rewrite (olookup_cons x (x0, i0) t). cbn [fst snd].
    destruct (N.eqb_spec x0 x) as [E|E].
    + subst x0. unfold al_use. rewrite olookup_cons. cbn [fst snd]. rewrite N.eqb_refl.
      destruct (Nat.eqb i0 d); rewrite olookup_cons; cbn [fst snd]; rewrite N.eqb_refl; reflexivity.
    + rewrite al_use_cons_ne by (cbn [fst]; apply N.eqb_neq; exact E).
      specialize (IH x Hok' Hxy).
      assert (Hu : al_use d y t x = x \/ (al_use d y t x = y /\ olookup x t = Some d)).
      { unfold al_use. destruct (olookup x t) as [i|]; [|left; reflexivity].
        destruct (Nat.eqb_spec i d); [right; split; [reflexivity|congruence]|left; reflexivity]. }
      destruct (Nat.eqb_spec i0 d) as [Ei|Ei].
      * rewrite olookup_cons. cbn [fst snd].
        destruct Hu as [Hu|(Hu & Hl)]; rewrite Hu in *.
        -- replace (y =? x)%N with false by (symmetry; apply N.eqb_neq; congruence). exact IH.
        -- rewrite N.eqb_refl. rewrite Hl. congruence.
      * rewrite olookup_cons. cbn [fst snd].
        destruct Hu as [Hu|(Hu & Hl)]; rewrite Hu in *.
        -- replace (x0 =? x)%N with false by (symmetry; apply N.eqb_neq; exact E). exact IH.
        -- replace (x0 =? y)%N with false by (symmetry; apply N.eqb_neq; exact Hx0). exact IH.
Qed.

Lemma ren_obind : forall xs k r, ren (obind xs k r) = obind (al_names d y xs k) k (ren r).
Proof.
  induction xs as [|x t IH]; intros k r; [reflexivity|].
  cbn [obind al_names]. rewrite IH. f_equal. cbn [ren map snd]. destruct (Nat.eqb k d); reflexivity.
Qed.

Lemma env_ok_obind : forall xs k r, env_ok r -> ~ In y xs -> env_ok (obind xs k r).
Proof.
  induction xs as [|x t IH]; intros k r Hok Hn; [exact Hok|].
  cbn [obind]. apply IH.
  - intros [E|H]; [apply Hn; left; exact E|apply Hok; exact H].
  - intros H. apply Hn. right. exact H.
Qed.

Lemma env_ok_cons : forall x i r, env_ok r -> x <> y -> env_ok ((x, i) :: r).
Proof. intros x i r Hok Hx [E|H]; [apply Hx; exact E|apply Hok; exact H]. Qed.

(** * no implicit self has the ordinal [d] *)

Definition noself (k : nat) (l : list bool) : Prop := forall j, nth_error l j = Some true -> (k + j)%nat <> d.

Lemma noself_app : forall k a b, noself k (a ++ b) -> noself k a /\ noself (k + List.length a) b.
Proof.
  intros k a b H. split.
  - intros j Hj. apply H. rewrite nth_error_app1; [exact Hj|]. apply nth_error_Some. congruence.
  - intros j Hj. replace (k + List.length a + j)%nat with (k + (List.length a + j))%nat by lia. apply H.
    rewrite nth_error_app2 by lia. replace (List.length a + j - List.length a)%nat with j by lia. exact Hj.
Qed.

Lemma noself_cons_false : forall k l, noself k (false :: l) -> noself (S k) l.
Proof. intros k l H j Hj. replace (S k + j)%nat with (k + S j)%nat by lia. apply H. exact Hj. Qed.

Lemma noself_cons_true : forall k l, noself k (true :: l) -> k <> d /\ noself (S k) l.
Proof.
  intros k l H. split.
  - specialize (H 0%nat eq_refl). rewrite Nat.add_0_r in H. exact H.
  - intros j Hj. replace (S k + j)%nat with (k + S j)%nat by lia. apply H. exact Hj.
Qed.

Lemma noself_falses : forall k xs l, noself k (falses xs ++ l) -> noself (k + List.length xs) l.
Proof. intros k xs l H. apply noself_app in H. destruct H as (_ & H). rewrite falses_length in H. exact H. Qed.

End Alpha.
