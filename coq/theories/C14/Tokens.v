(** C14/Tokens.v — the name tokens of the printed program are pairwise separated; every cell of the reference index
    is the range of a name-use token; hence the ranges edited by a rename are pairwise disjoint. *)
From EV Require Import C13.Model C13.Sim C14.Model C14.Refs.
Local Open Scope N_scope.

(** * separated token lists: every token ends before the next one starts, all within [lo, hi] *)
Fixpoint sepb (lo : N) (l : list (N * name)) (hi : N) : Prop :=
  match l with
  | [] => lo <= hi
  | t :: r => lo <= fst t /\ sepb (fst t + nlen (snd t)) r hi
  end.

Lemma sep_weaken : forall l lo hi lo' hi', sepb lo l hi -> lo' <= lo -> hi <= hi' -> sepb lo' l hi'.
Proof.
  induction l as [|t r IH]; intros lo hi lo' hi' H H1 H2; cbn [sepb] in *; [lia|].
  destruct H as (Ha & Hb). split; [lia|]. eapply IH; [exact Hb|lia|exact H2].
Qed.

Lemma sep_app : forall a b lo mid hi, sepb lo a mid -> sepb mid b hi -> sepb lo (a ++ b) hi.
Proof.
  induction a as [|t r IH]; intros b lo mid hi Ha Hb; cbn [sepb app] in *.
  - eapply sep_weaken; [exact Hb|exact Ha|lia].
  - destruct Ha as (H1 & H2). split; [exact H1|]. eapply IH; eassumption.
Qed.

(** a component [a] occupying [oa, ea] followed by the rest *)
Lemma sep_comp : forall lo a oa ea rest hi,
  sepb oa a ea -> lo <= oa -> sepb ea rest hi -> sepb lo (a ++ rest) hi.
Proof.
  intros lo a oa ea rest hi Ha Hlo Hr. apply (sep_app a rest lo ea hi); [|exact Hr].
  apply (sep_weaken a oa ea lo ea Ha Hlo). lia.
Qed.

Lemma sep_last : forall lo a oa ea hi, sepb oa a ea -> lo <= oa -> ea <= hi -> sepb lo a hi.
Proof. intros. eapply sep_weaken; eassumption. Qed.

Lemma sep_names : forall xs o, sepb o (names_toks xs o) (o + len_names xs).
Proof.
  induction xs as [|x t IH]; intros o; cbn [names_toks sepb len_names fst snd]; [lia|].
  split; [lia|]. destruct t as [|y t'].
  - cbn [names_toks sepb]. lia.
  - eapply sep_weaken; [apply IH|lia|lia].
Qed.

Lemma sep_lower : forall l lo hi t, sepb lo l hi -> In t l -> lo <= fst t /\ fst t + nlen (snd t) <= hi.
Proof.
  induction l as [|a r IH]; intros lo hi t H Hin; [destruct Hin|].
  cbn [sepb] in H. destruct H as (H1 & H2). pose proof (nlen_pos (snd a)).
  destruct Hin as [<- | Hin].
  - split; [exact H1|]. clear IH. revert H2. generalize (fst a + nlen (snd a)). clear.
    induction r as [|b r IH]; intros s H; cbn [sepb] in H; [exact H|].
    destruct H as (Ha & Hb). pose proof (nlen_pos (snd b)). specialize (IH _ Hb). lia.
  - destruct (IH _ _ t H2 Hin). split; lia.
Qed.

(** two tokens of a separated list are the same token or do not overlap *)
Lemma sep_disjoint : forall l lo hi t1 t2, sepb lo l hi -> In t1 l -> In t2 l ->
  t1 = t2 \/ fst t1 + nlen (snd t1) <= fst t2 \/ fst t2 + nlen (snd t2) <= fst t1.
Proof.
  induction l as [|a r IH]; intros lo hi t1 t2 H H1 H2; [destruct H1|].
  cbn [sepb] in H. destruct H as (Ha & Hb).
  destruct H1 as [<- | H1], H2 as [<- | H2].
  - left. reflexivity.
  - right. left. destruct (sep_lower _ _ _ _ Hb H2). lia.
  - right. right. destruct (sep_lower _ _ _ _ Hb H1). lia.
  - eapply IH; eassumption.
Qed.

Ltac sepgo :=
  repeat match goal with
         | |- sepb _ (?t :: _) _ => split; [cbn [fst snd]; lia|cbn [fst snd]]
         | |- sepb _ (names_toks ?xs ?o ++ _) _ => eapply (sep_comp _ _ o (o + len_names xs)); [apply sep_names|lia|]
         | |- sepb _ (toks_expr ?e ?o ++ _) _ => eapply (sep_comp _ _ o (o + len_expr e)); [solve [auto]|lia|]
         | |- sepb _ (toks_exprs ?e ?o ++ _) _ => eapply (sep_comp _ _ o (o + len_exprs e)); [solve [auto]|lia|]
         | |- sepb _ (toks_stat ?e ?o ++ _) _ => eapply (sep_comp _ _ o (o + len_stat e)); [solve [auto]|lia|]
         | |- sepb _ (toks_elifs ?e ?o ++ _) _ => eapply (sep_comp _ _ o (o + len_elifs e)); [solve [auto]|lia|]
         | |- sepb _ (toks_block ?e ?o ++ _) _ => eapply (sep_comp _ _ o (o + len_block e)); [solve [auto]|lia|]
         | |- sepb _ (names_toks ?xs ?o) _ => eapply (sep_last _ _ o (o + len_names xs)); [apply sep_names|lia|lia]
         | |- sepb _ (toks_expr ?e ?o) _ => eapply (sep_last _ _ o (o + len_expr e)); [solve [auto]|lia|lia]
         | |- sepb _ (toks_exprs ?e ?o) _ => eapply (sep_last _ _ o (o + len_exprs e)); [solve [auto]|lia|lia]
         | |- sepb _ (toks_stat ?e ?o) _ => eapply (sep_last _ _ o (o + len_stat e)); [solve [auto]|lia|lia]
         | |- sepb _ (toks_elifs ?e ?o) _ => eapply (sep_last _ _ o (o + len_elifs e)); [solve [auto]|lia|lia]
         | |- sepb _ (toks_block ?e ?o) _ => eapply (sep_last _ _ o (o + len_block e)); [solve [auto]|lia|lia]
         | |- sepb _ [] _ => cbn [sepb]; lia
         end.

Lemma toks_sep :
  (forall e o, sepb o (toks_expr e o) (o + len_expr e)) /\
  (forall es o, sepb o (toks_exprs es o) (o + len_exprs es)) /\
  (forall s o, sepb o (toks_stat s o) (o + len_stat s)) /\
  (forall els o, sepb o (toks_elifs els o) (o + len_elifs els)) /\
  (forall b o, sepb o (toks_block b o) (o + len_block b)).
Proof.
  apply syntax_mutind; intros;
    cbn [toks_expr toks_exprs toks_stat toks_elifs toks_block len_expr len_exprs len_stat len_elifs len_block];
    try (pose proof (nlen_pos x)); try (pose proof (nlen_pos f)); try (pose proof (nlen_pos root));
    try (pose proof (nlen_pos m)); try (pose proof (nlen_pos l));
    try solve [sepgo].
  - (* ECons *) destruct es as [|e2 es2].
    + cbn [toks_exprs]. rewrite app_nil_r. sepgo.
    + remember (ECons e2 es2) as es. sepgo.
  - (* SLocal *) destruct es as [|e2 es2].
    + cbn [toks_exprs]. rewrite app_nil_r. sepgo.
    + remember (ECons e2 es2) as es. sepgo.
  - (* SLocalAttr *) destruct es as [|e2 es2].
    + cbn [toks_exprs names_toks app sepb fst snd]. lia.
    + remember (ECons e2 es2) as es. cbn [names_toks app]. sepgo.
  - (* BRet *) destruct es as [|e2 es2].
    + cbn [toks_exprs sepb]. lia.
    + remember (ECons e2 es2) as es. sepgo.
Qed.

(** * the uses are among the tokens *)
Lemma incl_app_split : forall (A : Type) (a b c : list A), incl (a ++ b) c -> incl a c /\ incl b c.
Proof. intros A a b c H. split; intros x Hx; apply H; apply in_or_app; [left|right]; exact Hx. Qed.

Lemma uses_in_toks :
  (forall e o, incl (uses_expr e o) (toks_expr e o)) /\
  (forall es o, incl (uses_exprs es o) (toks_exprs es o)) /\
  (forall s o, incl (uses_stat s o) (toks_stat s o)) /\
  (forall els o, incl (uses_elifs els o) (toks_elifs els o)) /\
  (forall b o, incl (uses_block b o) (toks_block b o)).
Proof.
  apply syntax_mutind; intros;
    cbn [toks_expr toks_exprs toks_stat toks_elifs toks_block uses_expr uses_exprs uses_stat uses_elifs uses_block];
    repeat match goal with
           | |- incl (_ ++ _) _ => apply incl_app
           | |- incl [] _ => intros ? []
           | |- incl (_ :: _) (_ :: _) => apply incl_cons; [left; reflexivity|apply incl_tl]
           end;
    eauto 8 using incl_appl, incl_appr, incl_tl, incl_refl.
Qed.

(** * every cell is the range of a name-use token of the program *)
Section Cells.
Variable A : list (N * name).

Definition KA (st : state) : Prop :=
  Forall (fun c => exists x, In (fst (snd c), x) A /\ snd (snd c) = fst (snd c) + nlen x) (st_cells st).

Lemma KA_same : forall st st', st_cells st' = st_cells st -> KA st -> KA st'.
Proof. intros st st' E H. unfold KA. rewrite E. exact H. Qed.

Lemma KA_add_ref : forall p x d st, In (p, x) A -> KA st -> KA (add_ref p (p + nlen x) d st).
Proof.
  intros p x d st Hin H. unfold add_ref. destruct (lookup_ref p (st_refs st)); [exact H|].
  unfold KA. cbn [st_cells]. apply Forall_app. split; [exact H|]. constructor; [|constructor].
  cbn [fst snd]. exists x. split; [exact Hin|reflexivity].
Qed.

Lemma KA_add_decl : forall d st, KA st -> KA (add_decl d st).
Proof. intros d st H. eapply KA_same; [apply (proj2 (refs_add_decl d st))|exact H]. Qed.
Lemma KA_pop : forall st, KA st -> KA (pop_scope st).
Proof. intros st H. eapply KA_same; [apply (proj2 (refs_pop st))|exact H]. Qed.
Lemma KA_create : forall s e k st, KA st -> KA (create_scope s e k st).
Proof. intros s e k st H. exact H. Qed.

Lemma KA_name : forall x p st, In (p, x) A -> KA st -> KA (analyze_name_expr x p st).
Proof.
  intros x p st Hin H. unfold analyze_name_expr. cbv zeta.
  destruct (get_decl p st); [apply KA_add_ref; assumption|].
  destruct (find_decl x p st) as [d|]; [|exact H].
  destruct (is_local d); [apply KA_add_ref; assumption|].
  destruct (d_pos d =? p); [exact H|apply KA_add_ref; assumption].
Qed.

Lemma KA_name_decls : forall xs o st, KA st -> KA (add_name_decls xs o st).
Proof. induction xs as [|x r IH]; intros o st H; [exact H|]. cbn [add_name_decls]. apply IH. apply KA_add_decl. exact H. Qed.

Lemma KA_assign_vars : forall vs o st, incl (uses_exprs vs o) A -> KA st -> KA (analyze_assign_vars vs o st).
Proof.
  induction vs as [|v r IH]; intros o st Hi H; [exact H|]. cbn [analyze_assign_vars uses_exprs] in *.
  apply incl_app_split in Hi. destruct Hi as (Hv & Hr). apply IH; [exact Hr|].
  destruct v; try exact H.
  destruct (find_decl x o st); [|apply KA_add_decl; exact H].
  apply KA_add_ref; [|exact H]. apply Hv. left. reflexivity.
Qed.

Lemma KA_body : forall (w : N -> state -> state) len hi bo io,
  io = bo + 1 -> (forall st, KA st -> KA (w io st)) -> forall st, KA st -> KA (walk_body w len hi bo st).
Proof.
  intros w len hi bo io -> Hw st H. unfold walk_body. destruct hi; [|exact H]. apply KA_pop. apply Hw. exact H.
Qed.

Lemma KA_closure : forall (w : N -> state -> state) len hi self ps cs ce po io,
  io = po + 1 + len_names ps + 1 + 1 -> (forall st, KA st -> KA (w io st)) ->
  forall st, KA st -> KA (walk_closure w len hi self ps cs ce po st).
Proof.
  intros w len hi self ps cs ce po io -> Hw st H. unfold walk_closure. cbv zeta. apply KA_pop.
  assert (H3 : KA (add_name_decls ps (po + 1)
                     match self with
                     | Some c => add_decl (mkDecl c self_name DSelf) (create_scope cs ce KClosure st)
                     | None => create_scope cs ce KClosure st
                     end)).
  { apply KA_name_decls. destruct self; [apply KA_add_decl|]; exact H. }
  destruct hi; [|exact H3]. apply KA_pop. apply Hw. exact H3.
Qed.

Ltac split_incl :=
  repeat match goal with
         | H : incl (_ ++ _) A |- _ => apply incl_app_split in H; destruct H
         | H : incl (_ :: _) A |- _ => apply incl_cons_inv in H; destruct H
         end.

Lemma KA_walk :
  (forall e o st, incl (uses_expr e o) A -> KA st -> KA (walk_expr e o st)) /\
  (forall es o st, incl (uses_exprs es o) A -> KA st -> KA (walk_exprs es o st)) /\
  (forall s o st, incl (uses_stat s o) A -> KA st -> KA (walk_stat s o st)) /\
  (forall els o st, incl (uses_elifs els o) A -> KA st -> KA (walk_elifs els o st)) /\
  (forall b o st, incl (uses_block b o) A -> KA st -> KA (walk_block b o st)).
Proof.
  apply syntax_mutind; intros;
    cbn [walk_expr walk_exprs walk_stat walk_elifs walk_block uses_expr uses_exprs uses_stat uses_elifs uses_block] in *;
    split_incl; try assumption.
  - (* EName *) apply KA_name; assumption.
  - (* EIdx *) auto.
  - (* ECall *) auto.
  - (* EBin *) auto.
  - (* EFun *) eapply KA_closure; [reflexivity| |assumption]. intros st' H'. apply H; [|exact H'].
    replace (o + 8 + 1 + len_names ps + 1 + 1) with (o + 8 + (1 + len_names ps + 1) + 1) by lia. assumption.
  - (* ETable *) auto.
  - (* EMeth *) auto.
  - (* ECons *) auto.
  - (* SLocal *) apply KA_pop. apply H; [assumption|]. apply KA_name_decls. apply KA_create. assumption.
  - (* SAssign *) apply KA_pop. apply H0; [assumption|]. apply H; [assumption|].
    apply KA_assign_vars; [assumption|]. apply KA_create. assumption.
  - (* SCall *) auto.
  - (* SLocalFun *) apply KA_pop. eapply KA_closure; [reflexivity| |apply KA_add_decl, KA_create; assumption].
    intros st' H'. apply H; [|exact H'].
    replace (o + 15 + nlen f + 1 + len_names ps + 1 + 1) with (o + 15 + nlen f + (1 + len_names ps + 1) + 1) by lia. assumption.
  - (* SFun *) apply KA_pop. eapply KA_closure; [reflexivity| |].
    + intros st' H'. apply H; [|exact H'].
      replace (o + 9 + nlen root + len_fields fields + len_meth meth + 1 + len_names ps + 1 + 1)
        with (o + 9 + nlen root + len_fields fields + len_meth meth + (1 + len_names ps + 1) + 1) by lia. assumption.
    + apply KA_name; [assumption|].
      destruct fields; [destruct meth|]; try (apply KA_create; assumption).
      destruct (find_decl root (o + 9) _); [apply KA_create; assumption|apply KA_add_decl, KA_create; assumption].
  - (* SDo *) eapply KA_body; [reflexivity| |assumption]. intros st' H'. apply H; assumption.
  - (* SWhile *) eapply KA_body; [reflexivity| |auto]. intros st' H'. apply H0; assumption.
  - (* SRepeat *) apply KA_pop. apply H0; [assumption|].
    eapply KA_body; [reflexivity| |apply KA_create; assumption]. intros st' H'. apply H; assumption.
  - (* SIf *) apply H1; [assumption|]. eapply KA_body; [reflexivity| |auto]. intros st' H'. apply H0; assumption.
  - (* SFor *) apply KA_pop. eapply KA_body; [reflexivity| |].
    + intros st' H'. apply H0; assumption.
    + apply H; [assumption|]. apply KA_add_decl, KA_create. assumption.
  - (* SForIn *) apply KA_pop. eapply KA_body; [reflexivity| |].
    + intros st' H'. apply H0; assumption.
    + apply H; [assumption|]. apply KA_name_decls, KA_create. assumption.
  - (* SLocalAttr *) apply KA_pop. apply H; [assumption|]. apply KA_name_decls. apply KA_create. assumption.
  - (* ElElse *) eapply KA_body; [reflexivity| |assumption]. intros st' H'. apply H; assumption.
  - (* ElIf *) apply H1; [assumption|]. eapply KA_body; [reflexivity| |auto]. intros st' H'. apply H0; assumption.
  - (* BRet *) auto.
  - (* BCons *) auto.
Qed.

End Cells.

Lemma KA_program : forall p, KA (toks_block p 0) (walk_program p).
Proof.
  intros p. unfold walk_program.
  assert (H0 : KA (toks_block p 0) (create_scope 0 (len_block p) KNormal (mkState [] [] [] []))) by constructor.
  destruct (has_items p); [|exact H0].
  apply KA_pop. apply (proj2 (proj2 (proj2 (proj2 (KA_walk (toks_block p 0)))))); [|exact H0].
  apply (proj2 (proj2 (proj2 (proj2 uses_in_toks)))).
Qed.

(** every cell of the reference index is the range of a name token of the program *)
Theorem cells_are_tokens : forall (p : program) (d : N) (r : N * N),
  In r (decl_cell_ranges (walk_program p) d) ->
  exists x, In (fst r, x) (toks_block p 0) /\ snd r = fst r + nlen x.
Proof.
  intros p d r H. unfold decl_cell_ranges in H. apply in_map_iff in H. destruct H as (c & <- & Hc).
  apply filter_In in Hc. destruct Hc as (Hc & _).
  pose proof (KA_program p) as HK. unfold KA in HK. rewrite Forall_forall in HK. exact (HK c Hc).
Qed.

(** the ranges edited by a rename are pairwise disjoint *)
Theorem rename_edits_disjoint : forall (p : program) (d : N) (x new : name),
  In (d, x) (toks_block p 0) ->
  forall e1 e2, In e1 (impl_rename (walk_program p) d x new) -> In e2 (impl_rename (walk_program p) d x new) ->
  edit_range e1 <> edit_range e2 ->
  snd (edit_range e1) <= fst (edit_range e2) \/ snd (edit_range e2) <= fst (edit_range e1).
Proof.
  intros p d x new Hd e1 e2 H1 H2 Hne.
  assert (Htok : forall e, In e (impl_rename (walk_program p) d x new) ->
                 exists y, In (fst (edit_range e), y) (toks_block p 0) /\ snd (edit_range e) = fst (edit_range e) + nlen y).
  { intros e He. unfold impl_rename in He. apply in_map_iff in He. destruct He as (r & <- & Hr).
    apply (proj1 (nodupR_in _ _)) in Hr. unfold edit_range. cbn [fst snd].
    destruct Hr as [<- | Hr]; [exists x; split; [exact Hd|reflexivity]|].
    apply (cells_are_tokens p d r Hr). }
  destruct (Htok e1 H1) as (y1 & Hi1 & He1). destruct (Htok e2 H2) as (y2 & Hi2 & He2).
  destruct (sep_disjoint _ _ _ _ _ (proj2 (proj2 (proj2 (proj2 toks_sep))) p 0) Hi1 Hi2) as [E|[E|E]]; cbn [fst snd] in E.
  - exfalso. apply Hne. injection E as E1 E2. destruct (edit_range e1), (edit_range e2). cbn [fst snd] in *. subst. reflexivity.
  - left. lia.
  - right. lia.
Qed.
