(** C14/Corr.v — executable comparison of the implementation's observations with the C14 model:
    per local declaration the cells of the real reference index (in order) and the edits of the real rename;
    the edits applied to the text give the text of [alpha]; the ordinal resolver agrees with the positional one. *)
From EV Require Import C13.Model C13.Corr C14.Model.
Local Open Scope N_scope.

Record dobs := {
  o_pos : N;                       (* position of the declaration token *)
  o_name : name;
  o_cells : list (N * N);          (* get_decl_references(decl).cells: the ranges, in order *)
  o_edits : list (N * N * name)    (* the WorkspaceEdit of rename at the declaration, sorted by start; new name as a name index *)
}.

Record case := {
  c_prog : program;
  c_text : text;
  c_fresh : name;
  c_decls : list dobs
}.

Fixpoint list_eqb (a b : list N) : bool :=
  match a, b with
  | [], [] => true
  | x :: r, y :: r' => (x =? y) && list_eqb r r'
  | _, _ => false
  end.

Definition mem (a : N * N) (l : list (N * N)) : bool := existsb (range_eqb a) l.

Fixpoint ranges_eqb (a b : list (N * N)) : bool :=
  match a, b with
  | [], [] => true
  | x :: r, y :: r' => range_eqb x y && ranges_eqb r r'
  | _, _ => false
  end.

Fixpoint index_of (a : N) (l : list N) (i : nat) : option nat :=
  match l with
  | [] => None
  | b :: r => if a =? b then Some i else index_of a r (S i)
  end.

(** splice the edits (sorted by start, non overlapping) into the text; [off] is the offset of the head of [t] *)
Fixpoint apply_edits (fuel : nat) (t : text) (off : N) (es : list (N * N * name)) : option text :=
  match fuel with
  | O => None
  | S f =>
      match es with
      | [] => Some t
      | (s, e, y) :: r =>
          if off <? s then
            match t with
            | [] => None
            | c :: t' => match apply_edits f t' (off + 1) es with Some u => Some (c :: u) | None => None end
            end
          else if off =? s then
            match apply_edits f (skipn (N.to_nat (e - s)) t) e r with
            | Some u => Some (name_text y ++ u)
            | None => None
            end
          else None
      end
  end.

Definition check_decl (p : program) (t : text) (fresh : name) (st : state) (o : dobs) : bool :=
  let starts := map (fun e => fst e) (o_edits o) in
  let model := map (fun e => fst e) (impl_rename st (o_pos o) (o_name o) fresh) in
  ranges_eqb (decl_cell_ranges st (o_pos o)) (o_cells o)
  && forallb (fun q => mem q model) starts && forallb (fun q => mem q starts) model
  && Nat.eqb (List.length starts) (List.length model)
  && forallb (fun e => (snd (fst e) =? fst (fst e) + nlen (o_name o)) && (snd e =? fresh)) (o_edits o)
  && match index_of (o_pos o) (dpos_block p 0) 0%nat with
     | Some d =>
         match apply_edits (S (List.length t + List.length (o_edits o))) t 0 (o_edits o) with
         | Some t' => text_eqb t' (pr_program (alpha d fresh p))
         | None => false
         end
     | None => false
     end.

Definition check_case (c : case) : bool :=
  let p := c_prog c in
  let st := walk_program p in
  text_eqb (pr_program p) (c_text c)
  && ord_agrees p
  && forallb (check_decl p (c_text c) (c_fresh c) st) (c_decls c).
