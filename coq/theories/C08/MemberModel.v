(** C08/MemberModel.v — transcription of [LuaMemberIndex] (db_index/member/mod.rs) for declaration members
    (feature.is_decl(): the One / Many items).  Executable definitions only.
    A member id is (file, position); owners and keys are numbers. *)
From EV Require Export C33.Model.
Local Open Scope N_scope.

Definition mid : Type := (N * N)%type.
Definition pe (a b : mid) : bool := (fst a =? fst b) && (snd a =? snd b).
Notation pget := (aget pe).
Notation pset := (aset pe).
Notation pdel := (adel pe).

Inductive item := One (m : mid) | Many (ms : list mid).

Record mbidx := mkMb {
  mb_members : list (mid * N);                       (* members : id -> member (its key) *)
  mb_infile : list (N * (list mid * list N));        (* in_filed : file -> {Member(id)} + {Owner(owner)} *)
  mb_owner : list (N * list (N * item));             (* owner_members : owner -> key -> item *)
  mb_cur : list (mid * N)                            (* member_current_owner *)
}.
Definition mb_init : mbidx := mkMb [] [] [] [].
Definition mb_clear (s : mbidx) : mbidx := mb_init.

Definition pinsert (m : mid) (l : list mid) : list mid := if existsb (pe m) l then l else l ++ [m].
Definition ninsert (o : N) (l : list N) : list N := if existsb (N.eqb o) l then l else l ++ [o].

(** [add_member_to_owner], declaration branch *)
Definition add_to_owner (owner key : N) (m : mid) (om : list (N * list (N * item))) : list (N * list (N * item)) :=
  let keys := match ngetN owner om with Some k => k | None => [] end in
  let keys' :=
    match ngetN key keys with
    | Some (One old) => if pe old m then keys else nsetN key (Many [old; m]) keys
    | Some (Many ids) => if existsb (pe m) ids then keys else nsetN key (Many (ids ++ [m])) keys
    | None => nsetN key (One m) keys
    end in
  nsetN owner keys' om.

(** [add_member(owner, member)] for the fact (owner, key, position) of file [f] *)
Definition mb_fact (f : N) (s : mbidx) (x : N * N * N) : mbidx :=
  match x with (owner, key, pos) =>
    let m := (f, pos) in
    let '(ms, os) := match ngetN f (mb_infile s) with Some p => p | None => ([], []) end in
    mkMb (pset m key (mb_members s))
         (nsetN f (pinsert m ms, ninsert owner os) (mb_infile s))
         (add_to_owner owner key m (mb_owner s))
         (pset m owner (mb_cur s))
  end.
Definition mb_add (f : N) (facts : list (N * N * N)) (s : mbidx) : mbidx := fold_left (mb_fact f) facts s.

(** the per-owner part of [remove] *)
Definition prune_item (f : N) (it : item) : option item :=
  match it with
  | One m => if fst m =? f then None else Some it
  | Many ids => let ids' := filter (fun m => negb (fst m =? f)) ids in if is_nil ids' then None else Some (Many ids')
  end.
Fixpoint prune_keys (f : N) (keys : list (N * item)) : list (N * item) :=
  match keys with
  | [] => []
  | (k, it) :: r => match prune_item f it with Some it' => (k, it') :: prune_keys f r | None => prune_keys f r end
  end.
Definition prune_owner (f : N) (om : list (N * list (N * item))) (owner : N) : list (N * list (N * item)) :=
  match ngetN owner om with
  | Some keys => let keys' := prune_keys f keys in if is_nil keys' then ndelN owner om else nsetN owner keys' om
  | None => om
  end.

Definition mb_remove (f : N) (s : mbidx) : mbidx :=
  match ngetN f (mb_infile s) with
  | None => s
  | Some (ms, os) =>
      mkMb (fold_left (fun acc m => pdel m acc) ms (mb_members s))
           (ndelN f (mb_infile s))
           (fold_left (prune_owner f) os (mb_owner s))
           (fold_left (fun acc m => pdel m acc) ms (mb_cur s))
  end.

(** [get_members(owner)]: the member ids of all items (only those still in [members]) *)
Definition item_ids (it : item) : list mid := match it with One m => [m] | Many ids => ids end.
Definition mb_members_of (s : mbidx) (owner : N) : option (list (N * mid)) :=
  match ngetN owner (mb_owner s) with
  | None => None
  | Some keys =>
      (* each listed member is reported with the key its record in [members] carries NOW *)
      Some (flat_map (fun ki => flat_map (fun m => match pget m (mb_members s) with Some k => [(k, m)] | None => [] end)
                                         (item_ids (snd ki))) keys)
  end.
Definition mb_len (s : mbidx) (owner : N) : N :=
  match ngetN owner (mb_owner s) with Some keys => N.of_nat (length keys) | None => 0 end.
Definition mb_sizes (s : mbidx) : list N :=
  [N.of_nat (length (mb_members s)); N.of_nat (length (mb_infile s));
   sum_len (fun kv => fst (snd kv)) (mb_infile s) + sum_len (fun kv => snd (snd kv)) (mb_infile s);
   N.of_nat (length (mb_owner s)); sum_len (fun kv => snd kv) (mb_owner s); N.of_nat (length (mb_cur s))].
