(** C08/PropertyModel.v — transcription of [LuaPropertyIndex]
    (crates/emmylua_code_analysis/src/db_index/property/mod.rs, property.rs).  Executable definitions only.
    Owners ([LuaSemanticDeclId]) and values are numbers; hash maps are association lists. *)
From EV Require Export C33.Model.
Local Open Scope N_scope.

(** [LuaCommonProperty], the fields the modelled writers touch *)
Record prop := mkProp {
  p_desc : option N;        (* description *)
  p_vis : N;                (* visibility: 0 Public, 1 Protected, 2 Private, 3 Package *)
  p_dep : option N;         (* deprecated: Some 0 = without message *)
  p_src : option N;         (* source *)
  p_tags : list N           (* tag_content, in order *)
}.
Definition prop_new : prop := mkProp None 0 None None [].

Record pidx := mkPidx {
  px_props : list (N * prop);        (* properties : LuaPropertyId -> LuaCommonProperty *)
  px_owners : list (N * N);          (* property_owners_map : owner -> LuaPropertyId *)
  px_count : N;                      (* id_count *)
  px_infile : list (N * list N)      (* in_filed_owner : file -> set of owners *)
}.

Definition p_init : pidx := mkPidx [] [] 0 [].

(** a fact: (owner, kind, value); kind 0 description, 1 visibility, 2 deprecated, 3 source, other: a tag *)
Definition pfact : Type := (N * N * N)%type.

Definition set_insert (o : N) (l : list N) : list N := if existsb (N.eqb o) l then l else l ++ [o].

(** [get_or_create_property]; [None] = the [?] on a dangling property id *)
Definition get_or_create (s : pidx) (owner : N) : option (pidx * N) :=
  match ngetN owner (px_owners s) with
  | Some pid => match ngetN pid (px_props s) with Some _ => Some (s, pid) | None => None end
  | None =>
      let pid := px_count s in
      Some (mkPidx (nsetN pid prop_new (px_props s)) (nsetN owner pid (px_owners s)) (px_count s + 1) (px_infile s), pid)
  end.

Definition update_prop (kind v : N) (p : prop) : prop :=
  if kind =? 0 then mkProp (Some v) (p_vis p) (p_dep p) (p_src p) (p_tags p)
  else if kind =? 1 then mkProp (p_desc p) v (p_dep p) (p_src p) (p_tags p)
  else if kind =? 2 then mkProp (p_desc p) (p_vis p) (Some v) (p_src p) (p_tags p)
  else if kind =? 3 then mkProp (p_desc p) (p_vis p) (p_dep p) (Some v) (p_tags p)
  else mkProp (p_desc p) (p_vis p) (p_dep p) (p_src p) (p_tags p ++ [v]).

(** [add_description] / [add_visibility] / [add_deprecated] / [add_source] / [add_see] for file [f] *)
Definition apply_fact (f : N) (s : pidx) (x : pfact) : pidx :=
  match x with (owner, kind, v) =>
    match get_or_create s owner with
    | None => s
    | Some (s1, pid) =>
        let props := match ngetN pid (px_props s1) with
                     | Some p => nsetN pid (update_prop kind v p) (px_props s1)
                     | None => px_props s1
                     end in
        let infile := match ngetN f (px_infile s1) with
                      | Some l => nsetN f (set_insert owner l) (px_infile s1)
                      | None => nsetN f [owner] (px_infile s1)
                      end in
        mkPidx props (px_owners s1) (px_count s1) infile
    end
  end.

Definition p_add (f : N) (facts : list pfact) (s : pidx) : pidx := fold_left (apply_fact f) facts s.

(** [LuaIndex::remove]: the WHOLE property of every owner the file touched is deleted *)
Definition p_remove (f : N) (s : pidx) : pidx :=
  match ngetN f (px_infile s) with
  | None => s
  | Some owners =>
      let infile := ndelN f (px_infile s) in
      let '(props, omap) :=
        fold_left (fun (acc : list (N * prop) * list (N * N)) o =>
                     let '(props, omap) := acc in
                     match ngetN o omap with
                     | Some pid => (ndelN pid props, ndelN o omap)
                     | None => (props, omap)
                     end) owners (px_props s, px_owners s) in
      mkPidx props omap (px_count s) infile
  end.

(** [LuaIndex::clear] *)
Definition p_clear (s : pidx) : pidx := mkPidx [] [] 0 [].

(** [get_property] *)
Definition p_get (s : pidx) (owner : N) : option prop :=
  match ngetN owner (px_owners s) with
  | Some pid => ngetN pid (px_props s)
  | None => None
  end.

Definition p_sizes (s : pidx) : list N :=
  [N.of_nat (length (px_props s)); N.of_nat (length (px_owners s)); N.of_nat (length (px_infile s));
   sum_len (fun kv => snd kv) (px_infile s)].

Inductive pop := PAdd (f : N) (facts : list pfact) | PRemove (f : N) | PClear.

Definition pstep (s : pidx) (o : pop) : pidx :=
  match o with
  | PAdd f facts => p_add f facts s
  | PRemove f => p_remove f s
  | PClear => p_clear s
  end.
