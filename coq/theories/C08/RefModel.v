(** C08/RefModel.v — transcription of the two cross-file maps of [LuaReferenceIndex] (db_index/reference/mod.rs):
    global_references : name -> file -> set of syntax ids, index_reference : key -> file -> set of syntax ids.
    Executable definitions only; a syntax id is its start offset. *)
From EV Require Export C08.PropertyModel.
Local Open Scope N_scope.

Definition rmap : Type := list (N * list (N * list N)).
Record ridx := mkRidx { r_glob : rmap; r_idx : rmap }.
Definition r_init : ridx := mkRidx [] [].
Definition r_clear (s : ridx) : ridx := r_init.

(** [entry(key).or_default().entry(file).or_default().insert(pos)] *)
Definition rmap_add (key f pos : N) (m : rmap) : rmap :=
  let files := match ngetN key m with Some fs => fs | None => [] end in
  let poss := match ngetN f files with Some l => l | None => [] end in
  nsetN key (nsetN f (set_insert pos poss) files) m.

(** facts: (kind, key, pos); kind 0 = add_global_reference, else add_index_reference *)
Definition r_fact (f : N) (s : ridx) (x : N * N * N) : ridx :=
  match x with (kind, key, pos) =>
    if kind =? 0 then mkRidx (rmap_add key f pos (r_glob s)) (r_idx s) else mkRidx (r_glob s) (rmap_add key f pos (r_idx s))
  end.
Definition r_add (f : N) (facts : list (N * N * N)) (s : ridx) : ridx := fold_left (r_fact f) facts s.

(** [remove]: the file is dropped from every key; keys left without files are dropped *)
Fixpoint rmap_remove (f : N) (m : rmap) : rmap :=
  match m with
  | [] => []
  | (k, files) :: r => let files' := ndelN f files in
                       if is_nil files' then rmap_remove f r else (k, files') :: rmap_remove f r
  end.
Definition r_remove (f : N) (s : ridx) : ridx := mkRidx (rmap_remove f (r_glob s)) (rmap_remove f (r_idx s)).

(** [get_global_references] / [get_index_references]: all (file, id) of the key *)
Definition rmap_get (m : rmap) (key : N) : option (list (N * N)) :=
  match ngetN key m with
  | None => None
  | Some files => Some (flat_map (fun fl => map (fun p => (fst fl, p)) (snd fl)) files)
  end.
Definition rmap_mentions (m : rmap) (f : N) : bool := existsb (fun kf => existsb (fun fl => fst fl =? f) (snd kf)) m.
Definition r_sizes (s : ridx) : list N :=
  [0; N.of_nat (length (r_idx s)); sum_len (fun kv => snd kv) (r_idx s);
   N.of_nat (length (r_glob s)); sum_len (fun kv => snd kv) (r_glob s); 0; 0; 0].
