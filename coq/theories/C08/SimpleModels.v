(** C08/SimpleModels.v — transcriptions of [LuaGlobalIndex] (db_index/global/mod.rs) and of the per-file code sets
    of [DiagnosticIndex] (db_index/diagnostic/mod.rs).  Executable definitions only. *)
From EV Require Export C08.PropertyModel.
Local Open Scope N_scope.

(** ---- LuaGlobalIndex : global_decl : GlobalId -> Vec<LuaDeclId> ---- *)
Definition gidx : Type := list (N * list (N * N)).    (* name -> [(file, position)] *)
Definition g_init : gidx := [].

(** [add_global_decl] for every (name, position) of the file *)
Definition g_add (f : N) (facts : list (N * N)) (s : gidx) : gidx :=
  fold_left (fun s x => match ngetN (fst x) s with
                        | Some l => nsetN (fst x) (l ++ [(f, snd x)]) s
                        | None => nsetN (fst x) [(f, snd x)] s
                        end) facts s.

(** [remove]: [retain] over the map, each vector retained, empty vectors dropped *)
Fixpoint g_remove (f : N) (s : gidx) : gidx :=
  match s with
  | [] => []
  | (nm, l) :: r =>
      let l' := filter (fun d => negb (fst d =? f)) l in
      if is_nil l' then g_remove f r else (nm, l') :: g_remove f r
  end.

Definition g_clear (s : gidx) : gidx := [].
Definition g_get (s : gidx) (nm : N) : option (list (N * N)) := ngetN nm s.
Definition g_mentions (s : gidx) (f : N) : bool :=
  existsb (fun kv => existsb (fun d => fst d =? f) (snd kv)) s.
Definition g_sizes (s : gidx) : list N := [N.of_nat (length s); sum_len (fun kv => snd kv) s].

(** ---- DiagnosticIndex : file_diagnostic_disabled / file_diagnostic_enabled ---- *)
Record didx := mkDidx { d_dis : list (N * list N); d_en : list (N * list N) }.
Definition d_init : didx := mkDidx [] [].

Definition set_add (f code : N) (m : list (N * list N)) : list (N * list N) :=
  match ngetN f m with
  | Some l => nsetN f (set_insert code l) m
  | None => nsetN f [code] m
  end.

(** facts: (kind, code); kind 0 = add_file_diagnostic_disabled, otherwise add_file_diagnostic_enabled *)
Definition d_add (f : N) (facts : list (N * N)) (s : didx) : didx :=
  fold_left (fun s x => if fst x =? 0 then mkDidx (set_add f (snd x) (d_dis s)) (d_en s)
                        else mkDidx (d_dis s) (set_add f (snd x) (d_en s))) facts s.
Definition d_remove (f : N) (s : didx) : didx := mkDidx (ndelN f (d_dis s)) (ndelN f (d_en s)).
Definition d_clear (s : didx) : didx := mkDidx [] [].
Definition d_get (s : didx) (q : N * N) : bool * bool :=
  (match ngetN (fst q) (d_dis s) with Some l => existsb (N.eqb (snd q)) l | None => false end,
   match ngetN (fst q) (d_en s) with Some l => existsb (N.eqb (snd q)) l | None => false end).
Definition d_mentions (s : didx) (f : N) : bool :=
  existsb (fun kv => fst kv =? f) (d_dis s) || existsb (fun kv => fst kv =? f) (d_en s).
Definition d_sizes (s : didx) : list N :=
  [0; 0; 0; 0; N.of_nat (length (d_dis s)); N.of_nat (length (d_en s))].
