(** C08/Product.v — the modelled part of [DbIndex] as ONE store: the product of the LuaModuleIndex, LuaGlobalIndex and
    DiagnosticIndex stores ([DbIndex::remove] / [DbIndex::clear] / the analysis of a file act on every index), with the
    product of their refinements; the generic theorems of Base/StoreSM.v lifted to it. *)
From EV Require Import Base.StoreSM Base.StoreProd C33.Model C33.Spec C33.Proofs C08.Module C08.SimpleModels C08.Global C08.Diag.
Local Open Scope N_scope.

Definition dbfacts : Type := (mfacts * (gfacts * dfacts))%type.
Definition dbstate : Type := (midx * (gidx * didx))%type.
Definition dbquery : Type := (str + (N + N * N))%type.
Definition dbobs : Type := (option (N * str * N * bool) + (option (list (N * N)) + bool * bool))%type.

Definition gd_store := prod_store _ _ _ _ _ _ _ _ glob_store diag_store.
Definition gd_refinement := prod_refinement _ _ _ _ _ _ _ _ glob_store diag_store glob_refinement diag_refinement.

Definition db_store (c : cfg) : store dbstate dbfacts dbquery dbobs :=
  prod_store _ _ _ _ _ _ _ _ (mod_store c) gd_store.
Definition db_refinement (c : cfg) : refinement _ _ _ _ (db_store c) :=
  prod_refinement _ _ _ _ _ _ _ _ (mod_store c) gd_store (mod_refinement c) gd_refinement.

Definition db_state (c : cfg) (ops : list (hop dbfacts)) : dbstate := state _ _ _ _ (db_store c) ops.
Definition db_obs (c : cfg) := s_obs _ _ _ _ (db_store c).
Definition db_size (c : cfg) := s_size _ _ _ _ (db_store c).
Definition db_mentions (c : cfg) := s_mentions _ _ _ _ (db_store c).
Definition db_excl (c : cfg) := r_excl _ _ _ _ (db_store c) (db_refinement c).

Lemma db_clear_is_init : forall c ops,
  (forall q, db_obs c (s_clear _ _ _ _ (db_store c) (db_state c ops)) q = db_obs c (s_init _ _ _ _ (db_store c)) q) /\
  db_size c (s_clear _ _ _ _ (db_store c) (db_state c ops)) = db_size c (s_init _ _ _ _ (db_store c)).
Proof. intros c ops. exact (clear_is_init _ _ _ _ (db_store c) (db_refinement c) ops). Qed.

Lemma db_reindex_eq_fresh : forall c ops,
  (forall q, db_obs c (db_state c (ops ++ [HReindex _])) q
             = db_obs c (fresh _ _ _ _ (db_store c) (vfs _ _ _ _ (db_store c) (ops ++ [HReindex _]))) q) /\
  db_size c (db_state c (ops ++ [HReindex _]))
  = db_size c (fresh _ _ _ _ (db_store c) (vfs _ _ _ _ (db_store c) (ops ++ [HReindex _]))).
Proof. intros c ops. exact (reindex_eq_fresh _ _ _ _ (db_store c) (db_refinement c) ops). Qed.

Lemma db_remove_no_mention : forall c ops f, db_mentions c (db_state c (ops ++ [HRemove _ f])) f = false.
Proof. intros c ops f. exact (remove_no_mention _ _ _ _ (db_store c) (db_refinement c) ops f). Qed.

Lemma db_remove_frees : forall c ops f,
  (forall q, db_obs c (db_state c (ops ++ [HRemove _ f])) q = db_obs c (db_state c (without _ f ops)) q) /\
  db_size c (db_state c (ops ++ [HRemove _ f])) = db_size c (db_state c (without _ f ops)).
Proof. intros c ops f. exact (remove_frees _ _ _ _ (db_store c) (db_refinement c) ops f). Qed.

Lemma db_resubmit_size : forall c ops f x, In (f, x) (indexed dbfacts ops) ->
  db_size c (db_state c (ops ++ [HUpdate _ f x])) = db_size c (db_state c ops).
Proof. intros c ops f x. exact (resubmit_size _ _ _ _ (db_store c) (db_refinement c) ops f x). Qed.

Lemma db_resubmit_obs : forall c ops f x q, In (f, x) (indexed dbfacts ops) -> db_excl c (indexed dbfacts ops) f ->
  db_obs c (db_state c (ops ++ [HUpdate _ f x])) q = db_obs c (db_state c ops) q.
Proof. intros c ops f x q. exact (resubmit_obs _ _ _ _ (db_store c) (db_refinement c) ops f x q). Qed.

(** the global index alone *)
Lemma glob_resubmit_obs : forall ops f x q, In (f, x) (indexed gfacts ops) -> glob_excl (indexed gfacts ops) f ->
  g_get (state _ _ _ _ glob_store (ops ++ [HUpdate _ f x])) q = g_get (state _ _ _ _ glob_store ops) q.
Proof. intros ops f x q. exact (resubmit_obs _ _ _ _ glob_store glob_refinement ops f x q). Qed.

Lemma glob_resubmit_shared_refuted : exists ops f x q, In (f, x) (indexed gfacts ops) /\
  g_get (state _ _ _ _ glob_store (ops ++ [HUpdate _ f x])) q <> g_get (state _ _ _ _ glob_store ops) q.
Proof.
  exists [HUpdate gfacts 1 [(7, 3)]; HUpdate _ 2 [(7, 5)]], 1, [(7, 3)], 7.
  split; [vm_compute; left; reflexivity | vm_compute; discriminate].
Qed.

Lemma glob_remove_frees : forall ops f,
  (forall q, g_get (state _ _ _ _ glob_store (ops ++ [HRemove _ f])) q = g_get (state _ _ _ _ glob_store (without _ f ops)) q) /\
  length (state _ _ _ _ glob_store (ops ++ [HRemove _ f])) = length (state _ _ _ _ glob_store (without _ f ops)).
Proof.
  intros ops f. destruct (remove_frees _ _ _ _ glob_store glob_refinement ops f) as [H1 H2]. split; [exact H1|].
  cbn [s_size glob_store] in H2. inversion H2 as [H3]. apply Nnat.Nat2N.inj in H3. exact H3.
Qed.

Lemma db_example :
  let c := ex_cfg in
  let ops := [HUpdate dbfacts 1 (([97; 46; 98], 1, false), ([(7, 3)], [(0, 2)]));
              HUpdate _ 2 (([120; 46; 98], 1, false), ([(8, 1)], [(1, 2)]));
              HUpdate _ 1 (([97; 46; 98], 1, false), ([(7, 3)], [(0, 2)])); HRemove _ 2; HReindex _] in
  db_obs c (db_state c ops) (inl [98]) = inl (Some (1, [97; 46; 98], 1, false)) /\
  db_obs c (db_state c ops) (inr (inl 7)) = inr (inl (Some [(1, 3)])) /\
  db_obs c (db_state c ops) (inr (inr (1, 2))) = inr (inr (true, false)) /\
  db_size c (db_state c ops) = [3; 1; 1; 1; 1; 0].
Proof. cbv zeta. repeat split; vm_compute; reflexivity. Qed.
