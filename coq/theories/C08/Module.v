(** C08/Module.v — [LuaModuleIndex] as a per-file fact store (instance of Base/StoreSM) and its refinement.
    The facts of a file are its module path, workspace id and hidden flag. *)
From Coq Require Import Permutation.
From EV Require Import Base.StoreSM.
From EV Require Import C33.Model C33.Spec C33.Lemmas C33.Inv C33.Tree C33.Remove C33.Add C33.AddInv C33.Proofs.
From EV Require Import C08.Order.
Local Open Scope N_scope.

Definition mfacts : Type := (str * N * bool)%type.

Definition entry_of (fx : N * mfacts) : aentry :=
  match fx with (f, (mp, ws, h)) => mkA f mp ws h end.

Definition entries (a : list (N * mfacts)) : astate := map entry_of a.

Section ModuleStore.
  Variable c : cfg.

  Definition mod_add (f : N) (x : mfacts) (s : midx) : midx :=
    match x with (mp, ws, h) => let s' := m_add c f mp ws s in if h then m_hide f s' else s' end.

  Definition mod_obs (s : midx) (q : str) : option (N * str * N * bool) := option_map view_i (find_module c s q).

  (** does any container of the index hold the file id [f] *)
  Definition mod_mentions (s : midx) (f : N) : bool :=
    existsb (fun kv => (fst kv =? f) || (i_file (snd kv) =? f)) (m_files s)
    || existsb (fun kv => existsb (N.eqb f) (n_files (snd kv))) (m_nodes s)
    || existsb (fun kv => existsb (N.eqb f) (snd kv)) (m_fuzzy s).

  Definition mod_size (s : midx) : list N :=
    [N.of_nat (length (m_nodes s)); N.of_nat (length (m_files s)); N.of_nat (length (m_fuzzy s))].

  Definition mod_store : store midx mfacts str (option (N * str * N * bool)) :=
    mkStore _ _ _ _ m_init mod_add m_remove m_clear mod_obs mod_mentions mod_size.

  Definition mod_R (s : midx) (a : list (N * mfacts)) : Prop := exists addr, Inv c s (entries a) addr.

  Definition mod_aobs (a : list (N * mfacts)) (q : str) : option (N * str * N * bool) :=
    option_map view_a (spec_find c (entries a) q).

  Definition mod_asize (a : list (N * mfacts)) : list N :=
    [N.of_nat (length (nodup strs_eq_dec (all_prefixes (entries a))));
     N.of_nat (length a);
     N.of_nat (if c_fuzzy c then length (nodup str_eq_dec (map name_of (entries a))) else 0%nat)].

  (** no other file is registered under the module path of [f] *)
  Definition mod_excl (a : list (N * mfacts)) (f : N) : Prop :=
    forall x g y, In (f, x) a -> In (g, y) a -> g <> f ->
      parts_of (entry_of (g, y)) <> parts_of (entry_of (f, x)).

  Lemma file_entry_of : forall fx, a_file (entry_of fx) = fst fx.
  Proof. intros [f [[mp ws] h]]. reflexivity. Qed.

  Lemma files_entries : forall a, map a_file (entries a) = map fst a.
  Proof. intro a. unfold entries. rewrite map_map. apply map_ext. apply file_entry_of. Qed.

  Lemma entries_remove : forall f a, entries (al_remove _ f a) = a_remove f (entries a).
  Proof.
    intros f a. unfold entries, al_remove, a_remove. induction a as [|x a IH]; cbn [filter map]; [reflexivity|].
    rewrite file_entry_of. destruct (negb (fst x =? f)); cbn [map]; rewrite IH; reflexivity.
  Qed.

  Lemma a_hide_last : forall f mp ws A, (forall e, In e A -> a_file e <> f) ->
    a_hide f (A ++ [mkA f mp ws false]) = A ++ [mkA f mp ws true].
  Proof.
    intros f mp ws A H. unfold a_hide. rewrite map_app. cbn [map a_file]. rewrite N.eqb_refl. f_equal.
    rewrite <- (map_id A) at 2. apply map_ext_in. intros e He.
    destruct (N.eqb_spec (a_file e) f) as [E|_]; [destruct (H e He E) | reflexivity].
  Qed.

  Lemma mod_r_add : forall s a f x, mod_R s a -> ~ In f (keys _ a) -> NoDup (keys _ a) ->
    mod_R (mod_add f x s) (a ++ [(f, x)]).
  Proof.
    intros s a f [[mp ws] h] [addr HI] Hnotin _. unfold mod_add.
    destruct (inv_add c s (entries a) addr f mp ws HI) as [addr' H1].
    assert (Hfresh : forall e, In e (entries a) -> a_file e <> f).
    { intros e He Hf. apply Hnotin. unfold keys. rewrite <- files_entries, <- Hf. apply in_map. exact He. }
    unfold a_add in H1. rewrite (a_remove_id f (entries a) Hfresh) in H1.
    unfold mod_R, entries. rewrite map_app. cbn [map entry_of]. fold (entries a).
    destruct h.
    - exists addr'. rewrite <- (a_hide_last f mp ws (entries a) Hfresh). apply inv_hide. exact H1.
    - exists addr'. exact H1.
  Qed.

  Lemma mod_r_remove : forall s a f, mod_R s a -> NoDup (keys _ a) -> mod_R (m_remove f s) (al_remove _ f a).
  Proof. intros s a f [addr HI] _. exists addr. rewrite entries_remove. apply inv_remove. exact HI. Qed.

  Lemma mod_r_clear : forall s a, mod_R s a -> mod_R (m_clear s) [].
  Proof. intros s a [addr HI]. exists (fun _ => []). eapply inv_clear. exact HI. Qed.

  Lemma mod_r_obs : forall s a q, mod_R s a -> mod_obs s q = mod_aobs a q.
  Proof. intros s a q [addr HI]. unfold mod_obs, mod_aobs. eapply find_module_view. exact HI. Qed.

  Lemma mod_r_size : forall s a, mod_R s a -> mod_size s = mod_asize a.
  Proof.
    intros s a [addr HI]. destruct (inv_sizes c s _ addr HI) as [H1 [H2 H3]].
    unfold mod_size, mod_asize. rewrite H1, H2, H3. unfold entries. rewrite map_length. reflexivity.
  Qed.

  Lemma existsb_false : forall A (p : A -> bool) l, (forall x, In x l -> p x = false) -> existsb p l = false.
  Proof.
    induction l as [|x l IH]; intro H; cbn [existsb]; [reflexivity|].
    rewrite (H x (or_introl eq_refl)). cbn [orb]. apply IH. intros y Hy. apply H. right. exact Hy.
  Qed.

  Lemma mod_r_mentions : forall s a f, mod_R s a -> ~ In f (keys _ a) -> mod_mentions s f = false.
  Proof.
    intros s a f [addr HI] Hnotin.
    assert (Hnf : forall e, In e (entries a) -> a_file e <> f).
    { intros e He Hf. apply Hnotin. unfold keys. rewrite <- files_entries, <- Hf. apply in_map. exact He. }
    assert (Hlist : forall l : list aentry, (forall e, In e l -> In e (entries a)) -> existsb (N.eqb f) (map a_file l) = false).
    { intros l Hl. apply existsb_false. intros g Hg. apply in_map_iff in Hg. destruct Hg as [e [<- He]].
      destruct (N.eqb_spec f (a_file e)) as [E|_]; [|reflexivity]. exfalso. apply (Hnf e (Hl e He)). symmetry. exact E. }
    unfold mod_mentions. rewrite !orb_false_iff. repeat split.
    - apply existsb_false. intros [g i] Hin. cbn [fst snd].
      apply (In_nodup_aget N.eqb_spec) in Hin; [|exact (I_fmap_nodup _ _ _ _ HI)].
      destruct (I_fmap_sound _ _ _ _ HI _ _ Hin) as [e [_ [He [Hf [[Hif _] _]]]]].
      rewrite Hif, Hf. destruct (N.eqb_spec g f) as [E|_]; [|reflexivity].
      exfalso. apply (Hnf e He). congruence.
    - apply existsb_false. intros [n nd] Hin. cbn [snd].
      apply (In_nodup_aget N.eqb_spec) in Hin; [|exact (I_nodes_nodup _ _ _ _ HI)].
      rewrite (I_files _ _ _ _ HI n nd Hin). apply Hlist. intros e He. apply filter_In in He. tauto.
    - pose proof (I_fuzzy _ _ _ _ HI) as HF. destruct (c_fuzzy c); [|rewrite HF; reflexivity].
      apply existsb_false. intros [nm l] Hin. cbn [snd].
      apply (In_nodup_aget str_eqb_spec) in Hin; [|exact (I_fuzzy_nodup _ _ _ _ HI)].
      rewrite HF in Hin. unfold nonempty_opt in Hin. destruct (is_nil (map a_file (named (entries a) nm))); [discriminate|].
      inversion Hin; subst l. apply Hlist. intros e He. apply filter_In in He. tauto.
  Qed.

  (** ---- moving the entry of an exclusive file to the end changes no answer ---- *)
  Lemma filter_none : forall A (p : A -> bool) l, (forall x, In x l -> p x = false) -> filter p l = [].
  Proof.
    induction l as [|x l IH]; intro H; cbn [filter]; [reflexivity|].
    rewrite (H x (or_introl eq_refl)). apply IH. intros y Hy. apply H. right. exact Hy.
  Qed.

  Lemma spec_cands_app : forall path l1 l2, spec_cands path (l1 ++ l2) = spec_cands path l1 ++ spec_cands path l2.
  Proof.
    induction l1 as [|e l1 IH]; intro l2; cbn [app spec_cands]; [reflexivity|].
    destruct (leading_count (full_of e) path); cbn [app]; rewrite IH; reflexivity.
  Qed.

  Lemma full_of_path : forall e, full_of e = a_path e.
  Proof. intro e. unfold full_of, parts_of. apply join_split. Qed.

  Section Move.
    Variables (L1 L2 : list aentry) (e : aentry).
    Hypothesis Hex : forall e', In e' (L1 ++ L2) -> parts_of e' <> parts_of e.

    Lemma move_exact : forall mp, spec_exact (L1 ++ L2 ++ [e]) mp = spec_exact (L1 ++ e :: L2) mp.
    Proof.
      intro mp. unfold spec_exact, exact_set. f_equal.
      rewrite !filter_app. cbn [filter].
      destruct (strs_eqb_spec (parts_of e) (split_dot mp)) as [E|_].
      - rewrite (filter_none _ _ L1), (filter_none _ _ L2); [reflexivity | |];
          intros e' He'; destruct (strs_eqb_spec (parts_of e') (split_dot mp)) as [E'|_]; try reflexivity;
          exfalso; apply (Hex e'); [apply in_or_app; auto | congruence | apply in_or_app; auto | congruence].
      - rewrite app_nil_r. reflexivity.
    Qed.

    Lemma move_fuzzy : forall path, spec_fuzzy (L1 ++ L2 ++ [e]) path = spec_fuzzy (L1 ++ e :: L2) path.
    Proof.
      intro path. unfold spec_fuzzy. f_equal.
      rewrite !filter_app. cbn [filter]. rewrite !spec_cands_app.
      destruct (str_eqb (name_of e) (last_part (split_dot path))); cbn [spec_cands]; [|rewrite app_nil_r; reflexivity].
      destruct (leading_count (full_of e) path) as [k|]; [|cbn [app]; rewrite app_nil_r; reflexivity].
      symmetry. cbn [app]. apply min_by_move_mid. intros [k' e'] Hin Hk. cbn [fst snd] in Hk.
      apply spec_cands_In in Hin. apply filter_In in Hin. destruct Hin as [Hin _].
      apply (Hex e'); [apply in_or_app; right; exact Hin|].
      assert (Hfull : full_of e' = full_of e) by congruence. rewrite !full_of_path in Hfull. unfold parts_of. rewrite Hfull. reflexivity.
    Qed.

    Lemma move_find : forall q, spec_find c (L1 ++ L2 ++ [e]) q = spec_find c (L1 ++ e :: L2) q.
    Proof.
      intro q. unfold spec_find. cbv zeta.
      destruct (c_rw_on c); [destruct (str_eqb (c_rw c (normalize q)) (normalize q))|];
        rewrite ?move_exact, ?move_fuzzy; reflexivity.
    Qed.
  End Move.

  Lemma split_entry : forall (a : list (N * mfacts)) f x, NoDup (keys _ a) -> In (f, x) a ->
    exists l1 l2, a = l1 ++ (f, x) :: l2 /\ al_remove _ f a = l1 ++ l2.
  Proof.
    intros a f x Hnd Hin. apply in_split in Hin. destruct Hin as [l1 [l2 ->]]. exists l1, l2. split; [reflexivity|].
    unfold keys in Hnd. rewrite map_app in Hnd. cbn [map fst] in Hnd.
    assert (H1 : ~ In f (map fst l1) /\ ~ In f (map fst l2)).
    { apply NoDup_remove_2 in Hnd. split; intro H; apply Hnd; apply in_or_app; auto. }
    rewrite al_remove_app. cbn [al_remove filter fst]. rewrite N.eqb_refl. cbn [negb].
    fold (al_remove mfacts f l1). fold (al_remove mfacts f l2).
    rewrite (al_remove_id _ f l1), (al_remove_id _ f l2); tauto.
  Qed.

  Lemma mod_r_move_obs : forall a f x q, NoDup (keys _ a) -> In (f, x) a -> mod_excl a f ->
    mod_aobs (al_remove _ f a ++ [(f, x)]) q = mod_aobs a q.
  Proof.
    intros a f x q Hnd Hin Hex. destruct (split_entry a f x Hnd Hin) as [l1 [l2 [Ha Hr]]].
    unfold mod_aobs. f_equal. rewrite Hr, Ha. unfold entries. rewrite !map_app. cbn [map].
    rewrite <- app_assoc. apply move_find.
    intros e' He'. rewrite <- map_app in He'. apply in_map_iff in He'. destruct He' as [[g y] [<- Hg]].
    assert (Hga : In (g, y) a).
    { rewrite Ha. apply in_app_or in Hg. apply in_or_app. destruct Hg; [left | right; right]; assumption. }
    apply (Hex x g y Hin Hga).
    intros ->. unfold keys in Hnd. rewrite Ha, map_app in Hnd. cbn [map fst] in Hnd.
    apply NoDup_remove_2 in Hnd. apply Hnd. rewrite <- map_app.
    change f with (fst (f, y)). apply in_map. exact Hg.
  Qed.

  Lemma nodup_length_ext : forall A (dec : forall x y : A, {x = y} + {x <> y}) l l',
    (forall x, In x l <-> In x l') -> length (nodup dec l) = length (nodup dec l').
  Proof.
    intros A dec l l' H. apply Permutation_length. apply NoDup_Permutation; try apply NoDup_nodup.
    intro x. rewrite !nodup_In. apply H.
  Qed.

  Lemma mod_r_move_size : forall a f x, NoDup (keys _ a) -> In (f, x) a ->
    mod_asize (al_remove _ f a ++ [(f, x)]) = mod_asize a.
  Proof.
    intros a f x Hnd Hin. destruct (split_entry a f x Hnd Hin) as [l1 [l2 [Ha Hr]]].
    assert (Hsame : forall z, In z (entries (al_remove _ f a ++ [(f, x)])) <-> In z (entries a)).
    { intro z. rewrite Hr, Ha. unfold entries. rewrite !map_app. cbn [map]. rewrite !in_app_iff. cbn [In]. tauto. }
    unfold mod_asize. f_equal; [|f_equal; [|f_equal]].
    - f_equal. apply nodup_length_ext. intro P. unfold all_prefixes. cbn [In]. rewrite !in_flat_map.
      split; (intros [H|[z [Hz HP]]]; [left; exact H | right; exists z; split; [apply Hsame; exact Hz | exact HP]]).
    - f_equal. rewrite Hr, Ha. rewrite !app_length. cbn [length]. lia.
    - f_equal. destruct (c_fuzzy c); [|reflexivity]. apply nodup_length_ext. intro nm. rewrite !in_map_iff.
      split; intros [z [Hz Hin']]; exists z; (split; [exact Hz | apply Hsame; exact Hin']).
  Qed.

  Definition mod_refinement : refinement _ _ _ _ mod_store :=
    mkRef _ _ _ _ mod_store mod_R mod_aobs mod_asize mod_excl
          (ex_intro _ (fun _ => []) (inv_init c))
          mod_r_add mod_r_remove mod_r_clear mod_r_obs mod_r_size mod_r_mentions mod_r_move_obs mod_r_move_size.
End ModuleStore.
