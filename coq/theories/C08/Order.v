(** C08/Order.v — the tie-break order of [fuzzy_find_module] is a strict total order on keys, hence the first
    minimum does not move when an element with a key of its own changes place. *)
From EV Require Import C33.Model C33.Lemmas.
Local Open Scope N_scope.

Lemma str_cmp_refl : forall a, str_cmp a a = Eq.
Proof. induction a as [|x a IH]; cbn [str_cmp]; [reflexivity|]. rewrite N.compare_refl. exact IH. Qed.

Lemma str_cmp_eq : forall a b, str_cmp a b = Eq -> a = b.
Proof.
  induction a as [|x a IH]; destruct b as [|y b]; cbn [str_cmp]; intro H; try discriminate; [reflexivity|].
  destruct (x ?= y) eqn:E; try discriminate. apply N.compare_eq in E. subst. f_equal. auto.
Qed.

Lemma str_cmp_opp : forall a b, str_cmp b a = CompOpp (str_cmp a b).
Proof.
  induction a as [|x a IH]; destruct b as [|y b]; cbn [str_cmp CompOpp]; try reflexivity.
  rewrite (N.compare_antisym x y). destruct (x ?= y); cbn [CompOpp]; [apply IH | reflexivity | reflexivity].
Qed.

Lemma str_cmp_trans : forall a b c, str_cmp a b = Lt -> str_cmp b c = Lt -> str_cmp a c = Lt.
Proof.
  induction a as [|x a IH]; destruct b as [|y b]; destruct c as [|z c]; cbn [str_cmp]; intros H1 H2;
    try discriminate; try reflexivity.
  destruct (x ?= y) eqn:Exy; try discriminate.
  - apply N.compare_eq in Exy. subst y. destruct (x ?= z); try discriminate; [eapply IH; eauto | reflexivity].
  - destruct (y ?= z) eqn:Eyz; try discriminate.
    + apply N.compare_eq in Eyz. subst z. rewrite Exy. reflexivity.
    + assert (x ?= z = Lt) as ->; [|reflexivity].
      apply N.compare_lt_iff. apply N.compare_lt_iff in Exy. apply N.compare_lt_iff in Eyz. eapply N.lt_trans; eauto.
Qed.

Definition key := (N * str)%type.

Lemma cand_lt_irrefl : forall k : key, cand_lt k k = false.
Proof. intros [n s]. unfold cand_lt. cbn [fst snd]. rewrite N.compare_refl, str_cmp_refl. reflexivity. Qed.

Lemma cand_lt_total : forall a b : key, a <> b -> cand_lt a b = negb (cand_lt b a).
Proof.
  intros [n s] [m t] Hne. unfold cand_lt. cbn [fst snd]. rewrite (N.compare_antisym n m).
  destruct (n ?= m) eqn:E; cbn [CompOpp negb]; try reflexivity.
  apply N.compare_eq in E. subst m. rewrite (str_cmp_opp s t).
  destruct (str_cmp s t) eqn:Es; cbn [CompOpp negb]; try reflexivity.
  apply str_cmp_eq in Es. subst. congruence.
Qed.

Lemma cand_lt_trans : forall a b c : key, cand_lt a b = true -> cand_lt b c = true -> cand_lt a c = true.
Proof.
  intros [n s] [m t] [p u]. unfold cand_lt. cbn [fst snd]. intros H1 H2.
  destruct (n ?= m) eqn:E1; try discriminate.
  - apply N.compare_eq in E1. subst m. destruct (n ?= p) eqn:E2; try discriminate; [|reflexivity].
    destruct (str_cmp s t) eqn:Es; try discriminate. destruct (str_cmp t u) eqn:Et; try discriminate.
    rewrite (str_cmp_trans s t u Es Et). reflexivity.
  - destruct (m ?= p) eqn:E2; try discriminate.
    + apply N.compare_eq in E2. subst p. rewrite E1. reflexivity.
    + assert (n ?= p = Lt) as ->; [|reflexivity].
      apply N.compare_lt_iff. apply N.compare_lt_iff in E1. apply N.compare_lt_iff in E2. eapply N.lt_trans; eauto.
Qed.

Section MinBy.
  Variables (A : Type) (key : A -> N * str).

  (** two adjacent elements with different keys can be swapped *)
  Lemma min_by_swap : forall x y r b, key x <> key y ->
    min_by key (x :: y :: r) b = min_by key (y :: x :: r) b.
  Proof.
    intros x y r b Hne. cbn [min_by].
    assert (Hxy : cand_lt (key x) (key y) = negb (cand_lt (key y) (key x))) by (apply cand_lt_total; exact Hne).
    destruct b as [b0|].
    - destruct (cand_lt (key x) (key b0)) eqn:Exb, (cand_lt (key y) (key b0)) eqn:Eyb.
      + rewrite Hxy. destruct (cand_lt (key y) (key x)); reflexivity.
      + assert (cand_lt (key y) (key x) = false) as ->; [|reflexivity].
        destruct (cand_lt (key y) (key x)) eqn:E; [|reflexivity].
        rewrite (cand_lt_trans _ _ _ E Exb) in Eyb. discriminate.
      + assert (cand_lt (key x) (key y) = false) as ->; [|reflexivity].
        destruct (cand_lt (key x) (key y)) eqn:E; [|reflexivity].
        rewrite (cand_lt_trans _ _ _ E Eyb) in Exb. discriminate.
      + reflexivity.
    - rewrite Hxy. destruct (cand_lt (key y) (key x)); reflexivity.
  Qed.

  Lemma min_by_cons_cong : forall z l l' b,
    (forall b', min_by key l b' = min_by key l' b') -> min_by key (z :: l) b = min_by key (z :: l') b.
  Proof. intros z l l' b H. cbn [min_by]. destruct b as [b0|]; [destruct (cand_lt (key z) (key b0))|]; apply H. Qed.

  (** an element whose key differs from all keys of [c2] can be moved behind [c2] *)
  Lemma min_by_move : forall x c2 b, (forall y, In y c2 -> key y <> key x) ->
    min_by key (x :: c2) b = min_by key (c2 ++ [x]) b.
  Proof.
    intros x c2. induction c2 as [|y c2 IH]; intros b H; [reflexivity|].
    rewrite min_by_swap by (intro E; apply (H y); [left; reflexivity | symmetry; exact E]).
    cbn [app]. apply min_by_cons_cong. intro b'. apply IH. intros z Hz. apply H. right. exact Hz.
  Qed.

  Lemma min_by_app_cong : forall c1 l l' b,
    (forall b', min_by key l b' = min_by key l' b') -> min_by key (c1 ++ l) b = min_by key (c1 ++ l') b.
  Proof.
    induction c1 as [|z c1 IH]; intros l l' b H; cbn [app]; [apply H|].
    apply min_by_cons_cong. intro b'. apply IH. exact H.
  Qed.

  Lemma min_by_move_mid : forall c1 x c2 b, (forall y, In y c2 -> key y <> key x) ->
    min_by key (c1 ++ x :: c2) b = min_by key (c1 ++ c2 ++ [x]) b.
  Proof. intros c1 x c2 b H. apply min_by_app_cong. intro b'. apply min_by_move. exact H. Qed.
End MinBy.
