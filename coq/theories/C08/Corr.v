(** C08/Corr.v — executable comparison of the real LuaPropertyIndex / LuaGlobalIndex / DiagnosticIndex
    (observations written by the harness after every op) with the models. *)
From EV Require Import C08.SimpleModels C10.TypeModel C08.MemberModel C08.RefModel.
Local Open Scope N_scope.

Inductive iop := IAdd (f : N) (facts : list (N * N * N)) | IRemove (f : N) | IClear.

Fixpoint nl_eqb (a b : list N) : bool :=
  match a, b with
  | [], [] => true
  | x :: a', y :: b' => (x =? y) && nl_eqb a' b'
  | _, _ => false
  end.
Definition on_eqb (a b : option N) : bool :=
  match a, b with Some x, Some y => x =? y | None, None => true | _, _ => false end.

Definition prop_eqb (p q : prop) : bool :=
  on_eqb (p_desc p) (p_desc q) && (p_vis p =? p_vis q) && on_eqb (p_dep p) (p_dep q)
  && on_eqb (p_src p) (p_src q) && nl_eqb (p_tags p) (p_tags q).
Definition oprop_eqb (a b : option prop) : bool :=
  match a, b with Some x, Some y => prop_eqb x y | None, None => true | _, _ => false end.

Fixpoint seq_from (n : N) (k : nat) : list N := match k with O => [] | S k' => n :: seq_from (n + 1) k' end.

Fixpoint all2 {A B} (p : A -> B -> bool) (a : list A) (b : list B) : bool :=
  match a, b with
  | [], [] => true
  | x :: a', y :: b' => p x y && all2 p a' b'
  | _, _ => false
  end.

(** ---- property ---- *)
Definition pcase := list (iop * (list (option prop) * list N)).
Fixpoint check_p (s : pidx) (c : pcase) : bool :=
  match c with
  | [] => true
  | (o, (obs, sizes)) :: r =>
      let s' := match o with
                | IAdd f facts => p_add f facts s
                | IRemove f => p_remove f s
                | IClear => p_clear s
                end in
      all2 oprop_eqb (map (p_get s') (seq_from 0 (length obs))) obs && nl_eqb (p_sizes s') sizes && check_p s' r
  end.

(** ---- global ---- *)
Fixpoint dl_eqb (a b : list (N * N)) : bool :=
  match a, b with
  | [], [] => true
  | x :: a', y :: b' => (fst x =? fst y) && (snd x =? snd y) && dl_eqb a' b'
  | _, _ => false
  end.
Definition odl_eqb (a b : option (list (N * N))) : bool :=
  match a, b with Some x, Some y => dl_eqb x y | None, None => true | _, _ => false end.

Definition gcase := list (iop * (list (option (list (N * N))) * list N)).
Fixpoint check_g (s : gidx) (c : gcase) : bool :=
  match c with
  | [] => true
  | (o, (obs, sizes)) :: r =>
      let s' := match o with
                | IAdd f facts => g_add f (map (fun x => (fst (fst x), snd (fst x))) facts) s
                | IRemove f => g_remove f s
                | IClear => g_clear s
                end in
      all2 odl_eqb (map (g_get s') (seq_from 0 (length obs))) obs && nl_eqb (g_sizes s') sizes && check_g s' r
  end.

(** ---- diagnostic: rows are (file 1..4) x (code 0..2) ---- *)
Definition dcase := list (iop * (list (bool * bool) * list N)).
Definition drows : list (N * N) :=
  flat_map (fun f => map (fun c => (f, c)) [0; 1; 2]) [1; 2; 3; 4].
Fixpoint check_d (s : didx) (c : dcase) : bool :=
  match c with
  | [] => true
  | (o, (obs, sizes)) :: r =>
      let s' := match o with
                | IAdd f facts => d_add f (map (fun x => (fst (fst x), snd (fst x))) facts) s
                | IRemove f => d_remove f s
                | IClear => d_clear s
                end in
      all2 (fun x y => Bool.eqb (fst x) (fst y) && Bool.eqb (snd x) (snd y)) (map (d_get s') drows) obs
      && nl_eqb (d_sizes s') sizes && check_d s' r
  end.

(** ---- type index: per file 1..4 (namespace, using, declared ids), per type 0..3 (locations, raw supers, found) ---- *)
Definition onl_eqb (a b : option (list N)) : bool :=
  match a, b with Some x, Some y => nl_eqb x y | None, None => true | _, _ => false end.
Definition tfile_obs := (option N * option (list N) * list N)%type.
Definition ttype_obs := (option (list (N * N)) * option (list N) * bool)%type.
Definition tcase := list (iop * (list tfile_obs * list ttype_obs * list N)).
Fixpoint check_t (s : tidx) (c : tcase) : bool :=
  match c with
  | [] => true
  | (o, (fobs, tobs, sizes)) :: r =>
      let s' := match o with
                | IAdd f facts => t_add f facts s
                | IRemove f => t_remove f s
                | IClear => t_clear s
                end in
      all2 (fun f (x : tfile_obs) =>
              on_eqb (ngetN f (t_ns s')) (fst (fst x)) && onl_eqb (ngetN f (t_using s')) (snd (fst x))
              && nl_eqb (t_file_decls s' f) (snd x)) [1; 2; 3; 4] fobs
      && all2 (fun t (x : ttype_obs) =>
              odl_eqb (ngetN t (t_decls s')) (fst (fst x))
              && onl_eqb (option_map (map snd) (ngetN t (t_supers s'))) (snd (fst x))
              && Bool.eqb (t_found s' t) (snd x)) (seq_from 0 (length tobs)) tobs
      && nl_eqb (t_sizes s') sizes && check_t s' r
  end.

(** ---- member index: per owner 0..3 (present, members as (key, file, pos) in any order, number of keys);
        per (file 1..4, pos 0..5): (member exists, current owner) ---- *)
Definition mowner_obs := (bool * list (N * (N * N)) * N)%type.
Definition mcur_obs := (bool * option N)%type.
Definition mcase := list (iop * (list mowner_obs * list mcur_obs * list N)).
Definition kmp_eqb (a b : N * (N * N)) : bool := (fst a =? fst b) && pe (snd a) (snd b).
Definition mcur_keys : list mid := flat_map (fun f => map (fun p => (f, p)) [0; 1; 2; 3; 4; 5]) [1; 2; 3; 4].
Fixpoint check_m (s : mbidx) (c : mcase) : bool :=
  match c with
  | [] => true
  | (o, (oobs, cobs, sizes)) :: r =>
      let s' := match o with
                | IAdd f facts => mb_add f facts s
                | IRemove f => mb_remove f s
                | IClear => mb_clear s
                end in
      all2 (fun t (x : mowner_obs) =>
              match mb_members_of s' t with
              | None => negb (fst (fst x)) && is_nil (snd (fst x))
              | Some ms => fst (fst x) && Nat.eqb (length ms) (length (snd (fst x)))
                           && forallb (fun m => existsb (kmp_eqb m) ms) (snd (fst x))
              end && (mb_len s' t =? snd x)) (seq_from 0 (length oobs)) oobs
      && all2 (fun m (x : mcur_obs) =>
              Bool.eqb (match pget m (mb_members s') with Some _ => true | None => false end) (fst x)
              && on_eqb (pget m (mb_cur s')) (snd x)) mcur_keys cobs
      && nl_eqb (mb_sizes s') sizes && check_m s' r
  end.

(** ---- reference index: per name 0..3 the global references, per key 0..3 the index references (as sets) ---- *)
Definition set_eqb (a : option (list (N * N))) (b : option (list (N * N))) : bool :=
  match a, b with
  | Some x, Some y => Nat.eqb (length x) (length y) && forallb (fun p => existsb (fun q => (fst p =? fst q) && (snd p =? snd q)) x) y
  | None, None => true
  | _, _ => false
  end.
Definition rcase := list (iop * (list (option (list (N * N))) * list (option (list (N * N))) * list N)).
Fixpoint check_r (s : ridx) (c : rcase) : bool :=
  match c with
  | [] => true
  | (o, (gobs, iobs, sizes)) :: r =>
      let s' := match o with
                | IAdd f facts => r_add f facts s
                | IRemove f => r_remove f s
                | IClear => r_clear s
                end in
      all2 (fun k x => set_eqb (rmap_get (r_glob s') k) x) (seq_from 0 (length gobs)) gobs
      && all2 (fun k x => set_eqb (rmap_get (r_idx s') k) x) (seq_from 0 (length iobs)) iobs
      && nl_eqb (r_sizes s') sizes && check_r s' r
  end.

Inductive case := CP (c : pcase) | CG (c : gcase) | CD (c : dcase) | CT (c : tcase) | CM (c : mcase) | CR (c : rcase).
Definition check_case (k : case) : bool :=
  match k with
  | CP c => check_p p_init c
  | CG c => check_g g_init c
  | CD c => check_d d_init c
  | CT c => check_t t_init c
  | CM c => check_m mb_init c
  | CR c => check_r r_init c
  end.
