(** C08/Diag.v — the per-file code sets of [DiagnosticIndex] (file_diagnostic_disabled / file_diagnostic_enabled) as a
    per-file fact store and its refinement.  Facts of a file: (kind, code) pairs, kind 0 = disabled, else enabled. *)
From Coq Require Import Permutation.
From EV Require Import Base.StoreSM C33.Model C33.Lemmas C08.SimpleModels C08.Module C08.Global.
Local Open Scope N_scope.

Definition dfacts : Type := list (N * N).

Definition diag_store : store didx dfacts (N * N) (bool * bool) :=
  mkStore _ _ _ _ d_init d_add d_remove d_clear d_get d_mentions
          (fun s => [N.of_nat (length (d_dis s)); N.of_nat (length (d_en s))]).

Definition is0 (k : N) : bool := k =? 0.
Definition ins_all (l : list N) (codes : list N) : list N := fold_left (fun l c => set_insert c l) codes l.
Definition codes_of (dis : bool) (facts : dfacts) : list N :=
  map snd (filter (fun x => Bool.eqb (is0 (fst x)) dis) facts).
Definition setlist (dis : bool) (facts : dfacts) : list N := ins_all [] (codes_of dis facts).
Definition facts_of (f : N) (a : list (N * dfacts)) : dfacts := match ngetN f a with Some x => x | None => [] end.

Definition diag_R (s : didx) (a : list (N * dfacts)) : Prop :=
  NoDup (keys _ a) /\ NoDup (map fst (d_dis s)) /\ NoDup (map fst (d_en s)) /\
  forall f, ngetN f (d_dis s) = ne_opt (setlist true (facts_of f a)) /\
            ngetN f (d_en s) = ne_opt (setlist false (facts_of f a)).

Definition mem (c : N) (l : list N) : bool := existsb (N.eqb c) l.
Definition diag_aobs (a : list (N * dfacts)) (q : N * N) : bool * bool :=
  (mem (snd q) (setlist true (facts_of (fst q) a)), mem (snd q) (setlist false (facts_of (fst q) a))).
Definition has (dis : bool) (fx : N * dfacts) : bool := negb (is_nil (setlist dis (snd fx))).
Definition diag_asize (a : list (N * dfacts)) : list N :=
  [N.of_nat (length (filter (has true) a)); N.of_nat (length (filter (has false) a))].

Notation nget_set := (aget_aset N.eqb_spec).
Notation nget_del := (aget_adel N.eqb_spec).

Lemma ins_all_nonnil : forall codes l, l <> [] -> ins_all l codes <> [].
Proof.
  unfold ins_all. induction codes as [|c codes IH]; intros l H; cbn [fold_left]; [exact H|].
  apply IH. unfold set_insert. destruct (existsb (N.eqb c) l); [exact H|]. destruct l; discriminate.
Qed.

Lemma set_add_spec : forall f c m g, NoDup (map fst m) ->
  NoDup (map fst (set_add f c m)) /\
  ngetN g (set_add f c m) = if g =? f then Some (match ngetN f m with Some l => set_insert c l | None => [c] end) else ngetN g m.
Proof.
  intros f c m g Hnd. unfold set_add. destruct (ngetN f m) as [l|] eqn:E; split;
    try (apply (nodup_aset N.eqb_spec); exact Hnd); rewrite nget_set; reflexivity.
Qed.

(** one table ([dis] = true: disabled, false: enabled) after [d_add] *)
Definition tbl (dis : bool) (s : didx) := if dis then d_dis s else d_en s.

Definition add_codes (f : N) (codes : list N) (m : list (N * list N)) : list (N * list N) :=
  fold_left (fun m c => set_add f c m) codes m.

Lemma add_codes_spec : forall f codes m g, NoDup (map fst m) ->
  NoDup (map fst (add_codes f codes m)) /\
  ngetN g (add_codes f codes m) =
    if g =? f then match ngetN f m with
                   | Some l => Some (ins_all l codes)
                   | None => ne_opt (ins_all [] codes)
                   end
    else ngetN g m.
Proof.
  unfold add_codes. induction codes as [|c codes IH]; intros m g Hnd; cbn [fold_left].
  - split; [exact Hnd|]. destruct (N.eqb_spec g f) as [->|]; [|reflexivity]. destruct (ngetN f m); reflexivity.
  - destruct (set_add_spec f c m g Hnd) as [Hnd1 Hg]. destruct (IH (set_add f c m) g Hnd1) as [A B].
    split; [exact A|]. rewrite B. destruct (N.eqb_spec g f) as [->|Hne]; [|exact Hg].
    rewrite (proj2 (set_add_spec f c m f Hnd)), N.eqb_refl.
    destruct (ngetN f m) as [l|]; [reflexivity|].
    change (ins_all [] (c :: codes)) with (ins_all [c] codes).
    pose proof (ins_all_nonnil codes [c]) as Hn.
    destruct (ins_all [c] codes); [exfalso; apply Hn; [discriminate | reflexivity] | reflexivity].
Qed.

Lemma d_add_tables : forall f facts s,
  d_dis (d_add f facts s) = add_codes f (codes_of true facts) (d_dis s) /\
  d_en (d_add f facts s) = add_codes f (codes_of false facts) (d_en s).
Proof.
  unfold d_add, add_codes, codes_of. induction facts as [|[k c] facts IH]; intro s; cbn [fold_left filter fst snd]; [auto|].
  unfold is0. destruct (N.eqb_spec k 0) as [->|Hk]; cbn [Bool.eqb map snd fold_left];
    destruct (IH (mkDidx (set_add f c (d_dis s)) (d_en s))) as [A1 B1];
    destruct (IH (mkDidx (d_dis s) (set_add f c (d_en s)))) as [A2 B2]; cbn [d_dis d_en] in *; auto.
Qed.

Lemma d_add_spec : forall f facts s dis g, NoDup (map fst (d_dis s)) -> NoDup (map fst (d_en s)) ->
  NoDup (map fst (d_dis (d_add f facts s))) /\ NoDup (map fst (d_en (d_add f facts s))) /\
  ngetN g (tbl dis (d_add f facts s)) =
    if g =? f then match ngetN f (tbl dis s) with
                   | Some l => Some (ins_all l (codes_of dis facts))
                   | None => ne_opt (ins_all [] (codes_of dis facts))
                   end
    else ngetN g (tbl dis s).
Proof.
  intros f facts s dis g H1 H2. destruct (d_add_tables f facts s) as [T1 T2]. rewrite T1, T2.
  destruct (add_codes_spec f (codes_of true facts) (d_dis s) g H1) as [A1 B1].
  destruct (add_codes_spec f (codes_of false facts) (d_en s) g H2) as [A2 B2].
  split; [exact A1|]. split; [exact A2|]. unfold tbl. destruct dis; [rewrite T1; exact B1 | rewrite T2; exact B2].
Qed.

Lemma facts_of_snoc : forall (a : list (N * dfacts)) f (x : dfacts) g, ~ In f (keys _ a) ->
  facts_of g (a ++ [(f, x)]) = if g =? f then x else facts_of g a.
Proof.
  intros a f x g Hn. unfold facts_of. rewrite aget_app. cbn [aget].
  destruct (N.eqb_spec g f) as [->|Hne].
  - destruct (ngetN f a) as [y|] eqn:E; [|reflexivity].
    exfalso. apply Hn. apply (aget_In N.eqb_spec) in E. unfold keys. change f with (fst (f, y)). apply in_map. exact E.
  - destruct (ngetN g a); reflexivity.
Qed.

Lemma facts_of_absent : forall (a : list (N * dfacts)) f, ~ In f (keys _ a) -> facts_of f a = [].
Proof.
  intros a f Hn. unfold facts_of. destruct (ngetN f a) as [y|] eqn:E; [|reflexivity].
  exfalso. apply Hn. apply (aget_In N.eqb_spec) in E. unfold keys. change f with (fst (f, y)). apply in_map. exact E.
Qed.

Lemma nget_al_remove : forall (a : list (N * dfacts)) f g,
  ngetN g (al_remove _ f a) = if g =? f then None else ngetN g a.
Proof.
  intros a f g. unfold al_remove. induction a as [|[h y] a IH]; cbn [filter aget fst].
  - destruct (g =? f); reflexivity.
  - destruct (N.eqb_spec h f) as [->|Hhf]; cbn [negb aget].
    + rewrite IH. destruct (N.eqb_spec g f); reflexivity.
    + destruct (N.eqb_spec g h) as [->|Hgh]; [destruct (N.eqb_spec h f); congruence | exact IH].
Qed.

Lemma diag_r_add : forall s a f (x : dfacts), diag_R s a -> ~ In f (keys _ a) -> NoDup (keys _ a) -> diag_R (d_add f x s) (a ++ [(f, x)]).
Proof.
  intros s a f x [Ha [H1 [H2 HR]]] Hn _.
  destruct (d_add_spec f x s true 0 H1 H2) as [A [B _]].
  split; [unfold keys; rewrite map_app; cbn [map fst]; apply nodup_snoc; assumption|].
  split; [exact A|]. split; [exact B|]. intro g.
  destruct (d_add_spec f x s true g H1 H2) as [_ [_ C1]]. destruct (d_add_spec f x s false g H1 H2) as [_ [_ C2]].
  cbn [tbl] in C1, C2. rewrite C1, C2, (facts_of_snoc a f x g Hn).
  destruct (HR f) as [F1 F2]. rewrite (facts_of_absent a f Hn) in F1, F2. cbn in F1, F2. rewrite F1, F2.
  destruct (g =? f); [split; reflexivity | apply HR].
Qed.

Lemma diag_r_remove : forall s a f, diag_R s a -> NoDup (keys _ a) -> diag_R (d_remove f s) (al_remove _ f a).
Proof.
  intros s a f [Ha [H1 [H2 HR]]] _. split; [apply nodup_al_remove; exact Ha|].
  split; [apply nodup_adel; exact H1|]. split; [apply nodup_adel; exact H2|]. intro g. cbn [d_remove d_dis d_en].
  rewrite !nget_del. unfold facts_of. rewrite nget_al_remove.
  destruct (N.eqb_spec g f) as [->|Hne]; [split; reflexivity | apply HR].
Qed.

Lemma diag_r_clear : forall s a, diag_R s a -> diag_R (d_clear s) [].
Proof. intros s a _. repeat split; constructor. Qed.

Lemma diag_r_obs : forall s a q, diag_R s a -> d_get s q = diag_aobs a q.
Proof.
  intros s a [f c] [_ [_ [_ HR]]]. unfold d_get, diag_aobs. cbn [fst snd]. destruct (HR f) as [F1 F2]. rewrite F1, F2.
  unfold mem. destruct (setlist true (facts_of f a)), (setlist false (facts_of f a)); reflexivity.
Qed.

Lemma keys_filter_perm : forall (dis : bool) (m : list (N * list N)) (a : list (N * dfacts)),
  NoDup (keys _ a) -> NoDup (map fst m) ->
  (forall f, ngetN f m = ne_opt (setlist dis (facts_of f a))) ->
  length m = length (filter (has dis) a).
Proof.
  intros dis m a Ha Hm HR. rewrite <- (map_length fst m), <- (map_length fst (filter (has dis) a)).
  apply Permutation_length. apply NoDup_Permutation; [exact Hm | |].
  - unfold keys in Ha. clear HR. induction a as [|x a IH]; cbn [filter map]; [constructor|].
    cbn [map] in Ha. inversion Ha as [|? ? Hx Hnd]; subst. destruct (has dis x); cbn [map]; [|auto].
    constructor; [|auto]. intro Hin. apply Hx. apply in_map_iff in Hin. destruct Hin as [y [Hy Hin]].
    apply filter_In in Hin. apply in_map_iff. exists y. tauto.
  - intro f. split.
    + intro H. apply (In_keys_aget N.eqb_spec) in H. destruct H as [l Hl]. rewrite HR in Hl.
      unfold facts_of in Hl. destruct (ngetN f a) as [x|] eqn:E; [|cbn in Hl; discriminate].
      apply (aget_In N.eqb_spec) in E. apply in_map_iff. exists (f, x). split; [reflexivity|].
      apply filter_In. split; [exact E|]. unfold has. cbn [snd]. destruct (setlist dis x); [discriminate | reflexivity].
    + intro H. apply in_map_iff in H. destruct H as [[g x] [<- Hin]]. apply filter_In in Hin. destruct Hin as [Hin Hh].
      cbn [fst]. pose proof (HR g) as Hg. unfold facts_of in Hg.
      rewrite (In_nodup_aget N.eqb_spec g x a Ha Hin) in Hg. unfold has in Hh. cbn [snd] in Hh.
      destruct (setlist dis x) as [|c r]; [discriminate|]. cbn [ne_opt] in Hg.
      apply (aget_In N.eqb_spec) in Hg. change g with (fst (g, c :: r)). apply in_map. exact Hg.
Qed.

Lemma diag_r_size : forall s a, diag_R s a ->
  [N.of_nat (length (d_dis s)); N.of_nat (length (d_en s))] = diag_asize a.
Proof.
  intros s a [Ha [H1 [H2 HR]]]. unfold diag_asize.
  rewrite (keys_filter_perm true (d_dis s) a Ha H1 (fun f => proj1 (HR f))).
  rewrite (keys_filter_perm false (d_en s) a Ha H2 (fun f => proj2 (HR f))). reflexivity.
Qed.

Lemma diag_r_mentions : forall s a f, diag_R s a -> ~ In f (keys _ a) -> d_mentions s f = false.
Proof.
  intros s a f [_ [_ [_ HR]]] Hn. unfold d_mentions. destruct (HR f) as [F1 F2].
  rewrite (facts_of_absent a f Hn) in F1, F2. cbn in F1, F2.
  assert (H : forall m : list (N * list N), ngetN f m = None -> existsb (fun kv => fst kv =? f) m = false).
  { intros m Hm. apply existsb_false. intros [g l] Hin. cbn [fst]. destruct (N.eqb_spec g f) as [->|_]; [|reflexivity].
    exfalso. apply (aget_None_notin N.eqb_spec f m Hm). change f with (fst (f, l)). apply in_map. exact Hin. }
  rewrite (H _ F1), (H _ F2). reflexivity.
Qed.

Lemma facts_of_move : forall (a : list (N * dfacts)) f (x : dfacts) g, NoDup (keys _ a) -> In (f, x) a ->
  facts_of g (al_remove _ f a ++ [(f, x)]) = facts_of g a.
Proof.
  intros a f x g Hnd Hin. rewrite facts_of_snoc by apply notin_al_remove.
  unfold facts_of. rewrite nget_al_remove. destruct (N.eqb_spec g f) as [->|_]; [|reflexivity].
  rewrite (In_nodup_aget N.eqb_spec f x a Hnd Hin). reflexivity.
Qed.

Lemma diag_r_move_obs : forall a f (x : dfacts) q, NoDup (keys _ a) -> In (f, x) a -> True ->
  diag_aobs (al_remove _ f a ++ [(f, x)]) q = diag_aobs a q.
Proof. intros a f x q Hnd Hin _. unfold diag_aobs. rewrite facts_of_move by assumption. reflexivity. Qed.

Lemma diag_r_move_size : forall a f (x : dfacts), NoDup (keys _ a) -> In (f, x) a ->
  diag_asize (al_remove _ f a ++ [(f, x)]) = diag_asize a.
Proof.
  intros a f x Hnd Hin. destruct (split_entry_g a f x Hnd Hin) as [l1 [l2 [Ha Hr]]].
  change gfacts with dfacts in Hr, Ha. unfold dfacts in *. unfold diag_asize. rewrite Hr, Ha, !filter_app. cbn [filter]. rewrite !app_length.
  destruct (has true (f, x)), (has false (f, x)); cbn [length app]; rewrite ?app_length; cbn [length];
    (f_equal; [f_equal; lia | f_equal; f_equal; lia]).
Qed.

Definition diag_refinement : refinement _ _ _ _ diag_store :=
  mkRef _ _ _ _ diag_store diag_R diag_aobs diag_asize (fun _ _ => True)
        (conj (NoDup_nil N) (conj (NoDup_nil N) (conj (NoDup_nil N) (fun f => conj eq_refl eq_refl))))
        diag_r_add diag_r_remove diag_r_clear diag_r_obs diag_r_size diag_r_mentions diag_r_move_obs diag_r_move_size.
