(** C08/Global.v — [LuaGlobalIndex] as a per-file fact store (instance of Base/StoreSM) and its refinement.
    The facts of a file are its global declarations (name, position), in source order. *)
From Coq Require Import Permutation.
From EV Require Import Base.StoreSM C33.Model C33.Lemmas C08.SimpleModels C08.Module.
Local Open Scope N_scope.

Definition gfacts : Type := list (N * N).

Definition glob_store : store gidx gfacts N (option (list (N * N))) :=
  mkStore _ _ _ _ g_init g_add g_remove g_clear g_get g_mentions (fun s => [N.of_nat (length s)]).

(** the declarations of [nm] contributed by one file / by all indexed files, in submission order *)
Definition mine (nm f : N) (facts : gfacts) : list (N * N) :=
  map (fun x => (f, snd x)) (filter (fun x => fst x =? nm) facts).
Definition decls (a : list (N * gfacts)) (nm : N) : list (N * N) := flat_map (fun fx => mine nm (fst fx) (snd fx)) a.
Definition names (a : list (N * gfacts)) : list N := flat_map (fun fx => map fst (snd fx)) a.

Definition ne_opt {A} (l : list A) : option (list A) := match l with [] => None | _ => Some l end.

Definition glob_R (s : gidx) (a : list (N * gfacts)) : Prop :=
  NoDup (map fst s) /\ forall nm, ngetN nm s = ne_opt (decls a nm).

Definition glob_aobs (a : list (N * gfacts)) (nm : N) : option (list (N * N)) := ne_opt (decls a nm).
Definition glob_asize (a : list (N * gfacts)) : list N := [N.of_nat (length (nodup N.eq_dec (names a)))].

(** no other file declares a global that [f] declares *)
Definition glob_excl (a : list (N * gfacts)) (f : N) : Prop :=
  forall x g y nm, In (f, x) a -> In (g, y) a -> g <> f -> In nm (map fst x) -> ~ In nm (map fst y).

Notation nget_set := (aget_aset N.eqb_spec).

Lemma decls_app : forall a b nm, decls (a ++ b) nm = decls a nm ++ decls b nm.
Proof. intros. unfold decls. apply flat_map_app. Qed.

Lemma ne_opt_app : forall A (l m : list A),
  match ne_opt l with Some l0 => Some (l0 ++ m) | None => ne_opt m end = ne_opt (l ++ m).
Proof. intros A [|x l] m; reflexivity. Qed.

Lemma g_add_spec : forall f facts s nm, NoDup (map fst s) ->
  NoDup (map fst (g_add f facts s)) /\
  ngetN nm (g_add f facts s) = match ngetN nm s with Some l0 => Some (l0 ++ mine nm f facts) | None => ne_opt (mine nm f facts) end.
Proof.
  unfold g_add. induction facts as [|[n p] facts IH]; intros s nm Hnd; cbn [fold_left].
  - split; [exact Hnd|]. unfold mine. cbn. destruct (ngetN nm s); [rewrite app_nil_r|]; reflexivity.
  - cbn [fst snd].
    set (s1 := match ngetN n s with Some l => nsetN n (l ++ [(f, p)]) s | None => nsetN n [(f, p)] s end).
    assert (Hnd1 : NoDup (map fst s1)) by (unfold s1; destruct (ngetN n s); apply (nodup_aset N.eqb_spec); exact Hnd).
    destruct (IH s1 nm Hnd1) as [H1 H2]. split; [exact H1|]. rewrite H2.
    unfold mine. cbn [filter fst]. destruct (N.eqb_spec n nm) as [->|Hne].
    + cbn [map snd]. unfold s1. destruct (ngetN nm s) as [l|] eqn:E; rewrite nget_set, N.eqb_refl.
      * rewrite <- app_assoc. reflexivity.
      * reflexivity.
    + unfold s1. destruct (ngetN n s); rewrite nget_set; (destruct (N.eqb_spec nm n); [congruence | reflexivity]).
Qed.

Lemma g_remove_spec : forall f s nm, NoDup (map fst s) ->
  NoDup (map fst (g_remove f s)) /\
  (forall k, In k (map fst (g_remove f s)) -> In k (map fst s)) /\
  ngetN nm (g_remove f s) = match ngetN nm s with Some l => ne_opt (filter (fun d => negb (fst d =? f)) l) | None => None end.
Proof.
  induction s as [|[n l] s IH]; intros nm Hnd; cbn [g_remove].
  - split; [constructor|]. split; [auto | reflexivity].
  - cbn [map fst] in Hnd. inversion Hnd as [|? ? Hn Hnd']; subst. destruct (IH nm Hnd') as [H1 [H2 H3]].
    destruct (filter (fun d => negb (fst d =? f)) l) as [|d r] eqn:E; cbn [is_nil].
    + split; [exact H1|]. split; [intros k Hk; right; auto|].
      cbn [aget]. destruct (N.eqb_spec nm n) as [->|Hne]; [|exact H3].
      rewrite E, H3. cbn [ne_opt]. destruct (ngetN n s) as [l2|] eqn:E2; [|reflexivity].
      exfalso. apply Hn. apply (aget_In N.eqb_spec) in E2. change n with (fst (n, l2)). apply in_map. exact E2.
    + split; [cbn [map fst]; constructor; [intro Hin; apply Hn; auto | exact H1]|].
      split; [intros k [Hk|Hk]; [left; exact Hk | right; auto]|].
      cbn [aget]. destruct (N.eqb_spec nm n) as [->|Hne]; [rewrite E; reflexivity | exact H3].
Qed.

Lemma mine_file : forall nm f facts d, In d (mine nm f facts) -> fst d = f.
Proof. intros nm f facts d H. apply in_map_iff in H. destruct H as [x [<- _]]. reflexivity. Qed.

Lemma filter_all : forall A (p : A -> bool) l, (forall x, In x l -> p x = true) -> filter p l = l.
Proof.
  induction l as [|x l IH]; intro H; cbn [filter]; [reflexivity|].
  rewrite (H x (or_introl eq_refl)). f_equal. apply IH. intros y Hy. apply H. right. exact Hy.
Qed.

Lemma decls_remove : forall f a nm,
  decls (al_remove _ f a) nm = filter (fun d => negb (fst d =? f)) (decls a nm).
Proof.
  intros f a nm. unfold decls, al_remove. induction a as [|[g y] a IH]; cbn [filter flat_map fst snd]; [reflexivity|].
  rewrite filter_app, <- IH. destruct (N.eqb_spec g f) as [->|Hne]; cbn [negb flat_map fst snd].
  - rewrite (filter_none _ _ (mine nm f y)); [reflexivity|].
    intros d Hd. rewrite (mine_file _ _ _ _ Hd), N.eqb_refl. reflexivity.
  - f_equal. symmetry. apply filter_all. intros d Hd. rewrite (mine_file _ _ _ _ Hd).
    destruct (N.eqb_spec g f); [contradiction | reflexivity].
Qed.

Lemma decls_single : forall f x nm, decls [(f, x)] nm = mine nm f x.
Proof. intros. unfold decls. cbn [flat_map fst snd]. apply app_nil_r. Qed.

Lemma glob_r_add : forall s a f x, glob_R s a -> ~ In f (keys _ a) -> NoDup (keys _ a) -> glob_R (g_add f x s) (a ++ [(f, x)]).
Proof.
  intros s a f x [Hnd HR] _ _. split; [apply (g_add_spec f x s 0 Hnd)|].
  intro nm. destruct (g_add_spec f x s nm Hnd) as [_ H]. rewrite H, HR, decls_app, decls_single. apply ne_opt_app.
Qed.

Lemma glob_r_remove : forall s a f, glob_R s a -> NoDup (keys _ a) -> glob_R (g_remove f s) (al_remove _ f a).
Proof.
  intros s a f [Hnd HR] _. split; [apply (g_remove_spec f s 0 Hnd)|].
  intro nm. destruct (g_remove_spec f s nm Hnd) as [_ [_ H]]. rewrite H, HR, decls_remove.
  destruct (decls a nm); reflexivity.
Qed.

Lemma glob_r_clear : forall s a, glob_R s a -> glob_R (g_clear s) [].
Proof. intros s a _. split; [constructor | intro nm; reflexivity]. Qed.

Lemma glob_r_obs : forall s a q, glob_R s a -> g_get s q = glob_aobs a q.
Proof. intros s a q [_ HR]. apply HR. Qed.

Lemma in_decls_name : forall a nm, decls a nm <> [] <-> In nm (names a).
Proof.
  intros a nm. unfold decls, names. induction a as [|[g y] a IH]; cbn [flat_map fst snd].
  - split; [congruence | intros []].
  - rewrite in_app_iff, <- IH. split.
    + intro H. destruct (mine nm g y) as [|d r] eqn:E.
      * right. exact H.
      * left. assert (Hd : In d (mine nm g y)) by (rewrite E; left; reflexivity).
        apply in_map_iff in Hd. destruct Hd as [x [_ Hx]]. apply filter_In in Hx. destruct Hx as [Hx Hq].
        apply N.eqb_eq in Hq. rewrite <- Hq. apply in_map. exact Hx.
    + intros [H|H] Hnil; apply app_eq_nil in Hnil; destruct Hnil as [H1 H2]; [|tauto].
      apply in_map_iff in H. destruct H as [x [Hq Hx]].
      assert (Hin : In (g, snd x) (mine nm g y)).
      { apply in_map_iff. exists x. split; [reflexivity|]. apply filter_In. split; [exact Hx | apply N.eqb_eq; exact Hq]. }
      rewrite H1 in Hin. destruct Hin.
Qed.

Lemma glob_r_size : forall s a, glob_R s a -> [N.of_nat (length s)] = glob_asize a.
Proof.
  intros s a [Hnd HR]. unfold glob_asize. do 2 f_equal.
  rewrite <- (map_length fst s). apply Permutation_length. apply NoDup_Permutation; [exact Hnd | apply NoDup_nodup|].
  intro nm. rewrite nodup_In, <- in_decls_name. split.
  - intro H. apply (In_keys_aget N.eqb_spec) in H. destruct H as [l Hl]. rewrite HR in Hl.
    destruct (decls a nm); [discriminate | discriminate].
  - intro H. pose proof (HR nm) as Hg. destruct (decls a nm) as [|d r] eqn:E; [congruence|].
    cbn [ne_opt] in Hg. apply (aget_In N.eqb_spec) in Hg. change nm with (fst (nm, d :: r)). apply in_map. exact Hg.
Qed.

Lemma decls_files : forall a nm d, In d (decls a nm) -> In (fst d) (keys _ a).
Proof.
  intros a nm d H. unfold decls in H. apply in_flat_map in H. destruct H as [[g y] [Hin Hd]].
  cbn [fst snd] in Hd. rewrite (mine_file _ _ _ _ Hd). unfold keys. change g with (fst (g, y)). apply in_map. exact Hin.
Qed.

Lemma glob_r_mentions : forall s a f, glob_R s a -> ~ In f (keys _ a) -> g_mentions s f = false.
Proof.
  intros s a f [Hnd HR] Hnot. unfold g_mentions. apply existsb_false. intros [nm l] Hin. cbn [snd].
  apply (In_nodup_aget N.eqb_spec) in Hin; [|exact Hnd]. rewrite HR in Hin.
  apply existsb_false. intros d Hd. destruct (N.eqb_spec (fst d) f) as [E|_]; [|reflexivity].
  exfalso. apply Hnot. rewrite <- E. apply (decls_files a nm).
  destruct (decls a nm) as [|d0 r]; [discriminate|]. inversion Hin; subst l. exact Hd.
Qed.

Lemma split_entry_g : forall (a : list (N * gfacts)) f x, NoDup (keys _ a) -> In (f, x) a ->
  exists l1 l2, a = l1 ++ (f, x) :: l2 /\ al_remove _ f a = l1 ++ l2.
Proof.
  intros a f x Hnd Hin. apply in_split in Hin. destruct Hin as [l1 [l2 ->]]. exists l1, l2. split; [reflexivity|].
  unfold keys in Hnd. rewrite map_app in Hnd. cbn [map fst] in Hnd.
  assert (H1 : ~ In f (map fst l1) /\ ~ In f (map fst l2)).
  { apply NoDup_remove_2 in Hnd. split; intro H; apply Hnd; apply in_or_app; auto. }
  rewrite al_remove_app. cbn [al_remove filter fst]. rewrite N.eqb_refl. cbn [negb].
  fold (al_remove gfacts f l1). fold (al_remove gfacts f l2).
  rewrite (al_remove_id _ f l1), (al_remove_id _ f l2); tauto.
Qed.

Lemma glob_r_move_obs : forall a f x q, NoDup (keys _ a) -> In (f, x) a -> glob_excl a f ->
  glob_aobs (al_remove _ f a ++ [(f, x)]) q = glob_aobs a q.
Proof.
  intros a f x q Hnd Hin Hex. destruct (split_entry_g a f x Hnd Hin) as [l1 [l2 [Ha Hr]]].
  unfold glob_aobs. f_equal. rewrite Hr, Ha, !decls_app. change ((f, x) :: l2) with ([(f, x)] ++ l2). rewrite !decls_app, !decls_single.
  destruct (mine q f x) as [|d r] eqn:E; [rewrite app_nil_r; reflexivity|].
  (* f declares q: no entry of l2 does *)
  assert (Hq : In q (map fst x)).
  { assert (Hd : In d (mine q f x)) by (rewrite E; left; reflexivity).
    apply in_map_iff in Hd. destruct Hd as [y [_ Hy]]. apply filter_In in Hy. destruct Hy as [Hy Hqq].
    apply N.eqb_eq in Hqq. rewrite <- Hqq. apply in_map. exact Hy. }
  assert (H2 : decls l2 q = []).
  { destruct (decls l2 q) as [|d2 r2] eqn:E2; [reflexivity|]. exfalso.
    assert (Hn : In q (names l2)) by (apply in_decls_name; congruence).
    unfold names in Hn. apply in_flat_map in Hn. destruct Hn as [[g y] [Hg Hy]]. cbn [snd] in Hy.
    assert (Hga : In (g, y) a) by (rewrite Ha; apply in_or_app; right; right; exact Hg).
    apply (Hex x g y q Hin Hga); [|exact Hq | exact Hy].
    intros ->. unfold keys in Hnd. rewrite Ha, map_app in Hnd. cbn [map fst] in Hnd.
    apply NoDup_remove_2 in Hnd. apply Hnd. apply in_or_app. right. change f with (fst (f, y)). apply in_map. exact Hg. }
  rewrite H2, !app_nil_r. reflexivity.
Qed.

Lemma glob_r_move_size : forall a f x, NoDup (keys _ a) -> In (f, x) a ->
  glob_asize (al_remove _ f a ++ [(f, x)]) = glob_asize a.
Proof.
  intros a f x Hnd Hin. destruct (split_entry_g a f x Hnd Hin) as [l1 [l2 [Ha Hr]]].
  unfold glob_asize. do 2 f_equal. apply nodup_length_ext. intro nm. rewrite Hr, Ha. unfold names.
  rewrite !flat_map_app. cbn [flat_map]. rewrite !in_app_iff. cbn [In]. tauto.
Qed.

Definition glob_refinement : refinement _ _ _ _ glob_store :=
  mkRef _ _ _ _ glob_store glob_R glob_aobs glob_asize glob_excl
        (conj (NoDup_nil N) (fun nm => eq_refl))
        glob_r_add glob_r_remove glob_r_clear glob_r_obs glob_r_size glob_r_mentions glob_r_move_obs glob_r_move_size.
