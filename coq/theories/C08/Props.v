(** C08/Props.v — property theorems only (re-submitting or undoing an edit leaves the analysis state unchanged),
    for the module index as a per-file fact store, over EVERY history of the driver.
    [state c ops] below is the real index model after the driver history [ops] ([HUpdate f x] = update_file_by_uri,
    [HRemove f] = remove_file_by_uri, [HReindex] = reindex); [indexed] is the list of (file, facts) currently indexed. *)
From EV Require Import Base.StoreSM C33.Model C33.Spec C33.Proofs C08.Module C08.PropertyModel C08.SimpleModels C08.Global C08.Diag C08.Product C08.MemberModel C08.Proofs.
Local Open Scope N_scope.

(** Re-submitting a file with unchanged facts changes no answer of the module index, provided no other file is
    registered under the same module path (the excluded class: an entity with contributions from another file). *)
Theorem resubmit_obs : forall (c : cfg) (ops : list (hop mfacts)) (f : N) (x : mfacts) (q : str),
  In (f, x) (indexed mfacts ops) -> mod_excl (indexed mfacts ops) f ->
  mod_obs c (state _ _ _ _ (mod_store c) (ops ++ [HUpdate _ f x])) q = mod_obs c (state _ _ _ _ (mod_store c) ops) q.
Proof. exact Proofs.resubmit_obs. Qed.

(** ... and never changes the number of tree nodes, file records or fuzzy-name entries (no growth, no loss). *)
Theorem resubmit_size : forall (c : cfg) (ops : list (hop mfacts)) (f : N) (x : mfacts),
  In (f, x) (indexed mfacts ops) ->
  mod_size (state _ _ _ _ (mod_store c) (ops ++ [HUpdate _ f x])) = mod_size (state _ _ _ _ (mod_store c) ops).
Proof. exact Proofs.resubmit_size. Qed.

(** Editing a file and restoring its previous content is as good as never touching it. *)
Theorem edit_restore : forall (c : cfg) (ops : list (hop mfacts)) (f : N) (x y : mfacts) (q : str),
  In (f, x) (indexed mfacts ops) -> mod_excl (indexed mfacts ops) f ->
  mod_obs c (state _ _ _ _ (mod_store c) (ops ++ [HUpdate _ f y; HUpdate _ f x])) q
  = mod_obs c (state _ _ _ _ (mod_store c) ops) q
  /\ mod_size (state _ _ _ _ (mod_store c) (ops ++ [HUpdate _ f y; HUpdate _ f x]))
     = mod_size (state _ _ _ _ (mod_store c) ops).
Proof. exact Proofs.edit_restore. Qed.

(** The excluded class is real: with two files under one module path, re-submitting the first one changes the answer
    (the first registered file wins; re-submission registers it again, last). *)
Theorem resubmit_obs_shared_refuted : exists (c : cfg) (ops : list (hop mfacts)) (f : N) (x : mfacts) (q : str),
  In (f, x) (indexed mfacts ops) /\
  mod_obs c (state _ _ _ _ (mod_store c) (ops ++ [HUpdate _ f x])) q <> mod_obs c (state _ _ _ _ (mod_store c) ops) q.
Proof. exact Proofs.resubmit_obs_shared_refuted. Qed.

(** LuaPropertyIndex: [remove(file)] deletes the WHOLE property of every owner the file touched, so re-submitting a
    file erases what another file contributed to a shared owner (the known open finding) ... *)
Theorem property_resubmit_refuted : exists (s : pidx) (f : N) (facts : list pfact) (owner : N),
  s = p_add f facts (p_add 1 [(0, 0, 1)] p_init) /\
  p_get (p_add f facts (p_remove f s)) owner <> p_get s owner.
Proof. exact Proofs.property_resubmit_refuted. Qed.

(** ... while every owner the file does not touch keeps its property, in every reachable state. *)
Theorem property_resubmit_outside_known : forall (ops : list pop) (f : N) (facts : list pfact) (owner : N),
  let s := fold_left pstep ops p_init in
  ~ In owner (map (fun x => fst (fst x)) facts) ->
  (forall l, ngetN f (px_infile s) = Some l -> ~ In owner l) ->
  p_get (p_add f facts (p_remove f s)) owner = p_get s owner.
Proof. exact Proofs.property_resubmit_outside_known. Qed.

(** LuaGlobalIndex (full refinement): re-submitting a file changes no [get_global_decl_ids] answer when no other file
    declares one of its globals ... *)
Theorem global_resubmit_obs : forall ops f x q, In (f, x) (indexed gfacts ops) -> glob_excl (indexed gfacts ops) f ->
  g_get (state _ _ _ _ glob_store (ops ++ [HUpdate _ f x])) q = g_get (state _ _ _ _ glob_store ops) q.
Proof. exact Product.glob_resubmit_obs. Qed.

(** ... and does change it otherwise (the declarations of one global are kept in submission order: open finding). *)
Theorem global_resubmit_shared_refuted : exists ops f x q, In (f, x) (indexed gfacts ops) /\
  g_get (state _ _ _ _ glob_store (ops ++ [HUpdate _ f x])) q <> g_get (state _ _ _ _ glob_store ops) q.
Proof. exact Product.glob_resubmit_shared_refuted. Qed.

(** The product store (LuaModuleIndex x LuaGlobalIndex x DiagnosticIndex, i.e. the modelled part of DbIndex under
    update_file_by_uri / remove_file_by_uri / reindex): a re-submission never changes any container count, and changes no
    answer when the file shares no module path and no global with another file. *)
Theorem product_resubmit_size : forall c ops f x, In (f, x) (indexed dbfacts ops) ->
  db_size c (db_state c (ops ++ [HUpdate _ f x])) = db_size c (db_state c ops).
Proof. exact Product.db_resubmit_size. Qed.
Theorem product_resubmit_obs : forall c ops f x q, In (f, x) (indexed dbfacts ops) -> db_excl c (indexed dbfacts ops) f ->
  db_obs c (db_state c (ops ++ [HUpdate _ f x])) q = db_obs c (db_state c ops) q.
Proof. exact Product.db_resubmit_obs. Qed.

(** LuaMemberIndex (transcribed, One / Many items): [remove(file)] keeps, in every item, exactly the declarations of the
    OTHER files, and drops the key only when every declaration belonged to the removed file. *)
Theorem member_prune_item_exact : forall f it,
  match prune_item f it with
  | Some it' => forall m, In m (item_ids it') <-> In m (item_ids it) /\ fst m <> f
  | None => forall m, In m (item_ids it) -> fst m = f
  end.
Proof. exact Proofs.member_prune_item_exact. Qed.

Example product_example :
  let c := ex_cfg in
  let ops := [HUpdate dbfacts 1 (([97; 46; 98], 1, false), ([(7, 3)], [(0, 2)]));
              HUpdate _ 2 (([120; 46; 98], 1, false), ([(8, 1)], [(1, 2)]));
              HUpdate _ 1 (([97; 46; 98], 1, false), ([(7, 3)], [(0, 2)])); HRemove _ 2; HReindex _] in
  db_obs c (db_state c ops) (inl [98]) = inl (Some (1, [97; 46; 98], 1, false)) /\
  db_obs c (db_state c ops) (inr (inl 7)) = inr (inl (Some [(1, 3)])) /\
  db_obs c (db_state c ops) (inr (inr (1, 2))) = inr (inr (true, false)) /\
  db_size c (db_state c ops) = [3; 1; 1; 1; 1; 0].
Proof. exact Product.db_example. Qed.

Example resubmit_example :
  let c := ex_cfg in
  let ops := [HUpdate mfacts 1 ([97; 46; 98], 1, false); HUpdate _ 2 ([120; 46; 98], 1, false); HUpdate _ 1 ([97; 46; 98], 1, false)] in
  mod_excl (indexed mfacts ops) 1 /\
  mod_obs c (state _ _ _ _ (mod_store c) ops) [98] = Some (1, [97; 46; 98], 1, false) /\
  mod_size (state _ _ _ _ (mod_store c) ops) = [5; 2; 1].
Proof. exact Proofs.resubmit_example. Qed.
