(** C08/Props.v — property theorems only (re-submitting or undoing an edit leaves the analysis state unchanged),
    for the module index as a per-file fact store, over EVERY history of the driver.
    [state c ops] below is the real index model after the driver history [ops] ([HUpdate f x] = update_file_by_uri,
    [HRemove f] = remove_file_by_uri, [HReindex] = reindex); [indexed] is the list of (file, facts) currently indexed. *)
From EV Require Import Base.StoreSM C33.Model C33.Spec C33.Proofs C08.Module C08.PropertyModel C08.Proofs.
Local Open Scope N_scope.

(** Re-submitting a file with unchanged facts changes no answer of the module index, provided no other file is
    registered under the same module path (the excluded class: an entity with contributions from another file). *)
Theorem resubmit_obs : forall (c : cfg) (ops : list (hop mfacts)) (f : N) (x : mfacts) (q : str),
  In (f, x) (indexed mfacts ops) -> mod_excl (indexed mfacts ops) f ->
  mod_obs c (state _ _ _ _ (mod_store c) (ops ++ [HUpdate _ f x])) q = mod_obs c (state _ _ _ _ (mod_store c) ops) q.
Proof. exact Proofs.resubmit_obs. Qed.

(** ... and never changes the number of tree nodes, file records or fuzzy-name entries (no growth, no loss). *)
Theorem resubmit_size : forall (c : cfg) (ops : list (hop mfacts)) (f : N) (x : mfacts),
  In (f, x) (indexed mfacts ops) ->
  mod_size (state _ _ _ _ (mod_store c) (ops ++ [HUpdate _ f x])) = mod_size (state _ _ _ _ (mod_store c) ops).
Proof. exact Proofs.resubmit_size. Qed.

(** Editing a file and restoring its previous content is as good as never touching it. *)
Theorem edit_restore : forall (c : cfg) (ops : list (hop mfacts)) (f : N) (x y : mfacts) (q : str),
  In (f, x) (indexed mfacts ops) -> mod_excl (indexed mfacts ops) f ->
  mod_obs c (state _ _ _ _ (mod_store c) (ops ++ [HUpdate _ f y; HUpdate _ f x])) q
  = mod_obs c (state _ _ _ _ (mod_store c) ops) q
  /\ mod_size (state _ _ _ _ (mod_store c) (ops ++ [HUpdate _ f y; HUpdate _ f x]))
     = mod_size (state _ _ _ _ (mod_store c) ops).
Proof. exact Proofs.edit_restore. Qed.

(** The excluded class is real: with two files under one module path, re-submitting the first one changes the answer
    (the first registered file wins; re-submission registers it again, last). *)
Theorem resubmit_obs_shared_refuted : exists (c : cfg) (ops : list (hop mfacts)) (f : N) (x : mfacts) (q : str),
  In (f, x) (indexed mfacts ops) /\
  mod_obs c (state _ _ _ _ (mod_store c) (ops ++ [HUpdate _ f x])) q <> mod_obs c (state _ _ _ _ (mod_store c) ops) q.
Proof. exact Proofs.resubmit_obs_shared_refuted. Qed.

(** LuaPropertyIndex: [remove(file)] deletes the WHOLE property of every owner the file touched, so re-submitting a
    file erases what another file contributed to a shared owner (the known open finding) ... *)
Theorem property_resubmit_refuted : exists (s : pidx) (f : N) (facts : list pfact) (owner : N),
  s = p_add f facts (p_add 1 [(0, 0, 1)] p_init) /\
  p_get (p_add f facts (p_remove f s)) owner <> p_get s owner.
Proof. exact Proofs.property_resubmit_refuted. Qed.

(** ... while every owner the file does not touch keeps its property, in every reachable state. *)
Theorem property_resubmit_outside_known : forall (ops : list pop) (f : N) (facts : list pfact) (owner : N),
  let s := fold_left pstep ops p_init in
  ~ In owner (map (fun x => fst (fst x)) facts) ->
  (forall l, ngetN f (px_infile s) = Some l -> ~ In owner l) ->
  p_get (p_add f facts (p_remove f s)) owner = p_get s owner.
Proof. exact Proofs.property_resubmit_outside_known. Qed.

Example resubmit_example :
  let c := ex_cfg in
  let ops := [HUpdate mfacts 1 ([97; 46; 98], 1, false); HUpdate _ 2 ([120; 46; 98], 1, false); HUpdate _ 1 ([97; 46; 98], 1, false)] in
  mod_excl (indexed mfacts ops) 1 /\
  mod_obs c (state _ _ _ _ (mod_store c) ops) [98] = Some (1, [97; 46; 98], 1, false) /\
  mod_size (state _ _ _ _ (mod_store c) ops) = [5; 2; 1].
Proof. exact Proofs.resubmit_example. Qed.
