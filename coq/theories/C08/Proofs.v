(** C08/Proofs.v — lemmas behind C08/Props.v. *)
From EV Require Import Base.StoreSM C33.Model C33.Spec C33.Lemmas C33.Proofs C08.Module C08.PropertyModel C08.MemberModel.
Local Open Scope N_scope.

(** ---- the module index, through the generic store theorems ---- *)
Lemma resubmit_obs : forall (c : cfg) (ops : list (hop mfacts)) (f : N) (x : mfacts) (q : str),
  In (f, x) (indexed mfacts ops) -> mod_excl (indexed mfacts ops) f ->
  mod_obs c (state _ _ _ _ (mod_store c) (ops ++ [HUpdate _ f x])) q = mod_obs c (state _ _ _ _ (mod_store c) ops) q.
Proof. intros c ops f x q. exact (StoreSM.resubmit_obs _ _ _ _ (mod_store c) (mod_refinement c) ops f x q). Qed.

Lemma resubmit_size : forall (c : cfg) (ops : list (hop mfacts)) (f : N) (x : mfacts),
  In (f, x) (indexed mfacts ops) ->
  mod_size (state _ _ _ _ (mod_store c) (ops ++ [HUpdate _ f x])) = mod_size (state _ _ _ _ (mod_store c) ops).
Proof. intros c ops f x. exact (StoreSM.resubmit_size _ _ _ _ (mod_store c) (mod_refinement c) ops f x). Qed.

Lemma edit_restore : forall (c : cfg) (ops : list (hop mfacts)) (f : N) (x y : mfacts) (q : str),
  In (f, x) (indexed mfacts ops) -> mod_excl (indexed mfacts ops) f ->
  mod_obs c (state _ _ _ _ (mod_store c) (ops ++ [HUpdate _ f y; HUpdate _ f x])) q
  = mod_obs c (state _ _ _ _ (mod_store c) ops) q
  /\ mod_size (state _ _ _ _ (mod_store c) (ops ++ [HUpdate _ f y; HUpdate _ f x]))
     = mod_size (state _ _ _ _ (mod_store c) ops).
Proof.
  intros c ops f x y q Hin Hex. split.
  - exact (StoreSM.edit_restore_obs _ _ _ _ (mod_store c) (mod_refinement c) ops f x y q Hin Hex).
  - exact (StoreSM.edit_restore_size _ _ _ _ (mod_store c) (mod_refinement c) ops f x y Hin).
Qed.

Lemma resubmit_obs_shared_refuted : exists (c : cfg) (ops : list (hop mfacts)) (f : N) (x : mfacts) (q : str),
  In (f, x) (indexed mfacts ops) /\
  mod_obs c (state _ _ _ _ (mod_store c) (ops ++ [HUpdate _ f x])) q <> mod_obs c (state _ _ _ _ (mod_store c) ops) q.
Proof.
  exists ex_cfg, [HUpdate mfacts 1 ([97], 1, false); HUpdate _ 2 ([97], 1, false)], 1, ([97], 1, false), [97].
  split; [vm_compute; left; reflexivity|]. vm_compute. discriminate.
Qed.

Lemma resubmit_example :
  let c := ex_cfg in
  let ops := [HUpdate mfacts 1 ([97; 46; 98], 1, false); HUpdate _ 2 ([120; 46; 98], 1, false); HUpdate _ 1 ([97; 46; 98], 1, false)] in
  mod_excl (indexed mfacts ops) 1 /\
  mod_obs c (state _ _ _ _ (mod_store c) ops) [98] = Some (1, [97; 46; 98], 1, false) /\
  mod_size (state _ _ _ _ (mod_store c) ops) = [5; 2; 1].
Proof.
  cbv zeta. split; [|split; vm_compute; reflexivity].
  intros x g y Hf Hg Hne. vm_compute in Hf, Hg.
  destruct Hf as [Hf|[Hf|[]]]; [inversion Hf; congruence|]. inversion Hf; subst x.
  destruct Hg as [Hg|[Hg|[]]]; inversion Hg; subst; [|congruence].
  vm_compute. discriminate.
Qed.

(** ---- the property index ---- *)
Lemma property_resubmit_refuted : exists (s : pidx) (f : N) (facts : list pfact) (owner : N),
  s = p_add f facts (p_add 1 [(0, 0, 1)] p_init) /\
  p_get (p_add f facts (p_remove f s)) owner <> p_get s owner.
Proof.
  exists (p_add 2 [(0, 2, 0)] (p_add 1 [(0, 0, 1)] p_init)), 2, [(0, 2, 0)], 0.
  split; [reflexivity|]. vm_compute. discriminate.
Qed.

(** owner -> property id is injective and below the counter *)
Definition OW (omap : list (N * N)) (cnt : N) : Prop :=
  (forall o pid, ngetN o omap = Some pid -> pid < cnt) /\
  (forall o o' pid, ngetN o omap = Some pid -> ngetN o' omap = Some pid -> o = o').

Definition pget2 (props : list (N * prop)) (omap : list (N * N)) (o : N) : option prop :=
  match ngetN o omap with Some pid => ngetN pid props | None => None end.

Notation nget_set := (aget_aset N.eqb_spec).
Notation nget_del := (aget_adel N.eqb_spec).

Lemma apply_fact_frame : forall f s x o, OW (px_owners s) (px_count s) -> fst (fst x) <> o ->
  p_get (apply_fact f s x) o = p_get s o /\ OW (px_owners (apply_fact f s x)) (px_count (apply_fact f s x)).
Proof.
  intros f s [[o' k] v] o [W1 W2] Hne. cbn [fst] in Hne. unfold apply_fact, get_or_create.
  destruct (ngetN o' (px_owners s)) as [pid'|] eqn:Eo.
  - destruct (ngetN pid' (px_props s)) as [p'|] eqn:Ep; [|split; [reflexivity | split; assumption]].
    rewrite Ep. cbn [px_props px_owners px_count]. split; [|split; assumption].
    unfold p_get. cbn [px_owners px_props].
    destruct (ngetN o (px_owners s)) as [pid|] eqn:E; [|reflexivity].
    rewrite nget_set. destruct (N.eqb_spec pid pid') as [->|_]; [|reflexivity].
    exfalso. apply Hne. eapply W2; eauto.
  - cbn [px_props px_owners px_count px_infile]. rewrite nget_set, N.eqb_refl. split.
    + unfold p_get. cbn [px_owners px_props]. rewrite nget_set.
      destruct (N.eqb_spec o o') as [E|_]; [congruence|].
      destruct (ngetN o (px_owners s)) as [pid|] eqn:E; [|reflexivity].
      rewrite !nget_set. pose proof (W1 o pid E) as Hlt.
      destruct (N.eqb_spec pid (px_count s)) as [E2|_]; [lia | reflexivity].
    + split.
      * intros a pid Ha. rewrite nget_set in Ha. destruct (N.eqb_spec a o').
        -- inversion Ha. lia.
        -- pose proof (W1 a pid Ha). lia.
      * intros a b pid Ha Hb. rewrite nget_set in Ha, Hb.
        destruct (N.eqb_spec a o'), (N.eqb_spec b o'); try congruence.
        -- inversion Ha; subst pid. pose proof (W1 b _ Hb). lia.
        -- inversion Hb; subst pid. pose proof (W1 a _ Ha). lia.
        -- eapply W2; eauto.
Qed.

Lemma apply_fact_ow : forall f s x, OW (px_owners s) (px_count s) ->
  OW (px_owners (apply_fact f s x)) (px_count (apply_fact f s x)).
Proof.
  intros f s [[o' k] v] [W1 W2]. unfold apply_fact, get_or_create.
  destruct (ngetN o' (px_owners s)) as [pid'|] eqn:Eo.
  - destruct (ngetN pid' (px_props s)) as [p'|] eqn:Ep; [rewrite Ep|]; split; assumption.
  - cbn [px_props px_owners px_count px_infile]. split.
    + intros a pid Ha. rewrite nget_set in Ha. destruct (N.eqb_spec a o').
      * inversion Ha. lia.
      * pose proof (W1 a pid Ha). lia.
    + intros a b pid Ha Hb. rewrite nget_set in Ha, Hb.
      destruct (N.eqb_spec a o'), (N.eqb_spec b o'); try congruence.
      * inversion Ha; subst pid. pose proof (W1 b _ Hb). lia.
      * inversion Hb; subst pid. pose proof (W1 a _ Ha). lia.
      * eapply W2; eauto.
Qed.

Lemma p_add_frame : forall facts f s o, OW (px_owners s) (px_count s) ->
  ~ In o (map (fun x => fst (fst x)) facts) ->
  p_get (p_add f facts s) o = p_get s o.
Proof.
  unfold p_add. induction facts as [|x facts IH]; intros f s o HW Hnot; cbn [fold_left]; [reflexivity|].
  cbn [map In] in Hnot.
  destruct (apply_fact_frame f s x o HW) as [H1 H2]; [intro E; apply Hnot; left; exact E|].
  rewrite IH; [exact H1 | exact H2 | intro Hin; apply Hnot; right; exact Hin].
Qed.

Lemma p_add_ow : forall facts f s, OW (px_owners s) (px_count s) ->
  OW (px_owners (p_add f facts s)) (px_count (p_add f facts s)).
Proof.
  unfold p_add. induction facts as [|x facts IH]; intros f s HW; cbn [fold_left]; [exact HW|].
  apply IH. apply apply_fact_ow. exact HW.
Qed.

Definition rm_step (acc : list (N * prop) * list (N * N)) (o : N) : list (N * prop) * list (N * N) :=
  let '(props, omap) := acc in
  match ngetN o omap with
  | Some pid => (ndelN pid props, ndelN o omap)
  | None => (props, omap)
  end.

Lemma rm_fold_frame : forall l props omap cnt o, OW omap cnt -> ~ In o l ->
  let r := fold_left rm_step l (props, omap) in
  pget2 (fst r) (snd r) o = pget2 props omap o /\ OW (snd r) cnt.
Proof.
  induction l as [|o' l IH]; intros props omap cnt o HW Hnot; cbn [fold_left]; [split; [reflexivity | exact HW]|].
  cbn [In] in Hnot. destruct HW as [W1 W2].
  assert (Hne : o' <> o) by (intro E; apply Hnot; left; exact E).
  assert (Hnl : ~ In o l) by (intro E; apply Hnot; right; exact E).
  destruct (ngetN o' omap) as [pid'|] eqn:Eo.
  - assert (Hstep : rm_step (props, omap) o' = (ndelN pid' props, ndelN o' omap)) by (unfold rm_step; rewrite Eo; reflexivity).
    rewrite Hstep.
    assert (HW' : OW (ndelN o' omap) cnt).
    { split.
      - intros a pid Ha. rewrite nget_del in Ha. destruct (N.eqb_spec a o'); [discriminate|]. eapply W1; eauto.
      - intros a b pid Ha Hb. rewrite nget_del in Ha, Hb.
        destruct (N.eqb_spec a o'), (N.eqb_spec b o'); try discriminate. eapply W2; eauto. }
    destruct (IH (ndelN pid' props) (ndelN o' omap) cnt o HW' Hnl) as [H1 H2]. split; [|exact H2].
    cbv zeta in H1. rewrite H1. unfold pget2. rewrite nget_del.
    destruct (N.eqb_spec o o') as [E|_]; [congruence|].
    destruct (ngetN o omap) as [pid|] eqn:E; [|reflexivity].
    rewrite nget_del. destruct (N.eqb_spec pid pid') as [->|_]; [|reflexivity].
    exfalso. apply Hne. eapply W2; eauto.
  - assert (Hstep : rm_step (props, omap) o' = (props, omap)) by (unfold rm_step; rewrite Eo; reflexivity).
    rewrite Hstep. apply IH; [split; assumption | exact Hnl].
Qed.

Lemma p_remove_frame : forall f s o, OW (px_owners s) (px_count s) ->
  (forall l, ngetN f (px_infile s) = Some l -> ~ In o l) ->
  p_get (p_remove f s) o = p_get s o /\ OW (px_owners (p_remove f s)) (px_count (p_remove f s)).
Proof.
  intros f s o HW Hl. unfold p_remove. destruct (ngetN f (px_infile s)) as [l|] eqn:E; [|split; [reflexivity | exact HW]].
  pose proof (rm_fold_frame l (px_props s) (px_owners s) (px_count s) o HW (Hl l eq_refl)) as H.
  cbv zeta in H. fold rm_step.
  change (fun (acc : list (N * prop) * list (N * N)) (o0 : N) =>
            let '(props, omap) := acc in
            match ngetN o0 omap with
            | Some pid => (ndelN pid props, ndelN o0 omap)
            | None => (props, omap)
            end) with rm_step.
  destruct (fold_left rm_step l (px_props s, px_owners s)) as [props omap]. cbn [fst snd] in H.
  cbn [px_owners px_count px_props]. exact H.
Qed.

Lemma p_remove_ow : forall f s, OW (px_owners s) (px_count s) ->
  OW (px_owners (p_remove f s)) (px_count (p_remove f s)).
Proof.
  intros f s HW. unfold p_remove. destruct (ngetN f (px_infile s)) as [l|] eqn:E; [|exact HW].
  assert (H : forall l props omap, OW omap (px_count s) -> OW (snd (fold_left rm_step l (props, omap))) (px_count s)).
  { induction l0 as [|o' l0 IH]; intros props omap [W1 W2]; cbn [fold_left]; [split; assumption|].
    destruct (ngetN o' omap) as [pid'|] eqn:Eo.
    - assert (Hstep : rm_step (props, omap) o' = (ndelN pid' props, ndelN o' omap)) by (unfold rm_step; rewrite Eo; reflexivity).
      rewrite Hstep. apply IH. split.
      + intros a pid Ha. rewrite nget_del in Ha. destruct (N.eqb_spec a o'); [discriminate|]. eapply W1; eauto.
      + intros a b pid Ha Hb. rewrite nget_del in Ha, Hb.
        destruct (N.eqb_spec a o'), (N.eqb_spec b o'); try discriminate. eapply W2; eauto.
    - assert (Hstep : rm_step (props, omap) o' = (props, omap)) by (unfold rm_step; rewrite Eo; reflexivity).
      rewrite Hstep. apply IH. split; assumption. }
  specialize (H l (px_props s) (px_owners s) HW).
  change (fun (acc : list (N * prop) * list (N * N)) (o0 : N) =>
            let '(props, omap) := acc in
            match ngetN o0 omap with
            | Some pid => (ndelN pid props, ndelN o0 omap)
            | None => (props, omap)
            end) with rm_step.
  destruct (fold_left rm_step l (px_props s, px_owners s)) as [props omap]. exact H.
Qed.

Lemma reach_ow : forall ops s, OW (px_owners s) (px_count s) ->
  OW (px_owners (fold_left pstep ops s)) (px_count (fold_left pstep ops s)).
Proof.
  induction ops as [|o ops IH]; intros s HW; cbn [fold_left]; [exact HW|].
  apply IH. destruct o as [f facts|f|]; cbn [pstep].
  - apply p_add_ow. exact HW.
  - apply p_remove_ow. exact HW.
  - cbn. split; intros; discriminate.
Qed.

Lemma property_resubmit_outside_known : forall (ops : list pop) (f : N) (facts : list pfact) (owner : N),
  let s := fold_left pstep ops p_init in
  ~ In owner (map (fun x => fst (fst x)) facts) ->
  (forall l, ngetN f (px_infile s) = Some l -> ~ In owner l) ->
  p_get (p_add f facts (p_remove f s)) owner = p_get s owner.
Proof.
  intros ops f facts owner s Hnot Hl.
  assert (HW : OW (px_owners s) (px_count s)).
  { apply reach_ow. cbn. split; intros; discriminate. }
  destruct (p_remove_frame f s owner HW Hl) as [H1 H2].
  rewrite p_add_frame; [exact H1 | exact H2 | exact Hnot].
Qed.

(** ---- LuaMemberIndex: what [remove(file)] does to one One/Many item ---- *)
Lemma member_prune_item_exact : forall f it,
  match prune_item f it with
  | Some it' => forall m, In m (item_ids it') <-> In m (item_ids it) /\ fst m <> f
  | None => forall m, In m (item_ids it) -> fst m = f
  end.
Proof.
  intros f [m0|ids]; cbn [prune_item item_ids].
  - destruct (N.eqb_spec (fst m0) f) as [E|Hne].
    + intros m [<-|[]]. exact E.
    + intro m. cbn [item_ids In]. split; [intros [<-|[]]; auto | intros [[<-|[]] _]; auto].
  - destruct (filter (fun m => negb (fst m =? f)) ids) as [|x r] eqn:E; cbn [is_nil item_ids].
    + intros m Hm. destruct (N.eqb_spec (fst m) f) as [|Hne]; [assumption|]. exfalso.
      assert (Hin : In m (filter (fun m => negb (fst m =? f)) ids)).
      { apply filter_In. split; [exact Hm|]. destruct (N.eqb_spec (fst m) f); [contradiction | reflexivity]. }
      rewrite E in Hin. destruct Hin.
    + intro m. rewrite <- E, filter_In. split; intros [H1 H2]; split; auto.
      * destruct (N.eqb_spec (fst m) f); [discriminate | assumption].
      * destruct (N.eqb_spec (fst m) f); [contradiction | reflexivity].
Qed.

Lemma member_clear_is_init : forall s, mb_clear s = mb_init.
Proof. reflexivity. Qed.
