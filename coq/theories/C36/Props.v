(** C36/Props.v — property theorems only.  Each is closed by [exact] of a lemma of Proofs.v.
    [files] are the main-workspace files, [D f] is [diagnose_file] of file [f], [msgs] is ANY
    order of arrival of the messages of the spawned tasks (each task sends exactly once). *)
From Coq Require Import Permutation.
From EV Require Import C36.Model C36.Proofs Gen.C36_send.
Local Open Scope N_scope.

(** Non-zero exit exactly when a diagnostic that passes the severity filter is an error, or a
    warning under --warnings-as-errors. *)
Theorem exit_iff_error : forall o files D msgs,
  Permutation msgs (sent files D) ->
  (exit_code (run o (N.of_nat (length files)) msgs) <> 0 <->
   exists f ds d, In f files /\ D f = Some ds /\ In d ds /\ passes o d = true /\ is_error o d = true).
Proof. exact Proofs.exit_iff_error. Qed.

(** Each report contains exactly the filtered diagnostics, each once, under its own file, for
    any arrival order: the JSON report has one block per file with diagnostics enabled (its
    filtered diagnostics, in order), the text report the non-empty ones of these blocks, the
    SARIF report one result per (file, filtered diagnostic); in every format the multiset of
    (file, diagnostic) pairs of the report is the expected one. *)
Theorem report_exact : forall o files D msgs,
  Permutation msgs (sent files D) ->
  match o_format o, st_writer (run o (N.of_nat (length files)) msgs) with
  | Json, WJson b => Permutation b (expected_blocks o files D)
  | Text, WText b => Permutation b (filter nonempty_block (expected_blocks o files D))
  | Sarif, WSarif r => Permutation r (expected_pairs o files D)
  | _, _ => False
  end
  /\ Permutation (report_pairs (st_writer (run o (N.of_nat (length files)) msgs))) (expected_pairs o files D).
Proof. exact Proofs.report_exact. Qed.

(** Every task sends exactly once => the count reaches the total exactly at the last message:
    the loop processes every message once and none is left. *)
Theorem loop_terminates : forall o files D msgs,
  Permutation msgs (sent files D) ->
  st_count (run o (N.of_nat (length files)) msgs) = N.of_nat (length files)
  /\ run o (N.of_nat (length files)) msgs = fold_left (step o) msgs (init o).
Proof. exact Proofs.loop_terminates. Qed.

(** Fewer messages than tasks (a task died, its sender is dropped): the loop ends when the
    channel is drained, having processed every message once. *)
Theorem loop_ends_on_closed_channel : forall o total msgs st,
  st_count st + N.of_nat (length msgs) < total ->
  loop o total st msgs = fold_left (step o) msgs st.
Proof. exact Proofs.loop_ends_on_closed_channel. Qed.

(** The counters of the text summary are the numbers of filtered diagnostics per severity. *)
Theorem counts_exact : forall o files D msgs,
  Permutation msgs (sent files D) ->
  let s := st_sum (run o (N.of_nat (length files)) msgs) in
  s_err s = expected_count 1 o files D /\ s_warn s = expected_count 2 o files D
  /\ s_info s = expected_count 3 o files D /\ s_hint s = expected_count 4 o files D.
Proof. exact Proofs.counts_exact. Qed.

(** "Every task sends exactly once" is not assumed: with workers that await their send on the
    bounded channel (what lib.rs does — regenerated into [Gen.C36_send] on every run), every
    interleaving of workers and report loop that ends with nothing buffered or waiting delivers
    each file's message exactly once ... *)
Theorem every_task_delivers : forall D files sched,
  Permutation (produced sched) files ->
  drained (chan_run Gen.C36_send.worker_send_awaited capacity D sched) ->
  Permutation (arrivals D sched) (sent files D).
Proof. exact Proofs.every_task_delivers. Qed.

(** ... and only then: with [try_send] / a send that is not awaited a full channel loses results. *)
Theorem delivery_complete_iff_awaited : forall awaited,
  (forall cap D files sched, Permutation (produced sched) files -> drained (chan_run awaited cap D sched) ->
     Permutation (ch_delivered (chan_run awaited cap D sched)) (sent files D)) <-> awaited = true.
Proof. exact Proofs.delivery_complete_iff_awaited. Qed.

(** End to end, for every schedule of workers, channel and loop: exit status, report content and
    completion count. *)
Theorem checker_end_to_end : forall o D files sched,
  Permutation (produced sched) files ->
  drained (chan_run Gen.C36_send.worker_send_awaited capacity D sched) ->
  let st := run o (N.of_nat (length files)) (arrivals D sched) in
  (exit_code st <> 0 <->
     exists f ds d, In f files /\ D f = Some ds /\ In d ds /\ passes o d = true /\ is_error o d = true)
  /\ Permutation (report_pairs (st_writer st)) (expected_pairs o files D)
  /\ st_count st = N.of_nat (length files).
Proof. exact Proofs.checker_end_to_end. Qed.

(** non-vacuity: a file with a warning and a hint, a file without diagnostics, a file with
    diagnostics disabled, a file with an error and a severity-less diagnostic; four option sets *)
Example check_example :
  exit_code (run (ex_opts None false Json) 4 (sent [1; 2; 3; 4] ex_D)) = 1
  /\ exit_code (run (ex_opts None false Text) 3 (sent [3; 1; 2] ex_D)) = 0
  /\ exit_code (run (ex_opts None true Sarif) 3 (sent [2; 1; 3] ex_D)) = 1
  /\ exit_code (run (ex_opts (Some 1) true Json) 3 (sent [2; 1; 3] ex_D)) = 0
  /\ st_writer (run (ex_opts (Some 2) false Json) 4 (sent [4; 3; 2; 1] ex_D))
     = WJson [(4, [ {| d_sev := Some 1; d_id := 12 |} ]); (2, []); (1, [ {| d_sev := Some 2; d_id := 10 |} ])]
  /\ st_writer (run (ex_opts (Some 2) false Text) 4 (sent [4; 3; 2; 1] ex_D))
     = WText [(4, [ {| d_sev := Some 1; d_id := 12 |} ]); (1, [ {| d_sev := Some 2; d_id := 10 |} ])].
Proof. exact Proofs.check_example. Qed.
