(** C36/Corr.v — executable comparison of what the real [emmylua_check] binary did (exit status,
    parsed report) with the model fed with the per-file [diagnose_file] results obtained in-process
    (harness vh_cli/c36).  [c_msgs] are these results put in the order in which the files appear
    in the observed report (files that do not appear last): an arrival order that explains the
    report must exist, and it is that one.  Diagnostics are numbered by their rendering in the
    report's format (same rendering = same number).  Inside one file both sides list the
    diagnostics in number order: their order is not part of the property, and [diagnose_file]
    does not return them in the same order in every process. *)
From EV Require Import C36.Model.
Local Open Scope N_scope.

Fixpoint list_eqb {A B} (eqb : A -> B -> bool) (x : list A) (y : list B) : bool :=
  match x, y with
  | [], [] => true
  | a :: x', b :: y' => eqb a b && list_eqb eqb x' y'
  | _, _ => false
  end.

Record case := {
  c_opts : opts;
  c_total : N;
  c_msgs : list message;
  c_exit : N;                          (* 0, or 1 for any non-zero exit status *)
  c_blocks : list (N * list N);        (* Json / Text: file, ids of its diagnostics in order *)
  c_flat : list (N * N);               (* Sarif: file, id *)
  c_counts : option (N * N * N * N)    (* Text: the summary counters (errors, warnings, info, hints) *)
}.

Definition block_eqb (b : N * list diag) (o : N * list N) : bool :=
  (fst b =? fst o) && list_eqb (fun d i => d_id d =? i) (snd b) (snd o).

Definition check_case (c : case) : bool :=
  let st := run (c_opts c) (c_total c) (c_msgs c) in
  (exit_code st =? c_exit c)
  && (st_count st =? c_total c)
  && match st_writer st with
     | WJson b => list_eqb block_eqb b (c_blocks c)
     | WText b => list_eqb block_eqb b (c_blocks c)
     | WSarif r => list_eqb (fun p q => (fst p =? fst q) && (d_id (snd p) =? snd q)) r (c_flat c)
     end
  && match c_counts c with
     | Some (e, w, i, h) =>
         let s := st_sum st in (s_err s =? e) && (s_warn s =? w) && (s_info s =? i) && (s_hint s =? h)
     | None => true
     end.
