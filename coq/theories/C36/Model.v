(** C36/Model.v — [emmylua_check]: the result loop of
    crates/emmylua_check/src/output/mod.rs ([output_result]), the severity filter of
    cmd_args.rs ([DiagnosticSeverityFilter::allows]) and the three writers
    (json_output_writer.rs, text_output_writer.rs + terminal_display/display.rs,
    sarif_output_writer.rs).  Executable definitions only.

    One spawned task per main-workspace file sends [(file_id, diagnose_file result)] on a
    channel; the order of arrival is an input of the model (the message list) and the theorems
    quantify over it.  A diagnostic is abstract: its severity and an identity [d_id] standing
    for range, code, message and the rest of the payload; the writers render every diagnostic
    they are given (one JSON object / one text entry / one SARIF result each), which is what
    the correspondence check observes. *)
From Coq Require Export List NArith Bool.
Export ListNotations.
Local Open Scope N_scope.

(** lsp_types::DiagnosticSeverity: ERROR = 1, WARNING = 2, INFORMATION = 3, HINT = 4 *)
Record diag := { d_sev : option N; d_id : N }.

(** a channel message: file id, [Option<Vec<Diagnostic>>] ([None]: diagnostics disabled for the
    file or the file is not in the main workspace) *)
Definition message : Type := N * option (list diag).

Inductive format := Json | Text | Sarif.

Record opts := {
  o_filter : option N;   (* --severity: error = 1, warn = 2, info = 3, hint = 4 *)
  o_wae : bool;          (* --warnings-as-errors *)
  o_format : format
}.

(** [DiagnosticSeverityFilter::allows]: [severity <= filter]; no severity: not allowed *)
Definition allows (f : N) (s : option N) : bool :=
  match s with Some s => s <=? f | None => false end.

(** [diagnostics.retain(|d| severity_filter.allows(d.severity))] when a filter is given *)
Definition retain (o : opts) (ds : list diag) : list diag :=
  match o_filter o with
  | Some f => filter (fun d => allows f (d_sev d)) ds
  | None => ds
  end.

(** the writers.  Json: one block per file that has [Some] diagnostics (also when empty);
    Text: one block per file with at least one diagnostic, every diagnostic displayed;
    Sarif: one result per diagnostic, tagged with the file. *)
Inductive writer :=
| WJson (blocks : list (N * list diag))
| WText (blocks : list (N * list diag))
| WSarif (results : list (N * diag)).

Definition new_writer (f : format) : writer :=
  match f with Json => WJson [] | Text => WText [] | Sarif => WSarif [] end.

Definition is_nil {A} (l : list A) : bool := match l with [] => true | _ => false end.

Definition write (w : writer) (file : N) (ds : list diag) : writer :=
  match w with
  | WJson b => WJson (b ++ [(file, ds)])
  | WText b => if is_nil ds then w else WText (b ++ [(file, ds)])
  | WSarif r => if is_nil ds then w else WSarif (r ++ map (pair file) ds)
  end.

(** has_error and the four counters *)
Record summary := { s_has_error : bool; s_err : N; s_warn : N; s_info : N; s_hint : N }.

Definition sev_is (k : N) (d : diag) : bool :=
  match d_sev d with Some s => s =? k | None => false end.

(** the [match diagnostic.severity] of the counting loop *)
Definition count_diag (wae : bool) (s : summary) (d : diag) : summary :=
  if sev_is 1 d then
    {| s_has_error := true; s_err := s_err s + 1; s_warn := s_warn s; s_info := s_info s; s_hint := s_hint s |}
  else if sev_is 2 d then
    {| s_has_error := s_has_error s || wae; s_err := s_err s; s_warn := s_warn s + 1; s_info := s_info s; s_hint := s_hint s |}
  else if sev_is 3 d then
    {| s_has_error := s_has_error s; s_err := s_err s; s_warn := s_warn s; s_info := s_info s + 1; s_hint := s_hint s |}
  else if sev_is 4 d then
    {| s_has_error := s_has_error s; s_err := s_err s; s_warn := s_warn s; s_info := s_info s; s_hint := s_hint s + 1 |}
  else s.

Record state := { st_count : N; st_sum : summary; st_writer : writer }.

Definition init (o : opts) : state :=
  {| st_count := 0;
     st_sum := {| s_has_error := false; s_err := 0; s_warn := 0; s_info := 0; s_hint := 0 |};
     st_writer := new_writer (o_format o) |}.

(** the summary part of one loop iteration *)
Definition sum_step (o : opts) (s : summary) (m : message) : summary :=
  match snd m with
  | Some ds => fold_left (count_diag (o_wae o)) (retain o ds) s
  | None => s
  end.

(** one iteration of [while let Some((file_id, diagnostics)) = receiver.recv().await] (without the exit test) *)
Definition step (o : opts) (st : state) (m : message) : state :=
  {| st_count := st_count st + 1;
     st_sum := sum_step o (st_sum st) m;
     st_writer := match snd m with
                  | Some ds => write (st_writer st) (fst m) (retain o ds)
                  | None => st_writer st
                  end |}.

(** the loop: stops when the channel is closed and drained (no more messages) or, after an
    iteration, when [count == total_count] *)
Fixpoint loop (o : opts) (total : N) (st : state) (msgs : list message) : state :=
  match msgs with
  | [] => st
  | m :: r => let st' := step o st m in
              if st_count st' =? total then st' else loop o total st' r
  end.

Definition run (o : opts) (total : N) (msgs : list message) : state := loop o total (init o) msgs.

(** [if has_error { 1 } else { 0 }]; [run_check] turns non-zero into [Err], the process exits with 1 *)
Definition exit_code (st : state) : N := if s_has_error (st_sum st) then 1 else 0.

(** * specification side *)
(** a diagnostic counts as an error under the options *)
Definition is_error (o : opts) (d : diag) : bool := sev_is 1 d || (o_wae o && sev_is 2 d).

Definition passes (o : opts) (d : diag) : bool :=
  match o_filter o with Some f => allows f (d_sev d) | None => true end.

(** the messages when every task sends exactly once: [D f] is [diagnose_file] of file [f] *)
Definition sent (files : list N) (D : N -> option (list diag)) : list message :=
  map (fun f => (f, D f)) files.

(** what the reports must contain *)
Definition expected_blocks (o : opts) (files : list N) (D : N -> option (list diag)) : list (N * list diag) :=
  flat_map (fun f => match D f with Some ds => [(f, retain o ds)] | None => [] end) files.

Definition nonempty_block (b : N * list diag) : bool := negb (is_nil (snd b)).

Definition expected_pairs (o : opts) (files : list N) (D : N -> option (list diag)) : list (N * diag) :=
  flat_map (fun f => match D f with Some ds => map (pair f) (retain o ds) | None => [] end) files.

(** number of diagnostics of severity [k] that the reports must contain *)
Definition expected_count (k : N) (o : opts) (files : list N) (D : N -> option (list diag)) : N :=
  N.of_nat (length (filter (fun p => sev_is k (snd p)) (expected_pairs o files D))).

(** every (file, diagnostic) pair a report contains *)
Definition report_pairs (w : writer) : list (N * diag) :=
  match w with
  | WJson b | WText b => flat_map (fun b => map (pair (fst b)) (snd b)) b
  | WSarif r => r
  end.

(** * the workers and the bounded channel (crates/emmylua_check/src/lib.rs, [run_check])
    One task per file computes [diagnose_file] and hands [(file, result)] to a
    [tokio::sync::mpsc::channel(capacity)].  HOW it hands it over is read from the source on
    every run ([Gen.C36_send]): an awaited [send] waits for room (back-pressure), a [try_send]
    (or a send future that is not awaited) loses the message when the channel is full.
    A schedule is any interleaving of "worker of file f reaches its send" and "the report loop
    receives one message". *)
From EV Require Import Gen.C36_send.

Inductive event := Produce (f : N) | Consume.

Record chan := {
  ch_queue : list message;       (* buffered, at most [capacity] *)
  ch_blocked : list message;     (* workers waiting in [send().await] for room *)
  ch_delivered : list message    (* what [receiver.recv()] returned so far, in order *)
}.

Definition chan0 : chan := {| ch_queue := []; ch_blocked := []; ch_delivered := [] |}.

(** [None]: unbounded channel *)
Definition has_room (cap : option N) (q : list message) : bool :=
  match cap with None => true | Some c => N.of_nat (length q) <? c end.

Definition chan_step (awaited : bool) (cap : option N) (D : N -> option (list diag)) (c : chan) (e : event) : chan :=
  match e with
  | Produce f =>
      let m := (f, D f) in
      if has_room cap (ch_queue c) then
        {| ch_queue := ch_queue c ++ [m]; ch_blocked := ch_blocked c; ch_delivered := ch_delivered c |}
      else if awaited then
        {| ch_queue := ch_queue c; ch_blocked := ch_blocked c ++ [m]; ch_delivered := ch_delivered c |}
      else c                                      (* try_send on a full channel: the result is discarded *)
  | Consume =>
      match ch_queue c with
      | [] => c                                   (* recv waits *)
      | m :: r =>
          match ch_blocked c with
          | [] => {| ch_queue := r; ch_blocked := []; ch_delivered := ch_delivered c ++ [m] |}
          | p :: ps => {| ch_queue := r ++ [p]; ch_blocked := ps; ch_delivered := ch_delivered c ++ [m] |}
          end
      end
  end.

Definition chan_run (awaited : bool) (cap : option N) (D : N -> option (list diag)) (sched : list event) : chan :=
  fold_left (chan_step awaited cap D) sched chan0.

(** the files whose worker reached its send, in schedule order *)
Definition produced (sched : list event) : list N :=
  flat_map (fun e => match e with Produce f => [f] | Consume => [] end) sched.

(** the loop received until nothing was buffered or waiting (it stops at [count == total] or on
    the closed, empty channel; the channel closes when every worker is done with its send) *)
Definition drained (c : chan) : Prop := ch_queue c = [] /\ ch_blocked c = [].

(** the code as it is today *)
Definition capacity : option N := if channel_capacity =? 0 then None else Some channel_capacity.
Definition arrivals (D : N -> option (list diag)) (sched : list event) : list message :=
  ch_delivered (chan_run worker_send_awaited capacity D sched).
