(** C36/Proofs.v — lemmas about the result loop of emmylua_check: the loop consumes exactly the
    messages of the spawned tasks, the exit code is a disjunction over the filtered diagnostics,
    the writers accumulate exactly the filtered diagnostics, whatever the arrival order. *)
From Coq Require Import Permutation Lia.
From EV Require Import C36.Model Gen.C36_send.
Local Open Scope N_scope.

(** * list facts *)
Lemma perm_filter : forall A (p : A -> bool) l l', Permutation l l' -> Permutation (filter p l) (filter p l').
Proof.
  induction 1; cbn [filter].
  - constructor.
  - destruct (p x); [apply perm_skip|]; assumption.
  - destruct (p x), (p y); try apply Permutation_refl. apply perm_swap.
  - eapply perm_trans; eassumption.
Qed.

Lemma flat_map_map : forall A B C (h : A -> B) (g : B -> list C) l,
  flat_map g (map h l) = flat_map (fun x => g (h x)) l.
Proof. induction l as [|x r IH]; cbn [map flat_map]; [reflexivity|]. rewrite IH. reflexivity. Qed.

Lemma filter_map_snd_length : forall A B (p : B -> bool) (l : list (A * B)),
  length (filter p (map snd l)) = length (filter (fun x => p (snd x)) l).
Proof.
  induction l as [|x r IH]; cbn [map filter]; [reflexivity|].
  destruct (p (snd x)); cbn [length]; rewrite IH; reflexivity.
Qed.

Lemma existsb_filter : forall A (p q : A -> bool) l,
  existsb p (filter q l) = existsb (fun x => q x && p x) l.
Proof.
  induction l as [|x r IH]; cbn [filter existsb]; [reflexivity|].
  destruct (q x); cbn [existsb andb]; rewrite IH; reflexivity.
Qed.

(** * the loop *)
Lemma step_count : forall o st m, st_count (step o st m) = st_count st + 1.
Proof. reflexivity. Qed.

Lemma loop_fold : forall o total msgs st,
  st_count st + N.of_nat (length msgs) = total ->
  loop o total st msgs = fold_left (step o) msgs st.
Proof.
  induction msgs as [|m r IH]; intros st H; cbn [loop fold_left]; [reflexivity|].
  cbn [length] in H.
  destruct (N.eqb_spec (st_count (step o st m)) total) as [E|E].
  - rewrite step_count in E. destruct r as [|m' r']; [reflexivity|]. cbn [length] in H. lia.
  - apply IH. rewrite step_count. lia.
Qed.

Lemma fold_count : forall o msgs st,
  st_count (fold_left (step o) msgs st) = st_count st + N.of_nat (length msgs).
Proof.
  induction msgs as [|m r IH]; intros st; cbn [fold_left length]; [lia|].
  rewrite IH, step_count. lia.
Qed.

Lemma fold_sum : forall o msgs st,
  st_sum (fold_left (step o) msgs st) = fold_left (sum_step o) msgs (st_sum st).
Proof. induction msgs as [|m r IH]; intros st; cbn [fold_left]; [reflexivity|]. rewrite IH. reflexivity. Qed.

Lemma sent_length : forall files D, length (sent files D) = length files.
Proof. intros. unfold sent. apply map_length. Qed.

Lemma run_fold : forall o files D msgs,
  Permutation msgs (sent files D) ->
  run o (N.of_nat (length files)) msgs = fold_left (step o) msgs (init o).
Proof.
  intros o files D msgs Hp. unfold run. apply loop_fold.
  cbn [init st_count]. rewrite (Permutation_length Hp), sent_length. lia.
Qed.

Lemma loop_terminates : forall o files D msgs,
  Permutation msgs (sent files D) ->
  st_count (run o (N.of_nat (length files)) msgs) = N.of_nat (length files)
  /\ run o (N.of_nat (length files)) msgs = fold_left (step o) msgs (init o).
Proof.
  intros o files D msgs Hp. split; [|eapply run_fold; exact Hp].
  rewrite (run_fold o files D msgs Hp), fold_count. cbn [init st_count].
  rewrite (Permutation_length Hp), sent_length. lia.
Qed.

(** a task that dies before sending closes its sender: the loop still ends, on the drained channel *)
Lemma loop_ends_on_closed_channel : forall o total msgs st,
  st_count st + N.of_nat (length msgs) < total ->
  loop o total st msgs = fold_left (step o) msgs st.
Proof.
  induction msgs as [|m r IH]; intros st H; cbn [loop fold_left]; [reflexivity|].
  cbn [length] in H.
  destruct (N.eqb_spec (st_count (step o st m)) total) as [E|E].
  - rewrite step_count in E. lia.
  - apply IH. rewrite step_count. lia.
Qed.

(** * the summary *)
Definition cnt (k : N) (ds : list diag) : N := N.of_nat (length (filter (sev_is k) ds)).

Lemma sev_is_excl : forall j k d, sev_is j d = true -> j <> k -> sev_is k d = false.
Proof.
  unfold sev_is. intros j k d. destruct (d_sev d) as [s|]; [|discriminate].
  intros H Hne. apply N.eqb_eq in H. subst. apply N.eqb_neq. exact Hne.
Qed.

Lemma count_fold_spec : forall wae ds s,
  s_has_error (fold_left (count_diag wae) ds s)
    = s_has_error s || existsb (fun d => sev_is 1 d || (wae && sev_is 2 d)) ds
  /\ s_err (fold_left (count_diag wae) ds s) = s_err s + cnt 1 ds
  /\ s_warn (fold_left (count_diag wae) ds s) = s_warn s + cnt 2 ds
  /\ s_info (fold_left (count_diag wae) ds s) = s_info s + cnt 3 ds
  /\ s_hint (fold_left (count_diag wae) ds s) = s_hint s + cnt 4 ds.
Proof.
  intros wae. induction ds as [|d r IH]; intros s; cbn [fold_left].
  - unfold cnt. cbn [filter length existsb]. rewrite orb_false_r. repeat split; lia.
  - destruct (IH (count_diag wae s d)) as (H0 & H1 & H2 & H3 & H4).
    rewrite H0, H1, H2, H3, H4. clear H0 H1 H2 H3 H4 IH.
    unfold cnt, count_diag. cbn [filter existsb].
    destruct (sev_is 1 d) eqn:E1.
    { rewrite (sev_is_excl 1 2 d E1), (sev_is_excl 1 3 d E1), (sev_is_excl 1 4 d E1) by discriminate.
      cbn [s_has_error s_err s_warn s_info s_hint length orb].
      repeat split; try lia; try (destruct (s_has_error s); reflexivity). }
    destruct (sev_is 2 d) eqn:E2.
    { rewrite (sev_is_excl 2 3 d E2), (sev_is_excl 2 4 d E2) by discriminate.
      cbn [s_has_error s_err s_warn s_info s_hint length orb andb].
      repeat split; try lia; try (destruct (s_has_error s), wae; reflexivity). }
    destruct (sev_is 3 d) eqn:E3.
    { rewrite (sev_is_excl 3 4 d E3) by discriminate.
      cbn [s_has_error s_err s_warn s_info s_hint length orb andb].
      rewrite andb_false_r. cbn [orb]. repeat split; lia. }
    destruct (sev_is 4 d) eqn:E4.
    { cbn [s_has_error s_err s_warn s_info s_hint length orb andb].
      rewrite andb_false_r. cbn [orb]. repeat split; lia. }
    rewrite andb_false_r. cbn [orb]. repeat split; lia.
Qed.

(** the diagnostics that survive the filter, in arrival order *)
Definition msg_pairs (o : opts) (m : message) : list (N * diag) :=
  match snd m with Some ds => map (pair (fst m)) (retain o ds) | None => [] end.
Definition msg_blocks (o : opts) (m : message) : list (N * list diag) :=
  match snd m with Some ds => [(fst m, retain o ds)] | None => [] end.
Definition all_retained (o : opts) (msgs : list message) : list diag :=
  map snd (flat_map (msg_pairs o) msgs).

Lemma sum_step_fold : forall o msgs s,
  fold_left (sum_step o) msgs s = fold_left (count_diag (o_wae o)) (all_retained o msgs) s.
Proof.
  intros o. unfold all_retained. induction msgs as [|m r IH]; intros s; cbn [fold_left flat_map map]; [reflexivity|].
  rewrite map_app, fold_left_app, IH. f_equal.
  unfold sum_step, msg_pairs. destruct (snd m) as [ds|]; [|reflexivity].
  rewrite map_map. cbn [snd]. rewrite map_id. reflexivity.
Qed.

Lemma retain_In : forall o d ds, In d (retain o ds) <-> (In d ds /\ passes o d = true).
Proof.
  intros o d ds. unfold retain, passes. destruct (o_filter o) as [f|].
  - apply filter_In.
  - tauto.
Qed.

Lemma exit_iff_error : forall o files D msgs,
  Permutation msgs (sent files D) ->
  (exit_code (run o (N.of_nat (length files)) msgs) <> 0 <->
   exists f ds d, In f files /\ D f = Some ds /\ In d ds /\ passes o d = true /\ is_error o d = true).
Proof.
  intros o files D msgs Hp.
  rewrite (run_fold o files D msgs Hp). unfold exit_code. rewrite fold_sum, sum_step_fold.
  destruct (count_fold_spec (o_wae o) (all_retained o msgs) (st_sum (init o))) as (H0 & _).
  rewrite H0. cbn [init st_sum s_has_error orb]. clear H0.
  assert (existsb (fun d => sev_is 1 d || (o_wae o && sev_is 2 d)) (all_retained o msgs) = true <->
          exists f ds d, In f files /\ D f = Some ds /\ In d ds /\ passes o d = true /\ is_error o d = true) as Hiff.
  { rewrite existsb_exists. unfold all_retained. split.
    - intros (d & Hin & He). apply in_map_iff in Hin. destruct Hin as ((f & d') & Hd & Hin). cbn [snd] in Hd. subst d'.
      apply in_flat_map in Hin. destruct Hin as (m & Hm & Hin).
      apply (Permutation_in _ Hp) in Hm. unfold sent in Hm. apply in_map_iff in Hm. destruct Hm as (f0 & Hm & Hf0). subst m.
      unfold msg_pairs in Hin. cbn [fst snd] in Hin. destruct (D f0) as [ds|] eqn:ED; [|destruct Hin].
      apply in_map_iff in Hin. destruct Hin as (d0 & Hpair & Hin). inversion Hpair; subst.
      apply retain_In in Hin. exists f, ds, d. unfold is_error. tauto.
    - intros (f & ds & d & Hf & HD & Hd & Hpass & He). exists d. split; [|exact He].
      apply in_map_iff. exists (f, d). split; [reflexivity|].
      apply in_flat_map. exists (f, D f). split.
      + apply (Permutation_in _ (Permutation_sym Hp)). exact (in_map (fun f0 => (f0, D f0)) files f Hf).
      + unfold msg_pairs. cbn [fst snd]. rewrite HD. apply in_map. apply retain_In. tauto. }
  destruct (existsb _ (all_retained o msgs)).
  - split; [intros _; apply Hiff; reflexivity|intros _; discriminate].
  - split; [intros H; exfalso; apply H; reflexivity|intros H; apply Hiff in H; discriminate].
Qed.

(** * the writers *)
Lemma writer_fold : forall o msgs st,
  st_writer (fold_left (step o) msgs st) =
  match st_writer st with
  | WJson b => WJson (b ++ flat_map (msg_blocks o) msgs)
  | WText b => WText (b ++ filter nonempty_block (flat_map (msg_blocks o) msgs))
  | WSarif r => WSarif (r ++ flat_map (msg_pairs o) msgs)
  end.
Proof.
  intros o. induction msgs as [|m r IH]; intros st; cbn [fold_left flat_map].
  - cbn [filter]. destruct (st_writer st); rewrite app_nil_r; reflexivity.
  - rewrite IH. cbn [step st_writer]. unfold msg_blocks, msg_pairs.
    destruct (snd m) as [ds|].
    + destruct (st_writer st) as [b|b|rs]; cbn [write].
      * rewrite <- app_assoc. reflexivity.
      * destruct (retain o ds) as [|d ds'] eqn:E; cbn [is_nil app filter nonempty_block snd negb].
        -- reflexivity.
        -- rewrite <- app_assoc. reflexivity.
      * destruct (retain o ds) as [|d ds'] eqn:E; cbn [is_nil map app].
        -- reflexivity.
        -- rewrite <- app_assoc. reflexivity.
    + destruct (st_writer st); reflexivity.
Qed.

Lemma blocks_pairs : forall o files D,
  flat_map (fun b => map (pair (fst b)) (snd b)) (expected_blocks o files D) = expected_pairs o files D.
Proof.
  intros o files D. unfold expected_blocks, expected_pairs.
  induction files as [|f r IH]; cbn [flat_map]; [reflexivity|].
  rewrite flat_map_app, IH. f_equal. destruct (D f); cbn [flat_map fst snd]; [apply app_nil_r|reflexivity].
Qed.

Lemma nonempty_pairs : forall (bs : list (N * list diag)),
  flat_map (fun b => map (pair (fst b)) (snd b)) (filter nonempty_block bs)
  = flat_map (fun b => map (pair (fst b)) (snd b)) bs.
Proof.
  induction bs as [|b r IH]; cbn [filter flat_map]; [reflexivity|].
  unfold nonempty_block at 1. destruct (snd b) as [|d ds] eqn:E; cbn [is_nil negb flat_map].
  - rewrite IH. reflexivity.
  - rewrite IH, E. reflexivity.
Qed.

Lemma report_exact : forall o files D msgs,
  Permutation msgs (sent files D) ->
  match o_format o, st_writer (run o (N.of_nat (length files)) msgs) with
  | Json, WJson b => Permutation b (expected_blocks o files D)
  | Text, WText b => Permutation b (filter nonempty_block (expected_blocks o files D))
  | Sarif, WSarif r => Permutation r (expected_pairs o files D)
  | _, _ => False
  end
  /\ Permutation (report_pairs (st_writer (run o (N.of_nat (length files)) msgs))) (expected_pairs o files D).
Proof.
  intros o files D msgs Hp.
  rewrite (run_fold o files D msgs Hp), writer_fold. cbn [init st_writer].
  assert (Permutation (flat_map (msg_blocks o) msgs) (expected_blocks o files D)) as Hb.
  { eapply perm_trans; [apply Permutation_flat_map; exact Hp|]. unfold sent. rewrite flat_map_map. apply Permutation_refl. }
  assert (Permutation (flat_map (msg_pairs o) msgs) (expected_pairs o files D)) as Hq.
  { eapply perm_trans; [apply Permutation_flat_map; exact Hp|]. unfold sent. rewrite flat_map_map. apply Permutation_refl. }
  destruct (o_format o); cbn [new_writer app report_pairs].
  - split; [exact Hb|]. rewrite <- blocks_pairs. apply Permutation_flat_map. exact Hb.
  - split; [apply perm_filter; exact Hb|]. rewrite nonempty_pairs, <- blocks_pairs. apply Permutation_flat_map. exact Hb.
  - split; exact Hq.
Qed.

(** the counters of the text summary are the numbers of filtered diagnostics of each severity *)
Lemma counts_exact : forall o files D msgs,
  Permutation msgs (sent files D) ->
  let s := st_sum (run o (N.of_nat (length files)) msgs) in
  s_err s = expected_count 1 o files D /\ s_warn s = expected_count 2 o files D
  /\ s_info s = expected_count 3 o files D /\ s_hint s = expected_count 4 o files D.
Proof.
  intros o files D msgs Hp. cbn zeta.
  rewrite (run_fold o files D msgs Hp), fold_sum, sum_step_fold.
  destruct (count_fold_spec (o_wae o) (all_retained o msgs) (st_sum (init o))) as (_ & H1 & H2 & H3 & H4).
  rewrite H1, H2, H3, H4. cbn [init st_sum s_err s_warn s_info s_hint].
  assert (forall k, cnt k (all_retained o msgs) = expected_count k o files D) as Hc.
  { intros k. unfold cnt, all_retained, expected_count. rewrite filter_map_snd_length. f_equal.
    apply Permutation_length. apply perm_filter.
    eapply perm_trans; [apply Permutation_flat_map; exact Hp|]. unfold sent. rewrite flat_map_map. apply Permutation_refl. }
  rewrite !Hc. repeat split; lia.
Qed.

(** * workers and channel *)
Definition all_of (c : chan) : list message := ch_delivered c ++ ch_queue c ++ ch_blocked c.
Definition msg_of (D : N -> option (list diag)) (e : event) : list message :=
  match e with Produce f => [(f, D f)] | Consume => [] end.

Lemma chan_step_awaited : forall cap D c e,
  Permutation (all_of (chan_step true cap D c e)) (all_of c ++ msg_of D e).
Proof.
  intros cap D c e. unfold all_of. destruct e as [f|]; cbn [chan_step msg_of].
  - destruct (has_room cap (ch_queue c)); cbn [ch_queue ch_blocked ch_delivered].
    + rewrite <- !app_assoc. apply Permutation_app_head. apply Permutation_app_head. apply Permutation_app_comm.
    + rewrite <- !app_assoc. apply Permutation_refl.
  - rewrite app_nil_r. destruct (ch_queue c) as [|m r] eqn:Eq; [rewrite Eq; apply Permutation_refl|].
    destruct (ch_blocked c) as [|p ps]; cbn [ch_queue ch_blocked ch_delivered];
      rewrite <- !app_assoc; cbn [app]; apply Permutation_refl.
Qed.

Lemma chan_fold_awaited : forall cap D sched c,
  Permutation (all_of (fold_left (chan_step true cap D) sched c)) (all_of c ++ flat_map (msg_of D) sched).
Proof.
  intros cap D. induction sched as [|e r IH]; intros c; cbn [fold_left flat_map].
  - rewrite app_nil_r. apply Permutation_refl.
  - eapply perm_trans; [apply IH|]. rewrite app_assoc. apply Permutation_app_tail. apply chan_step_awaited.
Qed.

Lemma msgs_of_produced : forall D sched, flat_map (msg_of D) sched = sent (produced sched) D.
Proof.
  intros D. unfold sent, produced. induction sched as [|e r IH]; cbn [flat_map map]; [reflexivity|].
  rewrite map_app, IH. destruct e; reflexivity.
Qed.

Lemma awaited_delivers_all : forall cap D files sched,
  Permutation (produced sched) files -> drained (chan_run true cap D sched) ->
  Permutation (ch_delivered (chan_run true cap D sched)) (sent files D).
Proof.
  intros cap D files sched Hp [Hq Hb].
  pose proof (chan_fold_awaited cap D sched chan0) as H. unfold all_of in H.
  fold (chan_run true cap D sched) in H. rewrite Hq, Hb in H. cbn [chan0 ch_delivered ch_queue ch_blocked app] in H.
  rewrite app_nil_r in H. eapply perm_trans; [exact H|].
  rewrite msgs_of_produced. unfold sent. apply Permutation_map. exact Hp.
Qed.

(** every task's message arrives exactly once — because the worker awaits its send *)
Lemma every_task_delivers : forall D files sched,
  Permutation (produced sched) files ->
  drained (chan_run worker_send_awaited capacity D sched) ->
  Permutation (arrivals D sched) (sent files D).
Proof. intros D files sched Hp Hd. unfold arrivals. apply awaited_delivers_all; assumption. Qed.

Lemma delivery_complete_iff_awaited : forall awaited,
  (forall cap D files sched, Permutation (produced sched) files -> drained (chan_run awaited cap D sched) ->
     Permutation (ch_delivered (chan_run awaited cap D sched)) (sent files D)) <-> awaited = true.
Proof.
  intros awaited. split.
  - intros H. destruct awaited; [reflexivity|]. exfalso.
    specialize (H (Some 1) (fun _ => None) [1; 2] [Produce 1; Produce 2; Consume; Consume] (Permutation_refl _)).
    assert (drained (chan_run false (Some 1) (fun _ => None) [Produce 1; Produce 2; Consume; Consume])) as Hd
      by (vm_compute; split; reflexivity).
    specialize (H Hd). apply Permutation_length in H. vm_compute in H. discriminate.
  - intros ->. apply awaited_delivers_all.
Qed.

Lemma checker_end_to_end : forall o D files sched,
  Permutation (produced sched) files ->
  drained (chan_run worker_send_awaited capacity D sched) ->
  let st := run o (N.of_nat (length files)) (arrivals D sched) in
  (exit_code st <> 0 <->
     exists f ds d, In f files /\ D f = Some ds /\ In d ds /\ passes o d = true /\ is_error o d = true)
  /\ Permutation (report_pairs (st_writer st)) (expected_pairs o files D)
  /\ st_count st = N.of_nat (length files).
Proof.
  intros o D files sched Hp Hd. cbn zeta.
  pose proof (every_task_delivers D files sched Hp Hd) as Hm.
  split; [apply exit_iff_error; exact Hm|]. split; [apply report_exact; exact Hm|].
  apply loop_terminates with (D := D). exact Hm.
Qed.

(** * example *)
Definition ex_D (f : N) : option (list diag) :=
  if f =? 1 then Some [ {| d_sev := Some 2; d_id := 10 |}; {| d_sev := Some 4; d_id := 11 |} ]
  else if f =? 2 then Some []
  else if f =? 3 then None
  else Some [ {| d_sev := Some 1; d_id := 12 |}; {| d_sev := None; d_id := 13 |} ].

Definition ex_opts (filter : option N) (wae : bool) (f : format) : opts :=
  {| o_filter := filter; o_wae := wae; o_format := f |}.

Lemma check_example :
  exit_code (run (ex_opts None false Json) 4 (sent [1; 2; 3; 4] ex_D)) = 1
  /\ exit_code (run (ex_opts None false Text) 3 (sent [3; 1; 2] ex_D)) = 0
  /\ exit_code (run (ex_opts None true Sarif) 3 (sent [2; 1; 3] ex_D)) = 1
  /\ exit_code (run (ex_opts (Some 1) true Json) 3 (sent [2; 1; 3] ex_D)) = 0
  /\ st_writer (run (ex_opts (Some 2) false Json) 4 (sent [4; 3; 2; 1] ex_D))
     = WJson [(4, [ {| d_sev := Some 1; d_id := 12 |} ]); (2, []); (1, [ {| d_sev := Some 2; d_id := 10 |} ])]
  /\ st_writer (run (ex_opts (Some 2) false Text) 4 (sent [4; 3; 2; 1] ex_D))
     = WText [(4, [ {| d_sev := Some 1; d_id := 12 |} ]); (1, [ {| d_sev := Some 2; d_id := 10 |} ])].
Proof. vm_compute. repeat split. Qed.
