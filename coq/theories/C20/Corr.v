(** C20/Corr.v — executable comparison of implementation observations with the model.
    [case]: one point of the switch lattice run through the real [diagnose_file];
    [gcase]: one globals/globalsRegex configuration with the names the implementation reported. *)
From Coq Require Import List String NArith Bool.
From EV Require Import C20.Model.
Import ListNotations.
Local Open Scope N_scope.

Inductive obs := ObsNone | ObsAbsent | ObsPresent (s : severity).

Definition severity_eqb (a b : severity) : bool :=
  match a, b with
  | ERROR, ERROR | WARNING, WARNING | INFORMATION, INFORMATION | HINT, HINT => true
  | _, _ => false
  end.

Definition obs_eqb (a b : obs) : bool :=
  match a, b with
  | ObsNone, ObsNone | ObsAbsent, ObsAbsent => true
  | ObsPresent s, ObsPresent s' => severity_eqb s s'
  | _, _ => false
  end.

Record case := {
  c_code : code;            (* the code the program triggers *)
  c_checker : string;       (* the checker (type name) that emits it *)
  c_fe : bool;              (* file has ---@diagnostic enable: code *)
  c_wd : bool;              (* code in diagnostics.disable *)
  c_tag : meta_tag;         (* the ---@meta tag of the file *)
  c_is_meta : bool;         (* LuaModuleIndex::is_meta_file as observed on the real index *)
  c_fd : bool;              (* file-level ---@diagnostic disable: code *)
  c_we : bool;              (* code in diagnostics.enables *)
  c_enable : bool;          (* diagnostics.enable *)
  c_sev : option severity;  (* diagnostics.severity[code] *)
  c_level : level;
  c_ws : option N;          (* workspace id of the file *)
  c_obs : obs               (* None / Some without the code / Some with the code at this severity *)
}.

Definition only (b : bool) (c : code) : list code := if b then [c] else [].

Definition model_obs (c : case) : obs :=
  let cfg := {| cfg_enable := c_enable c; ws_disabled := only (c_wd c) (c_code c); ws_enabled := only (c_we c) (c_code c);
                cfg_severity := match c_sev c with Some s => [(c_code c, s)] | None => [] end;
                cfg_globals := []; cfg_globals_regex := []; cfg_level := c_level c |} in
  let f := {| f_enabled := only (c_fe c) (c_code c); f_disabled := only (c_fd c) (c_code c); f_meta := meta_flag_of_tag (match c_ws c with Some _ => true | None => false end) (c_tag c);
              f_workspace := c_ws c; f_suppressed := fun _ _ => false |} in
  let k := {| k_codes := codes_of_checker (c_checker c);
              k_body := fun _ => [ {| e_code := c_code c; e_range := (0, 0); e_msg := []; e_data := None |} ] |} in
  match diagnose_file (fun _ => ((0, 0), (0, 0))) cfg f [k] with
  | None => ObsNone
  | Some [] => ObsAbsent
  | Some (d :: _) => match d_severity d with Some s => ObsPresent s | None => ObsAbsent end
  end.

(** the model's meta flag for the tag is the real index's flag, and the model's verdict is the real one *)
Definition check_case (c : case) : bool :=
  Bool.eqb (meta_flag_of_tag (match c_ws c with Some _ => true | None => false end) (c_tag c)) (c_is_meta c)
  && obs_eqb (model_obs c) (c_obs c).

Record gcase := {
  g_names : list name;                    (* the global names used by the program, in order *)
  g_globals : list name;                  (* diagnostics.globals *)
  g_rx : list (list (option bool));       (* per name: verdict of each globalsRegex entry (None = invalid regex) *)
  g_reported : option (list name)         (* names of the undefined-global diagnostics, in order *)
}.

Fixpoint zip {A B} (a : list A) (b : list B) : list (A * B) :=
  match a, b with x :: a', y :: b' => (x, y) :: zip a' b' | _, _ => [] end.

Definition rx_fun (tbl : list (name * list (option bool))) (j : nat) : option (name -> bool) :=
  match tbl with
  | [] => Some (fun _ => false)
  | (_, vs) :: _ =>
      match nth j vs None with
      | None => None
      | Some _ => Some (fun n => match find (fun p => name_eqb (fst p) n) tbl with
                                 | Some (_, vs') => match nth j vs' None with Some b => b | None => false end
                                 | None => false
                                 end)
      end
  end.

Fixpoint names_eqb (a b : list name) : bool :=
  match a, b with
  | [], [] => true
  | x :: a', y :: b' => name_eqb x y && names_eqb a' b'
  | _, _ => false
  end.

Definition model_reported (g : gcase) : option (list name) :=
  let tbl := zip (g_names g) (g_rx g) in
  let nrx := match g_rx g with vs :: _ => List.length vs | [] => O end in
  let cfg := {| cfg_enable := true; ws_disabled := []; ws_enabled := []; cfg_severity := [];
                cfg_globals := g_globals g; cfg_globals_regex := map (rx_fun tbl) (seq 0 nrx); cfg_level := L_Lua55 |} in
  let f := {| f_enabled := []; f_disabled := []; f_meta := false; f_workspace := Some main_workspace_id;
              f_suppressed := fun _ _ => false |} in
  (* every occurrence has its own range (two uses of one name are different diagnostics, not duplicates) *)
  let occs := map (fun p => {| o_name := snd p; o_range := (N.of_nat (fst p), N.of_nat (fst p)); o_is_ref := false;
                               o_global_decl := false; o_self_ok := false |})
                  (zip (seq 0 (List.length (g_names g))) (g_names g)) in
  match diagnose_file (fun r => ((0, fst r), (0, snd r))) cfg f [undefined_global_checker occs] with
  | None => None
  | Some ds => Some (map (fun d => skipn (List.length ug_prefix) (d_msg d)) ds)
  end.

Definition check_gcase (g : gcase) : bool :=
  match model_reported g, g_reported g with
  | None, None => true
  | Some a, Some b => names_eqb a b
  | _, _ => false
  end.
