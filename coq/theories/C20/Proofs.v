(** C20/Proofs.v — lemmas behind C20/Props.v.  Plain stdlib; [cbn [...]], one [destruct] per test. *)
From Coq Require Import List String NArith Bool Lia.
From EV Require Import C20.Model.
Import ListNotations.
Local Open Scope N_scope.

(** ---- generic list facts ---- *)

Lemma mem_true_iff : forall c l, mem c l = true <-> In c l.
Proof.
  intros c l. unfold mem. rewrite existsb_exists. split.
  - intros [x [Hin Hb]]. apply internal_code_dec_bl in Hb. subst. exact Hin.
  - intros Hin. exists c. split; [exact Hin|]. apply internal_code_dec_lb. reflexivity.
Qed.

Lemma in_filter_map : forall (A B : Type) (g : A -> option B) (l : list A) (b : B),
  In b (filter_map g l) <-> exists a, In a l /\ g a = Some b.
Proof.
  intros A B g l b. induction l as [|a r IH]; cbn [filter_map].
  - split; [intros []|intros [a [[] _]]].
  - destruct (g a) as [b'|] eqn:Hg.
    + cbn [In]. rewrite IH. split.
      * intros [Heq|[a' [Hin Ha']]].
        -- subst b'. exists a. split; [left; reflexivity|exact Hg].
        -- exists a'. split; [right; exact Hin|exact Ha'].
      * intros [a' [[Heq|Hin] Ha']].
        -- subst a'. rewrite Hg in Ha'. injection Ha' as Ha'. left. exact Ha'.
        -- right. exists a'. split; assumption.
    + rewrite IH. split.
      * intros [a' [Hin Ha']]. exists a'. split; [right; exact Hin|exact Ha'].
      * intros [a' [[Heq|Hin] Ha']].
        -- subst a'. rewrite Hg in Ha'. discriminate.
        -- exists a'. split; assumption.
Qed.

(** ---- add_diagnostic / run_check / check_file ---- *)

Definition mk_diag (tr : range -> lsp_range) (cfg : config) (e : emit) : diag :=
  {| d_code := e_code e; d_name := code_name (e_code e); d_range := tr (e_range e);
     d_severity := get_severity cfg (e_code e); d_msg := e_msg e; d_data := e_data e |}.

Lemma add_diagnostic_some : forall tr cfg f e d,
  add_diagnostic tr cfg f e = Some d <->
  is_checker_enable_by_code cfg f (e_code e) = true /\ f_suppressed f (e_code e) (e_range e) = false /\
  d = mk_diag tr cfg e.
Proof.
  intros tr cfg f e d. unfold add_diagnostic, mk_diag.
  destruct (is_checker_enable_by_code cfg f (e_code e)); cbn [negb].
  - destruct (f_suppressed f (e_code e) (e_range e)).
    + split; [discriminate|intros [_ [H _]]; discriminate].
    + split.
      * intros H. injection H as H. subst d. split; [reflexivity|]. split; reflexivity.
      * intros [_ [_ H]]. subst d. reflexivity.
  - split; [discriminate|intros [H _]; discriminate].
Qed.

(** membership in the output of [check_file], fully characterised *)
Lemma in_check_file : forall tr cfg f ks d,
  In d (check_file tr cfg f ks) <->
  exists k e, In k ks /\ In e (k_body k cfg) /\
              existsb (is_checker_enable_by_code cfg f) (k_codes k) = true /\
              is_checker_enable_by_code cfg f (e_code e) = true /\
              f_suppressed f (e_code e) (e_range e) = false /\
              d = mk_diag tr cfg e.
Proof.
  intros tr cfg f ks d. unfold check_file. rewrite in_flat_map. split.
  - intros [k [Hk Hd]]. unfold run_check in Hd.
    destruct (existsb (is_checker_enable_by_code cfg f) (k_codes k)) eqn:Hg; [|destruct Hd].
    apply in_filter_map in Hd. destruct Hd as [e [He Ha]].
    apply add_diagnostic_some in Ha. destruct Ha as [H1 [H2 H3]].
    exists k, e. repeat (split; [assumption|]). assumption.
  - intros [k [e [Hk [He [Hg [H1 [H2 H3]]]]]]]. exists k. split; [exact Hk|].
    unfold run_check. rewrite Hg. apply in_filter_map. exists e. split; [exact He|].
    apply add_diagnostic_some. repeat (split; [assumption|]). assumption.
Qed.

(** ---- get_diagnostics ---- *)

Lemma in_dedup_acc : forall l kept d, In d (dedup_acc kept l) <-> In d l /\ ~ In d kept.
Proof.
  induction l as [|x r IH]; intros kept d; cbn [dedup_acc].
  - split; [intros []|intros [[] _]].
  - destruct (in_dec diag_eq_dec x kept) as [Hx|Hx].
    + rewrite IH. cbn [In]. split.
      * intros [H1 H2]. split; [right; exact H1|exact H2].
      * intros [[Heq|H1] H2]; [subst; contradiction|split; assumption].
    + cbn [In]. rewrite IH. cbn [In]. split.
      * intros [Heq|[H1 H2]].
        -- subst. split; [left; reflexivity|exact Hx].
        -- split; [right; exact H1|]. intros H. apply H2. right. exact H.
      * intros [[Heq|H1] H2].
        -- left. exact Heq.
        -- destruct (diag_eq_dec x d) as [E|E]; [left; exact E|].
           right. split; [exact H1|]. intros [H|H]; [contradiction|contradiction].
Qed.

Lemma nodup_dedup_acc : forall l kept, NoDup (dedup_acc kept l).
Proof.
  induction l as [|x r IH]; intros kept; cbn [dedup_acc]; [constructor|].
  destruct (in_dec diag_eq_dec x kept); [apply IH|].
  constructor; [|apply IH]. intros H. apply in_dedup_acc in H. destruct H as [_ H]. apply H. left. reflexivity.
Qed.

Lemma in_get_diagnostics : forall l d, In d (get_diagnostics l) <-> In d l.
Proof.
  intros l d. unfold get_diagnostics. destruct dedup_diagnostics; [|reflexivity].
  rewrite in_dedup_acc. split; [intros [H _]; exact H|intros H; split; [exact H|intros []]].
Qed.

Lemma diagnose_file_some : forall tr cfg f ks ds,
  diagnose_file tr cfg f ks = Some ds ->
  cfg_enable cfg = true /\
  (f_workspace f = None \/ f_workspace f = Some main_workspace_id) /\
  ds = get_diagnostics (check_file tr cfg f ks).
Proof.
  intros tr cfg f ks ds. unfold diagnose_file.
  destruct (cfg_enable cfg); cbn [negb]; [|discriminate].
  destruct (f_workspace f) as [w|].
  - destruct (N.eqb_spec w main_workspace_id) as [->|Hne]; [|discriminate].
    intros H. injection H as H. split; [reflexivity|]. split; [right; reflexivity|]. symmetry; exact H.
  - intros H. injection H as H. split; [reflexivity|]. split; [left; reflexivity|]. symmetry; exact H.
Qed.

(** membership in the result of [diagnose_file] is membership in the vector built by [check_file] *)
Lemma in_diagnose_file : forall tr cfg f ks ds d,
  diagnose_file tr cfg f ks = Some ds -> (In d ds <-> In d (check_file tr cfg f ks)).
Proof.
  intros tr cfg f ks ds d H. apply diagnose_file_some in H. destruct H as [_ [_ ->]]. apply in_get_diagnostics.
Qed.

Lemma reported_enabled : forall tr cfg f ks ds d,
  diagnose_file tr cfg f ks = Some ds -> In d ds ->
  is_checker_enable_by_code cfg f (d_code d) = true.
Proof.
  intros tr cfg f ks ds d H Hin. apply (in_diagnose_file _ _ _ _ _ d H) in Hin.
  apply in_check_file in Hin. destruct Hin as [k [e [_ [_ [_ [H1 [_ ->]]]]]]]. exact H1.
Qed.

(** ---- the chain, evaluated on the order found in today's source ---- *)

(** unfold the chain on the generated order and split on the five switches *)
Ltac chain cfg f c :=
  unfold is_checker_enable_by_code, chain_order; cbn [run_chain test_verdict];
  destruct (f_meta f); destruct (mem c (f_enabled f)); destruct (mem c (ws_disabled cfg));
  destruct (mem c (f_disabled f)); destruct (mem c (ws_enabled cfg));
  try discriminate; try reflexivity; try (intuition congruence).

(** Sentence 1. *)
Lemma disabled_needs_file_enable : forall cfg f c,
  is_checker_enable_by_code cfg f c = true -> mem c (ws_disabled cfg) = true ->
  mem c (f_enabled f) = true.
Proof. intros cfg f c. chain cfg f c. Qed.

Lemma disabled_never_unless_file_enabled : forall tr cfg f ks ds d,
  diagnose_file tr cfg f ks = Some ds -> In d ds ->
  In (d_code d) (ws_disabled cfg) -> In (d_code d) (f_enabled f).
Proof.
  intros tr cfg f ks ds d H Hin Hdis. apply mem_true_iff.
  apply (disabled_needs_file_enable cfg f).
  - exact (reported_enabled tr cfg f ks ds d H Hin).
  - apply mem_true_iff. exact Hdis.
Qed.

(** Sentence 2. *)
Lemma enables_turn_on : forall cfg f c,
  f_meta f = false -> mem c (ws_enabled cfg) = true -> mem c (ws_disabled cfg) = false ->
  mem c (f_disabled f) = false ->
  is_checker_enable_by_code cfg f c = true.
Proof. intros cfg f c. chain cfg f c. Qed.

Lemma not_mem_false : forall c l, ~ In c l -> mem c l = false.
Proof.
  intros c l H. destruct (mem c l) eqn:E; [|reflexivity].
  apply mem_true_iff in E. contradiction.
Qed.

Lemma enables_reported : forall tr cfg f ks k e,
  In k ks -> In e (k_body k cfg) -> In (e_code e) (k_codes k) ->
  cfg_enable cfg = true ->
  (f_workspace f = None \/ f_workspace f = Some main_workspace_id) ->
  f_meta f = false ->
  In (e_code e) (ws_enabled cfg) -> ~ In (e_code e) (ws_disabled cfg) -> ~ In (e_code e) (f_disabled f) ->
  f_suppressed f (e_code e) (e_range e) = false ->
  exists ds, diagnose_file tr cfg f ks = Some ds /\ In (mk_diag tr cfg e) ds.
Proof.
  intros tr cfg f ks k e Hk He Hc Hen Hws Hmeta Hwe Hwd Hfd Hsup.
  exists (get_diagnostics (check_file tr cfg f ks)). split.
  - unfold diagnose_file. rewrite Hen. cbn [negb].
    destruct Hws as [-> | ->]; [reflexivity|]. rewrite N.eqb_refl. reflexivity.
  - apply in_get_diagnostics.
    assert (Hon : is_checker_enable_by_code cfg f (e_code e) = true).
    { apply enables_turn_on; [exact Hmeta| |apply not_mem_false; exact Hwd|apply not_mem_false; exact Hfd].
      apply mem_true_iff. exact Hwe. }
    apply in_check_file. exists k, e.
    split; [exact Hk|]. split; [exact He|]. split.
    + apply existsb_exists. exists (e_code e). split; [exact Hc|exact Hon].
    + split; [exact Hon|]. split; [exact Hsup|reflexivity].
Qed.

(** the hypothesis [In (e_code e) (k_codes k)] holds for every checker of the source: whatever code a
    checker's module mentions is listed in its CODES (finite table, checked by computation) *)
Lemma emits_within_codes :
  forallb (fun k => forallb (fun c => mem c (ck_codes k)) (ck_emits k)) checkers = true.
Proof. vm_compute. reflexivity. Qed.

Lemma emits_within_codes_in : forall ki c, In ki checkers -> In c (ck_emits ki) -> In c (ck_codes ki).
Proof.
  intros ki c Hk Hc. pose proof emits_within_codes as H.
  rewrite forallb_forall in H. specialize (H ki Hk). rewrite forallb_forall in H.
  apply mem_true_iff. apply H. exact Hc.
Qed.

(** Sentence 3. *)
Lemma severity_override : forall tr cfg f ks ds d,
  diagnose_file tr cfg f ks = Some ds -> In d ds ->
  d_severity d = match lookup_severity cfg (d_code d) with
                 | Some s => Some s
                 | None => Some (default_severity (d_code d))
                 end.
Proof.
  intros tr cfg f ks ds d H Hin. apply (in_diagnose_file _ _ _ _ _ d H) in Hin.
  apply in_check_file in Hin. destruct Hin as [k [e [_ [_ [_ [_ [_ ->]]]]]]].
  unfold mk_diag, get_severity. cbn [d_severity d_code]. reflexivity.
Qed.

Lemma lookup_severity_in : forall cfg c s,
  lookup_severity cfg c = Some s -> In (c, s) (cfg_severity cfg).
Proof.
  intros cfg c s. unfold lookup_severity.
  destruct (find (fun p => code_beq (fst p) c) (cfg_severity cfg)) as [p|] eqn:E; [|discriminate].
  intros H. injection H as H. apply find_some in E. destruct E as [Hin Hb].
  apply internal_code_dec_bl in Hb. destruct p as [c' s']. cbn [fst snd] in *. subst. exact Hin.
Qed.

(** a map has one binding per key *)
Definition functional (l : list (code * severity)) : Prop :=
  forall c s1 s2, In (c, s1) l -> In (c, s2) l -> s1 = s2.

Lemma lookup_severity_complete : forall cfg c s,
  functional (cfg_severity cfg) -> In (c, s) (cfg_severity cfg) -> lookup_severity cfg c = Some s.
Proof.
  intros cfg c s Hf Hin. unfold lookup_severity.
  destruct (find (fun p => code_beq (fst p) c) (cfg_severity cfg)) as [p|] eqn:E.
  - apply find_some in E. destruct E as [Hin' Hb]. apply internal_code_dec_bl in Hb.
    destruct p as [c' s']. cbn [fst snd] in *. subst c'. f_equal. exact (Hf c s' s Hin' Hin).
  - exfalso. pose proof (find_none _ _ E (c, s) Hin) as Hn. cbn [fst] in Hn.
    rewrite (internal_code_dec_lb c c eq_refl) in Hn. discriminate.
Qed.

Lemma severity_configured : forall tr cfg f ks ds d s,
  functional (cfg_severity cfg) ->
  diagnose_file tr cfg f ks = Some ds -> In d ds ->
  In (d_code d, s) (cfg_severity cfg) -> d_severity d = Some s.
Proof.
  intros tr cfg f ks ds d s Hf H Hin Hs.
  rewrite (severity_override tr cfg f ks ds d H Hin).
  rewrite (lookup_severity_complete cfg (d_code d) s Hf Hs). reflexivity.
Qed.

(** Sentence 4. *)
Lemma check_name_expr_some : forall cfg o e,
  check_name_expr cfg o = Some e ->
  globals_match cfg (o_name o) = false /\
  e = {| e_code := C_UndefinedGlobal; e_range := o_range o; e_msg := ug_prefix ++ o_name o; e_data := None |}.
Proof.
  intros cfg o e. unfold check_name_expr, globals_match.
  destruct (o_is_ref o); [discriminate|].
  destruct (name_eqb (o_name o) underscore); [discriminate|].
  destruct (o_global_decl o); [discriminate|].
  destruct (name_mem (o_name o) (cfg_globals cfg)); [discriminate|].
  destruct (existsb _ (cfg_globals_regex cfg)); [discriminate|].
  destruct (name_eqb (o_name o) self_name && o_self_ok o); [discriminate|].
  intros H. injection H as H. split; [reflexivity|symmetry; exact H].
Qed.

(** every undefined-global diagnostic produced by the undefined-global checker is about a name that is in
    neither [globals] nor matched by a [globalsRegex] *)
Lemma globals_never_undefined : forall tr cfg f occs others ds d,
  (forall k e, In k others -> In e (k_body k cfg) -> e_code e <> C_UndefinedGlobal) ->
  diagnose_file tr cfg f (undefined_global_checker occs :: others) = Some ds -> In d ds ->
  d_code d = C_UndefinedGlobal ->
  exists o, In o occs /\ d_msg d = ug_prefix ++ o_name o /\ d_range d = tr (o_range o) /\
            globals_match cfg (o_name o) = false.
Proof.
  intros tr cfg f occs others ds d Hoth H Hin Hcode.
  apply (in_diagnose_file _ _ _ _ _ d H) in Hin.
  apply in_check_file in Hin. destruct Hin as [k [e [Hk [He [_ [_ [_ Hd]]]]]]].
  destruct Hk as [<-|Hk].
  - cbn [undefined_global_checker k_body] in He. apply in_filter_map in He.
    destruct He as [o [Ho Hc]]. apply check_name_expr_some in Hc. destruct Hc as [Hg ->].
    exists o. subst d. cbn [mk_diag d_msg d_range e_msg e_range]. repeat (split; [first [assumption|reflexivity]|]). exact Hg.
  - exfalso. subst d. cbn [mk_diag d_code] in Hcode. exact (Hoth k e Hk He Hcode).
Qed.

Lemma globals_match_listed : forall cfg n, In n (cfg_globals cfg) -> globals_match cfg n = true.
Proof.
  intros cfg n Hin. unfold globals_match. apply orb_true_iff. left.
  unfold name_mem. apply existsb_exists. exists n. split; [exact Hin|].
  clear Hin. induction n as [|x r IH]; cbn [name_eqb]; [reflexivity|].
  rewrite N.eqb_refl. exact IH.
Qed.

Lemma globals_match_regex : forall cfg n p, In (Some p) (cfg_globals_regex cfg) -> p n = true -> globals_match cfg n = true.
Proof.
  intros cfg n p Hin Hp. unfold globals_match. apply orb_true_iff. right.
  apply existsb_exists. exists (Some p). split; [exact Hin|exact Hp].
Qed.

(** in today's table no other checker mentions the undefined-global code *)
Lemma only_ug_checker_emits_ug :
  forallb (fun k => negb (mem C_UndefinedGlobal (ck_emits k)) || String.eqb (ck_name k) "UndefinedGlobalChecker") checkers = true.
Proof. vm_compute. reflexivity. Qed.

(** Sentence 5 (library / std / any non-main workspace). *)
Lemma library_std_silent : forall tr cfg f ks w,
  f_workspace f = Some w -> w <> main_workspace_id -> diagnose_file tr cfg f ks = None.
Proof.
  intros tr cfg f ks w Hw Hne. unfold diagnose_file. destruct (negb (cfg_enable cfg)); [reflexivity|].
  rewrite Hw. destruct (N.eqb_spec w main_workspace_id); [contradiction|reflexivity].
Qed.

(** Sentence 5 (meta files). *)
Lemma meta_disables_all : forall cfg f c, f_meta f = true -> is_checker_enable_by_code cfg f c = false.
Proof. intros cfg f c. chain cfg f c. Qed.

Lemma meta_silent : forall tr cfg f ks ds,
  f_meta f = true -> diagnose_file tr cfg f ks = Some ds -> ds = [].
Proof.
  intros tr cfg f ks ds Hm H. destruct ds as [|d r]; [reflexivity|]. exfalso.
  pose proof (reported_enabled tr cfg f ks (d :: r) d H (or_introl eq_refl)) as Hon.
  rewrite (meta_disables_all cfg f (d_code d) Hm) in Hon. discriminate.
Qed.

(** every spelling of the tag makes a file of a workspace a meta file *)
Lemma meta_tag_sets_flag : forall tag, tag <> NoMetaTag -> meta_flag_of_tag true tag = true.
Proof.
  intros [| |n] H; [contradiction|reflexivity|].
  unfold meta_flag_of_tag. destruct (existsb (String.eqb n) meta_special_names); reflexivity.
Qed.

Lemma meta_tag_silent : forall tr cfg f ks ds tag,
  tag <> NoMetaTag -> f_meta f = meta_flag_of_tag true tag ->
  diagnose_file tr cfg f ks = Some ds -> ds = [].
Proof.
  intros tr cfg f ks ds tag Ht Hf H. apply (meta_silent tr cfg f ks ds); [|exact H].
  rewrite Hf. apply meta_tag_sets_flag. exact Ht.
Qed.

(** Sentence 6. *)
Lemma enable_false_silent : forall tr cfg f ks, cfg_enable cfg = false -> diagnose_file tr cfg f ks = None.
Proof. intros tr cfg f ks H. unfold diagnose_file. rewrite H. reflexivity. Qed.

(** the reported list never contains the same diagnostic twice, whatever the checkers emit *)
Lemma no_exact_duplicates : forall tr cfg f ks ds, diagnose_file tr cfg f ks = Some ds -> NoDup ds.
Proof.
  intros tr cfg f ks ds H. apply diagnose_file_some in H. destruct H as [_ [_ ->]].
  unfold get_diagnostics.
  assert (Hd : dedup_diagnostics = true) by reflexivity. rewrite Hd. apply nodup_dedup_acc.
Qed.

(** the whole chain in one formula (for the order of today's source) *)
Lemma chain_formula : forall cfg f c,
  is_checker_enable_by_code cfg f c =
  negb (f_meta f) &&
  (mem c (f_enabled f) ||
   (negb (mem c (ws_disabled cfg)) && negb (mem c (f_disabled f)) &&
    (mem c (ws_enabled cfg) || default_enable c (cfg_level cfg)))).
Proof.
  intros cfg f c. unfold is_checker_enable_by_code, chain_order; cbn [run_chain test_verdict].
  destruct (f_meta f); destruct (mem c (f_enabled f)); destruct (mem c (ws_disabled cfg));
  destruct (mem c (f_disabled f)); destruct (mem c (ws_enabled cfg)); reflexivity.
Qed.

(** default-off codes exist, so sentence 2 is not vacuous; and every code/level has a default *)
Lemma some_code_off_by_default : exists c, forall l, default_enable c l = false.
Proof. exists C_CodeStyleCheck. intros l. reflexivity. Qed.

(** ---- examples ---- *)
Definition ex_cfg : config :=
  {| cfg_enable := true; ws_disabled := [C_Unused; C_UndefinedGlobal]; ws_enabled := [C_UnknownDocTag; C_Unused];
     cfg_severity := [(C_UnknownDocTag, HINT)]; cfg_globals := [[118; 105; 109]];
     cfg_globals_regex := [None; Some (fun n => match n with 103 :: _ => true | _ => false end)]; cfg_level := L_Lua54 |}.
Definition ex_file : file :=
  {| f_enabled := [C_UndefinedGlobal]; f_disabled := []; f_meta := false; f_workspace := Some 1;
     f_suppressed := fun _ _ => false |}.
Definition ex_tr : range -> lsp_range := fun r => ((0, fst r), (0, snd r)).
Definition ex_checkers : list checker :=
  [ undefined_global_checker
      [ {| o_name := [118; 105; 109]; o_range := (0, 3); o_is_ref := false; o_global_decl := false; o_self_ok := false |};
        {| o_name := [103; 49]; o_range := (4, 6); o_is_ref := false; o_global_decl := false; o_self_ok := false |};
        {| o_name := [120]; o_range := (7, 8); o_is_ref := false; o_global_decl := false; o_self_ok := false |} ];
    {| k_codes := [C_UndefinedDocParam; C_UnknownDocTag];
       k_body := fun _ => [ {| e_code := C_UnknownDocTag; e_range := (9, 12); e_msg := [63]; e_data := None |};
                            {| e_code := C_UnknownDocTag; e_range := (9, 12); e_msg := [63]; e_data := None |} ] |};
    {| k_codes := [C_Unused]; k_body := fun _ => [ {| e_code := C_Unused; e_range := (13, 14); e_msg := []; e_data := None |} ] |} ].

Lemma config_example :
  option_map (map (fun d => (d_code d, d_range d, d_severity d))) (diagnose_file ex_tr ex_cfg ex_file ex_checkers)
  = Some [ (C_UndefinedGlobal, ((0, 7), (0, 8)), Some ERROR); (C_UnknownDocTag, ((0, 9), (0, 12)), Some HINT) ]
  /\ diagnose_file ex_tr ex_cfg {| f_enabled := [C_UndefinedGlobal]; f_disabled := []; f_meta := true; f_workspace := Some 1;
                                  f_suppressed := fun _ _ => false |} ex_checkers = Some []
  /\ diagnose_file ex_tr ex_cfg {| f_enabled := [C_UndefinedGlobal]; f_disabled := []; f_meta := false; f_workspace := Some 3;
                                  f_suppressed := fun _ _ => false |} ex_checkers = None.
Proof. vm_compute. repeat split. Qed.
