(** C20/Model.v — transcription of the configuration gates of the diagnostic pipeline
    (crates/emmylua_code_analysis/src/diagnostic):
      checker/mod.rs        [run_check], [check_file], [DiagnosticContext::add_diagnostic],
                            [get_severity], [is_checker_enable_by_code]
      lua_diagnostic.rs     [LuaDiagnostic::diagnose_file]
      lua_diagnostic_config.rs  [LuaDiagnosticConfig::new] (sets and maps; invalid regexes dropped)
      checker/undefined_global.rs  [check_name_expr]
    over the tables of Gen/C20_Diag.v, which are regenerated from the Rust source on every run
    (codes, names, default severity, default enable, the checkers' CODES, and the ORDER of the
    tests of the enable chain).  Executable definitions only.

    What a checker body does is not modelled: a checker is its [CODES] plus an arbitrary function
    from the configuration to the list of [add_diagnostic] calls it makes ("emissions"); the theorems
    quantify over all such functions, so they cover the present checkers and any rewrite of them that
    still reports through [add_diagnostic]. *)
From Coq Require Import List String NArith Bool.
From EV Require Export Gen.C20_Diag.
Import ListNotations.
Local Open Scope N_scope.

Definition mem (c : code) (l : list code) : bool := existsb (code_beq c) l.

(** identifiers and messages are lists of code points *)
Definition name := list N.
Fixpoint name_eqb (a b : name) : bool :=
  match a, b with
  | [], [] => true
  | x :: a', y :: b' => N.eqb x y && name_eqb a' b'
  | _, _ => false
  end.
Definition name_mem (n : name) (l : list name) : bool := existsb (name_eqb n) l.

Definition range := (N * N)%type.                       (* rowan TextRange: start, end *)
Definition lsp_range := ((N * N) * (N * N))%type.       (* (line, character) of start and end *)

(** [LuaDiagnostic] + [LuaDiagnosticConfig] *)
Record config := {
  cfg_enable : bool;                                   (* diagnostics.enable *)
  ws_disabled : list code;                             (* diagnostics.disable  -> workspace_disabled *)
  ws_enabled : list code;                              (* diagnostics.enables  -> workspace_enabled *)
  cfg_severity : list (code * severity);               (* diagnostics.severity (a map) *)
  cfg_globals : list name;                             (* diagnostics.globals -> global_disable_set *)
  cfg_globals_regex : list (option (name -> bool));    (* diagnostics.globalsRegex compiled; [None] = invalid, dropped *)
  cfg_level : level                                    (* runtime.version -> language level *)
}.

(** what the indexes know about the file being diagnosed *)
Record file := {
  f_enabled : list code;          (* DiagnosticIndex::is_file_enabled  ([---@diagnostic enable: c]) *)
  f_disabled : list code;         (* DiagnosticIndex::is_file_disabled (file level [---@diagnostic disable: c]) *)
  f_meta : bool;                  (* LuaModuleIndex::is_meta_file *)
  f_workspace : option N;         (* LuaModuleIndex::get_workspace_id *)
  f_suppressed : code -> range -> bool   (* DiagnosticIndex::is_file_diagnostic_code_disabled (ranges: property C19) *)
}.

(** one test of [is_checker_enable_by_code]: [Some b] = [return b], [None] = fall through *)
Definition test_verdict (cfg : config) (f : file) (c : code) (t : chain_test) : option bool :=
  match t with
  | FileEnable => if mem c (f_enabled f) then Some true else None
  | WsDisable => if mem c (ws_disabled cfg) then Some false else None
  | Meta => if f_meta f then Some false else None
  | FileDisable => if mem c (f_disabled f) then Some false else None
  | WsEnable => if mem c (ws_enabled cfg) then Some true else None
  end.

Fixpoint run_chain (ts : list chain_test) (cfg : config) (f : file) (c : code) : bool :=
  match ts with
  | [] => default_enable c (cfg_level cfg)
  | t :: r => match test_verdict cfg f c t with
              | Some b => b
              | None => run_chain r cfg f c
              end
  end.

(** [DiagnosticContext::is_checker_enable_by_code]: the tests in the order found in the source today *)
Definition is_checker_enable_by_code (cfg : config) (f : file) (c : code) : bool :=
  run_chain chain_order cfg f c.

Definition lookup_severity (cfg : config) (c : code) : option severity :=
  match find (fun p => code_beq (fst p) c) (cfg_severity cfg) with
  | Some p => Some (snd p)
  | None => None
  end.

(** [DiagnosticContext::get_severity] *)
Definition get_severity (cfg : config) (c : code) : option severity :=
  match lookup_severity cfg c with
  | Some s => Some s
  | None => Some (default_severity c)
  end.

(** a call [context.add_diagnostic(code, range, message, data)] ([data]: the serialised JSON value, if any) *)
Record emit := { e_code : code; e_range : range; e_msg : list N; e_data : option (list N) }.

(** an [lsp_types::Diagnostic] as built by [add_diagnostic] *)
Record diag := {
  d_code : code;
  d_name : string;                 (* Diagnostic.code = code.get_name() *)
  d_range : lsp_range;
  d_severity : option severity;
  d_msg : list N;
  d_data : option (list N)         (* source and tags are functions of the code *)
}.

(** [add_diagnostic]; [tr] is [translate_range] with its [0:0] fallback (modelled in C21) *)
Definition add_diagnostic (tr : range -> lsp_range) (cfg : config) (f : file) (e : emit) : option diag :=
  if negb (is_checker_enable_by_code cfg f (e_code e)) then None
  else if f_suppressed f (e_code e) (e_range e) then None
  else Some {| d_code := e_code e; d_name := code_name (e_code e); d_range := tr (e_range e);
               d_severity := get_severity cfg (e_code e); d_msg := e_msg e; d_data := e_data e |}.

Fixpoint filter_map {A B : Type} (g : A -> option B) (l : list A) : list B :=
  match l with
  | [] => []
  | a :: r => match g a with Some b => b :: filter_map g r | None => filter_map g r end
  end.

(** a checker: its [CODES] and the [add_diagnostic] calls its [check] makes (it may read the configuration) *)
Record checker := { k_codes : list code; k_body : config -> list emit }.

(** [run_check::<T>] *)
Definition run_check (tr : range -> lsp_range) (cfg : config) (f : file) (k : checker) : list diag :=
  if existsb (is_checker_enable_by_code cfg f) (k_codes k)
  then filter_map (add_diagnostic tr cfg f) (k_body k cfg)
  else [].

(** [check_file]: the diagnostics vector after all checkers ran *)
Definition check_file (tr : range -> lsp_range) (cfg : config) (f : file) (ks : list checker) : list diag :=
  flat_map (run_check tr cfg f) ks.

(** equality of diagnostics is decidable (Rust: [#[derive(PartialEq)]] on [Diagnostic]) *)
Definition diag_eq_dec : forall a b : diag, {a = b} + {a <> b}.
Proof. repeat decide equality. Defined.

(** the loop of [DiagnosticContext::get_diagnostics]: a diagnostic equal to one already kept is skipped
    (the hash map keyed by (range, message) only speeds up the search for an equal one) *)
Fixpoint dedup_acc (kept : list diag) (l : list diag) : list diag :=
  match l with
  | [] => []
  | d :: r => if in_dec diag_eq_dec d kept then dedup_acc kept r else d :: dedup_acc (d :: kept) r
  end.

(** [DiagnosticContext::get_diagnostics] — whether it de-duplicates is read off the source ([dedup_diagnostics]) *)
Definition get_diagnostics (l : list diag) : list diag :=
  if dedup_diagnostics then dedup_acc [] l else l.

(** [LuaDiagnostic::diagnose_file] (not cancelled, the file has a syntax tree) *)
Definition diagnose_file (tr : range -> lsp_range) (cfg : config) (f : file) (ks : list checker) : option (list diag) :=
  if negb (cfg_enable cfg) then None
  else match f_workspace f with
       | Some w => if N.eqb w main_workspace_id then Some (get_diagnostics (check_file tr cfg f ks)) else None
       | None => Some (get_diagnostics (check_file tr cfg f ks))
       end.

(** ---- how a file becomes a meta file ----
    compilation/analyzer/decl/docs.rs [analyze_doc_tag_meta] with LuaModuleIndex::[set_meta] (marks the file's
    [ModuleInfo] if the file has one), [add_module_by_module_path] (removes the entry and inserts a fresh one whose
    [is_meta] is [reinsert_is_meta]) and [is_meta_file].  The four booleans / names are read off the source. *)

(** the file's [---@meta] tag: none, bare, or with a name *)
Inductive meta_tag := NoMetaTag | BareMeta | NamedMeta (n : string).

(** [is_meta_file] after the declaration analysis; [registered] = the file has an entry in [file_module_map]
    (it lies under a workspace root) *)
Definition meta_flag_of_tag (registered : bool) (tag : meta_tag) : bool :=
  match tag with
  | NoMetaTag => false
  | BareMeta => registered && meta_set_first
  | NamedMeta n =>
      if existsb (String.eqb n) meta_special_names
      then registered && meta_set_first                      (* only the module visibility changes *)
      else registered && (reinsert_is_meta || meta_set_after_rename)   (* re-registered under the module path [n] *)
  end.

(** the [CODES] of a checker of the source, by type name *)
Definition codes_of_checker (nm : string) : list code :=
  match find (fun k => String.eqb (ck_name k) nm) checkers with
  | Some k => ck_codes k
  | None => []
  end.

(** ---- undefined_global.rs ---- *)

(** one [LuaNameExpr] of the file with the facts [check_name_expr] asks for *)
Record name_occ := {
  o_name : name;
  o_range : range;
  o_is_ref : bool;        (* its range is in [use_range_set]: it resolves to a local declaration *)
  o_global_decl : bool;   (* LuaGlobalIndex::is_exist_global_decl *)
  o_self_ok : bool        (* [check_self_name] succeeds *)
}.

Definition underscore : name := [95].
Definition self_name : name := [115; 101; 108; 102].
(** "undefined global variable: " *)
Definition ug_prefix : list N :=
  [117;110;100;101;102;105;110;101;100;32;103;108;111;98;97;108;32;118;97;114;105;97;98;108;101;58;32].

Definition globals_match (cfg : config) (n : name) : bool :=
  name_mem n (cfg_globals cfg)
  || existsb (fun r => match r with Some p => p n | None => false end) (cfg_globals_regex cfg).

Definition check_name_expr (cfg : config) (o : name_occ) : option emit :=
  if o_is_ref o then None
  else if name_eqb (o_name o) underscore then None
  else if o_global_decl o then None
  else if name_mem (o_name o) (cfg_globals cfg) then None
  else if existsb (fun r => match r with Some p => p (o_name o) | None => false end) (cfg_globals_regex cfg) then None
  else if name_eqb (o_name o) self_name && o_self_ok o then None
  else Some {| e_code := C_UndefinedGlobal; e_range := o_range o; e_msg := ug_prefix ++ o_name o; e_data := None |}.

Definition undefined_global_checker (occs : list name_occ) : checker :=
  {| k_codes := codes_of_checker "UndefinedGlobalChecker";
     k_body := fun cfg => filter_map (check_name_expr cfg) occs |}.
