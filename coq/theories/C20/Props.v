(** C20/Props.v — property theorems only: one per sentence of the statement, for ALL configurations,
    files, code tables' entries and checker bodies.  The tables ([chain_order], [default_enable],
    [default_severity], [checkers], [main_workspace_id]) are those of Gen/C20_Diag.v, regenerated from
    the Rust source before every build, so these theorems are re-checked against today's source. *)
From Coq Require Import List String NArith Bool.
From EV Require Import C20.Model C20.Proofs.
Import ListNotations.
Local Open Scope N_scope.

(** "A code in diagnostics.disable is never reported unless the file enables it with ---@diagnostic enable." *)
Theorem disabled_never_unless_file_enabled :
  forall (tr : range -> lsp_range) (cfg : config) (f : file) (ks : list checker) (ds : list diag) (d : diag),
  diagnose_file tr cfg f ks = Some ds -> In d ds ->
  In (d_code d) (ws_disabled cfg) -> In (d_code d) (f_enabled f).
Proof. exact Proofs.disabled_never_unless_file_enabled. Qed.

(** "Codes in enables are reported even when off by default": whatever a checker passes to add_diagnostic
    with a code that is in [enables] (and in the checker's CODES) is in the output — no hypothesis on
    [default_enable] — unless one of the switches of the other sentences applies (the code is also in
    [disable], the file disables it, the file is a meta file / outside the main workspace, diagnostics are
    off, or a ---@diagnostic disable range covers it). *)
Theorem enables_reported :
  forall (tr : range -> lsp_range) (cfg : config) (f : file) (ks : list checker) (k : checker) (e : emit),
  In k ks -> In e (k_body k cfg) -> In (e_code e) (k_codes k) ->
  cfg_enable cfg = true ->
  (f_workspace f = None \/ f_workspace f = Some main_workspace_id) ->
  f_meta f = false ->
  In (e_code e) (ws_enabled cfg) -> ~ In (e_code e) (ws_disabled cfg) -> ~ In (e_code e) (f_disabled f) ->
  f_suppressed f (e_code e) (e_range e) = false ->
  exists ds, diagnose_file tr cfg f ks = Some ds /\
             In {| d_code := e_code e; d_name := code_name (e_code e); d_range := tr (e_range e);
                   d_severity := get_severity cfg (e_code e); d_msg := e_msg e; d_data := e_data e |} ds.
Proof. exact Proofs.enables_reported. Qed.

(** ... and for the checkers of today's source the CODES hypothesis holds: every code a checker's module
    mentions is in its CODES, so the [run_check] gate can never hide an enabled code. *)
Theorem emits_within_codes :
  forall (ki : checker_info) (c : code), In ki checkers -> In c (ck_emits ki) -> In c (ck_codes ki).
Proof. exact Proofs.emits_within_codes_in. Qed.

(** "severity overrides the reported severity" (and the default applies otherwise) *)
Theorem severity_override :
  forall (tr : range -> lsp_range) (cfg : config) (f : file) (ks : list checker) (ds : list diag) (d : diag),
  diagnose_file tr cfg f ks = Some ds -> In d ds ->
  d_severity d = match lookup_severity cfg (d_code d) with
                 | Some s => Some s
                 | None => Some (default_severity (d_code d))
                 end.
Proof. exact Proofs.severity_override. Qed.

Theorem severity_configured :
  forall (tr : range -> lsp_range) (cfg : config) (f : file) (ks : list checker) (ds : list diag) (d : diag) (s : severity),
  (forall c s1 s2, In (c, s1) (cfg_severity cfg) -> In (c, s2) (cfg_severity cfg) -> s1 = s2) ->
  diagnose_file tr cfg f ks = Some ds -> In d ds ->
  In (d_code d, s) (cfg_severity cfg) -> d_severity d = Some s.
Proof. exact Proofs.severity_configured. Qed.

(** "names in globals/globalsRegex are never reported as undefined globals": every undefined-global
    diagnostic is about a name occurrence that neither [globals] lists nor a [globalsRegex] matches
    (the other checkers do not use that code: [only_ug_checker_emits_ug] for today's table). *)
Theorem globals_never_undefined :
  forall (tr : range -> lsp_range) (cfg : config) (f : file) (occs : list name_occ) (others : list checker)
         (ds : list diag) (d : diag),
  (forall k e, In k others -> In e (k_body k cfg) -> e_code e <> C_UndefinedGlobal) ->
  diagnose_file tr cfg f (undefined_global_checker occs :: others) = Some ds -> In d ds ->
  d_code d = C_UndefinedGlobal ->
  exists o, In o occs /\ d_msg d = ug_prefix ++ o_name o /\ d_range d = tr (o_range o) /\
            globals_match cfg (o_name o) = false.
Proof. exact Proofs.globals_never_undefined. Qed.

Theorem globals_match_listed : forall (cfg : config) (n : name), In n (cfg_globals cfg) -> globals_match cfg n = true.
Proof. exact Proofs.globals_match_listed. Qed.

Theorem globals_match_regex : forall (cfg : config) (n : name) (p : name -> bool),
  In (Some p) (cfg_globals_regex cfg) -> p n = true -> globals_match cfg n = true.
Proof. exact Proofs.globals_match_regex. Qed.

Theorem only_ug_checker_emits_ug :
  forallb (fun k => negb (mem C_UndefinedGlobal (ck_emits k)) || String.eqb (ck_name k) "UndefinedGlobalChecker") checkers = true.
Proof. exact Proofs.only_ug_checker_emits_ug. Qed.

(** "library or standard-library files report nothing" (any workspace other than the main one) *)
Theorem library_std_silent :
  forall (tr : range -> lsp_range) (cfg : config) (f : file) (ks : list checker) (w : N),
  f_workspace f = Some w -> w <> main_workspace_id -> diagnose_file tr cfg f ks = None.
Proof. exact Proofs.library_std_silent. Qed.

(** "Meta files ... report nothing" — whatever the file or the workspace enables *)
Theorem meta_silent :
  forall (tr : range -> lsp_range) (cfg : config) (f : file) (ks : list checker) (ds : list diag),
  f_meta f = true -> diagnose_file tr cfg f ks = Some ds -> ds = [].
Proof. exact Proofs.meta_silent. Qed.

(** ... and a file of a workspace IS a meta file whatever the spelling of its tag — bare, [_], [no-require], or a
    module name (for which [analyze_doc_tag_meta] re-registers the module and must mark it again) *)
Theorem meta_tag_sets_flag : forall (tag : meta_tag), tag <> NoMetaTag -> meta_flag_of_tag true tag = true.
Proof. exact Proofs.meta_tag_sets_flag. Qed.

Theorem meta_tag_silent :
  forall (tr : range -> lsp_range) (cfg : config) (f : file) (ks : list checker) (ds : list diag) (tag : meta_tag),
  tag <> NoMetaTag -> f_meta f = meta_flag_of_tag true tag ->
  diagnose_file tr cfg f ks = Some ds -> ds = [].
Proof. exact Proofs.meta_tag_silent. Qed.

(** "diagnostics.enable = false reports nothing at all" *)
Theorem enable_false_silent :
  forall (tr : range -> lsp_range) (cfg : config) (f : file) (ks : list checker),
  cfg_enable cfg = false -> diagnose_file tr cfg f ks = None.
Proof. exact Proofs.enable_false_silent. Qed.

(** the precedence of all switches in one formula *)
Theorem chain_formula : forall (cfg : config) (f : file) (c : code),
  is_checker_enable_by_code cfg f c =
  negb (f_meta f) &&
  (mem c (f_enabled f) ||
   (negb (mem c (ws_disabled cfg)) && negb (mem c (f_disabled f)) &&
    (mem c (ws_enabled cfg) || default_enable c (cfg_level cfg)))).
Proof. exact Proofs.chain_formula. Qed.

(** non-vacuity: a configuration with disable / enables / severity / globals / an invalid and a valid regex;
    a main-workspace file that force-enables a disabled code; the same file as meta; the same file in a library *)
Example config_example :
  option_map (map (fun d => (d_code d, d_range d, d_severity d))) (diagnose_file ex_tr ex_cfg ex_file ex_checkers)
  = Some [ (C_UndefinedGlobal, ((0, 7), (0, 8)), Some ERROR); (C_UnknownDocTag, ((0, 9), (0, 12)), Some HINT) ]
  /\ diagnose_file ex_tr ex_cfg {| f_enabled := [C_UndefinedGlobal]; f_disabled := []; f_meta := true; f_workspace := Some 1;
                                  f_suppressed := fun _ _ => false |} ex_checkers = Some []
  /\ diagnose_file ex_tr ex_cfg {| f_enabled := [C_UndefinedGlobal]; f_disabled := []; f_meta := false; f_workspace := Some 3;
                                  f_suppressed := fun _ _ => false |} ex_checkers = None.
Proof. exact Proofs.config_example. Qed.

Example some_code_off_by_default : exists c, forall l, default_enable c l = false.
Proof. exact Proofs.some_code_off_by_default. Qed.
