(** C03/CompleteExpr.v — completeness cases for simpleexp, primaryexp, suffixes, args, explist,
    table constructors and fields. *)
From Coq Require Import List Bool Arith Lia.
Import ListNotations.
From EV Require Import C03.Syntax C03.Spec C03.Model C03.Facts C03.Complete.

Lemma hd_is_hit : forall t r, hd_is t (t :: r) = true.
Proof. intros t r. cbn. destruct t; reflexivity. Qed.
Lemma hd_is_cons : forall t x r, hd_is t (x :: r) = tok_beq x t.
Proof. reflexivity. Qed.
Lemma tok_beq_neq : forall x t, x <> t -> tok_beq x t = false.
Proof.
  intros x t H. destruct (tok_beq x t) eqn:E; [|reflexivity]. apply internal_tok_dec_bl in E. contradiction.
Qed.

Section CompleteExpr.
  Variable binop_of : tok -> option binop.
  Variable unop_of : tok -> option unop.
  Variable bl br : binop -> nat.
  Variable up : nat.
  Variable FT : features.
  Variable MAXLVL : nat.
  Hypothesis Htab : table_ok binop_of unop_of bl br up = true.

  Local Notation sub_expr := (Model.sub_expr binop_of unop_of bl br up FT MAXLVL).
  Local Notation simple_expr := (Model.simple_expr binop_of unop_of bl br up FT MAXLVL).
  Local Notation closure_expr := (Model.closure_expr binop_of unop_of bl br up FT MAXLVL).
  Local Notation table_expr := (Model.table_expr binop_of unop_of bl br up FT MAXLVL).
  Local Notation table_fields := (Model.table_fields binop_of unop_of bl br up FT MAXLVL).
  Local Notation field := (Model.field binop_of unop_of bl br up FT MAXLVL).
  Local Notation suffixed_expr := (Model.suffixed_expr binop_of unop_of bl br up FT MAXLVL).
  Local Notation suffix_loop := (Model.suffix_loop binop_of unop_of bl br up FT MAXLVL).
  Local Notation args := (Model.args binop_of unop_of bl br up FT MAXLVL).
  Local Notation expr_list_tail := (Model.expr_list_tail binop_of unop_of bl br up FT MAXLVL).
  Local Notation block := (Model.block binop_of unop_of bl br up FT MAXLVL).
  Local Notation PE := (Complete.PE binop_of unop_of bl br up FT MAXLVL).
  Local Notation PS := (Complete.PS binop_of unop_of bl br up FT MAXLVL).
  Local Notation PP := (Complete.PP binop_of unop_of bl br up FT MAXLVL).
  Local Notation PSuf := (Complete.PSuf binop_of unop_of bl br up FT MAXLVL).
  Local Notation PA := (Complete.PA binop_of unop_of bl br up FT MAXLVL).
  Local Notation PET := (Complete.PET binop_of unop_of bl br up FT MAXLVL).
  Local Notation PT := (Complete.PT binop_of unop_of bl br up FT MAXLVL).
  Local Notation PFT := (Complete.PFT binop_of unop_of bl br up FT MAXLVL).
  Local Notation PF := (Complete.PF binop_of unop_of bl br up FT MAXLVL).
  Local Notation PB := (Complete.PB binop_of unop_of bl br up FT MAXLVL).
  Local Notation pe_top := (Complete.pe_top binop_of unop_of bl br up FT MAXLVL Htab).

  Lemma case_S_lit : forall d t, is_literal_tok t = true -> PS d [t] (N KLiteral [L t]).
  Proof.
    intros d t Ht lvl rest _ _. eapply ev_S; [|apply ev_const].
    intros f. cbn [Model.simple_expr app]. rewrite is_literal_eq, Ht. reflexivity.
  Qed.

  Lemma case_S_table : forall d ts t, TableR FT d ts t -> PT d ts t -> PS d ts t.
  Proof.
    intros d ts t H IH lvl rest _ Hl. destruct (TableR_first _ _ _ _ H) as [r ->].
    eapply ev_S; [|apply (IH lvl rest Hl)].
    intros f. reflexivity.
  Qed.

  (** the first token of a non-empty block is not 'end' *)
  Lemma StatB_first : forall d ts t k, StatB FT d ts t k -> exists x r, ts = x :: r /\ block_follow [x] = false /\ x <> TAssign /\ x <> TComma /\ x <> TLt.
  Proof.
    intros d ts t k H. inversion H; subst;
      try (do 2 eexists; split; [reflexivity|]; split; [reflexivity|]; split; [discriminate|]; split; discriminate).
    - match goal with H : Simple _ _ _ _, H2 : is_lvalue_tree _ = true |- _ =>
        destruct (Simple_suffixed_first _ _ _ _ H (or_introl H2)) as (x & r & -> & Hx) end.
      do 2 eexists. split; [reflexivity|].
      destruct Hx as [-> | ->]; (split; [reflexivity|]; split; [discriminate|]; split; discriminate).
    - match goal with H : Simple _ _ _ _, H2 : is_call_tree _ = true |- _ =>
        destruct (Simple_suffixed_first _ _ _ _ H (or_intror H2)) as (x & r & -> & Hx) end.
      do 2 eexists. split; [reflexivity|].
      destruct Hx as [-> | ->]; (split; [reflexivity|]; split; [discriminate|]; split; discriminate).
  Qed.

  Lemma Stat_first : forall d ts t k, Stat FT d ts t k -> exists x r, ts = x :: r /\ block_follow [x] = false /\ x <> TAssign /\ x <> TComma /\ x <> TLt.
  Proof. intros d ts t k H. inversion H; subst. eapply StatB_first. eassumption. Qed.

  Lemma BlockR_cases : forall d tb b, BlockR FT d tb b ->
    (tb = [] /\ b = []) \/ (exists x r, tb = x :: r /\ block_follow [x] = false /\ x <> TAssign /\ x <> TComma /\ x <> TLt).
  Proof.
    intros d tb b H. inversion H; subst; [left; split; reflexivity|right].
    match goal with H : StatsR _ _ _ _ |- _ => inversion H; subst end.
    match goal with H : Stat _ _ _ _ _ |- _ => destruct (Stat_first _ _ _ _ H) as (x & r & -> & Hx) end.
    do 2 eexists. split; [reflexivity|exact Hx].
  Qed.

  Lemma block_follow_not_end : forall x, block_follow [x] = false -> tok_beq x TEnd = false.
  Proof. destruct x; cbn; intros H; try reflexivity; discriminate. Qed.

  (** parse_closure_expr on  ['function'] parlist block 'end' *)
  Lemma ev_closure : forall d tp p tb b (fn : bool), ParList tp p -> BlockR FT d tb b -> PB d tb b ->
    forall lvl rest, lvl + d <= MAXLVL ->
    ev (fun f => closure_expr f lvl ((if fn then [TFunction] else []) ++ tp ++ tb ++ TEnd :: rest))
       (Ok (N KClosure ((if fn then [L TFunction] else []) ++ p :: b ++ [L TEnd])) rest).
  Proof.
    intros d tp p tb b fn Hp Hb IH lvl rest Hl.
    destruct (ParList_first _ _ Hp) as [rp Hrp].
    eapply ev_S with (h := fun f =>
       if hd_is TEnd (tb ++ TEnd :: rest)
       then Ok (N KClosure ((if fn then [L TFunction] else []) ++ [p; L TEnd])) (tl (tb ++ TEnd :: rest))
       else bind (block f lvl (tb ++ TEnd :: rest))
                 (fun b0 r2 => match r2 with
                               | TEnd :: r3 => Ok (N KClosure ((if fn then [L TFunction] else []) ++ p :: b0 ++ [L TEnd])) r3
                               | _ => Err
                               end)).
    - intros f. pose proof (param_list_ok _ _ Hp (tb ++ TEnd :: rest)) as Hpl.
      destruct fn; cbn [app]; [|rewrite Hrp in *; cbn [app] in *]; cbn [Model.closure_expr]; rewrite Hpl; reflexivity.
    - destruct (BlockR_cases _ _ _ Hb) as [[-> ->] | (x & r & -> & Hx & _)].
      + cbn [app]. rewrite hd_is_hit. cbn [tl]. apply ev_const.
      + cbn [app]. rewrite hd_is_cons, (block_follow_not_end x Hx).
        eapply (ev_bind _ _ (fun f => block f lvl (x :: r ++ TEnd :: rest))).
        * apply (IH lvl (TEnd :: rest)); [reflexivity|exact Hl].
        * cbn beta. apply ev_const.
  Qed.

  Lemma case_S_func : forall d tp p tb b, ParList tp p -> BlockR FT d tb b -> PB d tb b ->
    PS d (TFunction :: tp ++ tb ++ [TEnd]) (N KClosure (L TFunction :: p :: b ++ [L TEnd])).
  Proof.
    intros d tp p tb b Hp Hb IH lvl rest _ Hl.
    eapply ev_S; [intros f; cbn [Model.simple_expr app]; reflexivity|].
    norm_app. apply (ev_closure d tp p tb b true Hp Hb IH lvl rest Hl).
  Qed.

  Lemma case_S_suffixed : forall d tp p tsuf t,
    Primary FT d tp p -> PP d tp p -> Suf FT d p tsuf t -> PSuf d p tsuf t -> PS d (tp ++ tsuf) t.
  Proof.
    intros d tp p tsuf t Hp IHp _ IHs lvl rest Hns Hl.
    destruct (Primary_first _ _ _ _ Hp) as (x & r & Heq & Hx).
    norm_app.
    eapply ev_S with (h := fun f => suffixed_expr f lvl (tp ++ tsuf ++ rest)).
    - intros f. rewrite Heq. destruct Hx as [-> | ->]; reflexivity.
    - apply IHp; [exact Hl|]. apply IHs; assumption.
  Qed.

  Lemma case_P_name : forall d, PP d [TName] (N KName [L TName]).
  Proof.
    intros d lvl rest X _ HX. eapply ev_S; [|exact HX]. intros f. reflexivity.
  Qed.

  Lemma case_P_paren : forall d te e, E FT 1 d te e -> PE 1 d te e ->
    PP d (TLParen :: te ++ [TRParen]) (N KParen [L TLParen; e; L TRParen]).
  Proof.
    intros d te e _ IH lvl rest X Hl HX. norm_app.
    eapply ev_S; [intros f; cbn [Model.suffixed_expr]; reflexivity|].
    eapply (ev_bind _ _ (fun f => sub_expr f lvl 0 (te ++ TRParen :: rest))).
    - apply (pe_top d _ _ IH); try assumption; reflexivity.
    - cbn beta. exact HX.
  Qed.

  Lemma suffix_loop_stop : forall lvl cm rest, nosuffixb rest = true ->
    ev (fun f => suffix_loop f lvl cm rest) (Ok cm rest).
  Proof.
    intros lvl cm rest H. exists 1. intros f Hf. destruct f as [|f]; [lia|].
    destruct rest as [|x r]; [reflexivity|]. cbn [nosuffixb] in H.
    destruct x; try discriminate; reflexivity.
  Qed.

  Lemma case_Suf_nil : forall d cm, PSuf d cm [] cm.
  Proof. intros d cm lvl rest Hns _. apply suffix_loop_stop. exact Hns. Qed.

  Lemma case_Suf_field : forall d cm ts t,
    Suf FT d (N KIndex [cm; L TDot; L TName]) ts t -> PSuf d (N KIndex [cm; L TDot; L TName]) ts t ->
    PSuf d cm (TDot :: TName :: ts) t.
  Proof.
    intros d cm ts t _ IH lvl rest Hns Hl.
    eapply ev_S; [intros f; cbn [Model.suffix_loop app]; reflexivity|]. apply IH; assumption.
  Qed.

  Lemma case_Suf_index : forall d cm te e ts t,
    E FT 1 d te e -> PE 1 d te e ->
    Suf FT d (N KIndex [cm; L TLBracket; e; L TRBracket]) ts t -> PSuf d (N KIndex [cm; L TLBracket; e; L TRBracket]) ts t ->
    PSuf d cm (TLBracket :: te ++ TRBracket :: ts) t.
  Proof.
    intros d cm te e ts t _ IHe _ IH lvl rest Hns Hl. norm_app.
    eapply ev_S; [intros f; cbn [Model.suffix_loop]; reflexivity|].
    eapply (ev_bind _ _ (fun f => sub_expr f lvl 0 (te ++ TRBracket :: ts ++ rest))).
    - apply (pe_top d _ _ IHe); try assumption; reflexivity.
    - cbn beta. apply IH; assumption.
  Qed.

  (** one step of the suffix loop on call arguments *)
  Lemma suffix_call_step : forall d lvl cm ta a r (X : res tree),
    ArgsR FT d ta a -> PA d ta a -> lvl + d <= MAXLVL ->
    ev (fun f => suffix_loop f lvl (N KCall [cm; a]) r) X ->
    ev (fun f => suffix_loop f lvl cm (ta ++ r)) X.
  Proof.
    intros d lvl cm ta a r X Ha IHa Hl HX.
    destruct (ArgsR_first _ _ _ _ Ha) as (x & r0 & Heq & Hx).
    eapply ev_S with (h := fun f => bind (args f lvl (ta ++ r)) (fun a0 r1 => suffix_loop f lvl (N KCall [cm; a0]) r1)).
    - intros f. rewrite Heq. cbn [app]. destruct x; try discriminate; reflexivity.
    - eapply (ev_bind _ _ (fun f => args f lvl (ta ++ r))).
      + apply IHa. exact Hl.
      + cbn beta. exact HX.
  Qed.

  Lemma case_Suf_method : forall d cm ta a ts t,
    ArgsR FT d ta a -> PA d ta a ->
    Suf FT d (N KCall [N KIndex [cm; L TColon; L TName]; a]) ts t -> PSuf d (N KCall [N KIndex [cm; L TColon; L TName]; a]) ts t ->
    PSuf d cm (TColon :: TName :: ta ++ ts) t.
  Proof.
    intros d cm ta a ts t Ha IHa _ IH lvl rest Hns Hl. norm_app.
    destruct (ArgsR_first _ _ _ _ Ha) as (x & r0 & Heq & Hx).
    eapply ev_S with (h := fun f => suffix_loop f lvl (N KIndex [cm; L TColon; L TName]) (ta ++ ts ++ rest)).
    - intros f. rewrite Heq. cbn [app Model.suffix_loop]. rewrite Hx. reflexivity.
    - apply (suffix_call_step d lvl _ ta a (ts ++ rest) _ Ha IHa Hl). apply IH; assumption.
  Qed.

  Lemma case_Suf_call : forall d cm ta a ts t,
    ArgsR FT d ta a -> PA d ta a -> Suf FT d (N KCall [cm; a]) ts t -> PSuf d (N KCall [cm; a]) ts t ->
    PSuf d cm (ta ++ ts) t.
  Proof.
    intros d cm ta a ts t Ha IHa _ IH lvl rest Hns Hl. norm_app.
    apply (suffix_call_step d lvl _ ta a (ts ++ rest) _ Ha IHa Hl). apply IH; assumption.
  Qed.

  (* args *)
  Lemma case_A_empty : forall d, PA d [TLParen; TRParen] (N KArgs [L TLParen; L TRParen]).
  Proof. intros d lvl rest _. eapply ev_S; [|apply ev_const]. intros f. reflexivity. Qed.

  Lemma expr_start_not : forall x, expr_start x = true ->
    tok_beq x TRParen = false /\ tok_beq x TRBrace = false /\ tok_beq x TSemi = false /\ tok_beq x TLBracket = false /\
    tok_beq x TComma = false /\ tok_beq x TLocal = false /\ block_follow [x] = false.
  Proof. destruct x; cbn; intros H; try discriminate; repeat (split; [reflexivity|]); reflexivity. Qed.

  Lemma exprendb_cons : forall x r, exprendb (x :: r) = true ->
    suffix_start x = false /\ is_binop_tok x = false /\ tok_beq x TComma = false.
  Proof.
    intros x r H. unfold exprendb in H. cbn [nosuffixb nobinopb] in H.
    apply andb_true_iff in H. destruct H as [H H3]. apply andb_true_iff in H. destruct H as [H1 H2].
    apply negb_true_iff in H1. apply negb_true_iff in H2. repeat split; try assumption.
    destruct x; try reflexivity; discriminate.
  Qed.

  Lemma case_A_list : forall d te e ts trs,
    E FT 1 d te e -> PE 1 d te e -> ExpTail FT d ts trs -> PET d ts trs ->
    PA d (TLParen :: te ++ ts ++ [TRParen]) (N KArgs (L TLParen :: e :: trs ++ [L TRParen])).
  Proof.
    intros d te e ts trs He IHe Ht IHt lvl rest Hl. norm_app.
    destruct (E_first _ _ _ _ _ He) as (x & r0 & Heq & Hx).
    assert (Hnext : nosuffixb (ts ++ TRParen :: rest) = true /\ nobinopb (ts ++ TRParen :: rest) = true).
    { inversion Ht; subst; split; reflexivity. }
    eapply ev_S with (h := fun f => bind (sub_expr f lvl 0 (te ++ ts ++ TRParen :: rest))
                              (fun e0 r1 => bind (expr_list_tail f lvl [e0] r1)
                                                 (fun es r2 => match r2 with
                                                               | TRParen :: r3 => Ok (N KArgs (L TLParen :: es ++ [L TRParen])) r3
                                                               | _ => Err
                                                               end))).
    - intros f. cbn [Model.args]. rewrite Heq. cbn [app]. rewrite hd_is_cons.
      destruct (expr_start_not x Hx) as (-> & _). reflexivity.
    - eapply (ev_bind _ _ (fun f => sub_expr f lvl 0 (te ++ ts ++ TRParen :: rest))).
      + apply (pe_top d _ _ IHe); try assumption; apply Hnext.
      + cbn beta. eapply (ev_bind _ _ (fun f => expr_list_tail f lvl [e] (ts ++ TRParen :: rest))).
        * apply IHt; [reflexivity|exact Hl].
        * cbn beta. cbn [app]. apply ev_const.
  Qed.

  Lemma case_A_table : forall d ts t, TableR FT d ts t -> PT d ts t -> PA d ts (N KArgs [t]).
  Proof.
    intros d ts t H IH lvl rest Hl. destruct (TableR_first _ _ _ _ H) as [r Heq].
    eapply ev_S with (h := fun f => bind (table_expr f lvl (ts ++ rest)) (fun t0 r1 => Ok (N KArgs [t0]) r1)).
    - intros f. rewrite Heq. reflexivity.
    - eapply (ev_bind _ _ (fun f => table_expr f lvl (ts ++ rest))); [apply IH; exact Hl|]. cbn beta. apply ev_const.
  Qed.

  Lemma case_A_string : forall d, PA d [TString] (N KArgs [N KLiteral [L TString]]).
  Proof. intros d lvl rest _. eapply ev_S; [|apply ev_const]. intros f. reflexivity. Qed.
  Lemma case_A_longstring : forall d, PA d [TLongString] (N KArgs [N KLiteral [L TLongString]]).
  Proof. intros d lvl rest _. eapply ev_S; [|apply ev_const]. intros f. reflexivity. Qed.

  (* explist tail *)
  Lemma case_ET_nil : forall d, PET d [] [].
  Proof.
    intros d lvl acc rest Hr _. rewrite app_nil_r. eapply ev_S; [|apply ev_const].
    intros f. cbn [Model.expr_list_tail app]. destruct rest as [|x r]; [reflexivity|].
    rewrite hd_is_cons. destruct (exprendb_cons x r Hr) as (_ & _ & ->). reflexivity.
  Qed.

  Lemma case_ET_cons : forall d te e ts trs,
    E FT 1 d te e -> PE 1 d te e -> ExpTail FT d ts trs -> PET d ts trs ->
    PET d (TComma :: te ++ ts) (L TComma :: e :: trs).
  Proof.
    intros d te e ts trs He IHe Ht IHt lvl acc rest Hr Hl. norm_app.
    assert (Hnext : nosuffixb (ts ++ rest) = true /\ nobinopb (ts ++ rest) = true).
    { inversion Ht; subst.
      - cbn [app]. unfold exprendb in Hr. apply andb_true_iff in Hr. destruct Hr as [Hr _].
        apply andb_true_iff in Hr. exact Hr.
      - split; reflexivity. }
    eapply ev_S; [intros f; cbn [Model.expr_list_tail]; rewrite hd_is_hit; cbn [tl]; reflexivity|].
    eapply (ev_bind _ _ (fun f => sub_expr f lvl 0 (te ++ ts ++ rest))).
    - apply (pe_top d _ _ IHe); try assumption; apply Hnext.
    - cbn beta. eapply ev_eq; [|apply (IHt lvl (acc ++ [L TComma; e]) rest Hr Hl)].
      rewrite <- app_assoc. reflexivity.
  Qed.

  (* table constructors *)
  Lemma case_T_empty : forall d, PT d [TLBrace; TRBrace] (N KTable [L TLBrace; L TRBrace]).
  Proof. intros d lvl rest _. eapply ev_S; [|apply ev_const]. intros f. reflexivity. Qed.

  Lemma FieldR_first : forall d ts t, FieldR FT d ts t -> exists x r, ts = x :: r /\ tok_beq x TRBrace = false.
  Proof.
    intros d ts t H. inversion H; subst; try (do 2 eexists; split; reflexivity).
    match goal with H : E _ _ _ _ _ |- _ => destruct (E_first _ _ _ _ _ H) as (x & r & -> & Hx) end.
    do 2 eexists. split; [reflexivity|]. apply (expr_start_not x Hx).
  Qed.

  Lemma FieldsTail_next : forall d ts trs rest, FieldsTail FT d ts trs -> fieldendb (ts ++ TRBrace :: rest) = true.
  Proof. intros d ts trs rest H. inversion H; subst; try reflexivity; destruct H0 as [-> | ->]; reflexivity. Qed.

  Lemma fieldendb_expr : forall rest, fieldendb rest = true -> nosuffixb rest = true /\ nobinopb rest = true.
  Proof. intros [|x r] H; [discriminate|]. destruct x; try discriminate; split; reflexivity. Qed.

  Lemma case_T_fields : forall d tf f ts trs,
    FieldR FT d tf f -> PF d tf f -> FieldsTail FT d ts trs -> PFT d ts trs ->
    PT d (TLBrace :: tf ++ ts ++ [TRBrace]) (N KTable (L TLBrace :: f :: trs ++ [L TRBrace])).
  Proof.
    intros d tf fd ts trs Hf IHf Ht IHt lvl rest Hl. norm_app.
    destruct (FieldR_first _ _ _ Hf) as (x & r0 & Heq & Hx).
    eapply ev_S with (h := fun f => bind (field f lvl (tf ++ ts ++ TRBrace :: rest))
                              (fun fd0 r1 => bind (table_fields f lvl [fd0] r1)
                                                  (fun fs r2 => match r2 with
                                                                | TRBrace :: r3 => Ok (N KTable (L TLBrace :: fs ++ [L TRBrace])) r3
                                                                | _ => Err
                                                                end))).
    - intros f. cbn [Model.table_expr]. rewrite Heq. cbn [app]. rewrite hd_is_cons, Hx. reflexivity.
    - eapply (ev_bind _ _ (fun f => field f lvl (tf ++ ts ++ TRBrace :: rest))).
      + apply IHf; [apply (FieldsTail_next _ _ _ _ Ht)|exact Hl].
      + cbn beta. eapply (ev_bind _ _ (fun f => table_fields f lvl [fd] (ts ++ TRBrace :: rest))).
        * apply IHt. exact Hl.
        * cbn beta. cbn [app]. apply ev_const.
  Qed.

  Lemma case_FT_nil : forall d, PFT d [] [].
  Proof.
    intros d lvl acc rest _. rewrite app_nil_r. eapply ev_S; [|apply ev_const]. intros f. reflexivity.
  Qed.

  Lemma case_FT_trailing : forall d sep, (sep = TComma \/ sep = TSemi) -> PFT d [sep] [L sep].
  Proof.
    intros d sep Hs lvl acc rest _. eapply ev_S; [|apply ev_const]. intros f.
    destruct Hs as [-> | ->]; reflexivity.
  Qed.

  Lemma case_FT_cons : forall d sep tf f ts trs,
    (sep = TComma \/ sep = TSemi) -> FieldR FT d tf f -> PF d tf f -> FieldsTail FT d ts trs -> PFT d ts trs ->
    PFT d (sep :: tf ++ ts) (L sep :: f :: trs).
  Proof.
    intros d sep tf fd ts trs Hs Hf IHf Ht IHt lvl acc rest Hl. norm_app.
    destruct (FieldR_first _ _ _ Hf) as (x & r0 & Heq & Hx).
    eapply ev_S with (h := fun f => bind (field f lvl (tf ++ ts ++ TRBrace :: rest))
                                     (fun fd0 r1 => table_fields f lvl (acc ++ [L sep; fd0]) r1)).
    - intros f. rewrite Heq. cbn [app]. destruct Hs as [-> | ->]; cbn [Model.table_fields]; rewrite hd_is_cons, Hx; reflexivity.
    - eapply (ev_bind _ _ (fun f => field f lvl (tf ++ ts ++ TRBrace :: rest))).
      + apply IHf; [apply (FieldsTail_next _ _ _ _ Ht)|exact Hl].
      + cbn beta. eapply ev_eq; [|apply (IHt lvl (acc ++ [L sep; fd]) rest Hl)].
        rewrite <- app_assoc. reflexivity.
  Qed.

  (* fields *)
  Lemma case_F_index : forall d tk k tv v,
    E FT 1 d tk k -> PE 1 d tk k -> E FT 1 d tv v -> PE 1 d tv v ->
    PF d (TLBracket :: tk ++ TRBracket :: TAssign :: tv) (N KFieldAssign [L TLBracket; k; L TRBracket; L TAssign; v]).
  Proof.
    intros d tk k tv v _ IHk _ IHv lvl rest Hr Hl. norm_app.
    eapply ev_S; [intros f; cbn [Model.field]; rewrite hd_is_hit; cbn [tl]; reflexivity|].
    eapply (ev_bind _ _ (fun f => sub_expr f lvl 0 (tk ++ TRBracket :: TAssign :: tv ++ rest))).
    - apply (pe_top d _ _ IHk); try assumption; reflexivity.
    - cbn beta. eapply (ev_bind _ _ (fun f => sub_expr f lvl 0 (tv ++ rest))).
      + apply (pe_top d _ _ IHv); try assumption; apply (fieldendb_expr rest Hr).
      + cbn beta. apply ev_const.
  Qed.

  Lemma case_F_name : forall d tv v, E FT 1 d tv v -> PE 1 d tv v ->
    PF d (TName :: TAssign :: tv) (N KFieldAssign [L TName; L TAssign; v]).
  Proof.
    intros d tv v _ IHv lvl rest Hr Hl. norm_app.
    eapply ev_S; [intros f; cbn [Model.field]; reflexivity|].
    cbn [hd_is tl tok_beq andb]. 
    eapply (ev_bind _ _ (fun f => sub_expr f lvl 0 (tv ++ rest))).
    - apply (pe_top d _ _ IHv); try assumption; apply (fieldendb_expr rest Hr).
    - cbn beta. apply ev_const.
  Qed.

  Lemma local_dispatch : forall (A : Type) (x : tok) (b e : A),
    tok_beq x TLocal = false -> match x with TLocal => e | _ => b end = b.
  Proof. intros A x b e H. destruct x; try reflexivity; discriminate. Qed.

  Lemma field_S : forall f lvl ts,
    field (S f) lvl ts =
    if hd_is TLBracket ts then
      bind (sub_expr f lvl 0 (tl ts))
           (fun k r1 => match r1 with
                        | TRBracket :: TAssign :: r2 =>
                            bind (sub_expr f lvl 0 r2)
                                 (fun v r3 => Ok (N KFieldAssign [L TLBracket; k; L TRBracket; L TAssign; v]) r3)
                        | _ => Err
                        end)
    else if hd_is TName ts && hd_is TAssign (tl ts) then
      bind (sub_expr f lvl 0 (tl (tl ts))) (fun v r1 => Ok (N KFieldAssign [L TName; L TAssign; v]) r1)
    else match ts with
         | [] => Err
         | TLocal :: _ => Err
         | _ => bind (sub_expr f lvl 0 ts) (fun v r1 => Ok (N KFieldValue [v]) r1)
         end.
  Proof. reflexivity. Qed.

  Lemma case_F_pos : forall d tv v, E FT 1 d tv v -> PE 1 d tv v -> PF d tv (N KFieldValue [v]).
  Proof.
    intros d tv v He IHv lvl rest Hr Hl.
    destruct (E_first _ _ _ _ _ He) as (x & r0 & Heq & Hx).
    destruct (expr_start_not x Hx) as (_ & _ & _ & Hb & _ & Hloc & _).
    assert (Hsecond : (hd_is TName (tv ++ rest) && hd_is TAssign (tl (tv ++ rest))) = false).
    { rewrite Heq. cbn [app tl hd_is]. destruct (tok_beq x TName) eqn:Ex; [|reflexivity]. cbn [andb].
      apply internal_tok_dec_bl in Ex. subst x.
      destruct r0 as [|y r1]; cbn [app hd_is].
      - destruct rest as [|z rr]; [reflexivity|]. destruct z; try discriminate; reflexivity.
      - destruct (tok_beq y TAssign) eqn:Ey; [|reflexivity]. apply internal_tok_dec_bl in Ey. subst y.
        exfalso. eapply (E_second _ _ _ _ _ He). exact Heq. }
    eapply ev_S with (h := fun f => bind (sub_expr f lvl 0 (tv ++ rest)) (fun v0 r1 => Ok (N KFieldValue [v0]) r1)).
    - intros f. rewrite field_S, Hsecond. rewrite Heq. cbn [app]. rewrite hd_is_cons, Hb.
      apply (local_dispatch _ x _ _ Hloc).
    - eapply (ev_bind _ _ (fun f => sub_expr f lvl 0 (tv ++ rest))).
      + apply (pe_top d _ _ IHv); try assumption; apply (fieldendb_expr rest Hr).
      + cbn beta. apply ev_const.
  Qed.
End CompleteExpr.
