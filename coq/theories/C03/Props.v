(** C03/Props.v — property theorems only ("valid Lua is never reported as a syntax error").
    Each is closed by [exact] of a lemma of Proofs.v / LexProofs.v.

    What is proved here, for the tables and constants REGENERATED from today's source (Gen/C03_Ops.v,
    Gen/C02_Graph.v) and for each of the language levels 5.1 - 5.4:
      - the implementation's priority tables decide exactly as the manual's precedence table;
      - every expression and every chunk derivable in the grammar of Spec.v (the manual's grammar over
        token kinds, nesting <= MAX_NESTING_LEVEL as in the reference implementation) is accepted by
        the parser model without error and gets the tree the grammar gives it (operators associated
        as the manual's precedence and associativity dictate);
      - every numeral and every short string of the manual's lexical grammar is lexed as one token
        without error and passes the checker's literal validation.
    Not proved (listed, not claimed): soundness (accepted => derivable; the implementation is
    deliberately more lenient, e.g. labels at 5.1, `;;` at 5.1), the name-level conditions of the
    reference compiler (break/goto/attribs/vararg placement), an explicit fuel bound. *)
From Coq Require Import List Bool Arith NArith.
Import ListNotations.
From EV Require Import C03.Syntax C03.Spec C03.Model C03.Proofs C03.Corr Gen.C03_Ops Gen.C02_Graph.
From EV Require C03.LexModel C03.LexSpec C03.LexProofs C03.GenProofs C03.Facts C03.LongModel C03.LongSpec C03.LongProofs.

(** table obligation: left/right priorities, the unary priority and the token -> operator maps of
    kind/lua_operator_kind.rs and kind/mod.rs against the manual's table (Spec.v, §3.4.8) *)
Theorem ops_table_matches_manual :
  table_ok gen_binop_of gen_unop_of gen_left gen_right gen_unary_priority = true.
Proof. exact GenProofs.ops_table_matches_manual. Qed.

(** every token list derivable as a Lua expression is accepted without error, and the tree is the
    grammar's tree *)
Theorem expr_complete : forall (lv : level) (d : nat) (ts : list tok) (t : tree),
  E (gen_features lv) 1 d ts t -> d <= LIMIT ->
  exists n, forall fuel, n <= fuel -> gen_expr lv fuel ts = Ok t [].
Proof. exact GenProofs.expr_complete. Qed.

(** ... also in the middle of a text, whatever follows that cannot continue an expression *)
Theorem expr_complete_rest : forall (lv : level) (d : nat) (ts : list tok) (t : tree) (rest : list tok) (lvl : nat),
  E (gen_features lv) 1 d ts t -> lvl + d <= LIMIT ->
  Facts.nosuffixb rest = true -> Facts.nobinopb rest = true ->
  exists n, forall fuel, n <= fuel ->
    Model.sub_expr gen_binop_of gen_unop_of gen_left gen_right gen_unary_priority (gen_features lv) LIMIT fuel lvl 0 (ts ++ rest)
    = Ok t rest.
Proof. exact GenProofs.expr_complete_rest. Qed.

(** every chunk (all statement forms of Lua 5.1 - 5.4) is accepted without error *)
Theorem chunk_complete : forall (lv : level) (d : nat) (ts : list tok) (t : tree),
  ChunkR (gen_features lv) d ts t -> d <= LIMIT ->
  exists n, forall fuel, n <= fuel -> gen_chunk lv fuel ts = Ok t [].
Proof. exact GenProofs.chunk_complete. Qed.

(** the lexical constants of today's source are the ones the lexical theorems are about *)
Theorem lexical_constants :
  (forall c, gen_zsp c = LexModel.lexer_zsp_fixed c) /\ gen_umax = LexModel.lua54_umax.
Proof. exact GenProofs.lexical_constants. Qed.

(** every numeral of the manual is one TkInt / TkFloat token, no lexer error, no checker error *)
Theorem number_complete :
  forall (alpha : BinNums.N -> bool) (v : LexSpec.lua_version) (s rest : list BinNums.N) (i : bool),
  LexSpec.numeral v s i -> LexSpec.numeral_end alpha rest ->
  LexModel.starts_number (s ++ rest) = true /\
  LexModel.lex_number LexModel.std_features alpha (s ++ rest) =
    {| LexModel.tk_kind := if i then LexModel.TkInt else LexModel.TkFloat; LexModel.tk_text := s;
       LexModel.tk_rest := rest; LexModel.tk_err := false |} /\
  LexModel.number_token_ok (if i then LexModel.TkInt else LexModel.TkFloat) s = true.
Proof. exact LexProofs.number_complete. Qed.

(** every short string of the manual (all escapes) is one TkString token, no "unfinished string",
    and passes check_normal_string_error *)
Theorem string_escape_complete : forall (v : LexSpec.lua_version) (s rest : list BinNums.N),
  LexSpec.short_string v s ->
  LexModel.lex_quoted LexModel.std_features LexModel.lexer_zsp_fixed (s ++ rest) =
    Some {| LexModel.tk_kind := LexModel.TkString; LexModel.tk_text := s; LexModel.tk_rest := rest; LexModel.tk_err := false |} /\
  LexModel.check_string_umax LexModel.lua54_umax s = true.
Proof. exact LexProofs.string_escape_complete. Qed.

(** every long bracket of any level — it ends at the FIRST closing bracket of its level; closing brackets
    of other levels, single ']' and newlines are content — is one TkLongString token with no error ... *)
Theorem long_string_complete : forall (n : nat) (body rest : list BinNums.N), LongSpec.long_body n body ->
  LongModel.lex_long false (LongSpec.opener n ++ body ++ LongSpec.closer n ++ rest) =
    Some {| LongModel.lt_kind := LongModel.TkLongString; LongModel.lt_text := LongSpec.opener n ++ body ++ LongSpec.closer n;
            LongModel.lt_rest := rest; LongModel.lt_err := false |}.
Proof. exact LongProofs.long_string_complete. Qed.

(** ... and with "--" in front one TkLongComment token with no error *)
Theorem long_comment_complete : forall (n : nat) (body rest : list BinNums.N), LongSpec.long_body n body ->
  LongModel.lex_long false (45%N :: 45%N :: LongSpec.opener n ++ body ++ LongSpec.closer n ++ rest) =
    Some {| LongModel.lt_kind := LongModel.TkLongComment;
            LongModel.lt_text := 45%N :: 45%N :: LongSpec.opener n ++ body ++ LongSpec.closer n;
            LongModel.lt_rest := rest; LongModel.lt_err := false |}.
Proof. exact LongProofs.long_comment_complete. Qed.

(** a lexer that also swallows the ']' following a closing bracket of the WRONG level reports
    "unfinished long string" on the valid string [=[a]]=] *)
Theorem long_greedy_refuted : exists n body, LongSpec.long_body n body /\
    exists t, LongModel.lex_long true (LongSpec.opener n ++ body ++ LongSpec.closer n) = Some t /\ LongModel.lt_err t = true.
Proof. exact LongProofs.long_greedy_refuted. Qed.

(** the two defects this property had before the repairs (kept as theorems about the old predicates):
    "\u{D800}" was reported by the checker, and "\z<VT><LF>" was an "unfinished string" *)
Theorem string_escape_old_refuted :
  exists s, LexSpec.short_string LexSpec.Lua54 s /\ LexModel.check_string_old s = false.
Proof. exact LexProofs.string_escape_old_refuted. Qed.

Theorem string_z_vtab_refuted :
  exists s, LexSpec.short_string LexSpec.Lua54 s /\
    exists t, LexModel.lex_quoted LexModel.std_features LexModel.lexer_zsp s = Some t /\ LexModel.tk_err t = true.
Proof. exact LexProofs.string_z_vtab_refuted. Qed.

(* ------------------------------------------------------------------------------------------ *)
(** non-vacuity: derivations of  2 ^ - 3 ^ 2 ,  1 + 2 * 3 .. 4  and of a small chunk, and what the model
    computes on them *)
Definition lit := GenProofs.lit.

Example precedence_example :
  (* 2 ^ - 3 ^ 2  =  2 ^ (- (3 ^ 2)) *)
  gen_expr Lua54 100 [TInt; TPow; TMinus; TInt; TPow; TInt]
    = Ok (N KBinary [lit; L TPow; N KUnary [L TMinus; N KBinary [lit; L TPow; lit]]]) []
  (* 1 + 2 * 3 .. 4  =  (1 + (2 * 3)) .. 4 ,  and  1 .. 2 .. 3 = 1 .. (2 .. 3) *)
  /\ gen_expr Lua54 100 [TInt; TPlus; TInt; TMul; TInt; TConcat; TInt]
    = Ok (N KBinary [N KBinary [lit; L TPlus; N KBinary [lit; L TMul; lit]]; L TConcat; lit]) []
  /\ gen_expr Lua54 100 [TInt; TConcat; TInt; TConcat; TInt]
    = Ok (N KBinary [lit; L TConcat; N KBinary [lit; L TConcat; lit]]) []
  (* not a == b  =  (not a) == b *)
  /\ gen_expr Lua54 100 [TNot; TName; TEq; TName]
    = Ok (N KBinary [N KUnary [L TNot; N KName [L TName]]; L TEq; N KName [L TName]]) []
  (* // is a lexer error at 5.1 *)
  /\ gen_expr Lua51 100 [TInt; TIDiv; TInt] = Err
  (* a chunk: local x <const> = f(1) ; return x  — attribs need 5.4 *)
  /\ (exists t, gen_chunk Lua54 100 [TLocal; TName; TLt; TName; TGt; TAssign; TName; TLParen; TInt; TRParen; TSemi; TReturn; TName] = Ok t [])
  /\ gen_chunk Lua53 100 [TLocal; TName; TLt; TName; TGt; TAssign; TInt] = Err.
Proof. exact GenProofs.precedence_example. Qed.

Example derivation_example : forall lv, E (gen_features lv) 1 2 [TInt; TPlus; TInt; TPlus; TInt] (Proofs.plus_tree 2).
Proof. exact GenProofs.derivation_example. Qed.
