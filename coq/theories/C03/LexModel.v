(** C03/LexModel.v — lexical layer of "valid Lua is never reported as a syntax error":
    numeric literals and short strings, lexer side and checker side.  Executable definitions only.

    Transcribed (function for function, quirks included) from
      crates/emmylua_parser/src/lexer/lua_lexer.rs      : [lex] (dispatch), [lex_number], [lex_string], [lex_new_line]
      crates/emmylua_parser/src/syntax/node/token/number_analyzer.rs : [int_token_value], [float_token_value]
      crates/emmylua_code_analysis/src/diagnostic/checker/syntax_error.rs : [check_normal_string_error]
      crates/emmylua_parser/src/text/reader.rs          : [current_char], [next_char], [bump], [is_eof]

    Reader.  The unread part of the input is a [text] (list of code points).  [is_eof] is decided by
    position (reader.rs: [current_buffer_byte_pos + current_buffer_byte_len >= text.len()]), i.e. the
    unread part is [[]]; [current_char()]/[next_char()] return ['\0'] past the end ([hd 0]); [bump] does
    nothing at EOF ([tl [] = []]).  A NUL inside the text is an ordinary character.

    Language levels.  For Lua 5.1 .. 5.4 (kind/lua_features.rs, [features_lua51] .. [features_lua54]) the
    features BinaryInteger, UnderscoreNumber, ComplexNumber, LLInteger and StringInterpolation are all
    off: [std_features].  The branches are modelled, the theorems are about [std_features].

    Only ACCEPTANCE (Ok / Err) of the checker-side functions is modelled, not the numeric values.

    ------------------------------------------------------------------------------------------------
    Trusted std models (Rust standard library, modelled from its documentation, NOT proved here):
      T1. [char::is_ascii_digit], [char::is_ascii_hexdigit], [char::to_digit(radix)] : [is_digit],
          [is_hexdigit], [digit_val].
      T2. [char::is_alphabetic] (Unicode Alphabetic) is a PARAMETER [alpha] of [lex_number]; the only
          facts used are the hypotheses of the theorems (the character after the numeral is not
          alphabetic) and ['\0'.is_alphabetic() = false] (the EOF sentinel).
      T3. [char::is_whitespace] (Unicode White_Space): [is_whitespace] (the table of Unicode 15).
      T4. [{i64,u64,u32,u8}::from_str_radix(s, radix)] and [str::parse::<i64/u64>()] (= radix 10):
          [from_str_radix]: Empty on [""]; a lone ["+"]/["-"] is InvalidDigit; an optional ['+'] (and
          ['-'] for signed types) is removed; digits are accumulated left to right, a character that is
          not a digit of the radix is InvalidDigit, exceeding the type's range is PosOverflow
          (NegOverflow after ['-']).
      T5. [str::parse::<f64>()]: [f64_ok], the documented grammar
            Number ::= [sign] ( 'inf' | 'infinity' | 'nan' | Dec Exp? )      (case-insensitive words)
            Dec    ::= Digit+ | Digit+ '.' Digit* | Digit* '.' Digit+
            Exp    ::= ('e'|'E') [sign] Digit+
      T6. [str::find(char)], [str::starts_with], [str::replace('_',"")], [Iterator::take(n)],
          [take_while], [Peekable::peek], [chars().rev()] : [find_split], [starts2], [strip_us],
          [firstn]/[skipn], [span_ne], [skip_digits], [rev].
      T7. The hexadecimal branch of [float_token_value] contains no [?], no [Err] and no panicking
          operation (all slices are at positions of ASCII characters found by [find]; every parse
          result goes through [unwrap_or]/[if let Ok]): it is modelled as "always Ok".
    ------------------------------------------------------------------------------------------------ *)
From EV Require Export Base.Text.
Local Open Scope N_scope.
(** [cp] and [text] of Base.Text are used as what they are, [N] and [list N], so that every list in
    these files is built with the same type argument *)
Local Notation cp := N (only parsing).
Local Notation text := (list N) (only parsing).

(** * character classes *)

(** [char::is_ascii_digit] *)
Definition is_digit (c : cp) : bool := (48 <=? c) && (c <=? 57).
(** [char::is_ascii_hexdigit] / the pattern ['0'..='9' | 'a'..='f' | 'A'..='F'] *)
Definition is_hexdigit (c : cp) : bool :=
  is_digit c || ((97 <=? c) && (c <=? 102)) || ((65 <=? c) && (c <=? 70)).
(** [matches!(c, 'e' | 'E')] *)
Definition is_e (c : cp) : bool := (c =? 101) || (c =? 69).
(** [matches!(c, 'P' | 'p')] *)
Definition is_p (c : cp) : bool := (c =? 112) || (c =? 80).
(** [matches!(c, '+' | '-')] *)
Definition is_sign (c : cp) : bool := (c =? 43) || (c =? 45).
(** [matches!(c, 'i' | 'I')] *)
Definition is_i (c : cp) : bool := (c =? 105) || (c =? 73).
(** [matches!(c, 'u' | 'U' | 'l' | 'L')] *)
Definition is_ul (c : cp) : bool := (c =? 117) || (c =? 85) || (c =? 108) || (c =? 76).
(** [c == 'u' || c == 'U'] *)
Definition is_u (c : cp) : bool := (c =? 117) || (c =? 85).
(** ASCII letters: what [char::is_alphabetic] is below 128 (used by LexCorr only) *)
Definition ascii_letter (c : cp) : bool :=
  ((97 <=? c) && (c <=? 122)) || ((65 <=? c) && (c <=? 90)).

(** [char::is_whitespace] : Unicode White_Space (T3) *)
Definition is_whitespace (c : cp) : bool :=
  ((9 <=? c) && (c <=? 13)) || (c =? 32) || (c =? 133) || (c =? 160) || (c =? 5760)
  || ((8192 <=? c) && (c <=? 8202)) || (c =? 8232) || (c =? 8233) || (c =? 8239)
  || (c =? 8287) || (c =? 12288).

(** * language features (kind/lua_features.rs) consulted by the lexical layer *)
Record features : Type := {
  f_binary : bool;       (* LuaFeatures::BinaryInteger *)
  f_underscore : bool;   (* LuaFeatures::UnderscoreNumber *)
  f_complex : bool;      (* LuaFeatures::ComplexNumber *)
  f_ll : bool;           (* LuaFeatures::LLInteger *)
  f_interp : bool        (* LuaFeatures::StringInterpolation *)
}.

(** [features_lua51] .. [features_lua54]: none of the above *)
Definition std_features : features :=
  {| f_binary := false; f_underscore := false; f_complex := false; f_ll := false; f_interp := false |}.

(** token kinds produced by the modelled functions *)
Inductive tkind : Type := TkInt | TkFloat | TkComplex | TkString | TkUnknown.

(** * [lex_number] *)

(** [enum NumberState] *)
Inductive nstate : Type := SInt | SFloat | SHex | SHexFloat | SExpo | SBin.

(** outcome of one iteration of the main loop of [lex_number]:
    [NBreak]: [continue_ = false];
    [NCont st]: [continue_ = true] (one [bump]) with the new state;
    [NContSign st]: the exponent letter was bumped because [next_char()] is a sign, then
    [continue_ = true] bumps the sign as well. *)
Inductive nstep : Type := NBreak | NCont (st : nstate) | NContSign (st : nstate).

(** [if matches!(self.reader.next_char(), '+' | '-') { self.reader.bump(); } state = WithExpo; true] *)
Definition exp_step (next : cp) : nstep := if is_sign next then NContSign SExpo else NCont SExpo.

(** [let continue_ = match state { .. }] *)
Definition num_step (st : nstate) (ch next : cp) : nstep :=
  match st with
  | SInt => if is_digit ch then NCont SInt
            else if ch =? 46 then NCont SFloat
            else if is_e ch then exp_step next else NBreak
  | SFloat => if is_digit ch then NCont SFloat
              else if is_e ch then exp_step next else NBreak
  | SHex => if is_hexdigit ch then NCont SHex
            else if ch =? 46 then NCont SHexFloat
            else if is_p ch then exp_step next else NBreak
  | SHexFloat => if is_hexdigit ch then NCont SHexFloat
                 else if is_p ch then exp_step next else NBreak
  | SExpo => if is_digit ch then NCont SExpo else NBreak
  | SBin => if (ch =? 48) || (ch =? 49) then NCont SBin else NBreak
  end.

(** result of a scanning loop: final state, characters moved into the buffer, unread part *)
Record nrun : Type := { nr_st : nstate; nr_tok : text; nr_rest : text }.

Definition ncons (c : cp) (x : nrun) : nrun :=
  {| nr_st := nr_st x; nr_tok := c :: nr_tok x; nr_rest := nr_rest x |}.

(** [while !self.reader.is_eof() { .. }] of [lex_number]; structural in the unread part *)
Fixpoint num_loop (ft : features) (st : nstate) (input : text) : nrun :=
  match input with
  | [] => {| nr_st := st; nr_tok := []; nr_rest := [] |}
  | ch :: tl =>
      if f_underscore ft && (ch =? 95) then ncons ch (num_loop ft st tl)
      else match num_step st ch (hd 0 tl) with
           | NBreak => {| nr_st := st; nr_tok := []; nr_rest := input |}
           | NCont st' => ncons ch (num_loop ft st' tl)
           | NContSign st' =>
               match tl with
               | [] => {| nr_st := st'; nr_tok := [ch]; nr_rest := [] |}   (* unreachable: next is a sign *)
               | sg :: tl' => ncons ch (ncons sg (num_loop ft st' tl'))
               end
           end
  end.

(** the ['0' => loop { .. }] arm: after a leading ['0'] *)
Fixpoint zero_prefix (ft : features) (input : text) : nrun :=
  match input with
  | [] => {| nr_st := SInt; nr_tok := []; nr_rest := [] |}
  | ch :: tl =>
      if (ch =? 120) || (ch =? 88) then {| nr_st := SHex; nr_tok := [ch]; nr_rest := tl |}
      else if f_binary ft && ((ch =? 98) || (ch =? 66))
      then {| nr_st := SBin; nr_tok := [ch]; nr_rest := tl |}
      else if f_underscore ft && (ch =? 95) then ncons ch (zero_prefix ft tl)
      else {| nr_st := SInt; nr_tok := []; nr_rest := input |}
  end.

(** put one more character in front of the first component (the recursive result is used once, so
    evaluation is linear) *)
Definition scons (c : cp) (x : text * text) : text * text := (c :: fst x, snd x).

(** [reader.eat_while(p)] on the unread part: (eaten, unread) *)
Fixpoint span (p : cp -> bool) (t : text) : text * text :=
  match t with
  | [] => ([], [])
  | c :: r => if p c then scons c (span p r) else ([], t)
  end.

(** a token: kind, text ([reader.current_text()]), unread part, "an error was pushed" *)
Record token : Type := { tk_kind : tkind; tk_text : text; tk_rest : text; tk_err : bool }.

(** [match first { '0' => loop { .. }, '.' => { state = Float }, _ => {} }] after the first [bump] *)
Definition num_start (ft : features) (first : cp) (r1 : text) : nrun :=
  if first =? 48 then zero_prefix ft r1
  else if first =? 46 then {| nr_st := SFloat; nr_tok := []; nr_rest := r1 |}
  else {| nr_st := SInt; nr_tok := []; nr_rest := r1 |}.

(** the token kind chosen by the final [match state] *)
Definition kind_of_state (st : nstate) : tkind :=
  match st with SInt | SHex => TkInt | _ => TkFloat end.

(** [fn lex_number]; [alpha] is [char::is_alphabetic] (T2) *)
Definition lex_number (ft : features) (alpha : cp -> bool) (input : text) : token :=
  let first := hd 0 input in
  let r1 := tl input in                                  (* bump *)
  let fst_tok := match input with [] => [] | c :: _ => [c] end in
  let z := num_start ft first r1 in
  let m := num_loop ft (nr_st z) (nr_rest z) in
  let txt := fst_tok ++ nr_tok z ++ nr_tok m in
  let r3 := nr_rest m in
  if f_complex ft && is_i (hd 0 r3)
  then {| tk_kind := TkComplex; tk_text := txt ++ firstn 1 r3; tk_rest := tl r3; tk_err := false |}
  else if f_ll ft && match nr_st m with SInt | SHex | SBin => true | _ => false end
  then {| tk_kind := TkInt; tk_text := txt ++ fst (span is_ul r3); tk_rest := snd (span is_ul r3);
          tk_err := false |}
  else {| tk_kind := kind_of_state (nr_st m);
          tk_text := txt; tk_rest := r3;
          (* [if self.reader.current_char().is_alphabetic() { self.error(..) }]; ['\0'] is not alphabetic *)
          tk_err := match r3 with [] => false | c :: _ => alpha c end |}.

(** [fn lex], the arms that start a number: ['0'..='9'] and ['.'] followed by an ASCII digit *)
Definition starts_number (input : text) : bool :=
  match input with
  | [] => false
  | c :: tl => is_digit c || ((c =? 46) && is_digit (hd 0 tl))
  end.

(** * [lex_string] *)

(** the closure given to [eat_while] after [\z] is a parameter [zsp] of the model of [lex_string].
    [lexer_zsp]: the original closure [c == ' ' || c == '\t' || c == '\r' || c == '\n'], which stops
    at VT / FF although Lua's [lisspace] skips them (refuted: [string_z_vtab_refuted]);
    [lexer_zsp_fixed]: the repaired closure, with ['\x0B'] and ['\x0C'] added. *)
Definition lexer_zsp (c : cp) : bool := (c =? 32) || (c =? 9) || (c =? 13) || (c =? 10).
Definition lexer_zsp_fixed (c : cp) : bool := lexer_zsp c || (c =? 11) || (c =? 12).


(** the [while !self.reader.is_eof() { .. }] loop of [lex_string]: (characters bumped, unread part).
    [zsp] is the closure given to [eat_while] after [\z].  The nested [eat_while] is expressed by the
    flag [skip] ("we are inside the eat_while that follows \z"): while it is set, a [zsp] character is
    bumped; the first other character ends the [eat_while] and is handled by the loop body proper.
    The [lex_new_line] call is inlined: LF [CR] / CR [LF]. *)
Fixpoint str_loop (zsp : cp -> bool) (q : cp) (skip : bool) (input : text) : text * text :=
  match input with
  | [] => ([], [])
  | ch :: tl =>
      if skip && zsp ch then scons ch (str_loop zsp q true tl)
      else if (ch =? q) || (ch =? 10) || (ch =? 13) then ([], input)          (* break *)
      else if negb (ch =? 92) then scons ch (str_loop zsp q false tl)          (* bump; continue *)
      else match tl with                                                       (* bump the backslash *)
           | [] => ([ch], [])                      (* current = '\0': [_ => bump] does nothing; EOF *)
           | c2 :: tl2 =>
               if c2 =? 122 then scons ch (scons c2 (str_loop zsp q true tl2))       (* 'z' *)
               else if c2 =? 10 then                                                 (* lex_new_line *)
                 match tl2 with
                 | c3 :: tl3 => if c3 =? 13 then scons ch (scons c2 (scons c3 (str_loop zsp q false tl3)))
                                else scons ch (scons c2 (str_loop zsp q false tl2))
                 | [] => scons ch (scons c2 (str_loop zsp q false tl2))
                 end
               else if c2 =? 13 then
                 match tl2 with
                 | c3 :: tl3 => if c3 =? 10 then scons ch (scons c2 (scons c3 (str_loop zsp q false tl3)))
                                else scons ch (scons c2 (str_loop zsp q false tl2))
                 | [] => scons ch (scons c2 (str_loop zsp q false tl2))
                 end
               else scons ch (scons c2 (str_loop zsp q false tl2))                   (* _ => bump *)
           end
  end.

(** [fn lex_string(quote)], started after the opening quote: the token text is what was bumped
    (without the opening quote); error = "unfinished string" *)
Definition lex_string (zsp : cp -> bool) (q : cp) (input : text) : token :=
  let sl := str_loop zsp q false input in
  let body := fst sl in
  let r := snd sl in
  match r with
  | c :: r' => if c =? q
               then {| tk_kind := TkString; tk_text := body ++ [q]; tk_rest := r'; tk_err := false |}
               else {| tk_kind := TkString; tk_text := body; tk_rest := r; tk_err := true |}
  | [] => {| tk_kind := TkString; tk_text := body; tk_rest := []; tk_err := true |}   (* '\0' != quote *)
  end.

(** [fn lex], the arm for the three quote characters (double quote 34, single quote 39, backquote 96): [None] when the input does not start with a quote *)
Definition lex_quoted (ft : features) (zsp : cp -> bool) (input : text) : option token :=
  match input with
  | [] => None
  | q :: tl =>
      if (q =? 34) || (q =? 39) || (q =? 96) then
        if (q =? 96) && negb (f_interp ft)
        then Some {| tk_kind := TkUnknown; tk_text := [q]; tk_rest := tl; tk_err := false |}
        else let t := lex_string zsp q tl in
             Some {| tk_kind := tk_kind t; tk_text := q :: tk_text t; tk_rest := tk_rest t;
                     tk_err := tk_err t |}
      else None
  end.

(** * Rust integer parsing (T1, T4) *)

Inductive int_err : Type := IEmpty | IInvalidDigit | IPosOverflow | INegOverflow.
Inductive int_res : Type := IOk (v : N) | IErr (e : int_err).    (* [IOk v]: magnitude *)

(** [char::to_digit(radix)] *)
Definition digit_val (radix : N) (c : cp) : option N :=
  let v := if is_digit c then Some (c - 48)
           else if (97 <=? c) && (c <=? 122) then Some (c - 87)
           else if (65 <=? c) && (c <=? 90) then Some (c - 55)
           else None in
  match v with
  | Some d => if d <? radix then Some d else None
  | None => None
  end.

(** digit loop: [limit] is the largest magnitude, [ovf] the overflow kind *)
Fixpoint parse_digits (radix limit : N) (ovf : int_err) (acc : N) (ds : text) : int_res :=
  match ds with
  | [] => IOk acc
  | c :: r => match digit_val radix c with
              | None => IErr IInvalidDigit
              | Some d => if limit <? acc * radix + d then IErr ovf
                          else parse_digits radix limit ovf (acc * radix + d) r
              end
  end.

(** [T::from_str_radix(src, radix)]; [maxpos]/[maxneg] are [T::MAX] and [|T::MIN|] *)
Definition from_str_radix (signed : bool) (radix maxpos maxneg : N) (src : text) : int_res :=
  match src with
  | [] => IErr IEmpty
  | c :: r =>
      if (c =? 43) || (c =? 45) then
        match r with
        | [] => IErr IInvalidDigit
        | _ => if c =? 43 then parse_digits radix maxpos IPosOverflow 0 r
               else if signed then parse_digits radix maxneg INegOverflow 0 r
               else parse_digits radix maxpos IPosOverflow 0 src
        end
      else parse_digits radix maxpos IPosOverflow 0 src
  end.

Definition i64_max : N := 9223372036854775807.
Definition i64_negmax : N := 9223372036854775808.
Definition u64_max : N := 18446744073709551615.
Definition u32_max : N := 4294967295.
Definition u8_max : N := 255.

Definition i64_from_str_radix (radix : N) (s : text) : int_res :=
  from_str_radix true radix i64_max i64_negmax s.
Definition u64_from_str_radix (radix : N) (s : text) : int_res :=
  from_str_radix false radix u64_max 0 s.
Definition u32_from_str_radix (radix : N) (s : text) : int_res :=
  from_str_radix false radix u32_max 0 s.
Definition u8_from_str_radix (radix : N) (s : text) : int_res :=
  from_str_radix false radix u8_max 0 s.

(** * Rust float parsing, acceptance only (T5) *)

Definition lower (c : cp) : cp := if (65 <=? c) && (c <=? 90) then c + 32 else c.

Fixpoint text_eqb (a b : text) : bool :=
  match a, b with
  | [], [] => true
  | x :: a', y :: b' => (x =? y) && text_eqb a' b'
  | _, _ => false
  end.

Definition strip_sign (t : text) : text :=
  match t with
  | c :: r => if is_sign c then r else t
  | [] => t
  end.

(** [Exp?] then end of input *)
Definition f64_exp_ok (t : text) : bool :=
  match t with
  | [] => true
  | e :: r => is_e e && match strip_sign r with
                        | [] => false
                        | d :: ds => forallb is_digit (d :: ds)
                        end
  end.

(** [s.parse::<f64>().is_ok()] *)
Definition f64_ok (s : text) : bool :=
  let t := strip_sign s in
  let w := map lower t in
  if text_eqb w [105; 110; 102] || text_eqb w [105; 110; 102; 105; 110; 105; 116; 121]
     || text_eqb w [110; 97; 110] then true
  else
    let ip := fst (span is_digit t) in
    let r1 := snd (span is_digit t) in
    let no_point := match ip with [] => false | _ => f64_exp_ok r1 end in
    match r1 with
    | c :: r2 =>
        if c =? 46 then
          let fp := fst (span is_digit r2) in
          let r3 := snd (span is_digit r2) in
          match ip, fp with
          | [], [] => false
          | _, _ => f64_exp_ok r3
          end
        else no_point
    | [] => no_point
    end.

(** * [int_token_value] / [float_token_value], acceptance only *)

(** [if raw.contains('_') { raw.replace('_', "") } else { raw.to_string() }] *)
Definition strip_us (t : text) : text := filter (fun c => negb (c =? 95)) t.

(** [text.starts_with([a, b1]) || text.starts_with([a, b2])] *)
Definition starts2 (t : text) (a b1 b2 : cp) : bool :=
  match t with
  | x :: y :: _ => (x =? a) && ((y =? b1) || (y =? b2))
  | _ => false
  end.
Definition hex_prefixed (t : text) : bool := starts2 t 48 120 88.
Definition bin_prefixed (t : text) : bool := starts2 t 48 98 66.

Inductive int_repr : Type := RNormal | RHex | RBin.

(** [fn int_token_value]: [true] = [Ok(_)], [false] = [Err(_)] *)
Definition int_token_ok (raw : text) : bool :=
  let text := strip_us raw in
  let repr := if hex_prefixed text then RHex else if bin_prefixed text then RBin else RNormal in
  (* [for c in text.chars().rev()]: the run of trailing u/U/l/L *)
  let suffix := fst (span is_ul (rev text)) in
  let is_luajit_unsigned := existsb is_u suffix in
  let text := rev (snd (span is_ul (rev text))) in          (* [&text[..text.len() - suffix_count]] *)
  let radix := match repr with RHex => 16 | RBin => 2 | RNormal => 10 end in
  let digits := match repr with RNormal => text | _ => skipn 2 text end in
  match i64_from_str_radix radix digits with
  | IOk _ => true
  | IErr IPosOverflow | IErr INegOverflow =>
      if is_luajit_unsigned then
        match u64_from_str_radix radix digits with
        | IOk _ => true
        | IErr _ => false                                   (* "malformed number" *)
        end
      else match repr with
           | RHex | RBin => true                            (* wraps, or becomes a float *)
           | RNormal => f64_ok text                         (* else "malformed number" *)
           end
  | IErr _ => false                                         (* "Failed to parse integer literal" *)
  end.

(** [s.find(c)] then [(&s[..pos], &s[pos+1..])] *)
Fixpoint find_split (c : cp) (t : text) : option (text * text) :=
  match t with
  | [] => None
  | x :: r => if x =? c then Some ([], r)
              else match find_split c r with
                   | Some (a, b) => Some (x :: a, b)
                   | None => None
                   end
  end.

(** [fn float_token_value]: [true] = [Ok(_)] *)
Definition float_token_ok (raw : text) : bool :=
  let text := strip_us raw in
  if hex_prefixed text then true                            (* T7 *)
  else
    let float_part :=
      match find_split 101 text with                        (* text.find('e').or_else(|| text.find('E')) *)
      | Some (a, _) => a
      | None => match find_split 69 text with
                | Some (a, _) => a
                | None => text
                end
      end in
    f64_ok float_part.

(** the checker's arm for a number token of kind [k] *)
Definition number_token_ok (k : tkind) (raw : text) : bool :=
  match k with
  | TkInt => int_token_ok raw
  | TkFloat => float_token_ok raw
  | _ => true
  end.

(** * [check_normal_string_error] *)

(** ['a' | 'b' | 'f' | 'n' | 'r' | 't' | 'v' | backslash | single quote | double quote | CR | LF] *)
Definition chk_simple (c : cp) : bool :=
  (c =? 97) || (c =? 98) || (c =? 102) || (c =? 110) || (c =? 114) || (c =? 116) || (c =? 118)
  || (c =? 92) || (c =? 39) || (c =? 34) || (c =? 13) || (c =? 10).

(** [chars.by_ref().take_while(|c| *c != stop)]: (collected, remaining); the stop character is consumed *)
Fixpoint span_ne (stop : cp) (t : text) : text * text :=
  match t with
  | [] => ([], [])
  | c :: r => if c =? stop then ([], r) else scons c (span_ne stop r)
  end.

(** [for _ in 0..n { if let Some(d) = chars.peek() { if !d.is_ascii_digit() { break; } chars.next(); } }] *)
Fixpoint skip_digits (n : nat) (t : text) : text :=
  match n with
  | O => t
  | S n' => match t with
            | c :: r => if is_digit c then skip_digits n' r else t
            | [] => []
            end
  end.

(** [while let Some(c) = chars.peek() { if !c.is_whitespace() { break; } chars.next(); }] *)
Fixpoint drop_ws (t : text) : text :=
  match t with
  | c :: r => if is_whitespace c then drop_ws r else t
  | [] => []
  end.

(** [while let Some(c) = chars.next() { .. }]: [true] = fell out of the loop / [break] ([Ok(())]),
    [false] = [return Err(..)].  [ubad cp] is the test applied to a [\u{..}] value that parsed as [u32].
    [fuel]: every iteration consumes at least one character, so [length chars] is enough. *)
Fixpoint chk_loop (ubad : N -> bool) (fuel : nat) (delim : cp) (chars : text) : bool :=
  match fuel with
  | O => true
  | S fuel' =>
      match chars with
      | [] => true
      | c :: r =>
          if c =? 92 then
            match r with
            | [] => true                                           (* [chars.next()] is [None] *)
            | n :: r2 =>
                if chk_simple n then chk_loop ubad fuel' delim r2
                else if n =? 120 then                              (* 'x' *)
                  let hex := firstn 2 r2 in
                  if (bytes hex =? 2) && forallb is_hexdigit hex then
                    match u8_from_str_radix 16 hex with
                    | IErr _ => false
                    | IOk _ => chk_loop ubad fuel' delim (skipn 2 r2)
                    end
                  else false
                else if n =? 117 then                              (* 'u' *)
                  match r2 with
                  | [] => true
                  | b :: r3 =>
                      if b =? 123 then
                        let hex := fst (span_ne 125 r3) in
                        let r4 := snd (span_ne 125 r3) in
                        match u32_from_str_radix 16 hex with
                        | IOk v => if ubad v then false else chk_loop ubad fuel' delim r4
                        | IErr _ => chk_loop ubad fuel' delim r4
                        end
                      else chk_loop ubad fuel' delim r3
                  end
                else if is_digit n then chk_loop ubad fuel' delim (skip_digits 2 r2)
                else if n =? 122 then chk_loop ubad fuel' delim (drop_ws r2)      (* 'z' *)
                else chk_loop ubad fuel' delim r2
            end
          else if c =? delim then true                             (* break *)
          else chk_loop ubad fuel' delim r
      end
  end.

(** [fn check_normal_string_error]: [true] = [Ok(())] *)
Definition check_string (ubad : N -> bool) (tok : text) : bool :=
  if bytes tok <? 2 then true
  else match tok with
       | [] => true
       | delim :: r => chk_loop ubad (length r) delim r
       end.

(** the test applied to a [\u{..}] value is a parameter [ubad] of the model.
    [ubad_max umax]: the repaired test, error iff the code point is above [umax] (Lua 5.4: 0x7FFFFFFF) *)
Definition ubad_max (umax : N) (v : N) : bool := umax <? v.
Definition lua54_umax : N := 2147483647.       (* 0x7FFFFFFF *)
(** the original test [std::char::from_u32(code_point).is_none()]: surrogates and values above 0x10FFFF *)
Definition ubad_old (v : N) : bool := ((55296 <=? v) && (v <=? 57343)) || (1114111 <? v).

Definition check_string_umax (umax : N) (tok : text) : bool := check_string (ubad_max umax) tok.
Definition check_string_old (tok : text) : bool := check_string ubad_old tok.
