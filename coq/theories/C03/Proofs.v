(** C03/Proofs.v — assembly of the completeness proof and the top-level statements. *)
From Coq Require Import List Bool Arith Lia.
Import ListNotations.
From EV Require Import C03.Syntax C03.Spec C03.Model C03.Facts C03.Complete C03.CompleteExpr C03.CompleteStat C03.CompleteStat2.

Section Assembly.
  Variable binop_of : tok -> option binop.
  Variable unop_of : tok -> option unop.
  Variable bl br : binop -> nat.
  Variable up : nat.
  Variable FT : features.
  Variable MAXLVL : nat.
  Hypothesis Htab : table_ok binop_of unop_of bl br up = true.

  Local Notation PE := (Complete.PE binop_of unop_of bl br up FT MAXLVL).
  Local Notation PS := (Complete.PS binop_of unop_of bl br up FT MAXLVL).
  Local Notation PP := (Complete.PP binop_of unop_of bl br up FT MAXLVL).
  Local Notation PSuf := (Complete.PSuf binop_of unop_of bl br up FT MAXLVL).
  Local Notation PA := (Complete.PA binop_of unop_of bl br up FT MAXLVL).
  Local Notation PET := (Complete.PET binop_of unop_of bl br up FT MAXLVL).
  Local Notation PT := (Complete.PT binop_of unop_of bl br up FT MAXLVL).
  Local Notation PFT := (Complete.PFT binop_of unop_of bl br up FT MAXLVL).
  Local Notation PF := (Complete.PF binop_of unop_of bl br up FT MAXLVL).
  Local Notation PB := (Complete.PB binop_of unop_of bl br up FT MAXLVL).
  Local Notation PSR := (Complete.PSR binop_of unop_of bl br up FT MAXLVL).
  Local Notation PSt := (Complete.PSt binop_of unop_of bl br up FT MAXLVL).
  Local Notation PSB := (Complete.PSB binop_of unop_of bl br up FT MAXLVL).
  Local Notation PVT := (Complete.PVT binop_of unop_of bl br up FT MAXLVL).
  Local Notation PIT := (Complete.PIT binop_of unop_of bl br up FT MAXLVL).
  Local Notation PFS := (Complete.PFS binop_of unop_of bl br up FT MAXLVL).

  Ltac use L := intros; eapply L; eassumption.

  Theorem complete_all :
    (forall m d ts t, E FT m d ts t -> PE m d ts t) /\
    (forall d ts t, Simple FT d ts t -> PS d ts t) /\
    (forall d ts t, Primary FT d ts t -> PP d ts t) /\
    (forall d cm ts t, Suf FT d cm ts t -> PSuf d cm ts t) /\
    (forall d ts t, ArgsR FT d ts t -> PA d ts t) /\
    (forall d ts trs, ExpTail FT d ts trs -> PET d ts trs) /\
    (forall d ts t, TableR FT d ts t -> PT d ts t) /\
    (forall d ts trs, FieldsTail FT d ts trs -> PFT d ts trs) /\
    (forall d ts t, FieldR FT d ts t -> PF d ts t) /\
    (forall d ts trs, BlockR FT d ts trs -> PB d ts trs) /\
    (forall d ts trs, StatsR FT d ts trs -> PSR d ts trs) /\
    (forall d ts t k, Stat FT d ts t k -> PSt d ts t k) /\
    (forall d ts t k, StatB FT d ts t k -> PSB d ts t k) /\
    (forall d ts trs, VarsTail FT d ts trs -> PVT d ts trs) /\
    (forall d ts trs, IfTail FT d ts trs -> PIT d ts trs) /\
    (forall d ts trs, ForStep FT d ts trs -> PFS d ts trs).
  Proof.
    apply (grammar_mutind FT PE PS PP PSuf PA PET PT PFT PF PB PSR PSt PSB PVT PIT PFS).
    (* exp *)
    - use (Complete.case_E_up binop_of unop_of bl br up FT MAXLVL).
    - use (Complete.case_E_binl binop_of unop_of bl br up FT MAXLVL Htab).
    - use (Complete.case_E_binr binop_of unop_of bl br up FT MAXLVL Htab).
    - use (Complete.case_E_pow binop_of unop_of bl br up FT MAXLVL Htab).
    - use (Complete.case_E_un binop_of unop_of bl br up FT MAXLVL Htab).
    - use (Complete.case_E_simple binop_of unop_of bl br up FT MAXLVL Htab).
    (* simpleexp *)
    - use (CompleteExpr.case_S_lit binop_of unop_of bl br up FT MAXLVL).
    - use (CompleteExpr.case_S_table binop_of unop_of bl br up FT MAXLVL).
    - use (CompleteExpr.case_S_func binop_of unop_of bl br up FT MAXLVL).
    - use (CompleteExpr.case_S_suffixed binop_of unop_of bl br up FT MAXLVL).
    (* primaryexp *)
    - use (CompleteExpr.case_P_name binop_of unop_of bl br up FT MAXLVL).
    - use (CompleteExpr.case_P_paren binop_of unop_of bl br up FT MAXLVL Htab).
    (* suffixes *)
    - use (CompleteExpr.case_Suf_nil binop_of unop_of bl br up FT MAXLVL).
    - use (CompleteExpr.case_Suf_field binop_of unop_of bl br up FT MAXLVL).
    - use (CompleteExpr.case_Suf_index binop_of unop_of bl br up FT MAXLVL Htab).
    - use (CompleteExpr.case_Suf_method binop_of unop_of bl br up FT MAXLVL).
    - use (CompleteExpr.case_Suf_call binop_of unop_of bl br up FT MAXLVL).
    (* args *)
    - use (CompleteExpr.case_A_empty binop_of unop_of bl br up FT MAXLVL).
    - use (CompleteExpr.case_A_list binop_of unop_of bl br up FT MAXLVL Htab).
    - use (CompleteExpr.case_A_table binop_of unop_of bl br up FT MAXLVL).
    - use (CompleteExpr.case_A_string binop_of unop_of bl br up FT MAXLVL).
    - use (CompleteExpr.case_A_longstring binop_of unop_of bl br up FT MAXLVL).
    (* explist tail *)
    - use (CompleteExpr.case_ET_nil binop_of unop_of bl br up FT MAXLVL).
    - use (CompleteExpr.case_ET_cons binop_of unop_of bl br up FT MAXLVL Htab).
    (* tables *)
    - use (CompleteExpr.case_T_empty binop_of unop_of bl br up FT MAXLVL).
    - use (CompleteExpr.case_T_fields binop_of unop_of bl br up FT MAXLVL).
    - use (CompleteExpr.case_FT_nil binop_of unop_of bl br up FT MAXLVL).
    - use (CompleteExpr.case_FT_trailing binop_of unop_of bl br up FT MAXLVL).
    - use (CompleteExpr.case_FT_cons binop_of unop_of bl br up FT MAXLVL).
    - use (CompleteExpr.case_F_index binop_of unop_of bl br up FT MAXLVL Htab).
    - use (CompleteExpr.case_F_name binop_of unop_of bl br up FT MAXLVL Htab).
    - use (CompleteExpr.case_F_pos binop_of unop_of bl br up FT MAXLVL Htab).
    (* blocks *)
    - use (CompleteStat.case_B_empty binop_of unop_of bl br up FT MAXLVL).
    - use (CompleteStat.case_B_stats binop_of unop_of bl br up FT MAXLVL).
    - use (CompleteStat.case_SR_nil binop_of unop_of bl br up FT MAXLVL).
    - use (CompleteStat.case_SR_cons binop_of unop_of bl br up FT MAXLVL).
    - use (CompleteStat.case_St_intro binop_of unop_of bl br up FT MAXLVL).
    (* statements *)
    - use (CompleteStat2.case_SB_empty binop_of unop_of bl br up FT MAXLVL).
    - use (CompleteStat2.case_SB_assign binop_of unop_of bl br up FT MAXLVL Htab).
    - use (CompleteStat2.case_SB_call binop_of unop_of bl br up FT MAXLVL).
    - use (CompleteStat2.case_SB_label binop_of unop_of bl br up FT MAXLVL).
    - use (CompleteStat2.case_SB_break binop_of unop_of bl br up FT MAXLVL).
    - use (CompleteStat2.case_SB_goto binop_of unop_of bl br up FT MAXLVL).
    - use (CompleteStat2.case_SB_do binop_of unop_of bl br up FT MAXLVL).
    - use (CompleteStat2.case_SB_while binop_of unop_of bl br up FT MAXLVL Htab).
    - use (CompleteStat2.case_SB_repeat binop_of unop_of bl br up FT MAXLVL Htab).
    - use (CompleteStat2.case_SB_if binop_of unop_of bl br up FT MAXLVL Htab).
    - use (CompleteStat2.case_SB_fornum binop_of unop_of bl br up FT MAXLVL Htab).
    - use (CompleteStat2.case_SB_forin binop_of unop_of bl br up FT MAXLVL Htab).
    - use (CompleteStat2.case_SB_function binop_of unop_of bl br up FT MAXLVL).
    - use (CompleteStat2.case_SB_localfunction binop_of unop_of bl br up FT MAXLVL).
    - use (CompleteStat2.case_SB_local binop_of unop_of bl br up FT MAXLVL).
    - use (CompleteStat2.case_SB_localinit binop_of unop_of bl br up FT MAXLVL Htab).
    - use (CompleteStat2.case_SB_return0 binop_of unop_of bl br up FT MAXLVL).
    - use (CompleteStat2.case_SB_return binop_of unop_of bl br up FT MAXLVL Htab).
    (* tails *)
    - use (CompleteStat2.case_VT_nil binop_of unop_of bl br up FT MAXLVL).
    - use (CompleteStat2.case_VT_cons binop_of unop_of bl br up FT MAXLVL).
    - use (CompleteStat2.case_IT_nil binop_of unop_of bl br up FT MAXLVL).
    - use (CompleteStat2.case_IT_else binop_of unop_of bl br up FT MAXLVL).
    - use (CompleteStat2.case_IT_elseif binop_of unop_of bl br up FT MAXLVL Htab).
    - use (CompleteStat2.case_FS_none binop_of unop_of bl br up FT MAXLVL).
    - use (CompleteStat2.case_FS_some binop_of unop_of bl br up FT MAXLVL Htab).
  Qed.

  Local Notation expr := (Model.expr binop_of unop_of bl br up FT MAXLVL).
  Local Notation chunk := (Model.chunk binop_of unop_of bl br up FT MAXLVL).
  Local Notation sub_expr := (Model.sub_expr binop_of unop_of bl br up FT MAXLVL).
  Local Notation stats := (Model.stats binop_of unop_of bl br up FT MAXLVL).

  (** every expression of the grammar, followed by anything that cannot continue it, is parsed without
      error into the tree the grammar gives it *)
  Lemma expr_complete_rest : forall d ts t rest lvl,
    E FT 1 d ts t -> lvl + d <= MAXLVL -> nosuffixb rest = true -> nobinopb rest = true ->
    exists n, forall f, n <= f -> sub_expr f lvl 0 (ts ++ rest) = Ok t rest.
  Proof.
    intros d ts t rest lvl H Hl Hs Hb. destruct complete_all as [HE _].
    apply (Complete.pe_top binop_of unop_of bl br up FT MAXLVL Htab d ts t (HE 1 d ts t H) lvl rest Hs Hb Hl).
  Qed.

  Lemma expr_complete : forall d ts t,
    E FT 1 d ts t -> d <= MAXLVL -> exists n, forall f, n <= f -> expr f ts = Ok t [].
  Proof.
    intros d ts t H Hl. destruct (expr_complete_rest d ts t [] 0 H Hl eq_refl eq_refl) as [n Hn].
    exists n. intros f Hf. unfold Model.expr. rewrite <- (app_nil_r ts). apply Hn. exact Hf.
  Qed.

  (** every chunk of the grammar is parsed without error into the tree the grammar gives it *)
  Lemma chunk_complete : forall d ts t,
    ChunkR FT d ts t -> d <= MAXLVL -> exists n, forall f, n <= f -> chunk f ts = Ok t [].
  Proof.
    intros d ts t H Hl. inversion H as [d0 ts0 b Hb]; subst.
    destruct complete_all as (_ & _ & _ & _ & _ & _ & _ & _ & _ & _ & HSR & _).
    inversion Hb; subst.
    - exists 1. intros f Hf. destruct f as [|f]; [lia|]. reflexivity.
    - match goal with Hs : StatsR _ _ _ _ |- _ => pose proof (HSR _ _ _ Hs 0 [] [] eq_refl Hl) as [n Hn] end.
      exists n. intros f Hf. unfold Model.chunk. rewrite <- (app_nil_r ts). rewrite (Hn f Hf). reflexivity.
  Qed.
End Assembly.

(* ------------------------------------------------------------------------------------------ *)
(** * trees of unbounded height from flat input: the chain 1 + 1 + ... + 1 *)
Fixpoint plus_toks (n : nat) : list tok :=
  match n with 0 => [TInt] | S k => plus_toks k ++ [TPlus; TInt] end.
Fixpoint plus_tree (n : nat) : tree :=
  match n with
  | 0 => N KLiteral [L TInt]
  | S k => N KBinary [plus_tree k; L TPlus; N KLiteral [L TInt]]
  end.

Lemma plus_tree_height : forall n, height (plus_tree n) = n + 2.
Proof.
  induction n as [|n IH]; [reflexivity|]. cbn [plus_tree height]. rewrite IH. cbn [height]. lia.
Qed.

Lemma plus_toks_length : forall n, length (plus_toks n) = 2 * n + 1.
Proof. induction n as [|n IH]; [reflexivity|]. cbn [plus_toks]. rewrite app_length, IH. cbn [length]. lia. Qed.

Lemma lit_E : forall ft m, m <= 13 -> E ft m 1 [TInt] (N KLiteral [L TInt]).
Proof.
  intros ft m Hm. remember (13 - m) as k eqn:Hk. revert m Hm Hk.
  induction k as [|k IH]; intros m Hm Hk.
  - assert (m = 13) by lia. subst m. apply (E_simple ft 1 0); [apply S_lit; reflexivity|lia].
  - apply E_up; [lia|]. apply IH; lia.
Qed.

Lemma plus_chain_E9 : forall ft n, E ft 9 2 (plus_toks n) (plus_tree n).
Proof.
  intros ft. induction n as [|n IH].
  - apply E_up; [lia|]. apply (E_up ft 10); [lia|]. apply (E_up ft 11); [lia|]. apply (E_up ft 12); [lia|].
    apply (E_simple ft 2 0); [apply S_lit; reflexivity|lia].
  - cbn [plus_toks plus_tree].
    apply (E_binl ft 9 2 1 OpAdd (plus_toks n) (plus_tree n) [TInt] (N KLiteral [L TInt])); try reflexivity; try lia.
    + exact IH.
    + apply lit_E. lia.
Qed.

Lemma plus_chain_E : forall ft n, E ft 1 2 (plus_toks n) (plus_tree n).
Proof.
  intros ft n. do 8 (apply E_up; [lia|]). apply plus_chain_E9.
Qed.
