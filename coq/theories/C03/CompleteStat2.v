(** C03/CompleteStat2.v — completeness cases for the statements. *)
From Coq Require Import List Bool Arith Lia.
Import ListNotations.
From EV Require Import C03.Syntax C03.Spec C03.Model C03.Facts C03.Complete C03.CompleteExpr C03.CompleteStat.

Section CompleteStat2.
  Variable binop_of : tok -> option binop.
  Variable unop_of : tok -> option unop.
  Variable bl br : binop -> nat.
  Variable up : nat.
  Variable FT : features.
  Variable MAXLVL : nat.
  Hypothesis Htab : table_ok binop_of unop_of bl br up = true.

  Local Notation sub_expr := (Model.sub_expr binop_of unop_of bl br up FT MAXLVL).
  Local Notation simple_expr := (Model.simple_expr binop_of unop_of bl br up FT MAXLVL).
  Local Notation closure_expr := (Model.closure_expr binop_of unop_of bl br up FT MAXLVL).
  Local Notation expr_list_tail := (Model.expr_list_tail binop_of unop_of bl br up FT MAXLVL).
  Local Notation block := (Model.block binop_of unop_of bl br up FT MAXLVL).
  Local Notation stats := (Model.stats binop_of unop_of bl br up FT MAXLVL).
  Local Notation stat := (Model.stat binop_of unop_of bl br up FT MAXLVL).
  Local Notation if_tail := (Model.if_tail binop_of unop_of bl br up FT MAXLVL).
  Local Notation for_body := (Model.for_body binop_of unop_of bl br up FT MAXLVL).
  Local Notation assign_targets := (Model.assign_targets binop_of unop_of bl br up FT MAXLVL).
  Local Notation PE := (Complete.PE binop_of unop_of bl br up FT MAXLVL).
  Local Notation PS := (Complete.PS binop_of unop_of bl br up FT MAXLVL).
  Local Notation PET := (Complete.PET binop_of unop_of bl br up FT MAXLVL).
  Local Notation PB := (Complete.PB binop_of unop_of bl br up FT MAXLVL).
  Local Notation PSR := (Complete.PSR binop_of unop_of bl br up FT MAXLVL).
  Local Notation PSt := (Complete.PSt binop_of unop_of bl br up FT MAXLVL).
  Local Notation PSB := (Complete.PSB binop_of unop_of bl br up FT MAXLVL).
  Local Notation PVT := (Complete.PVT binop_of unop_of bl br up FT MAXLVL).
  Local Notation PIT := (Complete.PIT binop_of unop_of bl br up FT MAXLVL).
  Local Notation PFS := (Complete.PFS binop_of unop_of bl br up FT MAXLVL).
  Local Notation pe_top := (Complete.pe_top binop_of unop_of bl br up FT MAXLVL Htab).
  Local Notation ev_closure := (CompleteExpr.ev_closure binop_of unop_of bl br up FT MAXLVL).

  Local Notation stat_follow := Complete.stat_follow.
  Local Notation afterstatb := Complete.afterstatb.
  Local Notation exprendb := Complete.exprendb.
  Local Notation stats_S := (CompleteStat.stats_S binop_of unop_of bl br up FT MAXLVL).
  Local Notation lvl_ok' := (CompleteStat.lvl_ok' MAXLVL).
  Local Notation ev_explist := (CompleteStat.ev_explist binop_of unop_of bl br up FT MAXLVL Htab).
  Local Notation stat_S_semi := (CompleteStat.stat_S_semi binop_of unop_of bl br up FT MAXLVL).
  Local Notation stat_S_break := (CompleteStat.stat_S_break binop_of unop_of bl br up FT MAXLVL).
  Local Notation stat_S_goto := (CompleteStat.stat_S_goto binop_of unop_of bl br up FT MAXLVL).
  Local Notation stat_S_label := (CompleteStat.stat_S_label binop_of unop_of bl br up FT MAXLVL).
  Local Notation stat_S_do := (CompleteStat.stat_S_do binop_of unop_of bl br up FT MAXLVL).
  Local Notation stat_S_while := (CompleteStat.stat_S_while binop_of unop_of bl br up FT MAXLVL).
  Local Notation stat_S_repeat := (CompleteStat.stat_S_repeat binop_of unop_of bl br up FT MAXLVL).
  Local Notation stat_S_if := (CompleteStat.stat_S_if binop_of unop_of bl br up FT MAXLVL).
  Local Notation stat_S_fornum := (CompleteStat.stat_S_fornum binop_of unop_of bl br up FT MAXLVL).
  Local Notation stat_S_forin := (CompleteStat.stat_S_forin binop_of unop_of bl br up FT MAXLVL).
  Local Notation stat_S_function := (CompleteStat.stat_S_function binop_of unop_of bl br up FT MAXLVL).
  Local Notation stat_S_localfunction := (CompleteStat.stat_S_localfunction binop_of unop_of bl br up FT MAXLVL).
  Local Notation stat_S_local := (CompleteStat.stat_S_local binop_of unop_of bl br up FT MAXLVL).
  Local Notation stat_S_return := (CompleteStat.stat_S_return binop_of unop_of bl br up FT MAXLVL).
  Local Notation stat_S_expr := (CompleteStat.stat_S_expr binop_of unop_of bl br up FT MAXLVL).

  (* ---------------------------------------------------------------------------------------- *)
  (** ** statements *)
  Tactic Notation "stat_step" constr(eqn) constr(Hl) :=
    cbn [app]; eapply ev_S; [intros f; rewrite eqn, (lvl_ok' _ _ Hl); reflexivity|].

  (** exp {',' exp} inside a statement, continuation form *)
  Lemma ev_explist_k : forall (B : Type) d te e tes es lvl rest (k : nat -> list tree -> list tok -> res B) (X : res B),
    PE 1 d te e -> ExpTail FT d tes es -> PET d tes es -> exprendb rest = true -> lvl + d <= MAXLVL ->
    ev (fun f => k f (e :: es) rest) X ->
    ev (fun f => bind (sub_expr f lvl 0 (te ++ tes ++ rest))
                      (fun e0 r1 => bind (expr_list_tail f lvl [e0] r1) (k f))) X.
  Proof.
    intros B d te e tes es lvl rest k X IHe Ht IHt Hr Hl HX.
    assert (Hnext : nosuffixb (tes ++ rest) = true /\ nobinopb (tes ++ rest) = true).
    { inversion Ht; subst; [apply CompleteStat.exprendb_split; exact Hr|split; reflexivity]. }
    eapply (ev_bind _ _ (fun f => sub_expr f lvl 0 (te ++ tes ++ rest))
                    (fun f e0 r1 => bind (expr_list_tail f lvl [e0] r1) (k f))).
    - apply (pe_top d _ _ IHe); try assumption; apply Hnext.
    - cbn beta. eapply (ev_bind _ _ (fun f => expr_list_tail f lvl [e] (tes ++ rest)) k).
      + apply (IHt lvl [e] rest Hr Hl).
      + exact HX.
  Qed.

  Lemma case_SB_empty : forall d, PSB d [TSemi] (N KEmpty [L TSemi]) FAny.
  Proof. intros d lvl rest _ _ Hl. stat_step stat_S_semi Hl. apply ev_const. Qed.

  Lemma case_SB_label : forall d, f_goto FT = true ->
    PSB d [TDbColon; TName; TDbColon] (N KLabel [L TDbColon; L TName; L TDbColon]) FAny.
  Proof. intros d _ lvl rest _ _ Hl. stat_step stat_S_label Hl. apply ev_const. Qed.

  Lemma case_SB_break : forall d semi,
    PSB d (TBreak :: semi_toks semi) (N KBreak (L TBreak :: semi_trees semi)) (semi_kind semi FNoSemi).
  Proof.
    intros d semi lvl rest Hf _ Hl. norm_app. stat_step stat_S_break Hl.
    rewrite (opt_semi_ok semi FNoSemi rest) by (try discriminate; exact Hf). apply ev_const.
  Qed.

  Lemma case_SB_goto : forall d semi, f_goto FT = true ->
    PSB d (TGoto :: TName :: semi_toks semi) (N KGoto (L TGoto :: L TName :: semi_trees semi)) (semi_kind semi FNoSemi).
  Proof.
    intros d semi _ lvl rest Hf _ Hl. norm_app. stat_step stat_S_goto Hl.
    rewrite (opt_semi_ok semi FNoSemi rest) by (try discriminate; exact Hf). apply ev_const.
  Qed.

  (** 'end' [';'] closing a statement node *)
  Lemma ev_end_semi : forall semi k rest (g : list tree -> tree), k <> FAny ->
    stat_follow (semi_kind semi k) rest = true ->
    (let '(sm, r3) := opt_semi (semi_toks semi ++ rest) in Ok (g sm) r3) = Ok (g (semi_trees semi)) rest.
  Proof. intros semi k rest g Hk Hf. rewrite (opt_semi_ok semi k rest Hk Hf). reflexivity. Qed.

  Lemma case_SB_do : forall d tb b semi, BlockR FT d tb b -> PB d tb b ->
    PSB d (TDo :: tb ++ TEnd :: semi_toks semi) (N KDo (L TDo :: b ++ L TEnd :: semi_trees semi)) (semi_kind semi FNoSemi).
  Proof.
    intros d tb b semi _ IH lvl rest Hf _ Hl. norm_app. stat_step stat_S_do Hl.
    eapply (ev_bind _ _ (fun f => block f (S lvl) (tb ++ TEnd :: semi_toks semi ++ rest))).
    - apply IH; [reflexivity|exact Hl].
    - cbv beta iota. rewrite (ev_end_semi semi FNoSemi rest (fun sm => N KDo (L TDo :: b ++ L TEnd :: sm))) by (try discriminate; exact Hf).
      apply ev_const.
  Qed.

  (** `if current != TkEnd && current != TkEof { parse_block }` before an 'end' *)
  Lemma ev_block_opt_end : forall d tb b lvl rest, BlockR FT d tb b -> PB d tb b -> lvl + d <= MAXLVL ->
    ev (fun f => if at_end (tb ++ TEnd :: rest) then Ok [] (tb ++ TEnd :: rest) else block f lvl (tb ++ TEnd :: rest))
       (Ok b (TEnd :: rest)).
  Proof.
    intros d tb b lvl rest Hb IH Hl.
    destruct (BlockR_cases _ _ _ _ Hb) as [[-> ->] | (x & r & -> & Hx & _)].
    - cbn [app]. change (at_end (TEnd :: rest)) with true. cbv iota. apply ev_const.
    - cbn [app at_end]. rewrite (block_follow_not_end x Hx).
      apply (IH lvl (TEnd :: rest)); [reflexivity|exact Hl].
  Qed.

  (** `if !block_follow { parse_block }` before something that ends a block *)
  Lemma ev_block_opt_follow : forall d tb b lvl rest, BlockR FT d tb b -> PB d tb b -> lvl + d <= MAXLVL ->
    block_follow rest = true ->
    ev (fun f => if block_follow (tb ++ rest) then Ok [] (tb ++ rest) else block f lvl (tb ++ rest)) (Ok b rest).
  Proof.
    intros d tb b lvl rest Hb IH Hl Hr.
    destruct (BlockR_cases _ _ _ _ Hb) as [[-> ->] | (x & r & -> & Hx & _)].
    - cbn [app]. rewrite Hr. apply ev_const.
    - rewrite block_follow_app, Hx. apply (IH lvl rest Hr Hl).
  Qed.

  Lemma case_SB_while : forall d te e tb b semi,
    E FT 1 d te e -> PE 1 d te e -> BlockR FT d tb b -> PB d tb b ->
    PSB d (TWhile :: te ++ TDo :: tb ++ TEnd :: semi_toks semi)
        (N KWhile (L TWhile :: e :: L TDo :: b ++ L TEnd :: semi_trees semi)) (semi_kind semi FNoSemi).
  Proof.
    intros d te e tb b semi _ IHe Hb IHb lvl rest Hf _ Hl. norm_app. stat_step stat_S_while Hl.
    eapply (ev_bind _ _ (fun f => sub_expr f (S lvl) 0 (te ++ TDo :: tb ++ TEnd :: semi_toks semi ++ rest))).
    - apply (pe_top d _ _ IHe); try assumption; reflexivity.
    - cbn beta. cbv iota.
      eapply (ev_bind _ _ (fun f => if at_end (tb ++ TEnd :: semi_toks semi ++ rest) then Ok [] (tb ++ TEnd :: semi_toks semi ++ rest)
                                    else block f (S lvl) (tb ++ TEnd :: semi_toks semi ++ rest))).
      + apply (ev_block_opt_end d tb b (S lvl) _ Hb IHb Hl).
      + cbv beta iota.
        rewrite (ev_end_semi semi FNoSemi rest (fun sm => N KWhile (L TWhile :: e :: L TDo :: b ++ L TEnd :: sm))) by (try discriminate; exact Hf).
        apply ev_const.
  Qed.

  Lemma case_SB_repeat : forall d tb b te e semi,
    BlockR FT d tb b -> PB d tb b -> E FT 1 d te e -> PE 1 d te e ->
    PSB d (TRepeat :: tb ++ TUntil :: te ++ semi_toks semi)
        (N KRepeat (L TRepeat :: b ++ L TUntil :: e :: semi_trees semi)) (semi_kind semi FExpr).
  Proof.
    intros d tb b te e semi _ IHb _ IHe lvl rest Hf Ha Hl. norm_app. stat_step stat_S_repeat Hl.
    eapply (ev_bind _ _ (fun f => block f (S lvl) (tb ++ TUntil :: te ++ semi_toks semi ++ rest))).
    - apply IHb; [reflexivity|exact Hl].
    - cbn beta. cbv iota.
      eapply (ev_bind _ _ (fun f => sub_expr f (S lvl) 0 (te ++ semi_toks semi ++ rest))).
      + apply (pe_top d _ _ IHe); try assumption; apply (exprendb_split _ (expr_stmt_end semi rest Hf Ha)).
      + cbn beta. rewrite (opt_semi_ok semi FExpr rest) by (try discriminate; exact Hf). apply ev_const.
  Qed.

  Lemma IfTail_head : forall d ts trs rest, IfTail FT d ts trs -> block_follow (ts ++ TEnd :: rest) = true.
  Proof. intros d ts trs rest H. inversion H; subst; reflexivity. Qed.

  Lemma case_SB_if : forall d te e tb b tcs cs semi,
    E FT 1 d te e -> PE 1 d te e -> BlockR FT d tb b -> PB d tb b -> IfTail FT d tcs cs -> PIT d tcs cs ->
    PSB d (TIf :: te ++ TThen :: tb ++ tcs ++ TEnd :: semi_toks semi)
        (N KIf (L TIf :: e :: L TThen :: b ++ cs ++ L TEnd :: semi_trees semi)) (semi_kind semi FNoSemi).
  Proof.
    intros d te e tb b tcs cs semi _ IHe Hb IHb Ht IHt lvl rest Hf _ Hl. norm_app. stat_step stat_S_if Hl.
    eapply (ev_bind _ _ (fun f => sub_expr f (S lvl) 0 (te ++ TThen :: tb ++ tcs ++ TEnd :: semi_toks semi ++ rest))).
    - apply (pe_top d _ _ IHe); try assumption; reflexivity.
    - cbn beta. cbv iota.
      eapply (ev_bind _ _ (fun f => if block_follow (tb ++ tcs ++ TEnd :: semi_toks semi ++ rest)
                                    then Ok [] (tb ++ tcs ++ TEnd :: semi_toks semi ++ rest)
                                    else block f (S lvl) (tb ++ tcs ++ TEnd :: semi_toks semi ++ rest))).
      + apply (ev_block_opt_follow d tb b (S lvl) _ Hb IHb Hl). apply (IfTail_head _ _ _ _ Ht).
      + cbn beta.
        eapply (ev_bind _ _ (fun f => if_tail f (S lvl) (L TIf :: e :: L TThen :: b) (tcs ++ TEnd :: semi_toks semi ++ rest))).
        * apply (IHt (S lvl) (L TIf :: e :: L TThen :: b) (semi_toks semi ++ rest) Hl).
        * cbv beta iota.
          rewrite (ev_end_semi semi FNoSemi rest (fun sm => N KIf (((L TIf :: e :: L TThen :: b) ++ cs) ++ L TEnd :: sm))) by (try discriminate; exact Hf).
          eapply ev_eq; [|apply ev_const]. norm_app. reflexivity.
  Qed.

  (** parse_for: 'do' [block] 'end' [';'] *)
  Lemma ev_for_body : forall d k acc tb b semi lvl rest, BlockR FT d tb b -> PB d tb b -> lvl + d <= MAXLVL ->
    stat_follow (semi_kind semi FNoSemi) rest = true ->
    ev (fun f => for_body f lvl k acc (TDo :: tb ++ TEnd :: semi_toks semi ++ rest))
       (Ok (N k (acc ++ L TDo :: b ++ L TEnd :: semi_trees semi)) rest).
  Proof.
    intros d k acc tb b semi lvl rest Hb IHb Hl Hf.
    eapply ev_S; [intros f; cbn [Model.for_body]; reflexivity|].
    eapply (ev_bind _ _ (fun f => if at_end (tb ++ TEnd :: semi_toks semi ++ rest) then Ok [] (tb ++ TEnd :: semi_toks semi ++ rest)
                                  else block f lvl (tb ++ TEnd :: semi_toks semi ++ rest))).
    - apply (ev_block_opt_end d tb b lvl _ Hb IHb Hl).
    - cbv beta iota.
      rewrite (ev_end_semi semi FNoSemi rest (fun sm => N k (acc ++ L TDo :: b ++ L TEnd :: sm))) by (try discriminate; exact Hf).
      apply ev_const.
  Qed.

  Lemma case_SB_fornum : forall d t1 e1 t2 e2 tstep step tb b semi,
    E FT 1 d t1 e1 -> PE 1 d t1 e1 -> E FT 1 d t2 e2 -> PE 1 d t2 e2 -> ForStep FT d tstep step -> PFS d tstep step ->
    BlockR FT d tb b -> PB d tb b ->
    PSB d (TFor :: TName :: TAssign :: t1 ++ TComma :: t2 ++ tstep ++ TDo :: tb ++ TEnd :: semi_toks semi)
        (N KFor (L TFor :: L TName :: L TAssign :: e1 :: L TComma :: e2 :: step ++ L TDo :: b ++ L TEnd :: semi_trees semi))
        (semi_kind semi FNoSemi).
  Proof.
    intros d t1 e1 t2 e2 tstep step tb b semi _ IH1 _ IH2 Hs IHs Hb IHb lvl rest Hf _ Hl. norm_app.
    stat_step stat_S_fornum Hl.
    eapply (ev_bind _ _ (fun f => sub_expr f (S lvl) 0 (t1 ++ TComma :: t2 ++ tstep ++ TDo :: tb ++ TEnd :: semi_toks semi ++ rest))).
    - apply (pe_top d _ _ IH1); try assumption; reflexivity.
    - cbn beta. cbv iota.
      eapply (ev_bind _ _ (fun f => sub_expr f (S lvl) 0 (t2 ++ tstep ++ TDo :: tb ++ TEnd :: semi_toks semi ++ rest))).
      + apply (pe_top d _ _ IH2); try assumption; inversion Hs; subst; reflexivity.
      + cbn beta.
        eapply (ev_bind _ _ (fun f => if hd_is TComma (tstep ++ TDo :: tb ++ TEnd :: semi_toks semi ++ rest)
                                      then bind (sub_expr f (S lvl) 0 (tl (tstep ++ TDo :: tb ++ TEnd :: semi_toks semi ++ rest)))
                                                (fun e3 r6 => Ok [L TComma; e3] r6)
                                      else Ok [] (tstep ++ TDo :: tb ++ TEnd :: semi_toks semi ++ rest))).
        * apply (IHs (S lvl) (tb ++ TEnd :: semi_toks semi ++ rest) Hl).
        * cbn beta.
          eapply ev_eq; [|apply (ev_for_body d KFor _ tb b semi (S lvl) rest Hb IHb Hl Hf)].
          cbn [app]. reflexivity.
  Qed.

  Lemma case_SB_forin : forall d tn ns te e tes es tb b semi,
    NamesTail tn ns -> E FT 1 d te e -> PE 1 d te e -> ExpTail FT d tes es -> PET d tes es -> BlockR FT d tb b -> PB d tb b ->
    PSB d (TFor :: TName :: tn ++ TIn :: te ++ tes ++ TDo :: tb ++ TEnd :: semi_toks semi)
        (N KForRange (L TFor :: L TName :: ns ++ L TIn :: e :: es ++ L TDo :: b ++ L TEnd :: semi_trees semi))
        (semi_kind semi FNoSemi).
  Proof.
    intros d tn ns te e tes es tb b semi Hn _ IHe Ht IHt Hb IHb lvl rest Hf _ Hl. norm_app.
    assert (Hx : exists x r, tn ++ TIn :: te ++ tes ++ TDo :: tb ++ TEnd :: semi_toks semi ++ rest = x :: r /\ (x = TComma \/ x = TIn)).
    { inversion Hn; subst; do 2 eexists; (split; [reflexivity|tauto]). }
    destruct Hx as (x & r & Heq & Hx).
    eapply ev_S with (h := fun f =>
        bind (for_names_tail (tn ++ TIn :: te ++ tes ++ TDo :: tb ++ TEnd :: semi_toks semi ++ rest) [])
             (fun ns0 r2 =>
                match r2 with
                | TIn :: r3 =>
                    bind (sub_expr f (S lvl) 0 r3)
                         (fun e0 r4 => bind (expr_list_tail f (S lvl) [e0] r4)
                                            (fun es0 r5 => for_body f (S lvl) KForRange (L TFor :: L TName :: ns0 ++ L TIn :: es0) r5))
                | _ => Err
                end)).
    - intros f. rewrite Heq. rewrite (stat_S_forin f lvl x r Hx), (lvl_ok' _ _ Hl). reflexivity.
    - rewrite (for_names_tail_ok _ _ Hn). cbn [bind]. cbv iota. cbn [app].
      apply (ev_explist_k _ d te e tes es (S lvl) (TDo :: tb ++ TEnd :: semi_toks semi ++ rest)
                          (fun f es0 r5 => for_body f (S lvl) KForRange (L TFor :: L TName :: ns ++ L TIn :: es0) r5) _
                          IHe Ht IHt eq_refl Hl).
      eapply ev_eq; [|apply (ev_for_body d KForRange _ tb b semi (S lvl) rest Hb IHb Hl Hf)].
      norm_app. reflexivity.
  Qed.

  Lemma case_SB_function : forall d tn n tp p tb b semi,
    FuncName tn n -> ParList tp p -> BlockR FT d tb b -> PB d tb b ->
    PSB d (TFunction :: tn ++ tp ++ tb ++ TEnd :: semi_toks semi)
        (N KFunc (L TFunction :: n :: N KClosure (p :: b ++ [L TEnd]) :: semi_trees semi)) (semi_kind semi FNoSemi).
  Proof.
    intros d tn n tp p tb b semi Hn Hp Hb IHb lvl rest Hf _ Hl. norm_app. stat_step stat_S_function Hl.
    destruct (ParList_first _ _ Hp) as [rp Hrp].
    assert (Hfn : func_name (tn ++ tp ++ tb ++ TEnd :: semi_toks semi ++ rest) = Ok n (tp ++ tb ++ TEnd :: semi_toks semi ++ rest)).
    { rewrite Hrp. cbn [app]. apply (func_name_ok _ _ Hn). }
    rewrite Hfn. cbn [bind].
    eapply (ev_bind _ _ (fun f => closure_expr f (S lvl) (tp ++ tb ++ TEnd :: semi_toks semi ++ rest))).
    - apply (ev_closure d tp p tb b false Hp Hb IHb (S lvl) (semi_toks semi ++ rest) Hl).
    - cbn beta. cbn [app].
      rewrite (ev_end_semi semi FNoSemi rest (fun sm => N KFunc (L TFunction :: n :: N KClosure (p :: b ++ [L TEnd]) :: sm))) by (try discriminate; exact Hf).
      apply ev_const.
  Qed.

  Lemma case_SB_localfunction : forall d tp p tb b semi,
    ParList tp p -> BlockR FT d tb b -> PB d tb b ->
    PSB d (TLocal :: TFunction :: TName :: tp ++ tb ++ TEnd :: semi_toks semi)
        (N KLocalFunc (L TLocal :: L TFunction :: N KLocalName [L TName] :: N KClosure (p :: b ++ [L TEnd]) :: semi_trees semi))
        (semi_kind semi FNoSemi).
  Proof.
    intros d tp p tb b semi Hp Hb IHb lvl rest Hf _ Hl. norm_app. stat_step stat_S_localfunction Hl.
    destruct (ParList_first _ _ Hp) as [rp Hrp].
    assert (Hln : local_name FT false (TName :: tp ++ tb ++ TEnd :: semi_toks semi ++ rest)
                  = Ok (N KLocalName [L TName]) (tp ++ tb ++ TEnd :: semi_toks semi ++ rest)).
    { rewrite Hrp. reflexivity. }
    rewrite Hln. cbn [bind].
    eapply (ev_bind _ _ (fun f => closure_expr f (S lvl) (tp ++ tb ++ TEnd :: semi_toks semi ++ rest))).
    - apply (ev_closure d tp p tb b false Hp Hb IHb (S lvl) (semi_toks semi ++ rest) Hl).
    - cbn beta. cbn [app].
      rewrite (ev_end_semi semi FNoSemi rest
                 (fun sm => N KLocalFunc (L TLocal :: L TFunction :: N KLocalName [L TName] :: N KClosure (p :: b ++ [L TEnd]) :: sm)))
        by (try discriminate; exact Hf).
      apply ev_const.
  Qed.

  Lemma AttName_first : forall tn n, AttName FT tn n -> exists r, tn = TName :: r.
  Proof. intros tn n H. inversion H; subst; eexists; reflexivity. Qed.

  Lemma afterstat_semi : forall semi rest, afterstatb rest = true ->
    nameendb (semi_toks semi ++ rest) = true /\ hd_is TAssign (semi_toks semi ++ rest) = false.
  Proof.
    intros semi rest Ha. destruct semi; [split; reflexivity|]. cbn [semi_toks app].
    destruct rest as [|x r]; [split; reflexivity|]. cbn in Ha.
    apply andb_true_iff in Ha. destruct Ha as [Ha H3]. apply andb_true_iff in Ha. destruct Ha as [H1 H2].
    apply negb_true_iff in H1. apply negb_true_iff in H2. apply negb_true_iff in H3.
    split; [|rewrite hd_is_cons; exact H1]. destruct x; try reflexivity; discriminate.
  Qed.

  Lemma nameend_lt : forall ts, nameendb ts = true -> hd_is TLt ts = false.
  Proof. intros [|x r] H; [reflexivity|]. destruct x; try reflexivity; discriminate. Qed.

  Lemma AttNamesTail_lt : forall ts trs rest, AttNamesTail FT ts trs -> hd_is TLt rest = false -> hd_is TLt (ts ++ rest) = false.
  Proof. intros ts trs rest H Hr. inversion H; subst; [exact Hr|reflexivity]. Qed.

  (** the names of a local statement *)
  Lemma ev_local_names : forall tn n tns ns rest, AttName FT tn n -> AttNamesTail FT tns ns -> nameendb rest = true ->
    exists r, tn ++ tns ++ rest = TName :: r /\
    local_name FT true (tn ++ tns ++ rest) = Ok n (tns ++ rest) /\
    local_names_tail FT (tns ++ rest) [n] = Ok (n :: ns) rest.
  Proof.
    intros tn n tns ns rest Hn Hns Hr. destruct (AttName_first _ _ Hn) as [r0 Heq].
    exists (r0 ++ tns ++ rest). split; [rewrite Heq; reflexivity|]. split.
    - apply (local_name_ok _ _ _ Hn). apply (AttNamesTail_lt _ _ _ Hns). apply nameend_lt. exact Hr.
    - apply (local_names_tail_ok _ _ _ Hns [n] rest Hr).
  Qed.

  Lemma case_SB_local : forall d tn n tns ns semi,
    AttName FT tn n -> AttNamesTail FT tns ns ->
    PSB d (TLocal :: tn ++ tns ++ semi_toks semi) (N KLocal (L TLocal :: n :: ns ++ semi_trees semi)) (semi_kind semi FNoSemi).
  Proof.
    intros d tn n tns ns semi Hn Hns lvl rest Hf Ha Hl. norm_app.
    destruct (afterstat_semi semi rest Ha) as [Hne Hna].
    destruct (ev_local_names tn n tns ns (semi_toks semi ++ rest) Hn Hns Hne) as (r & Heq & H1 & H2).
    eapply ev_S; [intros f; rewrite Heq, stat_S_local, <- Heq, (lvl_ok' _ _ Hl), H1; cbn [bind]; rewrite H2; cbn [bind]; rewrite Hna; cbn [bind]; reflexivity|].
    rewrite (ev_end_semi semi FNoSemi rest (fun sm => N KLocal (L TLocal :: (n :: ns) ++ [] ++ sm))) by (try discriminate; exact Hf).
    eapply ev_eq; [|apply ev_const]. cbn [app]. reflexivity.
  Qed.

  Lemma case_SB_localinit : forall d tn n tns ns te e tes es semi,
    AttName FT tn n -> AttNamesTail FT tns ns -> E FT 1 d te e -> PE 1 d te e -> ExpTail FT d tes es -> PET d tes es ->
    PSB d (TLocal :: tn ++ tns ++ TAssign :: te ++ tes ++ semi_toks semi)
        (N KLocal (L TLocal :: n :: ns ++ L TAssign :: e :: es ++ semi_trees semi)) (semi_kind semi FExpr).
  Proof.
    intros d tn n tns ns te e tes es semi Hn Hns _ IHe Ht IHt lvl rest Hf Ha Hl. norm_app.
    destruct (ev_local_names tn n tns ns (TAssign :: te ++ tes ++ semi_toks semi ++ rest) Hn Hns eq_refl) as (r & Heq & H1 & H2).
    eapply ev_S; [intros f; rewrite Heq, stat_S_local, <- Heq, (lvl_ok' _ _ Hl), H1; cbn [bind]; rewrite H2; cbn [bind];
                  rewrite hd_is_hit; cbn [tl]; reflexivity|].
    eapply (ev_bind _ _ (fun f => bind (sub_expr f (S lvl) 0 (te ++ tes ++ semi_toks semi ++ rest))
                                       (fun e0 r4 => bind (expr_list_tail f (S lvl) [e0] r4) (fun es0 r5 => Ok (L TAssign :: es0) r5)))).
    - apply (ev_explist_k _ d te e tes es (S lvl) (semi_toks semi ++ rest) (fun f es0 r5 => Ok (L TAssign :: es0) r5) _ IHe Ht IHt
                          (expr_stmt_end semi rest Hf Ha) Hl).
      apply ev_const.
    - cbn beta.
      rewrite (ev_end_semi semi FExpr rest (fun sm => N KLocal (L TLocal :: (n :: ns) ++ (L TAssign :: e :: es) ++ sm))) by (try discriminate; exact Hf).
      eapply ev_eq; [|apply ev_const]. norm_app. reflexivity.
  Qed.

  Lemma block_follow_semi : forall rest, block_follow rest = true -> hd_is TSemi rest = false.
  Proof. intros [|x r] H; [reflexivity|]. destruct x; try discriminate; reflexivity. Qed.

  Lemma return_semi : forall semi rest, block_follow rest = true ->
    opt_semi (semi_toks semi ++ rest) = (semi_trees semi, rest).
  Proof.
    intros semi rest H. destruct semi; [reflexivity|]. cbn [semi_toks semi_trees app]. unfold opt_semi.
    rewrite (block_follow_semi rest H). reflexivity.
  Qed.

  Lemma case_SB_return0 : forall d semi,
    PSB d (TReturn :: semi_toks semi) (N KReturn (L TReturn :: semi_trees semi)) FLast.
  Proof.
    intros d semi lvl rest Hf _ Hl. cbn [Complete.stat_follow] in Hf. norm_app. stat_step stat_S_return Hl.
    assert (Hc : (block_follow (semi_toks semi ++ rest) || hd_is TSemi (semi_toks semi ++ rest)) = true).
    { destruct semi; [reflexivity|]. cbn [semi_toks app]. rewrite Hf. reflexivity. }
    rewrite Hc. cbn [bind]. rewrite (return_semi semi rest Hf), Hf. apply ev_const.
  Qed.

  Lemma case_SB_return : forall d te e tes es semi,
    E FT 1 d te e -> PE 1 d te e -> ExpTail FT d tes es -> PET d tes es ->
    PSB d (TReturn :: te ++ tes ++ semi_toks semi) (N KReturn (L TReturn :: e :: es ++ semi_trees semi)) FLast.
  Proof.
    intros d te e tes es semi He IHe Ht IHt lvl rest Hf _ Hl. cbn [Complete.stat_follow] in Hf. norm_app.
    stat_step stat_S_return Hl.
    destruct (E_first _ _ _ _ _ He) as (x & r0 & Heq & Hx).
    destruct (expr_start_not x Hx) as (_ & _ & Hsemi & _ & _ & _ & Hbf).
    assert (Hc : (block_follow (te ++ tes ++ semi_toks semi ++ rest) || hd_is TSemi (te ++ tes ++ semi_toks semi ++ rest)) = false).
    { rewrite Heq. rewrite block_follow_app, Hbf. cbn [app]. rewrite hd_is_cons, Hsemi. reflexivity. }
    rewrite Hc.
    eapply (ev_bind _ _ (fun f => bind (sub_expr f (S lvl) 0 (te ++ tes ++ semi_toks semi ++ rest))
                                       (fun e0 r1 => expr_list_tail f (S lvl) [e0] r1))).
    - apply (ev_explist d te e tes es (S lvl) _ IHe Ht IHt (return_end semi rest Hf) Hl).
    - cbn beta. rewrite (return_semi semi rest Hf), Hf. apply ev_const.
  Qed.

  Lemma lvalue_kinds : forall t, is_lvalue_tree t = true -> is_lvalue t = true /\ is_call t = false.
  Proof. intros [x|k cs] H; [discriminate|]. destruct k; try discriminate; split; reflexivity. Qed.
  Lemma call_kinds : forall t, is_call_tree t = true -> is_call t = true.
  Proof. intros [x|k cs] H; [discriminate|]. destruct k; try discriminate; reflexivity. Qed.

  Lemma VarsTail_next : forall d ts trs rest, VarsTail FT d ts trs -> nosuffixb (ts ++ TAssign :: rest) = true.
  Proof. intros d ts trs rest H. inversion H; subst; reflexivity. Qed.

  Lemma case_SB_assign : forall d tv v tvs vs te e tes es semi,
    Simple FT d tv v -> PS d tv v -> is_lvalue_tree v = true -> VarsTail FT d tvs vs -> PVT d tvs vs ->
    E FT 1 d te e -> PE 1 d te e -> ExpTail FT d tes es -> PET d tes es ->
    PSB d (tv ++ tvs ++ TAssign :: te ++ tes ++ semi_toks semi)
        (N KAssign (v :: vs ++ L TAssign :: e :: es ++ semi_trees semi)) (semi_kind semi FExpr).
  Proof.
    intros d tv v tvs vs te e tes es semi Hv IHv Hlv Hvt IHvt _ IHe Ht IHt lvl rest Hf Ha Hl. norm_app.
    destruct (Simple_suffixed_first _ _ _ _ Hv (or_introl Hlv)) as (x & r & Heq & Hx).
    destruct (lvalue_kinds v Hlv) as [Hl1 Hl2].
    eapply ev_S with (h := fun f =>
      bind (simple_expr f (S lvl) (tv ++ tvs ++ TAssign :: te ++ tes ++ semi_toks semi ++ rest))
           (fun e0 r1 =>
              if is_call e0 then let '(sm, r2) := opt_semi r1 in Ok (N KCallStat (e0 :: sm)) r2
              else if is_lvalue e0 then
                     bind (assign_targets f (S lvl) [e0] r1)
                          (fun tg r2 =>
                             match r2 with
                             | TAssign :: r3 =>
                                 bind (sub_expr f (S lvl) 0 r3)
                                      (fun v0 r4 => bind (expr_list_tail f (S lvl) [v0] r4)
                                                         (fun vs0 r5 => let '(sm, r6) := opt_semi r5 in
                                                                        Ok (N KAssign (tg ++ L TAssign :: vs0 ++ sm)) r6))
                             | _ => Err
                             end)
                   else Err)).
    - intros f. rewrite Heq. cbn [app]. rewrite (stat_S_expr f lvl x _ Hx), (lvl_ok' _ _ Hl). reflexivity.
    - eapply (ev_bind _ _ (fun f => simple_expr f (S lvl) (tv ++ tvs ++ TAssign :: te ++ tes ++ semi_toks semi ++ rest))).
      + apply (IHv (S lvl) _ (VarsTail_next _ _ _ _ Hvt) Hl).
      + cbn beta. rewrite Hl1, Hl2.
        eapply (ev_bind _ _ (fun f => assign_targets f (S lvl) [v] (tvs ++ TAssign :: te ++ tes ++ semi_toks semi ++ rest))).
        * apply (IHvt (S lvl) [v] _ Hl).
        * cbn beta. cbv iota.
          apply (ev_explist_k _ d te e tes es (S lvl) (semi_toks semi ++ rest)
                   (fun f vs0 r5 => let '(sm, r6) := opt_semi r5 in Ok (N KAssign (([v] ++ vs) ++ L TAssign :: vs0 ++ sm)) r6) _
                   IHe Ht IHt (expr_stmt_end semi rest Hf Ha) Hl).
          rewrite (ev_end_semi semi FExpr rest (fun sm => N KAssign (([v] ++ vs) ++ L TAssign :: (e :: es) ++ sm))) by (try discriminate; exact Hf).
          eapply ev_eq; [|apply ev_const]. norm_app. reflexivity.
  Qed.

  Lemma fexpr_nosuffix : forall semi rest, stat_follow (semi_kind semi FExpr) rest = true -> nosuffixb (semi_toks semi ++ rest) = true.
  Proof.
    intros semi rest H. destruct semi; [reflexivity|]. cbn [semi_toks app semi_kind] in *.
    destruct rest as [|x r]; [reflexivity|]. cbn in H.
    apply andb_true_iff in H. destruct H as [H _]. apply andb_true_iff in H. destruct H as [_ H]. exact H.
  Qed.

  Lemma case_SB_call : forall d tc c semi,
    Simple FT d tc c -> PS d tc c -> is_call_tree c = true ->
    PSB d (tc ++ semi_toks semi) (N KCallStat (c :: semi_trees semi)) (semi_kind semi FExpr).
  Proof.
    intros d tc c semi Hc IHc Hct lvl rest Hf _ Hl. norm_app.
    destruct (Simple_suffixed_first _ _ _ _ Hc (or_intror Hct)) as (x & r & Heq & Hx).
    eapply ev_S with (h := fun f =>
      bind (simple_expr f (S lvl) (tc ++ semi_toks semi ++ rest))
           (fun e0 r1 =>
              if is_call e0 then let '(sm, r2) := opt_semi r1 in Ok (N KCallStat (e0 :: sm)) r2
              else if is_lvalue e0 then
                     bind (assign_targets f (S lvl) [e0] r1)
                          (fun tg r2 =>
                             match r2 with
                             | TAssign :: r3 =>
                                 bind (sub_expr f (S lvl) 0 r3)
                                      (fun v0 r4 => bind (expr_list_tail f (S lvl) [v0] r4)
                                                         (fun vs0 r5 => let '(sm, r6) := opt_semi r5 in
                                                                        Ok (N KAssign (tg ++ L TAssign :: vs0 ++ sm)) r6))
                             | _ => Err
                             end)
                   else Err)).
    - intros f. rewrite Heq. cbn [app]. rewrite (stat_S_expr f lvl x _ Hx), (lvl_ok' _ _ Hl). reflexivity.
    - eapply (ev_bind _ _ (fun f => simple_expr f (S lvl) (tc ++ semi_toks semi ++ rest))).
      + apply (IHc (S lvl) _ (fexpr_nosuffix semi rest Hf) Hl).
      + cbn beta. rewrite (call_kinds c Hct).
        rewrite (ev_end_semi semi FExpr rest (fun sm => N KCallStat (c :: sm))) by (try discriminate; exact Hf).
        apply ev_const.
  Qed.

  (* ---------------------------------------------------------------------------------------- *)
  (** ** the tails *)
  Lemma case_VT_nil : forall d, PVT d [] [].
  Proof.
    intros d lvl acc rest _. rewrite app_nil_r. eapply ev_S; [|apply ev_const]. intros f. reflexivity.
  Qed.

  Lemma case_VT_cons : forall d tv v ts trs,
    Simple FT d tv v -> PS d tv v -> is_lvalue_tree v = true -> VarsTail FT d ts trs -> PVT d ts trs ->
    PVT d (TComma :: tv ++ ts) (L TComma :: v :: trs).
  Proof.
    intros d tv v ts trs _ IHv Hlv Hvt IH lvl acc rest Hl. norm_app.
    eapply ev_S; [intros f; cbn [Model.assign_targets]; reflexivity|].
    eapply (ev_bind _ _ (fun f => simple_expr f lvl (tv ++ ts ++ TAssign :: rest))).
    - apply (IHv lvl _ (VarsTail_next _ _ _ _ Hvt) Hl).
    - cbn beta. destruct (lvalue_kinds v Hlv) as [-> _].
      eapply ev_eq; [|apply (IH lvl (acc ++ [L TComma; v]) rest Hl)]. rewrite <- app_assoc. reflexivity.
  Qed.

  Lemma case_IT_nil : forall d, PIT d [] [].
  Proof.
    intros d lvl acc rest _. rewrite app_nil_r. eapply ev_S; [|apply ev_const]. intros f. reflexivity.
  Qed.

  Lemma case_IT_else : forall d tb b, BlockR FT d tb b -> PB d tb b -> PIT d (TElse :: tb) [N KElse (L TElse :: b)].
  Proof.
    intros d tb b _ IHb lvl acc rest Hl. norm_app.
    eapply ev_S; [intros f; cbn [Model.if_tail]; reflexivity|].
    eapply (ev_bind _ _ (fun f => block f lvl (tb ++ TEnd :: rest))).
    - apply IHb; [reflexivity|exact Hl].
    - cbn beta. apply ev_const.
  Qed.

  Lemma case_IT_elseif : forall d te e tb b ts trs,
    E FT 1 d te e -> PE 1 d te e -> BlockR FT d tb b -> PB d tb b -> IfTail FT d ts trs -> PIT d ts trs ->
    PIT d (TElseIf :: te ++ TThen :: tb ++ ts) (N KElseIf (L TElseIf :: e :: L TThen :: b) :: trs).
  Proof.
    intros d te e tb b ts trs _ IHe _ IHb Ht IHt lvl acc rest Hl. norm_app.
    eapply ev_S; [intros f; cbn [Model.if_tail]; reflexivity|].
    eapply (ev_bind _ _ (fun f => sub_expr f lvl 0 (te ++ TThen :: tb ++ ts ++ TEnd :: rest))).
    - apply (pe_top d _ _ IHe); try assumption; reflexivity.
    - cbn beta. cbv iota.
      eapply (ev_bind _ _ (fun f => block f lvl (tb ++ ts ++ TEnd :: rest))).
      + apply IHb; [apply (IfTail_head _ _ _ _ Ht)|exact Hl].
      + cbn beta. eapply ev_eq; [|apply (IHt lvl (acc ++ [N KElseIf (L TElseIf :: e :: L TThen :: b)]) rest Hl)].
        rewrite <- app_assoc. reflexivity.
  Qed.

  Lemma case_FS_none : forall d, PFS d [] [].
  Proof.
    intros d lvl rest _. cbn [app]. change (hd_is TComma (TDo :: rest)) with false. cbv iota. apply ev_const.
  Qed.

  Lemma case_FS_some : forall d te e, E FT 1 d te e -> PE 1 d te e -> PFS d (TComma :: te) [L TComma; e].
  Proof.
    intros d te e _ IHe lvl rest Hl. norm_app. rewrite hd_is_hit. cbn [tl].
    eapply (ev_bind _ _ (fun f => sub_expr f lvl 0 (te ++ TDo :: rest))).
    - apply (pe_top d _ _ IHe); try assumption; reflexivity.
    - cbn beta. apply ev_const.
  Qed.
End CompleteStat2.
