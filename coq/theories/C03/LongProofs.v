(** C03/LongProofs.v — the lexer model (LongModel.v) accepts every long string and long comment of
    the reference manual (LongSpec.v), and a mutant of the closing-bracket search does not. *)
From Coq Require Import PeanoNat.
From EV Require Import C03.LongModel C03.LongSpec.
Local Open Scope N_scope.
Local Notation cp := N (only parsing).
Local Notation text := (list N) (only parsing).

(** * [eat_when('=')] *)

Definition head_ne61 (Y : text) : Prop := match Y with [] => True | c :: _ => c <> 61 end.

Lemma eat_eq_stop : forall Y, head_ne61 Y -> eat_eq Y = (O, Y).
Proof.
  intros [|c Y] H; [reflexivity|]. cbn [head_ne61] in H. cbn [eat_eq].
  destruct (N.eqb_spec c 61) as [E|_]; [contradiction|]. reflexivity.
Qed.

Lemma eat_eq_repeat : forall k Y, head_ne61 Y -> eat_eq (repeat 61 k ++ Y) = (k, Y).
Proof.
  intros k Y H. induction k as [|k IH].
  - apply eat_eq_stop. exact H.
  - cbn [repeat app eat_eq]. change (61 =? 61) with true. cbv iota. rewrite IH. reflexivity.
Qed.

(** the run of ['='] at the start of [b ++ Y] lies inside [b] when [Y] does not start with ['='] *)
Lemma eat_eq_split : forall b Y, head_ne61 Y ->
  exists k b', b = repeat 61 k ++ b' /\ eat_eq (b ++ Y) = (k, b' ++ Y).
Proof.
  intros b Y HY. induction b as [|c b IH].
  - exists O, []. split; [reflexivity|]. apply eat_eq_stop. exact HY.
  - destruct (N.eqb_spec c 61) as [E|E].
    + subst c. destruct IH as (k & b' & Eb & Ee). exists (S k), b'. split.
      * cbn [repeat app]. rewrite <- Eb. reflexivity.
      * cbn [app eat_eq]. change (61 =? 61) with true. cbv iota. rewrite Ee. reflexivity.
    + exists O, (c :: b). split; [reflexivity|]. apply eat_eq_stop. exact E.
Qed.

(** * facts about [long_body] *)

Lemma skipn_app_length : forall (a X : text) i, skipn (length a + i) (a ++ X) = skipn i X.
Proof. intros a X i. induction a as [|c a IH]; [reflexivity|]. cbn [length plus app skipn]. exact IH. Qed.

Lemma long_body_app_r : forall n a b, long_body n (a ++ b) -> long_body n b.
Proof.
  intros n a b H i Hi Hp. apply (H (length a + i)%nat).
  - rewrite app_length. lia.
  - rewrite <- app_assoc, skipn_app_length. exact Hp.
Qed.

Lemma closer_head : forall n X, exists s, closer n ++ X = 93 :: s.
Proof. intros n X. eexists. reflexivity. Qed.

(** a body cannot begin with a closing bracket of its own level *)
Lemma long_body_not_closer : forall n b' rest,
  long_body n (93 :: repeat 61 n ++ b') -> hd 0 (b' ++ closer n ++ rest) = 93 -> False.
Proof.
  intros n b' rest H Hh. apply (H O); [cbn [length]; lia|].
  cbn [skipn].
  assert (E : exists s, b' ++ closer n = 93 :: s).
  { destruct b' as [|c b'']; [eexists; reflexivity|]. cbn [app hd] in Hh. subst c.
    eexists. reflexivity. }
  destruct E as [s E]. exists s.
  cbn [app]. rewrite <- app_assoc, E. unfold closer. cbn [app]. rewrite <- app_assoc. reflexivity.
Qed.

(** * the loop of [lex_long_string] *)

Lemma lpre_mk : forall p t r e,
  lpre p {| lr_tok := t; lr_rest := r; lr_end := e |} = {| lr_tok := p ++ t; lr_rest := r; lr_end := e |}.
Proof. reflexivity. Qed.

(** on a valid body followed by its closing bracket the loop stops exactly after that bracket *)
Lemma long_loop_body : forall f n body rest,
  long_body n body -> (length (body ++ closer n ++ rest) < f)%nat ->
  long_loop false f n (body ++ closer n ++ rest) =
    {| lr_tok := body ++ closer n; lr_rest := rest; lr_end := true |}.
Proof.
  induction f as [|f IH]; intros n body rest Hb Hf; [lia|].
  destruct body as [|c b].
  - (* the closing bracket itself *)
    unfold closer. cbn [app long_loop]. change (93 =? 93) with true. cbv iota.
    rewrite <- app_assoc. cbn [app].
    rewrite (eat_eq_repeat n (93 :: rest)) by discriminate.
    cbv beta iota zeta. cbn [hd tl]. rewrite Nat.eqb_refl. change (93 =? 93) with true.
    cbn [andb]. reflexivity.
  - destruct (N.eqb_spec c 93) as [E|E].
    + (* a [']'] inside the body *)
      subst c.
      destruct (eat_eq_split b (closer n ++ rest)) as (k & b' & Eb & Ee); [discriminate|].
      cbn [app long_loop]. change (93 =? 93) with true. cbv iota.
      rewrite Ee. cbv beta iota zeta.
      destruct (Nat.eqb k n && (hd 0 (b' ++ closer n ++ rest) =? 93)) eqn:Ec.
      * exfalso. apply andb_prop in Ec. destruct Ec as [Ek Eh].
        apply Nat.eqb_eq in Ek. apply N.eqb_eq in Eh. subst k b.
        exact (long_body_not_closer n b' rest Hb Eh).
      * cbn [andb].
        assert (Hb' : long_body n b').
        { apply (long_body_app_r n (93 :: repeat 61 k) b'). cbn [app]. rewrite <- Eb. exact Hb. }
        rewrite (IH n b' rest Hb').
        -- rewrite lpre_mk. subst b. cbn [app]. rewrite <- app_assoc. reflexivity.
        -- subst b. cbn [app length] in Hf. rewrite !app_length in Hf. rewrite !app_length. lia.
    + (* any other character *)
      cbn [app long_loop]. destruct (N.eqb_spec c 93) as [E'|_]; [contradiction|].
      rewrite (IH n b rest).
      * reflexivity.
      * exact (long_body_app_r n [c] b Hb).
      * cbn [app length] in Hf. lia.
Qed.

Lemma lex_long_string_body : forall n body rest,
  long_body n body ->
  lex_long_string false n (body ++ closer n ++ rest) =
    {| lr_tok := body ++ closer n; lr_rest := rest; lr_end := true |}.
Proof.
  intros n body rest Hb. unfold lex_long_string. apply long_loop_body; [exact Hb|]. lia.
Qed.

Lemma opener_app : forall n X, opener n ++ X = 91 :: repeat 61 n ++ 91 :: X.
Proof. intros n X. unfold opener. cbn [app]. rewrite <- app_assoc. reflexivity. Qed.

(** * the theorems *)

(** Every long string of the reference manual (any level, any body that does not contain the closing
    bracket of that level — line breaks, other brackets and closing brackets of other levels
    included), whatever follows it, is lexed as one [TkLongString] token that ends exactly at the
    closing bracket, without the errors "unfinished long string or comment" / "invalid long string
    delimiter". *)
Theorem long_string_complete : forall (n : nat) (body rest : text),
  long_body n body ->
  lex_long false (opener n ++ body ++ closer n ++ rest) =
    Some {| lt_kind := TkLongString; lt_text := opener n ++ body ++ closer n; lt_rest := rest;
            lt_err := false |}.
Proof.
  intros n body rest Hb. rewrite !opener_app.
  cbn [lex_long]. change (91 =? 91) with true. cbv iota. f_equal.
  unfold lex_bracket. rewrite (eat_eq_repeat n (91 :: body ++ closer n ++ rest)) by discriminate.
  cbv beta iota zeta. cbn [hd tl]. change (91 =? 91) with true. cbn [negb].
  rewrite andb_false_r. rewrite (lex_long_string_body n body rest Hb).
  cbn [lr_tok lr_rest lr_end negb]. reflexivity.
Qed.

(** The same for a long comment: [--] immediately followed by a long bracket. *)
Theorem long_comment_complete : forall (n : nat) (body rest : text),
  long_body n body ->
  lex_long false (45 :: 45 :: opener n ++ body ++ closer n ++ rest) =
    Some {| lt_kind := TkLongComment; lt_text := 45 :: 45 :: opener n ++ body ++ closer n;
            lt_rest := rest; lt_err := false |}.
Proof.
  intros n body rest Hb. rewrite !opener_app.
  cbn [lex_long]. change (45 =? 91) with false. change (45 =? 45) with true. cbv iota. f_equal.
  cbn [lex_minus]. change (45 =? 45) with true. cbn [negb hd tl]. change (91 =? 91) with true.
  cbv iota. rewrite (eat_eq_repeat n (91 :: body ++ closer n ++ rest)) by discriminate.
  cbv beta iota zeta. cbn [hd tl]. change (91 =? 91) with true. cbv iota.
  rewrite (lex_long_string_body n body rest Hb).
  cbn [lr_tok lr_rest lr_end negb]. reflexivity.
Qed.

(** in terms of [long_string] / [long_comment] *)
Corollary long_string_complete' : forall n s rest,
  long_string n s ->
  lex_long false (s ++ rest) =
    Some {| lt_kind := TkLongString; lt_text := s; lt_rest := rest; lt_err := false |}.
Proof.
  intros n s rest (body & -> & Hb).
  replace ((opener n ++ body ++ closer n) ++ rest) with (opener n ++ body ++ closer n ++ rest)
    by (rewrite <- !app_assoc; reflexivity).
  apply long_string_complete. exact Hb.
Qed.

Corollary long_comment_complete' : forall n s rest,
  long_comment n s ->
  lex_long false (s ++ rest) =
    Some {| lt_kind := TkLongComment; lt_text := s; lt_rest := rest; lt_err := false |}.
Proof.
  intros n s rest (body & -> & Hb).
  replace ((45 :: 45 :: opener n ++ body ++ closer n) ++ rest)
    with (45 :: 45 :: opener n ++ body ++ closer n ++ rest)
    by (cbn [app]; rewrite <- !app_assoc; reflexivity).
  apply long_comment_complete. exact Hb.
Qed.

(** * the decision procedure is sound *)

Lemma is_prefix_prefixb : forall p t, is_prefix p t -> prefixb p t = true.
Proof.
  induction p as [|x p IH]; intros t [s E]; [reflexivity|].
  subst t. cbn [app prefixb]. rewrite N.eqb_refl. cbn [andb]. apply IH. exists s. reflexivity.
Qed.

Lemma no_closer_sound : forall cl k t,
  no_closer cl k t = true -> forall i, (i < k)%nat -> ~ is_prefix cl (skipn i t).
Proof.
  intros cl k. induction k as [|k IH]; intros t H i Hi Hp; [lia|].
  cbn [no_closer] in H. apply andb_prop in H. destruct H as [H0 Ht].
  apply negb_true_iff in H0.
  destruct i as [|i].
  - cbn [skipn] in Hp. rewrite (is_prefix_prefixb cl t Hp) in H0. discriminate.
  - destruct t as [|c t].
    + cbn [skipn] in Hp. rewrite (is_prefix_prefixb cl [] Hp) in H0. discriminate.
    + cbn [skipn] in Hp. apply (IH t Ht i); [lia|exact Hp].
Qed.

Lemma long_bodyb_sound : forall n body, long_bodyb n body = true -> long_body n body.
Proof. intros n body H i Hi. exact (no_closer_sound _ _ _ H i Hi). Qed.

(** * refutation of the greedy mutant *)

(** [[=[a]]=]] : level 1, body [a]] *)
Lemma long_greedy_refuted :
  exists n body, long_body n body /\
    exists t, lex_long true (opener n ++ body ++ closer n) = Some t /\ lt_err t = true.
Proof.
  exists 1%nat, [97; 93]. split; [apply long_bodyb_sound; reflexivity|].
  eexists. split; [vm_compute; reflexivity|reflexivity].
Qed.

(** * examples *)

Definition ok_token (k : lkind) (s rest : text) : option ltoken :=
  Some {| lt_kind := k; lt_text := s; lt_rest := rest; lt_err := false |}.

(** [[=[a]]=]] *)
Example ex_long_1 :
  long_body 1 [97; 93] /\
  lex_long false [91; 61; 91; 97; 93; 93; 61; 93] = ok_token TkLongString [91; 61; 91; 97; 93; 93; 61; 93] [].
Proof. split; [apply long_bodyb_sound; reflexivity|vm_compute; reflexivity]. Qed.

(** [[==[t[i]]==]] *)
Example ex_long_2 :
  let s := [91; 61; 61; 91; 116; 91; 105; 93; 93; 61; 61; 93] in
  long_body 2 [116; 91; 105; 93] /\ lex_long false s = ok_token TkLongString s [].
Proof. split; [apply long_bodyb_sound; reflexivity|vm_compute; reflexivity]. Qed.

(** [[[a]=]]] : a closing bracket of level 1 inside a string of level 0 *)
Example ex_long_3 :
  let s := [91; 91; 97; 93; 61; 93; 93] in
  long_body 0 [97; 93; 61] /\ lex_long false s = ok_token TkLongString s [].
Proof. split; [apply long_bodyb_sound; reflexivity|vm_compute; reflexivity]. Qed.

(** [[=[a]==]=]] : a closing bracket of level 2 inside a string of level 1 *)
Example ex_long_4 :
  let s := [91; 61; 91; 97; 93; 61; 61; 93; 61; 93] in
  long_body 1 [97; 93; 61; 61] /\ lex_long false s = ok_token TkLongString s [].
Proof. split; [apply long_bodyb_sound; reflexivity|vm_compute; reflexivity]. Qed.

(** [--[=[ x = t[u[1]]=]] followed by a line break *)
Example ex_long_comment :
  let s := [45; 45; 91; 61; 91; 32; 120; 32; 61; 32; 116; 91; 117; 91; 49; 93; 93; 61; 93] in
  long_body 1 [32; 120; 32; 61; 32; 116; 91; 117; 91; 49; 93] /\
  lex_long false (s ++ [10]) = ok_token TkLongComment s [10].
Proof. split; [apply long_bodyb_sound; reflexivity|vm_compute; reflexivity]. Qed.

(** [[[<LF>line]]] *)
Example ex_long_newline :
  let s := [91; 91; 10; 108; 105; 110; 101; 93; 93] in
  long_body 0 [10; 108; 105; 110; 101] /\ lex_long false s = ok_token TkLongString s [].
Proof. split; [apply long_bodyb_sound; reflexivity|vm_compute; reflexivity]. Qed.

(** [[[x]=]]]] is [[[x]=]]] followed by []] *)
Example ex_long_first_closer :
  long_body 0 [120; 93; 61] /\
  lex_long false [91; 91; 120; 93; 61; 93; 93; 93] = ok_token TkLongString [91; 91; 120; 93; 61; 93; 93] [93].
Proof. split; [apply long_bodyb_sound; reflexivity|vm_compute; reflexivity]. Qed.

(** the other outcomes of the two arms: [[x], [[=x] (invalid delimiter), [-x], [--[=x] (short comment),
    [[[x] (unfinished) *)
Example ex_long_others :
  lex_long false [91; 120] = ok_token TkLeftBracket [91] [120] /\
  lex_long false [91; 61; 120] =
    Some {| lt_kind := TkLongString; lt_text := [91; 61]; lt_rest := [120]; lt_err := true |} /\
  lex_long false [45; 120] = ok_token TkMinus [45] [120] /\
  lex_long false [45; 45; 91; 61; 120; 10; 121] = ok_token TkShortComment [45; 45; 91; 61; 120] [10; 121] /\
  lex_long false [91; 91; 120] =
    Some {| lt_kind := TkLongString; lt_text := [91; 91; 120]; lt_rest := []; lt_err := true |}.
Proof. vm_compute. repeat split; reflexivity. Qed.
