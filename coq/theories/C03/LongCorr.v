(** C03/LongCorr.v — comparing the model of the long-bracket arms with observations of the Rust lexer.
    A [long_case] carries a text that starts with ['['] or ['-'] (anything may follow the first token)
    and what the harness observed for the FIRST token:
      kind    0 = TkLongString, 1 = TkLongComment, 2 = TkLeftBracket, 3 = TkShortComment, 4 = TkMinus,
              5 = anything else,
      length  of the token text in UTF-8 BYTES,
      err     the lexer pushed an error for this token ("unfinished long string or comment" /
              "invalid long string delimiter").
    [check_long_case] recomputes the three values with the model and compares; it is [false] when
    the text starts with neither character.  Evaluation is linear in the length of the text. *)
From Coq Require Import PeanoNat.
From EV Require Import Base.TextFacts C03.LongModel C03.LongSpec C03.LongProofs.
Local Open Scope N_scope.

Record long_case : Type := {
  lg_text : list N;
  lg_obs_kind : N;
  lg_obs_len : N;
  lg_obs_err : bool
}.

Definition lkind_code (k : lkind) : N :=
  match k with
  | TkLongString => 0 | TkLongComment => 1 | TkLeftBracket => 2 | TkShortComment => 3
  | TkMinus => 4 | TkOther => 5
  end.

Definition check_long_case_with (greedy : bool) (c : long_case) : bool :=
  match lex_long greedy (lg_text c) with
  | Some t =>
      (lkind_code (lt_kind t) =? lg_obs_kind c) && (bytes (lt_text t) =? lg_obs_len c)
      && Bool.eqb (lt_err t) (lg_obs_err c)
  | None => false
  end.

(** the code as written *)
Definition check_long_case (c : long_case) : bool := check_long_case_with false c.
(** the greedy mutant of the closing-bracket search *)
Definition check_long_case_greedy (c : long_case) : bool := check_long_case_with true c.

(** * what an agreeing observation of a valid long bracket looks like *)

Lemma bool_eqb_eq : forall a b, Bool.eqb a b = true -> a = b.
Proof. intros [|] [|]; cbn; intros H; try reflexivity; discriminate. Qed.

Lemma agreeing_long_string_has_no_error : forall n s rest k len e,
  long_string n s ->
  check_long_case {| lg_text := s ++ rest; lg_obs_kind := k; lg_obs_len := len; lg_obs_err := e |} = true ->
  k = 0 /\ len = bytes s /\ e = false.
Proof.
  intros n s rest k len e Hs H.
  unfold check_long_case, check_long_case_with in H. cbn [lg_text lg_obs_kind lg_obs_len lg_obs_err] in H.
  rewrite (long_string_complete' n s rest Hs) in H. cbn [lt_kind lt_text lt_err lkind_code] in H.
  apply andb_prop in H. destruct H as [H He]. apply andb_prop in H. destruct H as [Hk Hl].
  apply N.eqb_eq in Hk. apply N.eqb_eq in Hl. apply bool_eqb_eq in He.
  repeat split; symmetry; assumption.
Qed.

Lemma agreeing_long_comment_has_no_error : forall n s rest k len e,
  long_comment n s ->
  check_long_case {| lg_text := s ++ rest; lg_obs_kind := k; lg_obs_len := len; lg_obs_err := e |} = true ->
  k = 1 /\ len = bytes s /\ e = false.
Proof.
  intros n s rest k len e Hs H.
  unfold check_long_case, check_long_case_with in H. cbn [lg_text lg_obs_kind lg_obs_len lg_obs_err] in H.
  rewrite (long_comment_complete' n s rest Hs) in H. cbn [lt_kind lt_text lt_err lkind_code] in H.
  apply andb_prop in H. destruct H as [H He]. apply andb_prop in H. destruct H as [Hk Hl].
  apply N.eqb_eq in Hk. apply N.eqb_eq in Hl. apply bool_eqb_eq in He.
  repeat split; symmetry; assumption.
Qed.

(** * examples *)

(** [[=[a]]=] x] : a long string of 8 bytes *)
Example corr_long_string :
  check_long_case {| lg_text := [91; 61; 91; 97; 93; 93; 61; 93; 32; 120]; lg_obs_kind := 0;
                     lg_obs_len := 8; lg_obs_err := false |} = true.
Proof. vm_compute. reflexivity. Qed.

(** the same observation refutes the greedy mutant (it runs to the end of the text, with an error) *)
Example corr_long_string_greedy :
  check_long_case_greedy {| lg_text := [91; 61; 91; 97; 93; 93; 61; 93; 32; 120]; lg_obs_kind := 0;
                            lg_obs_len := 8; lg_obs_err := false |} = false.
Proof. vm_compute. reflexivity. Qed.

(** [--[==[ é ]==]] : a long comment, length in bytes *)
Example corr_long_comment :
  check_long_case {| lg_text := [45; 45; 91; 61; 61; 91; 32; 233; 32; 93; 61; 61; 93]; lg_obs_kind := 1;
                     lg_obs_len := 14; lg_obs_err := false |} = true.
Proof. vm_compute. reflexivity. Qed.

(** [--[= x<LF>y] : a short comment; [[= x] : invalid delimiter; [[[x] : unfinished; [[x] ; [-x] *)
Example corr_others :
  check_long_case {| lg_text := [45; 45; 91; 61; 32; 120; 10; 121]; lg_obs_kind := 3; lg_obs_len := 6;
                     lg_obs_err := false |} = true /\
  check_long_case {| lg_text := [91; 61; 32; 120]; lg_obs_kind := 0; lg_obs_len := 2;
                     lg_obs_err := true |} = true /\
  check_long_case {| lg_text := [91; 91; 120]; lg_obs_kind := 0; lg_obs_len := 3;
                     lg_obs_err := true |} = true /\
  check_long_case {| lg_text := [91; 120]; lg_obs_kind := 2; lg_obs_len := 1; lg_obs_err := false |} = true /\
  check_long_case {| lg_text := [45; 120]; lg_obs_kind := 4; lg_obs_len := 1; lg_obs_err := false |} = true /\
  check_long_case {| lg_text := [120]; lg_obs_kind := 5; lg_obs_len := 1; lg_obs_err := false |} = false.
Proof. vm_compute. repeat split; reflexivity. Qed.
