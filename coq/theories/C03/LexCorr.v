(** C03/LexCorr.v — comparing the model of the lexical layer with observations of the Rust code.
    A [lex_case] carries a text that starts with a numeric literal or a short string (anything may
    follow it) and what the harness observed for the FIRST token of that text:
      kind      0 = TkInt, 1 = TkFloat, 2 = TkString (3 = TkComplex, 4 = TkUnknown),
      length    of the token text in UTF-8 BYTES ([token.text().len()]),
      lex_err   the lexer pushed an error for this token ("unexpected character .. after number
                literal" / "unfinished string"),
      chk_err   [int_token_value] / [float_token_value] / [check_normal_string_error] returned Err.
    [check_lex_case] recomputes the four values with the model and compares.

    The model is the same for Lua 5.1 .. 5.4 ([std_features]); [char::is_alphabetic] is known to the
    model only below 128 ([ascii_letter]): when a number token is followed by a non-ASCII character
    the lexer-error flag is not compared. *)
From EV Require Import Base.TextFacts C03.LexModel C03.LexSpec C03.LexProofs.
Local Open Scope N_scope.

Record lex_case : Type := {
  lc_text : list N;
  lc_is_string : bool;
  lc_obs_kind : N;
  lc_obs_len : N;
  lc_obs_lex_err : bool;
  lc_obs_chk_err : bool
}.

Definition kind_code (k : tkind) : N :=
  match k with TkInt => 0 | TkFloat => 1 | TkString => 2 | TkComplex => 3 | TkUnknown => 4 end.

(** what the model says about the first token: (kind, byte length, lexer error, checker error) and
    whether the lexer-error flag is comparable *)
Record model_obs : Type := {
  mo_kind : N; mo_len : N; mo_lex_err : bool; mo_chk_err : bool; mo_lex_err_known : bool
}.

Definition model_number (t : list N) : option model_obs :=
  if starts_number t then
    let tk := lex_number std_features ascii_letter t in
    Some {| mo_kind := kind_code (tk_kind tk);
            mo_len := bytes (tk_text tk);
            mo_lex_err := tk_err tk;
            mo_chk_err := negb (number_token_ok (tk_kind tk) (tk_text tk));
            mo_lex_err_known := match tk_rest tk with c :: _ => c <? 128 | [] => true end |}
  else None.

Definition model_string (zsp : N -> bool) (ubad : N -> bool) (t : list N) : option model_obs :=
  match lex_quoted std_features zsp t with
  | Some tk =>
      Some {| mo_kind := kind_code (tk_kind tk);
              mo_len := bytes (tk_text tk);
              mo_lex_err := tk_err tk;
              (* the checker looks at TkString tokens only *)
              mo_chk_err := match tk_kind tk with
                            | TkString => negb (check_string ubad (tk_text tk))
                            | _ => false
                            end;
              mo_lex_err_known := true |}
  | None => None
  end.

Definition check_lex_case_with (zsp : N -> bool) (ubad : N -> bool) (c : lex_case) : bool :=
  match (if lc_is_string c then model_string zsp ubad (lc_text c) else model_number (lc_text c)) with
  | Some m =>
      (mo_kind m =? lc_obs_kind c) && (mo_len m =? lc_obs_len c)
      && (negb (mo_lex_err_known m) || Bool.eqb (mo_lex_err m) (lc_obs_lex_err c))
      && Bool.eqb (mo_chk_err m) (lc_obs_chk_err c)
  | None => false          (* the text does not start with a number / a quote: not a case *)
  end.

(** the repaired code: six-character [\z] skip, [\u{..}] error iff above 0x7FFFFFFF *)
Definition check_lex_case (c : lex_case) : bool :=
  check_lex_case_with lexer_zsp_fixed (ubad_max lua54_umax) c.

(** the code before the repairs *)
Definition check_lex_case_old (c : lex_case) : bool :=
  check_lex_case_with lexer_zsp ubad_old c.

(** * what an agreeing observation of a valid literal looks like *)

Lemma bool_eqb_true : forall a b, Bool.eqb a b = true -> a = b.
Proof. intros [|] [|]; cbn; intros H; try reflexivity; discriminate. Qed.

(** if the observation of a valid numeral (ASCII follower) agrees with the model, the Rust code
    reported no error for it *)
Lemma agreeing_numeral_has_no_error : forall v s i rest k len le ce,
  numeral v s i -> numeral_end_ascii rest ->
  check_lex_case {| lc_text := s ++ rest; lc_is_string := false; lc_obs_kind := k; lc_obs_len := len;
                    lc_obs_lex_err := le; lc_obs_chk_err := ce |} = true ->
  k = (if i then 0 else 1) /\ len = bytes s /\ le = false /\ ce = false.
Proof.
  intros v s i rest k len le ce Hn Hend H.
  destruct (number_complete_ascii ascii_letter v s rest i (fun c _ => eq_refl) Hn Hend)
    as (H1 & H2 & H3).
  unfold check_lex_case, check_lex_case_with in H.
  cbn [lc_is_string lc_text lc_obs_kind lc_obs_len lc_obs_lex_err lc_obs_chk_err] in H.
  unfold model_number in H. rewrite H1, H2 in H.
  cbn [tk_kind tk_text tk_rest tk_err mo_kind mo_len mo_lex_err mo_chk_err mo_lex_err_known] in H.
  rewrite H3 in H. cbn [negb] in H.
  assert (Hk : match rest with c :: _ => c <? 128 | [] => true end = true).
  { destruct rest as [|c r]; [reflexivity|]. destruct Hend as [Hc _]. apply N.ltb_lt. exact Hc. }
  rewrite Hk in H. cbn [negb orb] in H.
  apply andb_prop in H. destruct H as [H Hce].
  apply andb_prop in H. destruct H as [H Hle].
  apply andb_prop in H. destruct H as [Hkind Hlen].
  apply N.eqb_eq in Hkind. apply N.eqb_eq in Hlen.
  apply bool_eqb_true in Hle. apply bool_eqb_true in Hce.
  repeat split; try (symmetry; assumption).
  - rewrite <- Hkind. destruct i; reflexivity.
Qed.

(** the same for a valid short string *)
Lemma agreeing_string_has_no_error : forall v s rest k len le ce,
  short_string v s ->
  check_lex_case {| lc_text := s ++ rest; lc_is_string := true; lc_obs_kind := k; lc_obs_len := len;
                    lc_obs_lex_err := le; lc_obs_chk_err := ce |} = true ->
  k = 2 /\ len = bytes s /\ le = false /\ ce = false.
Proof.
  intros v s rest k len le ce Hs H.
  destruct (string_escape_complete v s rest Hs) as [H1 H2].
  unfold check_lex_case, check_lex_case_with in H.
  cbn [lc_is_string lc_text lc_obs_kind lc_obs_len lc_obs_lex_err lc_obs_chk_err] in H.
  unfold model_string in H. rewrite H1 in H.
  cbn [tk_kind tk_text tk_rest tk_err mo_kind mo_len mo_lex_err mo_chk_err mo_lex_err_known] in H.
  unfold check_string_umax in H2. rewrite H2 in H. cbn [negb orb] in H.
  apply andb_prop in H. destruct H as [H Hce].
  apply andb_prop in H. destruct H as [H Hle].
  apply andb_prop in H. destruct H as [Hkind Hlen].
  apply N.eqb_eq in Hkind. apply N.eqb_eq in Hlen.
  apply bool_eqb_true in Hle. apply bool_eqb_true in Hce.
  repeat split; symmetry; assumption.
Qed.

(** * examples *)

(** [0x.8p-3 ] : TkFloat, 7 bytes, no errors *)
Example corr_hex_float :
  check_lex_case {| lc_text := [48; 120; 46; 56; 112; 45; 51; 32]; lc_is_string := false;
                    lc_obs_kind := 1; lc_obs_len := 7; lc_obs_lex_err := false;
                    lc_obs_chk_err := false |} = true.
Proof. vm_compute. reflexivity. Qed.

(** [3x] : TkInt of 1 byte with the lexer error "unexpected character 'x' after number literal" *)
Example corr_bad_suffix :
  check_lex_case {| lc_text := [51; 120]; lc_is_string := false;
                    lc_obs_kind := 0; lc_obs_len := 1; lc_obs_lex_err := true;
                    lc_obs_chk_err := false |} = true.
Proof. vm_compute. reflexivity. Qed.

(** ["\xZZ"] : the checker reports the invalid hex escape *)
Example corr_bad_hex_escape :
  check_lex_case {| lc_text := [34; 92; 120; 90; 90; 34]; lc_is_string := true;
                    lc_obs_kind := 2; lc_obs_len := 6; lc_obs_lex_err := false;
                    lc_obs_chk_err := true |} = true.
Proof. vm_compute. reflexivity. Qed.

(** ["\u{D800}"] : accepted by the repaired checker, rejected by the original one *)
Example corr_surrogate :
  let c := {| lc_text := surrogate_string; lc_is_string := true; lc_obs_kind := 2; lc_obs_len := 10;
              lc_obs_lex_err := false; lc_obs_chk_err := false |} in
  check_lex_case c = true /\ check_lex_case_old c = false.
Proof. vm_compute. split; reflexivity. Qed.

(** ["\z<VT><LF>"] : fine with the repaired lexer, "unfinished string" with the original one *)
Example corr_vtab :
  let c := {| lc_text := vtab_string; lc_is_string := true; lc_obs_kind := 2; lc_obs_len := 6;
              lc_obs_lex_err := false; lc_obs_chk_err := false |} in
  check_lex_case c = true /\ check_lex_case_old c = false.
Proof. vm_compute. split; reflexivity. Qed.
