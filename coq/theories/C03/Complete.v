(** C03/Complete.v — completeness of the parser model for the grammar of Spec.v:
    every derivation is parsed without error and yields the derivation's tree.
    Mutual induction over the sixteen relations of the grammar (one lemma per rule). *)
From Coq Require Import List Bool Arith Lia.
Import ListNotations.
From EV Require Import C03.Syntax C03.Spec C03.Model C03.Facts.

Scheme E_mut := Minimality for E Sort Prop
  with Simple_mut := Minimality for Simple Sort Prop
  with Primary_mut := Minimality for Primary Sort Prop
  with Suf_mut := Minimality for Suf Sort Prop
  with ArgsR_mut := Minimality for ArgsR Sort Prop
  with ExpTail_mut := Minimality for ExpTail Sort Prop
  with TableR_mut := Minimality for TableR Sort Prop
  with FieldsTail_mut := Minimality for FieldsTail Sort Prop
  with FieldR_mut := Minimality for FieldR Sort Prop
  with BlockR_mut := Minimality for BlockR Sort Prop
  with StatsR_mut := Minimality for StatsR Sort Prop
  with Stat_mut := Minimality for Stat Sort Prop
  with StatB_mut := Minimality for StatB Sort Prop
  with VarsTail_mut := Minimality for VarsTail Sort Prop
  with IfTail_mut := Minimality for IfTail Sort Prop
  with ForStep_mut := Minimality for ForStep Sort Prop.

Combined Scheme grammar_mutind from E_mut, Simple_mut, Primary_mut, Suf_mut, ArgsR_mut, ExpTail_mut,
  TableR_mut, FieldsTail_mut, FieldR_mut, BlockR_mut, StatsR_mut, Stat_mut, StatB_mut, VarsTail_mut, IfTail_mut, ForStep_mut.

Ltac norm_app := repeat (rewrite <- app_assoc || rewrite <- app_comm_cons); cbn [app].

(* ------------------------------------------------------------------------------------------ *)
(** * first tokens (no induction needed except for E) *)
Section First.
  Variable ft : features.

  Lemma TableR_first : forall d ts t, TableR ft d ts t -> exists r, ts = TLBrace :: r.
  Proof. intros d ts t H. inversion H; subst; eexists; reflexivity. Qed.

  Lemma TableR_kind : forall d ts t, TableR ft d ts t -> exists cs, t = N KTable cs.
  Proof. intros d ts t H. inversion H; subst; eexists; reflexivity. Qed.

  Lemma ArgsR_first : forall d ts t, ArgsR ft d ts t -> exists x r, ts = x :: r /\ is_args_start x = true.
  Proof.
    intros d ts t H. inversion H; subst; try (do 2 eexists; split; [reflexivity|reflexivity]).
    match goal with H : TableR _ _ _ _ |- _ => apply TableR_first in H; destruct H as [r ->] end.
    do 2 eexists; split; reflexivity.
  Qed.

  Lemma Primary_first : forall d ts t, Primary ft d ts t -> exists x r, ts = x :: r /\ (x = TName \/ x = TLParen).
  Proof. intros d ts t H. inversion H; subst; do 2 eexists; (split; [reflexivity|tauto]). Qed.

  Lemma Simple_first : forall d ts t, Simple ft d ts t -> exists x r, ts = x :: r /\ simple_start x = true.
  Proof.
    intros d ts t H. inversion H; subst.
    - do 2 eexists. split; [reflexivity|]. unfold simple_start. rewrite H0. reflexivity.
    - match goal with H : TableR _ _ _ _ |- _ => apply TableR_first in H; destruct H as [r ->] end.
      do 2 eexists; split; reflexivity.
    - do 2 eexists; split; reflexivity.
    - match goal with H : Primary _ _ _ _ |- _ => apply Primary_first in H; destruct H as (x & r & -> & Hx) end.
      do 2 eexists. split; [reflexivity|]. destruct Hx as [-> | ->]; reflexivity.
  Qed.

  (** a simple expression whose tree is a variable or a call starts with a name or '(' *)
  Lemma Simple_suffixed_first : forall d ts t, Simple ft d ts t ->
    is_lvalue_tree t = true \/ is_call_tree t = true -> exists x r, ts = x :: r /\ (x = TName \/ x = TLParen).
  Proof.
    intros d ts t H Hk. inversion H; subst.
    - destruct Hk; discriminate.
    - match goal with H : TableR _ _ _ _ |- _ => apply TableR_kind in H; destruct H as [cs ->] end. destruct Hk; discriminate.
    - destruct Hk; discriminate.
    - match goal with H : Primary _ _ _ _ |- _ => apply Primary_first in H; destruct H as (x & r & -> & Hx) end.
      do 2 eexists. split; [reflexivity|exact Hx].
  Qed.

  Lemma E_first : forall m d ts t, E ft m d ts t -> exists x r, ts = x :: r /\ expr_start x = true.
  Proof.
    induction 1.
    - assumption.
    - destruct IHE1 as (x & r0 & -> & Hx). do 2 eexists. split; [reflexivity|exact Hx].
    - destruct IHE1 as (x & r0 & -> & Hx). do 2 eexists. split; [reflexivity|exact Hx].
    - destruct IHE1 as (x & r0 & -> & Hx). do 2 eexists. split; [reflexivity|exact Hx].
    - do 2 eexists. split; [reflexivity|]. unfold expr_start, is_unop_tok. rewrite man_unop_of_tok. apply orb_true_r.
    - apply Simple_first in H. destruct H as (x & r0 & -> & Hx). do 2 eexists. split; [reflexivity|].
      unfold expr_start. rewrite Hx. reflexivity.
  Qed.
End First.

Section Second.
  Variable ft : features.

  Lemma Suf_not_assign : forall d cm ts t, Suf ft d cm ts t -> forall r, ts <> TAssign :: r.
  Proof.
    intros d cm ts t H r Heq. subst ts. inversion H; subst.
    match goal with H : ArgsR _ _ _ _ |- _ => apply ArgsR_first in H; destruct H as (x & r0 & -> & Hx) end.
    match goal with H : (_ :: _) ++ _ = TAssign :: _ |- _ => cbn in H; inversion H; subst end.
    discriminate.
  Qed.

  Lemma app_second : forall (x : tok) tl' o tr r,
    (x :: tl') ++ o :: tr = TName :: TAssign :: r -> (tl' = [] /\ o = TAssign) \/ (exists r', x :: tl' = TName :: TAssign :: r').
  Proof.
    intros x tl' o tr r H. cbn in H. inversion H; subst. destruct tl' as [|y tl'']; cbn in *.
    - left. inversion H2. split; reflexivity.
    - right. inversion H2; subst. eexists. reflexivity.
  Qed.

  (** an expression never starts with  Name '='  (so a positional table field is not mistaken for a named one) *)
  Lemma E_second : forall m d ts t, E ft m d ts t -> forall r, ts <> TName :: TAssign :: r.
  Proof.
    induction 1; intros r0 Heq.
    - eapply IHE; eassumption.
    - match goal with H : E _ _ _ tl _ |- _ => destruct (E_first _ _ _ _ _ H) as (x & tl' & -> & Hx) end.
      apply app_second in Heq. destruct Heq as [[_ Ho] | [r' Hr]].
      + destruct o; discriminate.
      + eapply IHE1. exact Hr.
    - match goal with H : E _ _ _ tl _ |- _ => destruct (E_first _ _ _ _ _ H) as (x & tl' & -> & Hx) end.
      apply app_second in Heq. destruct Heq as [[_ Ho] | [r' Hr]].
      + destruct o; discriminate.
      + eapply IHE1. exact Hr.
    - match goal with H : E _ _ _ tl _ |- _ => destruct (E_first _ _ _ _ _ H) as (x & tl' & -> & Hx) end.
      apply app_second in Heq. destruct Heq as [[_ Ho] | [r' Hr]].
      + discriminate.
      + eapply IHE1. exact Hr.
    - destruct u; discriminate.
    - match goal with H : Simple _ _ _ _ |- _ => inversion H; subst end.
      + discriminate.
      + match goal with H : TableR _ _ _ _ |- _ => apply TableR_first in H; destruct H as [r1 Hr1] end. discriminate.
      + discriminate.
      + match goal with H : Primary _ _ _ _ |- _ => inversion H; subst end.
        * match goal with H : Suf _ _ _ _ _ |- _ => eapply (Suf_not_assign _ _ _ _ H) end.
          cbn in *. match goal with H : TName :: _ = TName :: TAssign :: _ |- _ => inversion H; reflexivity end.
        * discriminate.
  Qed.
End Second.

(* ------------------------------------------------------------------------------------------ *)
(** * the claims, one per relation *)
Section Complete.
  Variable binop_of : tok -> option binop.
  Variable unop_of : tok -> option unop.
  Variable bl br : binop -> nat.
  Variable up : nat.
  Variable FT : features.
  Variable MAXLVL : nat.
  Hypothesis Htab : table_ok binop_of unop_of bl br up = true.

  Local Notation sub_expr := (Model.sub_expr binop_of unop_of bl br up FT MAXLVL).
  Local Notation binop_loop := (Model.binop_loop binop_of unop_of bl br up FT MAXLVL).
  Local Notation simple_expr := (Model.simple_expr binop_of unop_of bl br up FT MAXLVL).
  Local Notation closure_expr := (Model.closure_expr binop_of unop_of bl br up FT MAXLVL).
  Local Notation table_expr := (Model.table_expr binop_of unop_of bl br up FT MAXLVL).
  Local Notation table_fields := (Model.table_fields binop_of unop_of bl br up FT MAXLVL).
  Local Notation field := (Model.field binop_of unop_of bl br up FT MAXLVL).
  Local Notation suffixed_expr := (Model.suffixed_expr binop_of unop_of bl br up FT MAXLVL).
  Local Notation suffix_loop := (Model.suffix_loop binop_of unop_of bl br up FT MAXLVL).
  Local Notation args := (Model.args binop_of unop_of bl br up FT MAXLVL).
  Local Notation expr_list_tail := (Model.expr_list_tail binop_of unop_of bl br up FT MAXLVL).
  Local Notation block := (Model.block binop_of unop_of bl br up FT MAXLVL).
  Local Notation stats := (Model.stats binop_of unop_of bl br up FT MAXLVL).
  Local Notation stat := (Model.stat binop_of unop_of bl br up FT MAXLVL).
  Local Notation if_tail := (Model.if_tail binop_of unop_of bl br up FT MAXLVL).
  Local Notation for_body := (Model.for_body binop_of unop_of bl br up FT MAXLVL).
  Local Notation assign_targets := (Model.assign_targets binop_of unop_of bl br up FT MAXLVL).
  Local Notation accepts := (Facts.accepts bl).

  (** exp (continuation form): if going on with the operator loop from the derived tree gives X,
      then parsing the derived tokens first gives X *)
  Definition PE (m d : nat) (ts : list tok) (t : tree) : Prop :=
    forall lvl lim rest (X : res tree),
      accepts lim m -> followb m rest = true -> nosuffixb rest = true -> lvl + d <= MAXLVL ->
      ev (fun f => binop_loop f (S lvl) lim t rest) X ->
      ev (fun f => sub_expr f lvl lim (ts ++ rest)) X.

  Definition PS (d : nat) (ts : list tok) (t : tree) : Prop :=
    forall lvl rest, nosuffixb rest = true -> lvl + d <= MAXLVL ->
      ev (fun f => simple_expr f lvl (ts ++ rest)) (Ok t rest).

  Definition PP (d : nat) (ts : list tok) (p : tree) : Prop :=
    forall lvl rest (X : res tree), lvl + d <= MAXLVL ->
      ev (fun f => suffix_loop f lvl p rest) X ->
      ev (fun f => suffixed_expr f lvl (ts ++ rest)) X.

  Definition PSuf (d : nat) (cm : tree) (ts : list tok) (t : tree) : Prop :=
    forall lvl rest, nosuffixb rest = true -> lvl + d <= MAXLVL ->
      ev (fun f => suffix_loop f lvl cm (ts ++ rest)) (Ok t rest).

  Definition PA (d : nat) (ts : list tok) (t : tree) : Prop :=
    forall lvl rest, lvl + d <= MAXLVL -> ev (fun f => args f lvl (ts ++ rest)) (Ok t rest).

  (** what may follow the last expression of a list: not a suffix, not an operator, not a comma *)
  Definition exprendb (ts : list tok) : bool :=
    nosuffixb ts && nobinopb ts && match ts with TComma :: _ => false | _ => true end.

  Definition PET (d : nat) (ts : list tok) (trs : list tree) : Prop :=
    forall lvl acc rest, exprendb rest = true -> lvl + d <= MAXLVL ->
      ev (fun f => expr_list_tail f lvl acc (ts ++ rest)) (Ok (acc ++ trs) rest).

  Definition PT (d : nat) (ts : list tok) (t : tree) : Prop :=
    forall lvl rest, lvl + d <= MAXLVL -> ev (fun f => table_expr f lvl (ts ++ rest)) (Ok t rest).

  Definition PFT (d : nat) (ts : list tok) (trs : list tree) : Prop :=
    forall lvl acc rest, lvl + d <= MAXLVL ->
      ev (fun f => table_fields f lvl acc (ts ++ TRBrace :: rest)) (Ok (acc ++ trs) (TRBrace :: rest)).

  (** a field is followed by a separator or the closing brace *)
  Definition fieldendb (ts : list tok) : bool :=
    match ts with (TComma | TSemi | TRBrace) :: _ => true | _ => false end.

  Definition PF (d : nat) (ts : list tok) (t : tree) : Prop :=
    forall lvl rest, fieldendb rest = true -> lvl + d <= MAXLVL ->
      ev (fun f => field f lvl (ts ++ rest)) (Ok t rest).

  Definition PB (d : nat) (ts : list tok) (trs : list tree) : Prop :=
    forall lvl rest, block_follow rest = true -> lvl + d <= MAXLVL ->
      ev (fun f => block f lvl (ts ++ rest)) (Ok trs rest).

  Definition PSR (d : nat) (ts : list tok) (trs : list tree) : Prop :=
    forall lvl acc rest, block_follow rest = true -> lvl + d <= MAXLVL ->
      ev (fun f => stats f lvl acc (ts ++ rest)) (Ok (acc ++ trs) rest).

  (** what may follow a statement of follow kind k *)
  Definition stat_follow (k : fkind) (rest : list tok) : bool :=
    match k with FLast => block_follow rest | _ => head_ok k rest end.

  (** what follows a statement is the start of a statement or the end of the block: in particular
      it is none of  '='  ','  '<' *)
  Definition afterstatb (rest : list tok) : bool :=
    match rest with
    | [] => true
    | x :: _ => negb (tok_beq x TAssign) && negb (tok_beq x TComma) && negb (tok_beq x TLt)
    end.

  Definition PSt (d : nat) (ts : list tok) (t : tree) (k : fkind) : Prop :=
    forall lvl rest, stat_follow k rest = true -> afterstatb rest = true -> lvl + d <= MAXLVL ->
      ev (fun f => stat f lvl (ts ++ rest)) (Ok t rest).

  Definition PSB (d : nat) (ts : list tok) (t : tree) (k : fkind) : Prop :=
    forall lvl rest, stat_follow k rest = true -> afterstatb rest = true -> S lvl + d <= MAXLVL ->
      ev (fun f => stat f lvl (ts ++ rest)) (Ok t rest).

  Definition PVT (d : nat) (ts : list tok) (trs : list tree) : Prop :=
    forall lvl acc rest, lvl + d <= MAXLVL ->
      ev (fun f => assign_targets f lvl acc (ts ++ TAssign :: rest)) (Ok (acc ++ trs) (TAssign :: rest)).

  Definition PIT (d : nat) (ts : list tok) (trs : list tree) : Prop :=
    forall lvl acc rest, lvl + d <= MAXLVL ->
      ev (fun f => if_tail f lvl acc (ts ++ TEnd :: rest)) (Ok (acc ++ trs) (TEnd :: rest)).

  Definition PFS (d : nat) (ts : list tok) (trs : list tree) : Prop :=
    forall lvl rest, lvl + d <= MAXLVL ->
      ev (fun f => if hd_is TComma (ts ++ TDo :: rest)
                   then bind (sub_expr f lvl 0 (tl (ts ++ TDo :: rest))) (fun e3 r6 => Ok [L TComma; e3] r6)
                   else Ok [] (ts ++ TDo :: rest)) (Ok trs (TDo :: rest)).

  (* ---------------------------------------------------------------------------------------- *)
  (** ** using the claim for a whole expression *)
  Lemma loop_stop : forall lvl lim t rest,
    match rest with [] => True | x :: _ => match man_binop_of x with Some o2 => bl o2 <= lim | None => True end end ->
    ev (fun f => binop_loop f lvl lim t rest) (Ok t rest).
  Proof.
    intros lvl lim t rest H. exists 1. intros f Hf. destruct f as [|f]; [lia|]. cbn [Model.binop_loop].
    destruct rest as [|x r]; [reflexivity|]. rewrite (tab_binop _ _ _ _ _ Htab).
    destruct (man_binop_of x) as [o2|]; [|reflexivity].
    apply Nat.leb_le in H. rewrite H. reflexivity.
  Qed.

  Lemma pe_top : forall d ts t, PE 1 d ts t ->
    forall lvl rest, nosuffixb rest = true -> nobinopb rest = true -> lvl + d <= MAXLVL ->
    ev (fun f => sub_expr f lvl 0 (ts ++ rest)) (Ok t rest).
  Proof.
    intros d ts t H lvl rest Hs Hb Hl. apply H; try assumption.
    - apply (accepts_0 _ _ _ _ _ Htab).
    - apply followb_of_nobinop. exact Hb.
    - apply loop_stop. destruct rest as [|x r]; [exact I|]. cbn [nobinopb] in Hb. unfold is_binop_tok in Hb.
      destruct (man_binop_of x); [discriminate|exact I].
  Qed.

  (* ---------------------------------------------------------------------------------------- *)
  (** ** exp *)
  Lemma case_E_up : forall m d ts t, m < 13 -> E FT (S m) d ts t -> PE (S m) d ts t -> PE m d ts t.
  Proof.
    intros m d ts t _ _ IH lvl lim rest X Ha Hf Hs Hl HX. apply IH; try assumption.
    - apply accepts_mono. exact Ha.
    - apply followb_mono. exact Hf.
  Qed.

  (** one step of the loop on an operator that the limit lets through *)
  Lemma loop_step : forall lvl lim cm o tr rest r (X : res tree),
    lim < bl o -> binop_in FT o = true ->
    ev (fun f => sub_expr f lvl (br o) (tr ++ rest)) (Ok r rest) ->
    ev (fun f => binop_loop f lvl lim (N KBinary [cm; L (binop_tok o); r]) rest) X ->
    ev (fun f => binop_loop f lvl lim cm (binop_tok o :: tr ++ rest)) X.
  Proof.
    intros lvl lim cm o tr rest r X Hlim Hin H1 H2.
    eapply ev_S.
    - intros f. cbn [Model.binop_loop]. rewrite (tab_binop _ _ _ _ _ Htab), man_binop_of_tok.
      assert (Hle : (bl o <=? lim) = false) by (apply Nat.leb_gt; exact Hlim). rewrite Hle, Hin. reflexivity.
    - cbn beta. eapply (ev_bind _ _ (fun f => sub_expr f lvl (br o) (tr ++ rest))
                                (fun f e r' => binop_loop f lvl lim (N KBinary [cm; L (binop_tok o); e]) r')).
      + exact H1.
      + exact H2.
  Qed.

  Lemma case_E_binl : forall m d d' o tl l tr r,
    man_level o = m -> man_rassoc o = false -> binop_in FT o = true ->
    E FT m d tl l -> PE m d tl l -> E FT (S m) d' tr r -> PE (S m) d' tr r -> S d' <= d ->
    PE m d (tl ++ binop_tok o :: tr) (N KBinary [l; L (binop_tok o); r]).
  Proof.
    intros m d d' o tl l tr r Hm Hr Hin _ IHl _ IHr Hd lvl lim rest X Ha Hf Hs Hl HX.
    norm_app. apply IHl; try assumption.
    - cbn [followb]. rewrite man_binop_of_tok. rewrite Hm, Nat.eqb_refl, Hr. apply orb_true_r.
    - cbn [nosuffixb]. rewrite binop_tok_not_suffix. reflexivity.
    - apply loop_step with (r := r); try assumption.
      + apply Ha. lia.
      + apply IHr; try assumption.
        * rewrite <- Hm. apply (accepts_right_left _ _ _ _ _ Htab). exact Hr.
        * apply followb_mono. exact Hf.
        * lia.
        * apply loop_stop. destruct rest as [|x rr]; [exact I|].
          apply (not_absorbed _ _ _ _ _ Htab o m x rr Hm Hf).
  Qed.

  Lemma case_E_binr : forall m d d' o tl l tr r,
    man_level o = m -> man_rassoc o = true -> m <> 12 ->
    E FT (S m) d tl l -> PE (S m) d tl l -> E FT m d' tr r -> PE m d' tr r -> S d' <= d ->
    PE m d (tl ++ binop_tok o :: tr) (N KBinary [l; L (binop_tok o); r]).
  Proof.
    intros m d d' o tl l tr r Hm Hr Hne _ IHl _ IHr Hd lvl lim rest X Ha Hf Hs Hl HX.
    norm_app. apply IHl; try assumption.
    - apply accepts_mono. exact Ha.
    - cbn [followb]. rewrite man_binop_of_tok. apply orb_true_iff. left. apply Nat.ltb_lt. lia.
    - cbn [nosuffixb]. rewrite binop_tok_not_suffix. reflexivity.
    - apply loop_step with (r := r); try assumption.
      + apply Ha. lia.
      + destruct o; cbn in Hr; try discriminate; reflexivity.
      + apply IHr; try assumption.
        * rewrite <- Hm. apply (accepts_right_right _ _ _ _ _ Htab). exact Hr.
        * lia.
        * apply loop_stop. destruct rest as [|x rr]; [exact I|].
          apply (not_absorbed _ _ _ _ _ Htab o m x rr Hm Hf).
  Qed.

  Lemma case_E_pow : forall d d' tl l tr r,
    E FT 13 d tl l -> PE 13 d tl l -> E FT 11 d' tr r -> PE 11 d' tr r -> S d' <= d ->
    PE 12 d (tl ++ TPow :: tr) (N KBinary [l; L TPow; r]).
  Proof.
    intros d d' tl l tr r _ IHl _ IHr Hd lvl lim rest X Ha Hf Hs Hl HX.
    norm_app. apply IHl; try assumption.
    - apply accepts_mono. exact Ha.
    - reflexivity.
    - reflexivity.
    - change TPow with (binop_tok OpPow). apply loop_step with (r := r); try assumption.
      + apply Ha. cbn. lia.
      + reflexivity.
      + assert (Hf11 : followb 11 rest = true).
        { destruct rest as [|x rr]; [reflexivity|]. cbn [followb] in *. destruct (man_binop_of x) as [o2|]; [|reflexivity].
          apply orb_true_iff in Hf. apply orb_true_iff. left. apply Nat.ltb_lt. pose proof (level_not_11 o2).
          destruct Hf as [Hf|Hf].
          - apply Nat.ltb_lt in Hf. lia.
          - apply andb_true_iff in Hf. destruct Hf as [He Hn]. apply Nat.eqb_eq in He.
            rewrite (level12_rassoc o2 He) in Hn. discriminate. }
        apply IHr; try assumption.
        * apply (accepts_pow_right _ _ _ _ _ Htab).
        * lia.
        * apply loop_stop. destruct rest as [|x rr]; [exact I|].
          apply (not_absorbed _ _ _ _ _ Htab OpPow 12 x rr eq_refl Hf).
  Qed.

  Lemma lvl_ok : forall lvl d, lvl + S d <= MAXLVL -> (MAXLVL <=? lvl) = false.
  Proof. intros. apply Nat.leb_gt. lia. Qed.

  Lemma case_E_un : forall d d' u ts t,
    unop_in FT u = true -> E FT 11 d' ts t -> PE 11 d' ts t -> S d' <= d ->
    PE 11 d (unop_tok u :: ts) (N KUnary [L (unop_tok u); t]).
  Proof.
    intros d d' u ts t Hin _ IH Hd lvl lim rest X Ha Hf Hs Hl HX.
    eapply ev_S.
    - intros f. cbn [Model.sub_expr app]. rewrite (lvl_ok lvl d') by lia.
      rewrite (tab_unop _ _ _ _ _ Htab), man_unop_of_tok, Hin. reflexivity.
    - cbn beta. eapply (ev_bind _ _ (fun f => sub_expr f (S lvl) up (ts ++ rest))
                                (fun f e r' => binop_loop f (S lvl) lim (N KUnary [L (unop_tok u); e]) r')).
      + apply IH; try assumption.
        * apply (accepts_unary _ _ _ _ _ Htab).
        * lia.
        * apply loop_stop. destruct rest as [|x rr]; [exact I|].
          apply (not_absorbed_unary _ _ _ _ _ Htab x rr Hf).
      + exact HX.
  Qed.

  Lemma case_E_simple : forall d d' ts t, Simple FT d' ts t -> PS d' ts t -> S d' <= d -> PE 13 d ts t.
  Proof.
    intros d d' ts t Hs IH Hd lvl lim rest X Ha Hf Hns Hl HX.
    destruct (Simple_first _ _ _ _ Hs) as (x & r0 & -> & Hx).
    eapply ev_S.
    - intros f. cbn [Model.sub_expr app]. rewrite (lvl_ok lvl d') by lia.
      rewrite (tab_unop _ _ _ _ _ Htab), (simple_start_not_unop x Hx). reflexivity.
    - cbn beta. eapply (ev_bind _ _ (fun f => simple_expr f (S lvl) (x :: r0 ++ rest))
                                (fun f e r' => binop_loop f (S lvl) lim e r')).
      + apply (IH (S lvl) rest Hns). lia.
      + exact HX.
  Qed.

  (* ---------------------------------------------------------------------------------------- *)
  (** ** the token-list helpers (not mutual) *)
  Lemma ParNames_first : forall ts trs, ParNames ts trs -> exists x r, ts = x :: r /\ (x = TName \/ x = TDots).
  Proof. intros ts trs H. inversion H; subst; do 2 eexists; (split; [reflexivity|tauto]). Qed.

  Lemma param_names_cons : forall x r acc, x = TName \/ x = TDots ->
    param_names (TName :: TComma :: x :: r) acc = param_names (x :: r) (acc ++ [N KParamName [L TName]; L TComma]).
  Proof. intros x r acc [-> | ->]; reflexivity. Qed.

  Lemma param_names_ok : forall ts trs, ParNames ts trs ->
    forall acc rest, param_names (ts ++ TRParen :: rest) acc = Ok (acc ++ trs) (TRParen :: rest).
  Proof.
    induction 1; intros acc rest.
    - reflexivity.
    - reflexivity.
    - destruct (ParNames_first _ _ H) as (x & r & Heq & Hx).
      change ((TName :: TComma :: ts) ++ TRParen :: rest) with (TName :: TComma :: (ts ++ TRParen :: rest)).
      specialize (IHParNames (acc ++ [N KParamName [L TName]; L TComma]) rest).
      rewrite Heq in *. change ((x :: r) ++ TRParen :: rest) with (x :: (r ++ TRParen :: rest)) in *.
      rewrite (param_names_cons x _ acc Hx). rewrite IHParNames. rewrite <- app_assoc. reflexivity.
  Qed.

  Lemma param_list_unfold : forall x r, x = TName \/ x = TDots ->
    param_list (TLParen :: x :: r) =
    bind (param_names (x :: r) [])
         (fun ps r2 => match r2 with
                       | TRParen :: r3 => Ok (N KParamList (L TLParen :: ps ++ [L TRParen])) r3
                       | _ => Err
                       end).
  Proof. intros x r [-> | ->]; reflexivity. Qed.

  Lemma param_list_ok : forall tp p, ParList tp p -> forall rest, param_list (tp ++ rest) = Ok p rest.
  Proof.
    intros tp p H rest. inversion H; subst.
    - reflexivity.
    - destruct (ParNames_first _ _ H0) as (x & r & Heq & Hx).
      pose proof (param_names_ok _ _ H0 [] rest) as Hp.
      rewrite Heq in *. norm_app. cbn [app] in Hp.
      rewrite (param_list_unfold x _ Hx). rewrite Hp. reflexivity.
  Qed.

  Lemma ParList_first : forall tp p, ParList tp p -> exists r, tp = TLParen :: r.
  Proof. intros tp p H. inversion H; subst; eexists; reflexivity. Qed.

  Lemma func_name_dots_ok : forall cm ts t, FuncNameDots cm ts t ->
    forall rest, match rest with TDot :: _ => False | _ => True end ->
    func_name_dots (ts ++ rest) cm = Ok t rest.
  Proof.
    induction 1; intros rest Hr.
    - cbn [app]. destruct rest as [|x r]; [reflexivity|]. destruct x; try reflexivity. destruct Hr.
    - cbn [app func_name_dots]. apply IHFuncNameDots. exact Hr.
  Qed.

  Lemma func_name_ok : forall tn n, FuncName tn n -> forall rest, func_name (tn ++ TLParen :: rest) = Ok n (TLParen :: rest).
  Proof.
    intros tn n H rest. inversion H; subst.
    - cbn [app func_name]. rewrite (func_name_dots_ok _ _ _ H0) by exact I. reflexivity.
    - cbn [app func_name]. norm_app. rewrite (func_name_dots_ok _ _ _ H0) by exact I. reflexivity.
  Qed.

  (** after a name list: neither ',' nor '<' *)
  Definition nameendb (ts : list tok) : bool := match ts with (TComma | TLt) :: _ => false | _ => true end.

  Lemma local_name_ok : forall tn n, AttName FT tn n -> forall rest, hd_is TLt rest = false ->
    local_name FT true (tn ++ rest) = Ok n rest.
  Proof.
    intros tn n H rest Hr. inversion H; subst.
    - cbn [app local_name]. destruct rest as [|x r]; [reflexivity|]. destruct x; try reflexivity; discriminate.
    - cbn [app local_name]. rewrite H0. reflexivity.
  Qed.

  Lemma local_names_tail_ok : forall ts trs, AttNamesTail FT ts trs -> forall acc rest, nameendb rest = true ->
    local_names_tail FT (ts ++ rest) acc = Ok (acc ++ trs) rest.
  Proof.
    induction 1; intros acc rest Hr.
    - cbn [app]. rewrite app_nil_r. destruct rest as [|x r]; [reflexivity|]. destruct x; try reflexivity; discriminate.
    - inversion H; subst.
      + cbn [app local_names_tail].
        assert (Hn : nameendb (ts ++ rest) = true \/ exists r, ts ++ rest = TComma :: r).
        { inversion H0; subst; [left; exact Hr|right; eexists; reflexivity]. }
        destruct Hn as [Hn | [r Hn]].
        * rewrite IHAttNamesTail by exact Hr. destruct (ts ++ rest) as [|x r]; [|destruct x; try discriminate];
            rewrite <- app_assoc; reflexivity.
        * rewrite IHAttNamesTail by exact Hr. rewrite Hn. rewrite <- app_assoc. reflexivity.
      + cbn [app local_names_tail]. rewrite H1. rewrite IHAttNamesTail by exact Hr. rewrite <- app_assoc. reflexivity.
  Qed.

  Lemma for_names_tail_ok : forall ts trs, NamesTail ts trs -> forall acc rest,
    for_names_tail (ts ++ TIn :: rest) acc = Ok (acc ++ trs) (TIn :: rest).
  Proof.
    induction 1; intros acc rest.
    - cbn [app]. rewrite app_nil_r. reflexivity.
    - cbn [app for_names_tail]. rewrite IHNamesTail. rewrite <- app_assoc. reflexivity.
  Qed.


End Complete.
