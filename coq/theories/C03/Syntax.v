(** C03/Syntax.v — token kinds, operators and syntax trees shared by the parser model (Model.v),
    the grammar (Spec.v) and the generated operator tables (Gen/C03_Ops.v).  Definitions only. *)
From Coq Require Import List Bool Arith.
Import ListNotations.

(** token kinds of LuaTokenKind that the Lua 5.1 - 5.4 lexer can produce (trivia removed).
    Every other kind (TkUnknown, the LuaJIT / 5.5 extension tokens) is [TOther]. *)
Inductive tok :=
| TName | TInt | TFloat | TString | TLongString | TNil | TTrue | TFalse | TDots
| TAnd | TOr | TNot | TBreak | TDo | TElse | TElseIf | TEnd | TFor | TFunction | TGoto | TIf | TIn
| TLocal | TRepeat | TReturn | TThen | TUntil | TWhile
| TPlus | TMinus | TMul | TDiv | TIDiv | TMod | TPow | TLen | TBitAnd | TBitOr | TBitXor | TShl | TShr | TConcat
| TLt | TLe | TGt | TGe | TEq | TNe | TAssign
| TLParen | TRParen | TLBrace | TRBrace | TLBracket | TRBracket | TSemi | TComma | TDot | TColon | TDbColon
| TOther.

Scheme Equality for tok.

(** BinaryOperator / UnaryOperator of kind/lua_operator_kind.rs restricted to standard Lua *)
Inductive binop :=
| OpAdd | OpSub | OpMul | OpDiv | OpIDiv | OpMod | OpPow | OpBAnd | OpBOr | OpBXor | OpShl | OpShr | OpConcat
| OpLt | OpLe | OpGt | OpGe | OpEq | OpNe | OpAnd | OpOr.
Inductive unop := OpNot | OpLen | OpUnm | OpBNot.

Scheme Equality for binop.
Scheme Equality for unop.

Definition all_binops : list binop :=
  [OpAdd; OpSub; OpMul; OpDiv; OpIDiv; OpMod; OpPow; OpBAnd; OpBOr; OpBXor; OpShl; OpShr; OpConcat;
   OpLt; OpLe; OpGt; OpGe; OpEq; OpNe; OpAnd; OpOr].
Definition all_unops : list unop := [OpNot; OpLen; OpUnm; OpBNot].
Definition all_toks : list tok :=
  [TName; TInt; TFloat; TString; TLongString; TNil; TTrue; TFalse; TDots;
   TAnd; TOr; TNot; TBreak; TDo; TElse; TElseIf; TEnd; TFor; TFunction; TGoto; TIf; TIn;
   TLocal; TRepeat; TReturn; TThen; TUntil; TWhile;
   TPlus; TMinus; TMul; TDiv; TIDiv; TMod; TPow; TLen; TBitAnd; TBitOr; TBitXor; TShl; TShr; TConcat;
   TLt; TLe; TGt; TGe; TEq; TNe; TAssign;
   TLParen; TRParen; TLBrace; TRBrace; TLBracket; TRBracket; TSemi; TComma; TDot; TColon; TDbColon; TOther].

(** node kinds (LuaSyntaxKind; the three table kinds are one [KTable], the special call kinds
    RequireCallExpr/AssertCallExpr/... are [KCall]) *)
Inductive kind :=
| KChunk | KBlock
| KLocal | KLocalFunc | KAssign | KCallStat | KDo | KWhile | KRepeat | KIf | KElseIf | KElse | KFor | KForRange
| KFunc | KReturn | KBreak | KGoto | KLabel | KEmpty
| KLocalName | KAttrib | KParamList | KParamName
| KBinary | KUnary | KParen | KLiteral | KName | KIndex | KCall | KArgs | KTable | KFieldAssign | KFieldValue | KClosure.

Scheme Equality for kind.

(** syntax trees as rowan builds them, trivia dropped: a token leaf or a node with children *)
Inductive tree := L (t : tok) | N (k : kind) (cs : list tree).

Fixpoint tree_eqb (a b : tree) {struct a} : bool :=
  match a, b with
  | L x, L y => tok_beq x y
  | N k cs, N k' cs' =>
      kind_beq k k' &&
      (fix go (xs ys : list tree) {struct xs} : bool :=
         match xs, ys with
         | [], [] => true
         | x :: xr, y :: yr => tree_eqb x y && go xr yr
         | _, _ => false
         end) cs cs'
  | _, _ => false
  end.

(** the tokens of a tree, left to right *)
Fixpoint yield (t : tree) : list tok :=
  match t with
  | L x => [x]
  | N _ cs => (fix go (xs : list tree) : list tok := match xs with [] => [] | x :: r => yield x ++ go r end) cs
  end.
Definition yields (ts : list tree) : list tok := flat_map yield ts.

(** height of a tree (what a recursive walk or a recursive drop of the tree needs) *)
Fixpoint height (t : tree) : nat :=
  match t with
  | L _ => 1
  | N _ cs => S ((fix go (xs : list tree) : nat := match xs with [] => 0 | x :: r => Nat.max (height x) (go r) end) cs)
  end.

Definition root_kind (t : tree) : option kind := match t with N k _ => Some k | L _ => None end.

(** language levels 5.1 - 5.4 and the features (kind/lua_features.rs) that differ between them *)
Inductive level := Lua51 | Lua52 | Lua53 | Lua54.
Record features := { f_goto : bool; f_bitop : bool; f_idiv : bool; f_attrib : bool }.

(** operators that exist at a language level (manual §3.4.2: bitwise operators and // are 5.3+);
    for the others the lexer reports "bitwise operation is not supported" / "integer division is not supported" *)
Definition binop_in (ft : features) (b : binop) : bool :=
  match b with
  | OpBAnd | OpBOr | OpBXor | OpShl | OpShr => f_bitop ft
  | OpIDiv => f_idiv ft
  | _ => true
  end.
Definition unop_in (ft : features) (u : unop) : bool :=
  match u with OpBNot => f_bitop ft | _ => true end.
