(** C03/CompleteStat.v — completeness cases for blocks and statements. *)
From Coq Require Import List Bool Arith Lia.
Import ListNotations.
From EV Require Import C03.Syntax C03.Spec C03.Model C03.Facts C03.Complete C03.CompleteExpr.

Section CompleteStat.
  Variable binop_of : tok -> option binop.
  Variable unop_of : tok -> option unop.
  Variable bl br : binop -> nat.
  Variable up : nat.
  Variable FT : features.
  Variable MAXLVL : nat.
  Hypothesis Htab : table_ok binop_of unop_of bl br up = true.

  Local Notation sub_expr := (Model.sub_expr binop_of unop_of bl br up FT MAXLVL).
  Local Notation simple_expr := (Model.simple_expr binop_of unop_of bl br up FT MAXLVL).
  Local Notation closure_expr := (Model.closure_expr binop_of unop_of bl br up FT MAXLVL).
  Local Notation expr_list_tail := (Model.expr_list_tail binop_of unop_of bl br up FT MAXLVL).
  Local Notation block := (Model.block binop_of unop_of bl br up FT MAXLVL).
  Local Notation stats := (Model.stats binop_of unop_of bl br up FT MAXLVL).
  Local Notation stat := (Model.stat binop_of unop_of bl br up FT MAXLVL).
  Local Notation if_tail := (Model.if_tail binop_of unop_of bl br up FT MAXLVL).
  Local Notation for_body := (Model.for_body binop_of unop_of bl br up FT MAXLVL).
  Local Notation assign_targets := (Model.assign_targets binop_of unop_of bl br up FT MAXLVL).
  Local Notation PE := (Complete.PE binop_of unop_of bl br up FT MAXLVL).
  Local Notation PS := (Complete.PS binop_of unop_of bl br up FT MAXLVL).
  Local Notation PET := (Complete.PET binop_of unop_of bl br up FT MAXLVL).
  Local Notation PB := (Complete.PB binop_of unop_of bl br up FT MAXLVL).
  Local Notation PSR := (Complete.PSR binop_of unop_of bl br up FT MAXLVL).
  Local Notation PSt := (Complete.PSt binop_of unop_of bl br up FT MAXLVL).
  Local Notation PSB := (Complete.PSB binop_of unop_of bl br up FT MAXLVL).
  Local Notation PVT := (Complete.PVT binop_of unop_of bl br up FT MAXLVL).
  Local Notation PIT := (Complete.PIT binop_of unop_of bl br up FT MAXLVL).
  Local Notation PFS := (Complete.PFS binop_of unop_of bl br up FT MAXLVL).
  Local Notation pe_top := (Complete.pe_top binop_of unop_of bl br up FT MAXLVL Htab).
  Local Notation ev_closure := (CompleteExpr.ev_closure binop_of unop_of bl br up FT MAXLVL).

  (* ---------------------------------------------------------------------------------------- *)
  (** ** unfolding equations of [stat], one per leading token *)
  Lemma stats_S : forall f lvl acc ts,
    stats (S f) lvl acc ts = if block_follow ts then Ok acc ts else bind (stat f lvl ts) (fun s r => stats f lvl (acc ++ [s]) r).
  Proof. reflexivity. Qed.

  Lemma block_S : forall f lvl ts,
    block (S f) lvl ts = bind (stats f lvl [] ts) (fun ss r => Ok (match ss with [] => [] | _ => [N KBlock ss] end) r).
  Proof. reflexivity. Qed.

  Lemma stat_S_semi : forall f lvl r,
    stat (S f) lvl (TSemi :: r) = if MAXLVL <=? lvl then Err else Ok (N KEmpty [L TSemi]) r.
  Proof. reflexivity. Qed.

  Lemma stat_S_break : forall f lvl r,
    stat (S f) lvl (TBreak :: r) =
    if MAXLVL <=? lvl then Err else let '(sm, r1) := opt_semi r in Ok (N KBreak (L TBreak :: sm)) r1.
  Proof. reflexivity. Qed.

  Lemma stat_S_goto : forall f lvl r,
    stat (S f) lvl (TGoto :: TName :: r) =
    if MAXLVL <=? lvl then Err else let '(sm, r2) := opt_semi r in Ok (N KGoto (L TGoto :: L TName :: sm)) r2.
  Proof. reflexivity. Qed.

  Lemma stat_S_label : forall f lvl r,
    stat (S f) lvl (TDbColon :: TName :: TDbColon :: r) =
    if MAXLVL <=? lvl then Err else Ok (N KLabel [L TDbColon; L TName; L TDbColon]) r.
  Proof. reflexivity. Qed.

  Lemma stat_S_do : forall f lvl r,
    stat (S f) lvl (TDo :: r) =
    if MAXLVL <=? lvl then Err
    else bind (block f (S lvl) r)
              (fun b r1 => match r1 with
                           | TEnd :: r2 => let '(sm, r3) := opt_semi r2 in Ok (N KDo (L TDo :: b ++ L TEnd :: sm)) r3
                           | _ => Err
                           end).
  Proof. reflexivity. Qed.

  Lemma stat_S_while : forall f lvl r,
    stat (S f) lvl (TWhile :: r) =
    if MAXLVL <=? lvl then Err
    else bind (sub_expr f (S lvl) 0 r)
              (fun c r1 =>
                 match r1 with
                 | TDo :: r2 =>
                     bind (if at_end r2 then Ok [] r2 else block f (S lvl) r2)
                          (fun b r3 => match r3 with
                                       | TEnd :: r4 => let '(sm, r5) := opt_semi r4 in
                                                       Ok (N KWhile (L TWhile :: c :: L TDo :: b ++ L TEnd :: sm)) r5
                                       | _ => Err
                                       end)
                 | _ => Err
                 end).
  Proof. reflexivity. Qed.

  Lemma stat_S_repeat : forall f lvl r,
    stat (S f) lvl (TRepeat :: r) =
    if MAXLVL <=? lvl then Err
    else bind (block f (S lvl) r)
              (fun b r1 => match r1 with
                           | TUntil :: r2 =>
                               bind (sub_expr f (S lvl) 0 r2)
                                    (fun c r3 => let '(sm, r4) := opt_semi r3 in
                                                 Ok (N KRepeat (L TRepeat :: b ++ L TUntil :: c :: sm)) r4)
                           | _ => Err
                           end).
  Proof. reflexivity. Qed.

  Lemma stat_S_if : forall f lvl r,
    stat (S f) lvl (TIf :: r) =
    if MAXLVL <=? lvl then Err
    else bind (sub_expr f (S lvl) 0 r)
              (fun c r1 =>
                 match r1 with
                 | TThen :: r2 =>
                     bind (if block_follow r2 then Ok [] r2 else block f (S lvl) r2)
                          (fun b r3 =>
                             bind (if_tail f (S lvl) (L TIf :: c :: L TThen :: b) r3)
                                  (fun cs r4 => match r4 with
                                                | TEnd :: r5 => let '(sm, r6) := opt_semi r5 in
                                                                Ok (N KIf (cs ++ L TEnd :: sm)) r6
                                                | _ => Err
                                                end))
                 | _ => Err
                 end).
  Proof. reflexivity. Qed.

  Lemma stat_S_fornum : forall f lvl r1,
    stat (S f) lvl (TFor :: TName :: TAssign :: r1) =
    if MAXLVL <=? lvl then Err
    else bind (sub_expr f (S lvl) 0 r1)
              (fun e1 r2 =>
                 match r2 with
                 | TComma :: r3 =>
                     bind (sub_expr f (S lvl) 0 r3)
                          (fun e2 r4 =>
                             bind (if hd_is TComma r4
                                   then bind (sub_expr f (S lvl) 0 (tl r4)) (fun e3 r6 => Ok [L TComma; e3] r6)
                                   else Ok [] r4)
                                  (fun step r7 =>
                                     for_body f (S lvl) KFor (L TFor :: L TName :: L TAssign :: e1 :: L TComma :: e2 :: step) r7))
                 | _ => Err
                 end).
  Proof. reflexivity. Qed.

  Lemma stat_S_forin : forall f lvl x r,
    x = TComma \/ x = TIn ->
    stat (S f) lvl (TFor :: TName :: x :: r) =
    if MAXLVL <=? lvl then Err
    else bind (for_names_tail (x :: r) [])
              (fun ns r2 =>
                 match r2 with
                 | TIn :: r3 =>
                     bind (sub_expr f (S lvl) 0 r3)
                          (fun e r4 => bind (expr_list_tail f (S lvl) [e] r4)
                                            (fun es r5 => for_body f (S lvl) KForRange (L TFor :: L TName :: ns ++ L TIn :: es) r5))
                 | _ => Err
                 end).
  Proof. intros f lvl x r [-> | ->]; reflexivity. Qed.

  Lemma stat_S_function : forall f lvl r,
    stat (S f) lvl (TFunction :: r) =
    if MAXLVL <=? lvl then Err
    else bind (func_name r)
              (fun nm r1 => bind (closure_expr f (S lvl) r1)
                                 (fun c r2 => let '(sm, r3) := opt_semi r2 in
                                              Ok (N KFunc (L TFunction :: nm :: c :: sm)) r3)).
  Proof. reflexivity. Qed.

  Lemma stat_S_localfunction : forall f lvl r1,
    stat (S f) lvl (TLocal :: TFunction :: r1) =
    if MAXLVL <=? lvl then Err
    else bind (local_name FT false r1)
              (fun nm r2 => bind (closure_expr f (S lvl) r2)
                                 (fun c r3 => let '(sm, r4) := opt_semi r3 in
                                              Ok (N KLocalFunc (L TLocal :: L TFunction :: nm :: c :: sm)) r4)).
  Proof. reflexivity. Qed.

  Lemma stat_S_local : forall f lvl r,
    stat (S f) lvl (TLocal :: TName :: r) =
    if MAXLVL <=? lvl then Err
    else bind (local_name FT true (TName :: r))
              (fun nm r1 =>
                 bind (local_names_tail FT r1 [nm])
                      (fun nms r2 =>
                         bind (if hd_is TAssign r2
                               then bind (sub_expr f (S lvl) 0 (tl r2))
                                         (fun e r4 => bind (expr_list_tail f (S lvl) [e] r4)
                                                           (fun es r5 => Ok (L TAssign :: es) r5))
                               else Ok [] r2)
                              (fun init r6 => let '(sm, r7) := opt_semi r6 in
                                              Ok (N KLocal (L TLocal :: nms ++ init ++ sm)) r7))).
  Proof. reflexivity. Qed.

  Lemma stat_S_return : forall f lvl r,
    stat (S f) lvl (TReturn :: r) =
    if MAXLVL <=? lvl then Err
    else bind (if block_follow r || hd_is TSemi r then Ok [] r
               else bind (sub_expr f (S lvl) 0 r) (fun e r1 => expr_list_tail f (S lvl) [e] r1))
              (fun es r2 => let '(sm, r3) := opt_semi r2 in
                            if block_follow r3 then Ok (N KReturn (L TReturn :: es ++ sm)) r3 else Err).
  Proof. reflexivity. Qed.

  Lemma stat_S_expr : forall f lvl x r,
    x = TName \/ x = TLParen ->
    stat (S f) lvl (x :: r) =
    if MAXLVL <=? lvl then Err
    else bind (simple_expr f (S lvl) (x :: r))
              (fun e r1 =>
                 if is_call e then let '(sm, r2) := opt_semi r1 in Ok (N KCallStat (e :: sm)) r2
                 else if is_lvalue e then
                        bind (assign_targets f (S lvl) [e] r1)
                             (fun tg r2 =>
                                match r2 with
                                | TAssign :: r3 =>
                                    bind (sub_expr f (S lvl) 0 r3)
                                         (fun v r4 => bind (expr_list_tail f (S lvl) [v] r4)
                                                           (fun vs r5 => let '(sm, r6) := opt_semi r5 in
                                                                         Ok (N KAssign (tg ++ L TAssign :: vs ++ sm)) r6))
                                | _ => Err
                                end)
                      else Err).
  Proof. intros f lvl x r [-> | ->]; reflexivity. Qed.

  (* ---------------------------------------------------------------------------------------- *)
  (** ** what follows *)
  Local Notation stat_follow := Complete.stat_follow.
  Local Notation afterstatb := Complete.afterstatb.
  Local Notation exprendb := Complete.exprendb.

  Lemma lvl_ok' : forall lvl d, S lvl + d <= MAXLVL -> (MAXLVL <=? lvl) = false.
  Proof. intros. apply Nat.leb_gt. lia. Qed.

  Lemma block_follow_head : forall x r, block_follow (x :: r) = block_follow [x].
  Proof. destruct x; reflexivity. Qed.

  Lemma block_follow_app : forall x r rest, block_follow ((x :: r) ++ rest) = block_follow [x].
  Proof. intros. cbn [app]. apply block_follow_head. Qed.

  (** the optional ';' *)
  Lemma opt_semi_ok : forall semi k rest, k <> FAny ->
    stat_follow (semi_kind semi k) rest = true ->
    opt_semi (semi_toks semi ++ rest) = (semi_trees semi, rest).
  Proof.
    intros semi k rest Hk H. destruct semi; [reflexivity|]. cbn [semi_toks semi_trees app semi_kind] in *.
    unfold opt_semi. destruct rest as [|x r]; [reflexivity|]. rewrite hd_is_cons.
    assert (E : tok_beq x TSemi = false).
    { destruct k; cbn in H.
      - contradiction.
      - apply negb_true_iff in H. exact H.
      - apply andb_true_iff in H. destruct H as [H _]. apply andb_true_iff in H. destruct H as [H _].
        apply negb_true_iff in H. exact H.
      - destruct x; try discriminate; reflexivity. }
    rewrite E. reflexivity.
  Qed.

  (** after the last expression of a statement *)
  Lemma expr_stmt_end : forall semi rest,
    stat_follow (semi_kind semi FExpr) rest = true -> afterstatb rest = true ->
    exprendb (semi_toks semi ++ rest) = true.
  Proof.
    intros semi rest H Ha. destruct semi; [reflexivity|]. cbn [semi_toks app semi_kind] in *.
    destruct rest as [|x r]; [reflexivity|]. cbn in H.
    apply andb_true_iff in H. destruct H as [H H3]. apply andb_true_iff in H. destruct H as [H1 H2].
    cbn in Ha. apply andb_true_iff in Ha. destruct Ha as [Ha _]. apply andb_true_iff in Ha. destruct Ha as [_ Hc].
    unfold Complete.exprendb. cbn [nosuffixb nobinopb]. rewrite H2, H3. cbn [andb].
    destruct x; try reflexivity; discriminate.
  Qed.

  Lemma return_end : forall semi rest, block_follow rest = true -> exprendb (semi_toks semi ++ rest) = true.
  Proof.
    intros semi rest H. destruct semi; [reflexivity|]. cbn [semi_toks app].
    destruct rest as [|x r]; [reflexivity|]. destruct x; try discriminate; reflexivity.
  Qed.

  Lemma exprendb_split : forall rest, exprendb rest = true -> nosuffixb rest = true /\ nobinopb rest = true.
  Proof.
    intros rest H. unfold Complete.exprendb in H. apply andb_true_iff in H. destruct H as [H _].
    apply andb_true_iff in H. exact H.
  Qed.

  (** a list of expressions  exp {',' exp}  followed by something that ends it *)
  Lemma ev_explist : forall d te e tes es lvl rest,
    PE 1 d te e -> ExpTail FT d tes es -> PET d tes es -> exprendb rest = true -> lvl + d <= MAXLVL ->
    ev (fun f => bind (sub_expr f lvl 0 (te ++ tes ++ rest)) (fun e0 r1 => expr_list_tail f lvl [e0] r1))
       (Ok (e :: es) rest).
  Proof.
    intros d te e tes es lvl rest IHe Ht IHt Hr Hl.
    assert (Hnext : nosuffixb (tes ++ rest) = true /\ nobinopb (tes ++ rest) = true).
    { inversion Ht; subst; [apply exprendb_split; exact Hr|split; reflexivity]. }
    eapply (ev_bind _ _ (fun f => sub_expr f lvl 0 (te ++ tes ++ rest))).
    - apply (pe_top d _ _ IHe); try assumption; apply Hnext.
    - cbn beta. apply (IHt lvl [e] rest Hr Hl).
  Qed.

  (* ---------------------------------------------------------------------------------------- *)
  (** ** blocks *)
  Lemma case_B_empty : forall d, PB d [] [].
  Proof.
    intros d lvl rest Hr _. cbn [app].
    eapply ev_S; [intros f; rewrite block_S; reflexivity|].
    eapply (ev_bind _ _ (fun f => stats f lvl [] rest) _ [] rest).
    - eapply ev_S; [intros f; rewrite stats_S, Hr; reflexivity|apply ev_const].
    - apply ev_const.
  Qed.

  Lemma case_B_stats : forall d ts s ss, StatsR FT d ts (s :: ss) -> PSR d ts (s :: ss) -> PB d ts [N KBlock (s :: ss)].
  Proof.
    intros d ts s ss _ IH lvl rest Hr Hl.
    eapply ev_S; [intros f; rewrite block_S; reflexivity|].
    eapply (ev_bind _ _ (fun f => stats f lvl [] (ts ++ rest)) _ (s :: ss) rest).
    - apply (IH lvl [] rest Hr Hl).
    - apply ev_const.
  Qed.

  Lemma case_SR_nil : forall d, PSR d [] [].
  Proof.
    intros d lvl acc rest Hr _. cbn [app]. rewrite app_nil_r.
    eapply ev_S; [intros f; rewrite stats_S, Hr; reflexivity|apply ev_const].
  Qed.

  Lemma StatsR_head : forall d ts trs, StatsR FT d ts trs ->
    ts = [] \/ exists x r, ts = x :: r /\ block_follow [x] = false /\ x <> TAssign /\ x <> TComma /\ x <> TLt.
  Proof.
    intros d ts trs H. inversion H; subst; [left; reflexivity|right].
    match goal with H : Stat _ _ _ _ _ |- _ => destruct (Stat_first _ _ _ _ _ H) as (x & r & -> & Hx) end.
    do 2 eexists. split; [reflexivity|exact Hx].
  Qed.

  Lemma block_follow_after : forall rest, block_follow rest = true ->
    afterstatb rest = true /\ forall k, k <> FLast -> head_ok k rest = true.
  Proof.
    intros [|x r] H; [split; [reflexivity|intros; reflexivity]|].
    destruct x; try discriminate; (split; [reflexivity|intros k Hk; destruct k; try reflexivity; contradiction]).
  Qed.

  Lemma case_SR_cons : forall d k ts1 s ts2 ss,
    Stat FT d ts1 s k -> PSt d ts1 s k -> StatsR FT d ts2 ss -> PSR d ts2 ss -> head_ok k ts2 = true ->
    PSR d (ts1 ++ ts2) (s :: ss).
  Proof.
    intros d k ts1 s ts2 ss Hs IHs Hss IHss Hk lvl acc rest Hr Hl. norm_app.
    destruct (Stat_first _ _ _ _ _ Hs) as (x & r1 & Heq & Hx & _).
    assert (Hfollow : stat_follow k (ts2 ++ rest) = true /\ afterstatb (ts2 ++ rest) = true).
    { destruct (StatsR_head _ _ _ Hss) as [-> | (y & r2 & -> & Hy & Hy1 & Hy2 & Hy3)].
      - cbn [app]. destruct (block_follow_after rest Hr) as [Ha Hh]. split; [|exact Ha].
        destruct k; try (apply Hh; discriminate). exact Hr.
      - cbn [app]. split.
        + destruct k; try exact Hk. cbn in Hk. discriminate.
        + cbn. rewrite (tok_beq_neq y TAssign Hy1), (tok_beq_neq y TComma Hy2), (tok_beq_neq y TLt Hy3). reflexivity. }
    destruct Hfollow as [Hf Ha].
    eapply ev_S with (h := fun f => bind (stat f lvl (ts1 ++ ts2 ++ rest)) (fun s0 r => stats f lvl (acc ++ [s0]) r)).
    - intros f. rewrite stats_S. rewrite Heq. rewrite block_follow_app, Hx. reflexivity.
    - eapply (ev_bind _ _ (fun f => stat f lvl (ts1 ++ ts2 ++ rest))).
      + apply (IHs lvl (ts2 ++ rest) Hf Ha Hl).
      + cbn beta. eapply ev_eq; [|apply (IHss lvl (acc ++ [s]) rest Hr Hl)].
        rewrite <- app_assoc. reflexivity.
  Qed.

  Lemma case_St_intro : forall d d' ts t k, StatB FT d' ts t k -> PSB d' ts t k -> S d' <= d -> PSt d ts t k.
  Proof. intros d d' ts t k _ IH Hd lvl rest Hf Ha Hl. apply IH; try assumption. lia. Qed.

End CompleteStat.
