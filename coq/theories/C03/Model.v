(** C03/Model.v — acceptance logic of the Lua recursive-descent parser, transcribed function for
    function from crates/emmylua_parser/src/grammar/lua/{mod,expr,stat}.rs over token KINDS
    (trivia removed, so peek_next_token is the second element of the list; end of file = []).

    Outcome [Ok tree rest] = the Rust function returned with NO error pushed so far, built [tree]
    and left [rest] unread.  [Err] = at least one LuaParseError was pushed (the Rust code then goes
    on with error recovery; acceptance is already lost, so the model stops).  [Fuel] = the fuel of
    this executable model ran out (never with fuel >= 2 * number of tokens + 2, see Corr.v).

    Parameters: the priority tables of kind/lua_operator_kind.rs (regenerated into Gen/C03_Ops.v),
    the feature set of the language level and MAX_NESTING_LEVEL (parser/lua_parser.rs, fn enter_level).
    [lvl] is LuaParser::nesting_level at the time of the call.

    Not modelled (not reachable with Lua 5.1-5.4 tokens): TkTernary, TkSafeNavigation, short
    functions, compound assignment, the soft keywords global/const/continue, TkComplex, named
    varargs, `local <attrib> name` (level >= 5.5).  Special function names (require, assert, ...)
    only change a node kind that the dump maps back to CallExpr.  Definitions only. *)
From Coq Require Import List Bool Arith.
Import ListNotations.
From EV Require Import C03.Syntax.

Inductive res (A : Type) :=
| Ok (a : A) (rest : list tok)
| Err
| Fuel.
Arguments Ok {A} a rest.
Arguments Err {A}.
Arguments Fuel {A}.

Definition bind {A B : Type} (r : res A) (k : A -> list tok -> res B) : res B :=
  match r with Ok a rest => k a rest | Err => Err | Fuel => Fuel end.

(** p.current_token() == t *)
Definition hd_is (t : tok) (ts : list tok) : bool :=
  match ts with x :: _ => tok_beq x t | [] => false end.
(** p.current_token() == TkEnd || p.current_token() == TkEof *)
Definition at_end (ts : list tok) : bool :=
  match ts with [] => true | x :: _ => tok_beq x TEnd end.

(** if_token_bump(p, TkSemicolon) *)
Definition opt_semi (ts : list tok) : list tree * list tok :=
  if hd_is TSemi ts then ([L TSemi], tl ts) else ([], ts).

(** parse_simple_expr: literal tokens *)
Definition is_literal (t : tok) : bool :=
  match t with TInt | TFloat | TNil | TTrue | TFalse | TDots | TString | TLongString => true | _ => false end.

(** stat.rs fn block_follow *)
Definition block_follow (ts : list tok) : bool :=
  match ts with [] => true | (TElse | TElseIf | TEnd | TUntil) :: _ => true | _ => false end.

(** parse_suffixed_expr / parse_name_or_special_function: tokens that start call arguments *)
Definition is_args_start (t : tok) : bool :=
  match t with TLParen | TLongString | TString | TLBrace => true | _ => false end.

Definition is_lvalue (t : tree) : bool :=
  match root_kind t with Some KName | Some KIndex => true | _ => false end.
Definition is_call (t : tree) : bool :=
  match root_kind t with Some KCall => true | _ => false end.

(** expr.rs fn parse_param_list (open '(' close ')'; NamedVararg off) after the '(' and when the
    current token is not ')': the names.  Structural on the token list. *)
Fixpoint param_names (ts : list tok) (acc : list tree) : res (list tree) :=
  match ts with
  | TName :: r =>
      match r with
      | TComma :: r2 =>
          match r2 with
          | TRParen :: _ => Err                        (* "expected parameter name after ','" *)
          | _ => param_names r2 (acc ++ [N KParamName [L TName]; L TComma])
          end
      | _ => Ok (acc ++ [N KParamName [L TName]]) r
      end
  | TDots :: r => Ok (acc ++ [N KParamName [L TDots]]) r    (* vararg: break *)
  | _ => Err                                              (* "expected parameter name or '...'" *)
  end.

Definition param_list (ts : list tok) : res tree :=
  match ts with
  | TLParen :: r =>
      match r with
      | TRParen :: r2 => Ok (N KParamList [L TLParen; L TRParen]) r2
      | _ => bind (param_names r [])
               (fun ps r2 => match r2 with
                             | TRParen :: r3 => Ok (N KParamList (L TLParen :: ps ++ [L TRParen])) r3
                             | _ => Err
                             end)
      end
  | _ => Err                                              (* "expected '(' to start parameter list" *)
  end.

(** stat.rs fn parse_func_name: Name {'.' Name} [':' Name], nested IndexExpr *)
Fixpoint func_name_dots (ts : list tok) (cm : tree) : res tree :=
  match ts with
  | TDot :: r => match r with
                 | TName :: r2 => func_name_dots r2 (N KIndex [cm; L TDot; L TName])
                 | _ => Err
                 end
  | _ => Ok cm ts
  end.

Definition func_name (ts : list tok) : res tree :=
  match ts with
  | TName :: r =>
      bind (func_name_dots r (N KName [L TName]))
           (fun cm r2 => match r2 with
                         | TColon :: r3 => match r3 with
                                           | TName :: r4 => Ok (N KIndex [cm; L TColon; L TName]) r4
                                           | _ => Err
                                           end
                         | _ => Ok cm r2
                         end)
  | _ => Err
  end.

Section Parser.
  Variable binop_of : tok -> option binop.   (* LuaOpKind::to_binary_operator *)
  Variable unop_of : tok -> option unop.     (* LuaOpKind::to_unary_operator *)
  Variable bl br : binop -> nat.             (* PRIORITY[op].left / .right *)
  Variable up : nat.                         (* UNARY_PRIORITY *)
  Variable FT : features.
  Variable MAXLVL : nat.                     (* MAX_NESTING_LEVEL *)

  (** stat.rs fn parse_local_name(support_attrib = attr) and fn parse_attrib *)
  Definition local_name (attr : bool) (ts : list tok) : res tree :=
    match ts with
    | TName :: r =>
        match r with
        | TLt :: r2 =>
            if attr then
              match r2 with
              | TName :: TGt :: r3 =>
                  if f_attrib FT then Ok (N KLocalName [L TName; N KAttrib [L TLt; L TName; L TGt]]) r3
                  else Err                          (* "local attribute is not supported for current version" *)
              | _ => Err
              end
            else Ok (N KLocalName [L TName]) r
        | _ => Ok (N KLocalName [L TName]) r
        end
    | _ => Err
    end.

  (** stat.rs fn parse_variable_name_list(support_attrib = true): the names after the first,
      {',' parse_local_name(true)} (structural on the token list) *)
  Fixpoint local_names_tail (ts : list tok) (acc : list tree) : res (list tree) :=
    match ts with
    | TComma :: r =>
        match r with
        | TName :: r1 =>
            match r1 with
            | TLt :: r2 =>
                match r2 with
                | TName :: TGt :: r3 =>
                    if f_attrib FT
                    then local_names_tail r3 (acc ++ [L TComma; N KLocalName [L TName; N KAttrib [L TLt; L TName; L TGt]]])
                    else Err
                | _ => Err
                end
            | _ => local_names_tail r1 (acc ++ [L TComma; N KLocalName [L TName]])
            end
        | _ => Err
        end
    | _ => Ok acc ts
    end.

  (** generic-for names after the first: {',' Name} (bare tokens, no LocalName node) *)
  Fixpoint for_names_tail (ts : list tok) (acc : list tree) : res (list tree) :=
    match ts with
    | TComma :: r => match r with
                     | TName :: r2 => for_names_tail r2 (acc ++ [L TComma; L TName])
                     | _ => Err
                     end
    | _ => Ok acc ts
    end.

  Fixpoint sub_expr (fuel lvl limit : nat) (ts : list tok) {struct fuel} : res tree :=
    match fuel with
    | 0 => Fuel
    | S f =>
        if MAXLVL <=? lvl then Err                                  (* enter_level refuses *)
        else
          let lvl' := S lvl in
          match ts with
          | [] => Err
          | t :: r =>
              match unop_of t with
              | Some u =>
                  if unop_in FT u
                  then bind (sub_expr f lvl' up r) (fun e r' => binop_loop f lvl' limit (N KUnary [L t; e]) r')
                  else Err                                        (* the lexer reported the token *)
              | None =>
                  bind (simple_expr f lvl' ts) (fun e r' => binop_loop f lvl' limit e r')
              end
          end
    end

  (** the `loop` of parse_sub_expr; [lvl] is the level inside the invocation *)
  with binop_loop (fuel lvl limit : nat) (cm : tree) (ts : list tok) {struct fuel} : res tree :=
    match fuel with
    | 0 => Fuel
    | S f =>
        match ts with
        | [] => Ok cm []
        | t :: r =>
            match binop_of t with
            | None => Ok cm ts
            | Some b =>
                if bl b <=? limit then Ok cm ts
                else if binop_in FT b
                     then bind (sub_expr f lvl (br b) r)
                               (fun e r' => binop_loop f lvl limit (N KBinary [cm; L t; e]) r')
                     else Err                                     (* the lexer reported the token *)
            end
        end
    end

  with simple_expr (fuel lvl : nat) (ts : list tok) {struct fuel} : res tree :=
    match fuel with
    | 0 => Fuel
    | S f =>
        match ts with
        | [] => Err
        | t :: r =>
            if is_literal t then Ok (N KLiteral [L t]) r
            else match t with
                 | TLBrace => table_expr f lvl ts
                 | TFunction => closure_expr f lvl ts
                 | TName | TLParen => suffixed_expr f lvl ts
                 | _ => Err
                 end
        end
    end

  (** parse_closure_expr: if_token_bump(TkFunction); parse_param_list; block unless 'end'; 'end' *)
  with closure_expr (fuel lvl : nat) (ts : list tok) {struct fuel} : res tree :=
    match fuel with
    | 0 => Fuel
    | S f =>
        let '(pre, ts1) := match ts with TFunction :: r => ([L TFunction], r) | _ => ([], ts) end in
        bind (param_list ts1)
             (fun pl r1 =>
                if hd_is TEnd r1 then Ok (N KClosure (pre ++ [pl; L TEnd])) (tl r1)
                else bind (block f lvl r1)
                          (fun b r2 => match r2 with
                                       | TEnd :: r3 => Ok (N KClosure (pre ++ pl :: b ++ [L TEnd])) r3
                                       | _ => Err
                                       end))
    end

  (** parse_table_expr *)
  with table_expr (fuel lvl : nat) (ts : list tok) {struct fuel} : res tree :=
    match fuel with
    | 0 => Fuel
    | S f =>
        match ts with
        | TLBrace :: r =>
            if hd_is TRBrace r then Ok (N KTable [L TLBrace; L TRBrace]) (tl r)
            else bind (field f lvl r)
                      (fun fd r1 => bind (table_fields f lvl [fd] r1)
                                         (fun fs r2 => match r2 with
                                                       | TRBrace :: r3 => Ok (N KTable (L TLBrace :: fs ++ [L TRBrace])) r3
                                                       | _ => Err
                                                       end))
        | _ => Err
        end
    end

  (** the `while matches!(current, ',' | ';')` loop of parse_table_expr *)
  with table_fields (fuel lvl : nat) (acc : list tree) (ts : list tok) {struct fuel} : res (list tree) :=
    match fuel with
    | 0 => Fuel
    | S f =>
        match ts with
        | (TComma | TSemi) as sep :: r =>
            if hd_is TRBrace r then Ok (acc ++ [L sep]) r          (* trailing separator *)
            else bind (field f lvl r) (fun fd r1 => table_fields f lvl (acc ++ [L sep; fd]) r1)
        | _ => Ok acc ts
        end
    end

  (** parse_field_with_recovery *)
  with field (fuel lvl : nat) (ts : list tok) {struct fuel} : res tree :=
    match fuel with
    | 0 => Fuel
    | S f =>
        if hd_is TLBracket ts then
          bind (sub_expr f lvl 0 (tl ts))
               (fun k r1 => match r1 with
                            | TRBracket :: TAssign :: r2 =>
                                bind (sub_expr f lvl 0 r2)
                                     (fun v r3 => Ok (N KFieldAssign [L TLBracket; k; L TRBracket; L TAssign; v]) r3)
                            | _ => Err
                            end)
        else if hd_is TName ts && hd_is TAssign (tl ts) then        (* peek_next_token() == TkAssign *)
          bind (sub_expr f lvl 0 (tl (tl ts))) (fun v r1 => Ok (N KFieldAssign [L TName; L TAssign; v]) r1)
        else match ts with
             | [] => Err
             | TLocal :: _ => Err
             | _ => bind (sub_expr f lvl 0 ts) (fun v r1 => Ok (N KFieldValue [v]) r1)
             end
    end

  (** parse_suffixed_expr: primary *)
  with suffixed_expr (fuel lvl : nat) (ts : list tok) {struct fuel} : res tree :=
    match fuel with
    | 0 => Fuel
    | S f =>
        match ts with
        | TName :: r => suffix_loop f lvl (N KName [L TName]) r
        | TLParen :: r =>
            bind (sub_expr f lvl 0 r)
                 (fun e r1 => match r1 with
                              | TRParen :: r2 => suffix_loop f lvl (N KParen [L TLParen; e; L TRParen]) r2
                              | _ => Err
                              end)
        | _ => Err
        end
    end

  (** parse_suffixed_expr: the suffix loop (parse_index_struct inlined) *)
  with suffix_loop (fuel lvl : nat) (cm : tree) (ts : list tok) {struct fuel} : res tree :=
    match fuel with
    | 0 => Fuel
    | S f =>
        match ts with
        | TDot :: r =>
            match r with
            | TName :: r2 => suffix_loop f lvl (N KIndex [cm; L TDot; L TName]) r2
            | _ => Err
            end
        | TLBracket :: r =>
            bind (sub_expr f lvl 0 r)
                 (fun e r1 => match r1 with
                              | TRBracket :: r2 => suffix_loop f lvl (N KIndex [cm; L TLBracket; e; L TRBracket]) r2
                              | _ => Err
                              end)
        | TColon :: r =>
            match r with
            | TName :: r2 =>
                match r2 with
                | t :: _ => if is_args_start t then suffix_loop f lvl (N KIndex [cm; L TColon; L TName]) r2 else Err
                | [] => Err
                end
            | _ => Err
            end
        | t :: _ =>
            if is_args_start t then
              bind (args f lvl ts) (fun a r1 => suffix_loop f lvl (N KCall [cm; a]) r1)
            else Ok cm ts
        | [] => Ok cm []
        end
    end

  (** parse_args *)
  with args (fuel lvl : nat) (ts : list tok) {struct fuel} : res tree :=
    match fuel with
    | 0 => Fuel
    | S f =>
        match ts with
        | TLParen :: r =>
            if hd_is TRParen r then Ok (N KArgs [L TLParen; L TRParen]) (tl r)
            else bind (sub_expr f lvl 0 r)
                      (fun e r1 => bind (expr_list_tail f lvl [e] r1)
                                        (fun es r2 => match r2 with
                                                      | TRParen :: r3 => Ok (N KArgs (L TLParen :: es ++ [L TRParen])) r3
                                                      | _ => Err
                                                      end))
        | TLBrace :: _ => bind (table_expr f lvl ts) (fun t r1 => Ok (N KArgs [t]) r1)
        | (TString | TLongString) as s :: r => Ok (N KArgs [N KLiteral [L s]]) r
        | _ => Err
        end
    end

  (** {',' exp} of parse_expr_list_impl and of the argument loop of parse_args (there a ',' directly
      followed by ')' is reported as "expected expression after ','"; the expression parse fails on ')' anyway) *)
  with expr_list_tail (fuel lvl : nat) (acc : list tree) (ts : list tok) {struct fuel} : res (list tree) :=
    match fuel with
    | 0 => Fuel
    | S f =>
        if hd_is TComma ts
        then bind (sub_expr f lvl 0 (tl ts)) (fun e r1 => expr_list_tail f lvl (acc ++ [L TComma; e]) r1)
        else Ok acc ts
    end

  (** mod.rs fn parse_block: a Block node unless it is empty (Marker::complete drops empty nodes) *)
  with block (fuel lvl : nat) (ts : list tok) {struct fuel} : res (list tree) :=
    match fuel with
    | 0 => Fuel
    | S f =>
        bind (stats f lvl [] ts)
             (fun ss r => Ok (match ss with [] => [] | _ => [N KBlock ss] end) r)
    end

  (** stat.rs fn parse_stats *)
  with stats (fuel lvl : nat) (acc : list tree) (ts : list tok) {struct fuel} : res (list tree) :=
    match fuel with
    | 0 => Fuel
    | S f =>
        if block_follow ts then Ok acc ts
        else bind (stat f lvl ts) (fun s r => stats f lvl (acc ++ [s]) r)
    end

  (** stat.rs fn parse_stat (with the enter_level guard) and the statement parsers *)
  with stat (fuel lvl : nat) (ts : list tok) {struct fuel} : res tree :=
    match fuel with
    | 0 => Fuel
    | S f =>
        if MAXLVL <=? lvl then Err
        else
          let lvl' := S lvl in
          match ts with
          | [] => Err
          | TIf :: r =>                                           (* parse_if *)
              bind (sub_expr f lvl' 0 r)
                   (fun c r1 =>
                      match r1 with
                      | TThen :: r2 =>
                          bind (if block_follow r2 then Ok [] r2 else block f lvl' r2)
                               (fun b r3 =>
                                  bind (if_tail f lvl' (L TIf :: c :: L TThen :: b) r3)
                                       (fun cs r4 => match r4 with
                                                     | TEnd :: r5 => let '(sm, r6) := opt_semi r5 in
                                                                     Ok (N KIf (cs ++ L TEnd :: sm)) r6
                                                     | _ => Err
                                                     end))
                      | _ => Err
                      end)
          | TWhile :: r =>                                        (* parse_while *)
              bind (sub_expr f lvl' 0 r)
                   (fun c r1 =>
                      match r1 with
                      | TDo :: r2 =>
                          bind (if at_end r2 then Ok [] r2 else block f lvl' r2)
                               (fun b r3 => match r3 with
                                            | TEnd :: r4 => let '(sm, r5) := opt_semi r4 in
                                                            Ok (N KWhile (L TWhile :: c :: L TDo :: b ++ L TEnd :: sm)) r5
                                            | _ => Err
                                            end)
                      | _ => Err
                      end)
          | TDo :: r =>                                           (* parse_do *)
              bind (block f lvl' r)
                   (fun b r1 => match r1 with
                                | TEnd :: r2 => let '(sm, r3) := opt_semi r2 in Ok (N KDo (L TDo :: b ++ L TEnd :: sm)) r3
                                | _ => Err
                                end)
          | TFor :: r =>                                          (* parse_for *)
              match r with
              | TName :: TAssign :: r1 =>
                  bind (sub_expr f lvl' 0 r1)
                       (fun e1 r2 =>
                          match r2 with
                          | TComma :: r3 =>
                              bind (sub_expr f lvl' 0 r3)
                                   (fun e2 r4 =>
                                      bind (if hd_is TComma r4
                                            then bind (sub_expr f lvl' 0 (tl r4)) (fun e3 r6 => Ok [L TComma; e3] r6)
                                            else Ok [] r4)
                                           (fun step r7 =>
                                              for_body f lvl' KFor
                                                       (L TFor :: L TName :: L TAssign :: e1 :: L TComma :: e2 :: step) r7))
                          | _ => Err
                          end)
              | TName :: r1 =>
                  match r1 with
                  | (TComma | TIn) :: _ =>
                      bind (for_names_tail r1 [])
                           (fun ns r2 =>
                              match r2 with
                              | TIn :: r3 =>
                                  bind (sub_expr f lvl' 0 r3)
                                       (fun e r4 => bind (expr_list_tail f lvl' [e] r4)
                                                         (fun es r5 => for_body f lvl' KForRange (L TFor :: L TName :: ns ++ L TIn :: es) r5))
                              | _ => Err
                              end)
                  | _ => Err
                  end
              | _ => Err
              end
          | TFunction :: r =>                                     (* parse_function *)
              bind (func_name r)
                   (fun nm r1 => bind (closure_expr f lvl' r1)
                                      (fun c r2 => let '(sm, r3) := opt_semi r2 in
                                                   Ok (N KFunc (L TFunction :: nm :: c :: sm)) r3))
          | TLocal :: r =>                                        (* parse_local *)
              match r with
              | TFunction :: r1 =>
                  bind (local_name false r1)
                       (fun nm r2 => bind (closure_expr f lvl' r2)
                                          (fun c r3 => let '(sm, r4) := opt_semi r3 in
                                                       Ok (N KLocalFunc (L TLocal :: L TFunction :: nm :: c :: sm)) r4))
              | TName :: _ =>
                  bind (local_name true r)
                       (fun nm r1 =>
                          bind (local_names_tail r1 [nm])
                               (fun nms r2 =>
                                  bind (if hd_is TAssign r2
                                        then bind (sub_expr f lvl' 0 (tl r2))
                                                  (fun e r4 => bind (expr_list_tail f lvl' [e] r4)
                                                                    (fun es r5 => Ok (L TAssign :: es) r5))
                                        else Ok [] r2)
                                       (fun init r6 => let '(sm, r7) := opt_semi r6 in
                                                       Ok (N KLocal (L TLocal :: nms ++ init ++ sm)) r7)))
              | _ => Err                                          (* incl. `local <attrib>`: level < 5.5 *)
              end
          | TReturn :: r =>                                       (* parse_return *)
              bind (if block_follow r || hd_is TSemi r then Ok [] r
                    else bind (sub_expr f lvl' 0 r) (fun e r1 => expr_list_tail f lvl' [e] r1))
                   (fun es r2 => let '(sm, r3) := opt_semi r2 in
                                 if block_follow r3 then Ok (N KReturn (L TReturn :: es ++ sm)) r3
                                 else Err)                        (* "expected end of block after return" *)
          | TBreak :: r => let '(sm, r1) := opt_semi r in Ok (N KBreak (L TBreak :: sm)) r1
          | TRepeat :: r =>                                       (* parse_repeat *)
              bind (block f lvl' r)
                   (fun b r1 => match r1 with
                                | TUntil :: r2 =>
                                    bind (sub_expr f lvl' 0 r2)
                                         (fun c r3 => let '(sm, r4) := opt_semi r3 in
                                                      Ok (N KRepeat (L TRepeat :: b ++ L TUntil :: c :: sm)) r4)
                                | _ => Err
                                end)
          | TGoto :: r =>                                         (* parse_goto *)
              match r with
              | TName :: r1 => let '(sm, r2) := opt_semi r1 in Ok (N KGoto (L TGoto :: L TName :: sm)) r2
              | _ => Err
              end
          | TDbColon :: r =>                                      (* parse_label_stat *)
              match r with
              | TName :: TDbColon :: r1 => Ok (N KLabel [L TDbColon; L TName; L TDbColon]) r1
              | _ => Err
              end
          | TSemi :: r => Ok (N KEmpty [L TSemi]) r               (* parse_empty_stat *)
          | _ =>                                                  (* parse_assign_or_expr_or_soft_keyword_stat *)
              bind (simple_expr f lvl' ts)
                   (fun e r1 =>
                      if is_call e then let '(sm, r2) := opt_semi r1 in Ok (N KCallStat (e :: sm)) r2
                      else if is_lvalue e then
                             bind (assign_targets f lvl' [e] r1)
                                  (fun tg r2 =>
                                     match r2 with
                                     | TAssign :: r3 =>
                                         bind (sub_expr f lvl' 0 r3)
                                              (fun v r4 => bind (expr_list_tail f lvl' [v] r4)
                                                                (fun vs r5 => let '(sm, r6) := opt_semi r5 in
                                                                              Ok (N KAssign (tg ++ L TAssign :: vs ++ sm)) r6))
                                     | _ => Err
                                     end)
                           else Err)
          end
    end

  (** parse_if: the elseif clauses and the else clause; [acc] = children of the IfStat so far *)
  with if_tail (fuel lvl : nat) (acc : list tree) (ts : list tok) {struct fuel} : res (list tree) :=
    match fuel with
    | 0 => Fuel
    | S f =>
        match ts with
        | TElseIf :: r =>                                         (* parse_elseif_clause *)
            bind (sub_expr f lvl 0 r)
                 (fun c r1 => match r1 with
                              | TThen :: r2 =>
                                  bind (block f lvl r2)
                                       (fun b r3 => if_tail f lvl (acc ++ [N KElseIf (L TElseIf :: c :: L TThen :: b)]) r3)
                              | _ => Err
                              end)
        | TElse :: r =>                                           (* parse_else_clause *)
            bind (block f lvl r) (fun b r1 => Ok (acc ++ [N KElse (L TElse :: b)]) r1)
        | _ => Ok acc ts
        end
    end

  (** parse_for: 'do' [block] 'end' [';'] *)
  with for_body (fuel lvl : nat) (k : kind) (acc : list tree) (ts : list tok) {struct fuel} : res tree :=
    match fuel with
    | 0 => Fuel
    | S f =>
        match ts with
        | TDo :: r =>
            bind (if at_end r then Ok [] r else block f lvl r)
                 (fun b r1 => match r1 with
                              | TEnd :: r2 => let '(sm, r3) := opt_semi r2 in Ok (N k (acc ++ L TDo :: b ++ L TEnd :: sm)) r3
                              | _ => Err
                              end)
        | _ => Err
        end
    end

  (** the further left-hand sides of an assignment: {',' simple_expr} each a Name or Index expression *)
  with assign_targets (fuel lvl : nat) (acc : list tree) (ts : list tok) {struct fuel} : res (list tree) :=
    match fuel with
    | 0 => Fuel
    | S f =>
        match ts with
        | TComma :: r =>
            bind (simple_expr f lvl r)
                 (fun e r1 => if is_lvalue e then assign_targets f lvl (acc ++ [L TComma; e]) r1 else Err)
        | _ => Ok acc ts
        end
    end.

  (** mod.rs fn parse_chunk: Chunk [ Block stats ]; a token that parse_stats leaves unread at the
      top level (end, else, elseif, until) is reported by the progress guard.
      The lexer's errors for operator tokens the level lacks ("bitwise operation is not supported",
      "integer division is not supported") are charged where the parser consumes the token as an
      operator (sub_expr / binop_loop): a chunk is accepted only if every token is consumed, and these
      tokens are consumed nowhere else. *)
  Definition chunk (fuel : nat) (ts : list tok) : res tree :=
    bind (stats fuel 0 [] ts)
         (fun ss r => match r with
                      | [] => Ok (N KChunk (match ss with [] => [] | _ => [N KBlock ss] end)) []
                      | _ => Err
                      end).

  (** an expression alone (used for the expression theorems and the expression tie) *)
  Definition expr (fuel : nat) (ts : list tok) : res tree := sub_expr fuel 0 0 ts.
End Parser.

(** fuel that always suffices (checked by the correspondence run, not proved): every recursive call
    either consumes a token or is one of a bounded number of calls between two consumptions *)
Definition enough_fuel (ts : list tok) : nat := 16 * length ts + 32.

(* ------------------------------------------------------------------------------------------ *)
(** nesting levels (LuaParser::nesting_level high-water) needed to build a tree, as a function
    of the tree: [nx] for a tree returned by one invocation of parse_sub_expr (which enters one
    level), [ns] for the work inside an invocation, [nst] for a statement (enters one level). *)
Fixpoint nlev (inside : bool) (t : tree) {struct t} : nat :=
  match t with
  | L _ => 0
  | N k cs =>
      let lm := (fix lm (b : bool) (xs : list tree) {struct xs} : nat :=
                   match xs with [] => 0 | x :: r => Nat.max (nlev b x) (lm b r) end) in
      (* children before the '=' are parsed by parse_simple_expr (no new level), those after it by parse_expr *)
      let lma := (fix lma (xs : list tree) {struct xs} : nat :=
                    match xs with
                    | [] => 0
                    | x :: r => match x with
                                | L TAssign => lm false r
                                | _ => Nat.max (nlev true x) (lma r)
                                end
                    end) in
      let own := if inside then 0 else 1 in
      match k with
      (* expression nodes.  inside = true: the tree is the accumulated `cm` of the running invocation
         or is parsed by a direct call of parse_simple_expr / parse_table_expr / parse_closure_expr (no new
         level); inside = false: it is the result of a nested parse_sub_expr (one new level) *)
      | KBinary => match cs with
                   | [l; _; r] => own + Nat.max (nlev true l) (nlev false r)
                   | _ => own
                   end
      | KUnary => match cs with
                  | [_; e] => own + nlev false e
                  | _ => own
                  end
      | KLiteral | KName => own
      | KIndex | KCall => match cs with
                          | p :: rest => own + Nat.max (nlev true p) (lm false rest)
                          | [] => own
                          end
      | KParen | KTable | KClosure => own + lm false cs
      (* call arguments: '(' explist ')' parses each expression with parse_expr; a table or string
         argument is parsed directly *)
      | KArgs => match cs with
                 | L TLParen :: _ => lm false cs
                 | _ => lm true cs
                 end
      (* containers that do not enter a level themselves *)
      | KFieldAssign | KFieldValue | KParamList | KParamName | KLocalName | KAttrib
      | KBlock | KChunk | KElseIf | KElse => lm false cs
      (* statements enter one level (parse_stat) *)
      | KCallStat | KFunc | KLocalFunc => S (lm true cs)
      | KAssign => S (lma cs)
      | KLocal | KDo | KWhile | KRepeat | KIf | KFor | KForRange
      | KReturn | KBreak | KGoto | KLabel | KEmpty => S (lm false cs)
      end
  end.

(** nesting-level high-water of parsing a whole chunk whose tree is [t] *)
Definition chunk_levels (t : tree) : nat := nlev false t.
