(** C03/LexSpec.v — what the Lua reference manuals (5.1 §2.1, 5.2/5.3/5.4 §3.1) call a numeric
    constant and a short literal string, as predicates over texts (lists of code points).
    Specification definitions only; nothing here refers to the model of the Rust code. *)
From EV Require Export Base.Text.
Local Open Scope N_scope.
(** [cp] and [text] of Base.Text are used as what they are, [N] and [list N], so that every list in
    these files is built with the same type argument *)
Local Notation cp := N (only parsing).
Local Notation text := (list N) (only parsing).

Inductive lua_version : Type := Lua51 | Lua52 | Lua53 | Lua54.

(** [since52 v] : the version is 5.2 or later; [since53 v] : 5.3 or later *)
Definition since52 (v : lua_version) : Prop := v <> Lua51.
Definition since53 (v : lua_version) : Prop := v = Lua53 \/ v = Lua54.

(** * characters *)
Definition sdigit (c : cp) : bool := (48 <=? c) && (c <=? 57).                 (* 0-9 *)
Definition sxdigit (c : cp) : bool :=                                          (* 0-9 a-f A-F *)
  sdigit c || ((97 <=? c) && (c <=? 102)) || ((65 <=? c) && (c <=? 70)).
(** C [isspace]: space, \t \n \v \f \r *)
Definition lua_space (c : cp) : bool := (c =? 32) || ((9 <=? c) && (c <=? 13)).

Definition digits (l : text) : Prop := forallb sdigit l = true.
Definition digits1 (l : text) : Prop := l <> [] /\ digits l.
Definition xdigits (l : text) : Prop := forallb sxdigit l = true.
Definition xdigits1 (l : text) : Prop := l <> [] /\ xdigits l.

(** * numerals *)

(** optional sign of an exponent *)
Inductive sign_opt : text -> Prop :=
| SO_none : sign_opt []
| SO_plus : sign_opt [43]
| SO_minus : sign_opt [45].

(** exponent: the marker ([lo] or [up], i.e. e/E or p/P), an optional sign, one or more DECIMAL digits *)
Inductive exponent (lo up : cp) : text -> Prop :=
| Exponent : forall m sg ds,
    m = lo \/ m = up -> sign_opt sg -> digits1 ds -> exponent lo up (m :: sg ++ ds).

Inductive exponent_opt (lo up : cp) : text -> Prop :=
| EO_none : exponent_opt lo up []
| EO_some : forall e, exponent lo up e -> exponent_opt lo up e.

(** [numeral v s i] : [s] is a numeric constant of Lua version [v]; [i = true] iff it is an INTEGER
    literal (no radix point and no exponent).  There is no bound on the number of digits: decimal
    integer literals that overflow 64 bits denote floats, hexadecimal ones wrap around.
    Decimal: [3] [3.] [3.0] [.5] [3e2] [3.e-2] [.5E+1]; hexadecimal (fractions and binary exponents
    from 5.2): [0xA] [0xA.] [0x.8] [0xA.8] [0xAp-1]. *)
Inductive numeral (v : lua_version) : text -> bool -> Prop :=
| Num_dec_int : forall a, digits1 a -> numeral v a true
| Num_dec_exp : forall a e, digits1 a -> exponent 101 69 e -> numeral v (a ++ e) false
| Num_dec_frac : forall a b e,
    digits a -> digits b -> a <> [] \/ b <> [] -> exponent_opt 101 69 e ->
    numeral v (a ++ 46 :: b ++ e) false
| Num_hex_int : forall x a, x = 120 \/ x = 88 -> xdigits1 a -> numeral v (48 :: x :: a) true
| Num_hex_exp : forall x a e,
    since52 v -> x = 120 \/ x = 88 -> xdigits1 a -> exponent 112 80 e ->
    numeral v (48 :: x :: a ++ e) false
| Num_hex_frac : forall x a b e,
    since52 v -> x = 120 \/ x = 88 -> xdigits a -> xdigits b -> a <> [] \/ b <> [] ->
    exponent_opt 112 80 e ->
    numeral v (48 :: x :: a ++ 46 :: b ++ e) false.

(** what may follow a numeral: the end of the input, or a character that cannot continue it — not a
    letter, digit, underscore or point.  [alpha] is the Unicode Alphabetic property (the analyzer's
    lexer consults it); below 128 it is [sletter]. *)
Definition sletter (c : cp) : bool := ((97 <=? c) && (c <=? 122)) || ((65 <=? c) && (c <=? 90)).
Definition numeral_end (alpha : cp -> bool) (rest : text) : Prop :=
  match rest with
  | [] => True
  | c :: _ => alpha c = false /\ sletter c = false /\ sdigit c = false /\ c <> 46 /\ c <> 95
  end.
(** the same for an ASCII follower, without reference to [alpha] *)
Definition numeral_end_ascii (rest : text) : Prop :=
  match rest with
  | [] => True
  | c :: _ => c < 128 /\ sletter c = false /\ sdigit c = false /\ c <> 46 /\ c <> 95
  end.

(** * short strings *)

(** backslash followed by one of: a b f n r t v, backslash, double quote, single quote *)
Definition simple_escape (c : cp) : bool :=
  (c =? 97) || (c =? 98) || (c =? 102) || (c =? 110) || (c =? 114) || (c =? 116) || (c =? 118)
  || (c =? 92) || (c =? 34) || (c =? 39).

(** a character that stands for itself inside a string delimited by [q] *)
Definition plain_char (q c : cp) : bool :=
  negb ((c =? 92) || (c =? q) || (c =? 10) || (c =? 13)).

(** the line breaks a backslash may be followed by: LF, CR, CRLF, LFCR *)
Inductive line_break : text -> Prop :=
| LB_lf : line_break [10]
| LB_cr : line_break [13]
| LB_crlf : line_break [13; 10]
| LB_lfcr : line_break [10; 13].

Definition dec_digit_val (c : cp) : N := c - 48.
Definition hex_digit_val (c : cp) : N :=
  if sdigit c then c - 48 else if 97 <=? c then c - 87 else c - 55.

Fixpoint dec_value_from (acc : N) (ds : text) : N :=
  match ds with [] => acc | c :: r => dec_value_from (acc * 10 + dec_digit_val c) r end.
Fixpoint hex_value_from (acc : N) (ds : text) : N :=
  match ds with [] => acc | c :: r => hex_value_from (acc * 16 + hex_digit_val c) r end.
Definition dec_value (ds : text) : N := dec_value_from 0 ds.
Definition hex_value (ds : text) : N := hex_value_from 0 ds.

(** the decimal escape reads up to three digits: a shorter one is not followed by a digit *)
Definition next_not_digit (t : text) : Prop :=
  match t with c :: _ => sdigit c = false | [] => True end.

(** [str_body v zrun q t] : [t] is the inside of a short string delimited by [q].
    [zrun] says which whitespace runs may follow [\z]; the manual's rule is [z_any]. *)
Inductive str_body (v : lua_version) (zrun : text -> Prop) (q : cp) : text -> Prop :=
| SB_end : str_body v zrun q []
| SB_plain : forall c t, plain_char q c = true -> str_body v zrun q t -> str_body v zrun q (c :: t)
| SB_simple : forall c t,
    simple_escape c = true -> str_body v zrun q t -> str_body v zrun q (92 :: c :: t)
| SB_newline : forall nl t, line_break nl -> str_body v zrun q t -> str_body v zrun q (92 :: nl ++ t)
| SB_dec : forall ds t,                                         (* \ddd *)
    digits1 ds -> (length ds <= 3)%nat -> dec_value ds <= 255 ->
    ((length ds < 3)%nat -> next_not_digit t) ->
    str_body v zrun q t -> str_body v zrun q (92 :: ds ++ t)
| SB_z : forall ws t,                                           (* \z, from 5.2 *)
    since52 v -> zrun ws -> str_body v zrun q t -> str_body v zrun q (92 :: 122 :: ws ++ t)
| SB_x : forall h1 h2 t,                                        (* \xXX, from 5.2 *)
    since52 v -> sxdigit h1 = true -> sxdigit h2 = true -> str_body v zrun q t ->
    str_body v zrun q (92 :: 120 :: h1 :: h2 :: t)
| SB_u : forall hs t,                                           (* \u{XXX}, from 5.3; 5.4 range *)
    since53 v -> xdigits1 hs -> hex_value hs <= 2147483647 -> str_body v zrun q t ->
    str_body v zrun q (92 :: 117 :: 123 :: hs ++ 125 :: t).

(** [\z] skips any run of whitespace characters, line breaks included *)
Definition z_any (ws : text) : Prop := forallb lua_space ws = true.

(** a short string: an opening quote, the body, the same closing quote *)
Definition short_string_with (v : lua_version) (zrun : text -> Prop) (s : text) : Prop :=
  exists q body, (q = 34 \/ q = 39) /\ s = q :: body ++ [q] /\ str_body v zrun q body.

Definition short_string (v : lua_version) (s : text) : Prop := short_string_with v z_any s.

(** ** delimiting a known defect
    A lexer that ends the [\z] skip at the first character outside [zsp] (and then treats the rest
    of the run as ordinary string characters) handles exactly the runs made of [zsp] characters
    followed by whitespace that is not a line break. *)
Definition hspace (c : cp) : bool := (c =? 32) || (c =? 9) || (c =? 11) || (c =? 12).
Definition z_split (zsp : cp -> bool) (ws : text) : Prop :=
  exists zs hs, ws = zs ++ hs /\ forallb zsp zs = true /\ forallb hspace hs = true.
