(** C03/Spec.v — the Lua grammar, written from the reference manual (Lua 5.4 §9 "The Complete
    Syntax of Lua", §3.4.8 "Precedence", and lparser.c's statement of the same grammar without left
    recursion: suffixedexp -> primaryexp { '.' NAME | '[' exp ']' | ':' NAME funcargs | funcargs }),
    as derivation relations over token kinds.  Definitions only.

    Every relation also carries
      - the syntax tree the derivation denotes (operators nested by the manual's precedence and
        associativity; node shapes follow the rowan tree of the implementation so that they can be
        compared), and
      - a budget [d]: an upper bound of the syntactic nesting (levels of nested expressions and
        statements, counted as the reference implementation counts C levels: one per nested
        `subexpr` and one per `statement`).  The reference implementation rejects chunks nested
        deeper than LUAI_MAXCCALLS = 200 ("chunk has too many syntax levels"), so "valid Lua"
        means: derivable with d <= 200.

    Name-level conditions of the reference compiler are NOT expressible over token kinds and are not
    part of this grammar: `break` inside a loop, goto/label matching, attribute names const/close,
    assignment to const variables, `...` only inside vararg functions.  The generator of the
    correspondence harness respects them by construction. *)
From Coq Require Import List Bool Arith.
Import ListNotations.
From EV Require Import C03.Syntax.

(* ------------------------------------------------------------------------------------------ *)
(** * §3.4.8 precedence, from lower to higher priority:
      or < and < comparison < | < ~ < & < shift < .. < + - < * / // % < unary < ^
    ".." and "^" are right associative, all other binary operators are left associative. *)
Definition man_level (b : binop) : nat :=
  match b with
  | OpOr => 1
  | OpAnd => 2
  | OpLt | OpGt | OpLe | OpGe | OpNe | OpEq => 3
  | OpBOr => 4
  | OpBXor => 5
  | OpBAnd => 6
  | OpShl | OpShr => 7
  | OpConcat => 8
  | OpAdd | OpSub => 9
  | OpMul | OpDiv | OpIDiv | OpMod => 10
  | OpPow => 12
  end.
Definition man_unary_level : nat := 11.
Definition man_rassoc (b : binop) : bool := match b with OpConcat | OpPow => true | _ => false end.

(** the spelling of the operators (§3.4.1 - §3.4.7) *)
Definition binop_tok (b : binop) : tok :=
  match b with
  | OpAdd => TPlus | OpSub => TMinus | OpMul => TMul | OpDiv => TDiv | OpIDiv => TIDiv | OpMod => TMod
  | OpPow => TPow | OpBAnd => TBitAnd | OpBOr => TBitOr | OpBXor => TBitXor | OpShl => TShl | OpShr => TShr
  | OpConcat => TConcat | OpLt => TLt | OpLe => TLe | OpGt => TGt | OpGe => TGe | OpEq => TEq | OpNe => TNe
  | OpAnd => TAnd | OpOr => TOr
  end.
Definition unop_tok (u : unop) : tok :=
  match u with OpNot => TNot | OpLen => TLen | OpUnm => TMinus | OpBNot => TBitXor end.

Definition man_binop_of (t : tok) : option binop :=
  match t with
  | TPlus => Some OpAdd | TMinus => Some OpSub | TMul => Some OpMul | TDiv => Some OpDiv | TIDiv => Some OpIDiv
  | TMod => Some OpMod | TPow => Some OpPow | TBitAnd => Some OpBAnd | TBitOr => Some OpBOr | TBitXor => Some OpBXor
  | TShl => Some OpShl | TShr => Some OpShr | TConcat => Some OpConcat | TLt => Some OpLt | TLe => Some OpLe
  | TGt => Some OpGt | TGe => Some OpGe | TEq => Some OpEq | TNe => Some OpNe | TAnd => Some OpAnd | TOr => Some OpOr
  | _ => None
  end.
Definition man_unop_of (t : tok) : option unop :=
  match t with TNot => Some OpNot | TLen => Some OpLen | TMinus => Some OpUnm | TBitXor => Some OpBNot | _ => None end.

(** [absorbs a b]: in `x b y a z` the operator a takes y (it binds tighter than b, or equally and
    is right associative) *)
Definition absorbs (a b : binop) : bool :=
  (man_level b <? man_level a) || ((man_level a =? man_level b) && man_rassoc a).

(** the obligation on the implementation's tables (left/right priorities, unary priority and the
    token -> operator maps): they decide exactly as the manual's table *)
Definition table_ok (binop_of : tok -> option binop) (unop_of : tok -> option unop)
           (bl br : binop -> nat) (up : nat) : bool :=
  forallb (fun a => forallb (fun b => Bool.eqb (br b <? bl a) (absorbs a b)) all_binops) all_binops
  && forallb (fun a => Bool.eqb (up <? bl a) (man_unary_level <? man_level a)) all_binops
  && forallb (fun a => 0 <? bl a) all_binops
  && forallb (fun t => match binop_of t, man_binop_of t with
                       | Some a, Some b => binop_beq a b
                       | None, None => true
                       | _, _ => false
                       end) all_toks
  && forallb (fun t => match unop_of t, man_unop_of t with
                       | Some a, Some b => unop_beq a b
                       | None, None => true
                       | _, _ => false
                       end) all_toks.

(** literal tokens: Numeral | LiteralString | nil | true | false | '...' *)
Definition is_literal_tok (t : tok) : bool :=
  match t with TInt | TFloat | TString | TLongString | TNil | TTrue | TFalse | TDots => true | _ => false end.

(* ------------------------------------------------------------------------------------------ *)
(** * what may follow a statement (needed because the grammar is only unambiguous with the
    manual's rule that a statement is taken as long as possible, §3.3.1) *)
Definition suffix_start (t : tok) : bool :=
  match t with TDot | TLBracket | TColon | TLParen | TLBrace | TString | TLongString => true | _ => false end.
Definition is_binop_tok (t : tok) : bool := match man_binop_of t with Some _ => true | None => false end.

Inductive fkind :=
| FAny        (* the statement ended with its own ';' (or is a label): anything may follow *)
| FNoSemi     (* ended with 'end', a name, ...: a following ';' would have been taken by it *)
| FExpr       (* ended with an expression: the next token must not continue it, nor be ';' *)
| FLast.      (* return: must be the last statement of its block *)

Definition next_ok (k : fkind) (t : tok) : bool :=
  match k with
  | FAny => true
  | FNoSemi => negb (tok_beq t TSemi)
  | FExpr => negb (tok_beq t TSemi) && negb (suffix_start t) && negb (is_binop_tok t)
  | FLast => false
  end.
Definition head_ok (k : fkind) (ts : list tok) : bool :=
  match ts with [] => true | t :: _ => next_ok k t end.

(** after the optional ';' of a statement *)
Definition semi_toks (semi : bool) : list tok := if semi then [TSemi] else [].
Definition semi_trees (semi : bool) : list tree := if semi then [L TSemi] else [].
Definition semi_kind (semi : bool) (k : fkind) : fkind := if semi then FAny else k.

Definition is_lvalue_tree (t : tree) : bool :=
  match t with N KName _ | N KIndex _ => true | _ => false end.
Definition is_call_tree (t : tree) : bool :=
  match t with N KCall _ => true | _ => false end.

(** parlist ::= namelist [',' '...'] | '...'  inside '(' ')' — tokens and the ParamList children *)
Inductive ParNames : list tok -> list tree -> Prop :=
| PN_dots : ParNames [TDots] [N KParamName [L TDots]]
| PN_one : ParNames [TName] [N KParamName [L TName]]
| PN_cons : forall ts trs, ParNames ts trs ->
                           ParNames (TName :: TComma :: ts) (N KParamName [L TName] :: L TComma :: trs).
Inductive ParList : list tok -> tree -> Prop :=
| PL_empty : ParList [TLParen; TRParen] (N KParamList [L TLParen; L TRParen])
| PL_names : forall ts trs, ParNames ts trs ->
                            ParList (TLParen :: ts ++ [TRParen]) (N KParamList (L TLParen :: trs ++ [L TRParen])).

(** funcname ::= Name {'.' Name} [':' Name] (accumulator form, nested IndexExpr) *)
Inductive FuncNameDots : tree -> list tok -> tree -> Prop :=
| FD_nil : forall cm, FuncNameDots cm [] cm
| FD_dot : forall cm ts t, FuncNameDots (N KIndex [cm; L TDot; L TName]) ts t -> FuncNameDots cm (TDot :: TName :: ts) t.
Inductive FuncName : list tok -> tree -> Prop :=
| FN_plain : forall ts t, FuncNameDots (N KName [L TName]) ts t -> FuncName (TName :: ts) t
| FN_method : forall ts t, FuncNameDots (N KName [L TName]) ts t ->
                           FuncName (TName :: ts ++ [TColon; TName]) (N KIndex [t; L TColon; L TName]).

(** attnamelist ::= Name attrib {',' Name attrib}; attrib ::= ['<' Name '>'] (5.4) *)
Inductive AttName (ft : features) : list tok -> tree -> Prop :=
| AN_plain : AttName ft [TName] (N KLocalName [L TName])
| AN_attrib : f_attrib ft = true ->
              AttName ft [TName; TLt; TName; TGt] (N KLocalName [L TName; N KAttrib [L TLt; L TName; L TGt]]).
Inductive AttNamesTail (ft : features) : list tok -> list tree -> Prop :=
| ANT_nil : AttNamesTail ft [] []
| ANT_cons : forall tn n ts trs, AttName ft tn n -> AttNamesTail ft ts trs ->
                                 AttNamesTail ft (TComma :: tn ++ ts) (L TComma :: n :: trs).

(** namelist tail of the generic for: {',' Name} *)
Inductive NamesTail : list tok -> list tree -> Prop :=
| NT_nil : NamesTail [] []
| NT_cons : forall ts trs, NamesTail ts trs -> NamesTail (TComma :: TName :: ts) (L TComma :: L TName :: trs).

Section Grammar.
  Variable ft : features.

  (** exp, stratified by the precedence levels 1..12; level 13 = simpleexp.
      E m d ts t : ts derives an expression all of whose outermost operators have level >= m *)
  Inductive E : nat -> nat -> list tok -> tree -> Prop :=
  | E_up : forall m d ts t, m < 13 -> E (S m) d ts t -> E m d ts t
  | E_binl : forall m d d' o tl l tr r,          (* exp_m ::= exp_m op exp_{m+1}, op left associative of level m *)
      man_level o = m -> man_rassoc o = false -> binop_in ft o = true ->
      E m d tl l -> E (S m) d' tr r -> S d' <= d ->
      E m d (tl ++ binop_tok o :: tr) (N KBinary [l; L (binop_tok o); r])
  | E_binr : forall m d d' o tl l tr r,          (* exp_m ::= exp_{m+1} op exp_m, op right associative ('..') *)
      man_level o = m -> man_rassoc o = true -> m <> 12 ->
      E (S m) d tl l -> E m d' tr r -> S d' <= d ->
      E m d (tl ++ binop_tok o :: tr) (N KBinary [l; L (binop_tok o); r])
  | E_pow : forall d d' tl l tr r,               (* exp_12 ::= simpleexp '^' exp_11 : 2^-3 and 2^3^2 = 2^(3^2) *)
      E 13 d tl l -> E 11 d' tr r -> S d' <= d ->
      E 12 d (tl ++ TPow :: tr) (N KBinary [l; L TPow; r])
  | E_un : forall d d' u ts t,                   (* exp_11 ::= unop exp_11 *)
      unop_in ft u = true -> E 11 d' ts t -> S d' <= d ->
      E 11 d (unop_tok u :: ts) (N KUnary [L (unop_tok u); t])
  | E_simple : forall d d' ts t, Simple d' ts t -> S d' <= d -> E 13 d ts t

  (** simpleexp ::= Number | String | nil | true | false | '...' | tableconstructor | functiondef | suffixedexp *)
  with Simple : nat -> list tok -> tree -> Prop :=
  | S_lit : forall d t, is_literal_tok t = true -> Simple d [t] (N KLiteral [L t])
  | S_table : forall d ts t, TableR d ts t -> Simple d ts t
  | S_func : forall d tp p tb b,
      ParList tp p -> BlockR d tb b ->
      Simple d (TFunction :: tp ++ tb ++ [TEnd]) (N KClosure (L TFunction :: p :: b ++ [L TEnd]))
  | S_suffixed : forall d tp p tsuf t, Primary d tp p -> Suf d p tsuf t -> Simple d (tp ++ tsuf) t

  (** primaryexp ::= Name | '(' exp ')' *)
  with Primary : nat -> list tok -> tree -> Prop :=
  | P_name : forall d, Primary d [TName] (N KName [L TName])
  | P_paren : forall d te e, E 1 d te e -> Primary d (TLParen :: te ++ [TRParen]) (N KParen [L TLParen; e; L TRParen])

  (** { '.' Name | '[' exp ']' | ':' Name args | args }, applied to the expression built so far *)
  with Suf : nat -> tree -> list tok -> tree -> Prop :=
  | Suf_nil : forall d cm, Suf d cm [] cm
  | Suf_field : forall d cm ts t,
      Suf d (N KIndex [cm; L TDot; L TName]) ts t -> Suf d cm (TDot :: TName :: ts) t
  | Suf_index : forall d cm te e ts t,
      E 1 d te e -> Suf d (N KIndex [cm; L TLBracket; e; L TRBracket]) ts t ->
      Suf d cm (TLBracket :: te ++ TRBracket :: ts) t
  | Suf_method : forall d cm ta a ts t,
      ArgsR d ta a -> Suf d (N KCall [N KIndex [cm; L TColon; L TName]; a]) ts t ->
      Suf d cm (TColon :: TName :: ta ++ ts) t
  | Suf_call : forall d cm ta a ts t,
      ArgsR d ta a -> Suf d (N KCall [cm; a]) ts t -> Suf d cm (ta ++ ts) t

  (** args ::= '(' [explist] ')' | tableconstructor | LiteralString *)
  with ArgsR : nat -> list tok -> tree -> Prop :=
  | A_empty : forall d, ArgsR d [TLParen; TRParen] (N KArgs [L TLParen; L TRParen])
  | A_list : forall d te e ts trs,
      E 1 d te e -> ExpTail d ts trs ->
      ArgsR d (TLParen :: te ++ ts ++ [TRParen]) (N KArgs (L TLParen :: e :: trs ++ [L TRParen]))
  | A_table : forall d ts t, TableR d ts t -> ArgsR d ts (N KArgs [t])
  | A_string : forall d, ArgsR d [TString] (N KArgs [N KLiteral [L TString]])
  | A_longstring : forall d, ArgsR d [TLongString] (N KArgs [N KLiteral [L TLongString]])

  (** {',' exp} *)
  with ExpTail : nat -> list tok -> list tree -> Prop :=
  | ET_nil : forall d, ExpTail d [] []
  | ET_cons : forall d te e ts trs, E 1 d te e -> ExpTail d ts trs -> ExpTail d (TComma :: te ++ ts) (L TComma :: e :: trs)

  (** tableconstructor ::= '{' [fieldlist] '}'; fieldlist ::= field {fieldsep field} [fieldsep] *)
  with TableR : nat -> list tok -> tree -> Prop :=
  | T_empty : forall d, TableR d [TLBrace; TRBrace] (N KTable [L TLBrace; L TRBrace])
  | T_fields : forall d tf f ts trs,
      FieldR d tf f -> FieldsTail d ts trs ->
      TableR d (TLBrace :: tf ++ ts ++ [TRBrace]) (N KTable (L TLBrace :: f :: trs ++ [L TRBrace]))

  with FieldsTail : nat -> list tok -> list tree -> Prop :=
  | FT_nil : forall d, FieldsTail d [] []
  | FT_trailing : forall d sep, (sep = TComma \/ sep = TSemi) -> FieldsTail d [sep] [L sep]
  | FT_cons : forall d sep tf f ts trs,
      (sep = TComma \/ sep = TSemi) -> FieldR d tf f -> FieldsTail d ts trs ->
      FieldsTail d (sep :: tf ++ ts) (L sep :: f :: trs)

  (** field ::= '[' exp ']' '=' exp | Name '=' exp | exp *)
  with FieldR : nat -> list tok -> tree -> Prop :=
  | F_index : forall d tk k tv v,
      E 1 d tk k -> E 1 d tv v ->
      FieldR d (TLBracket :: tk ++ TRBracket :: TAssign :: tv) (N KFieldAssign [L TLBracket; k; L TRBracket; L TAssign; v])
  | F_name : forall d tv v, E 1 d tv v -> FieldR d (TName :: TAssign :: tv) (N KFieldAssign [L TName; L TAssign; v])
  | F_pos : forall d tv v, E 1 d tv v -> FieldR d tv (N KFieldValue [v])

  (** block ::= {stat} [retstat]; the tree is a Block node unless the block is empty *)
  with BlockR : nat -> list tok -> list tree -> Prop :=
  | B_empty : forall d, BlockR d [] []
  | B_stats : forall d ts s ss, StatsR d ts (s :: ss) -> BlockR d ts [N KBlock (s :: ss)]

  with StatsR : nat -> list tok -> list tree -> Prop :=
  | SR_nil : forall d, StatsR d [] []
  | SR_cons : forall d k ts1 s ts2 ss,
      Stat d ts1 s k -> StatsR d ts2 ss -> head_ok k ts2 = true ->
      StatsR d (ts1 ++ ts2) (s :: ss)

  (** stat: enters one syntactic level *)
  with Stat : nat -> list tok -> tree -> fkind -> Prop :=
  | St_intro : forall d d' ts t k, StatB d' ts t k -> S d' <= d -> Stat d ts t k

  with StatB : nat -> list tok -> tree -> fkind -> Prop :=
  | SB_empty : forall d, StatB d [TSemi] (N KEmpty [L TSemi]) FAny                       (* ';' *)
  | SB_assign : forall d tv v tvs vs te e tes es semi,                                    (* varlist '=' explist *)
      Simple d tv v -> is_lvalue_tree v = true -> VarsTail d tvs vs ->
      E 1 d te e -> ExpTail d tes es ->
      StatB d (tv ++ tvs ++ TAssign :: te ++ tes ++ semi_toks semi)
            (N KAssign (v :: vs ++ L TAssign :: e :: es ++ semi_trees semi)) (semi_kind semi FExpr)
  | SB_call : forall d tc c semi,                                                         (* functioncall *)
      Simple d tc c -> is_call_tree c = true ->
      StatB d (tc ++ semi_toks semi) (N KCallStat (c :: semi_trees semi)) (semi_kind semi FExpr)
  | SB_label : forall d, f_goto ft = true ->                                              (* '::' Name '::' *)
      StatB d [TDbColon; TName; TDbColon] (N KLabel [L TDbColon; L TName; L TDbColon]) FAny
  | SB_break : forall d semi,
      StatB d (TBreak :: semi_toks semi) (N KBreak (L TBreak :: semi_trees semi)) (semi_kind semi FNoSemi)
  | SB_goto : forall d semi, f_goto ft = true ->
      StatB d (TGoto :: TName :: semi_toks semi) (N KGoto (L TGoto :: L TName :: semi_trees semi)) (semi_kind semi FNoSemi)
  | SB_do : forall d tb b semi,
      BlockR d tb b ->
      StatB d (TDo :: tb ++ TEnd :: semi_toks semi) (N KDo (L TDo :: b ++ L TEnd :: semi_trees semi)) (semi_kind semi FNoSemi)
  | SB_while : forall d te e tb b semi,
      E 1 d te e -> BlockR d tb b ->
      StatB d (TWhile :: te ++ TDo :: tb ++ TEnd :: semi_toks semi)
            (N KWhile (L TWhile :: e :: L TDo :: b ++ L TEnd :: semi_trees semi)) (semi_kind semi FNoSemi)
  | SB_repeat : forall d tb b te e semi,
      BlockR d tb b -> E 1 d te e ->
      StatB d (TRepeat :: tb ++ TUntil :: te ++ semi_toks semi)
            (N KRepeat (L TRepeat :: b ++ L TUntil :: e :: semi_trees semi)) (semi_kind semi FExpr)
  | SB_if : forall d te e tb b tcs cs semi,                     (* if exp then block {elseif exp then block} [else block] end *)
      E 1 d te e -> BlockR d tb b -> IfTail d tcs cs ->
      StatB d (TIf :: te ++ TThen :: tb ++ tcs ++ TEnd :: semi_toks semi)
            (N KIf (L TIf :: e :: L TThen :: b ++ cs ++ L TEnd :: semi_trees semi)) (semi_kind semi FNoSemi)
  | SB_fornum : forall d t1 e1 t2 e2 tstep step tb b semi,      (* for Name '=' exp ',' exp [',' exp] do block end *)
      E 1 d t1 e1 -> E 1 d t2 e2 -> ForStep d tstep step -> BlockR d tb b ->
      StatB d (TFor :: TName :: TAssign :: t1 ++ TComma :: t2 ++ tstep ++ TDo :: tb ++ TEnd :: semi_toks semi)
            (N KFor (L TFor :: L TName :: L TAssign :: e1 :: L TComma :: e2 :: step ++ L TDo :: b ++ L TEnd :: semi_trees semi))
            (semi_kind semi FNoSemi)
  | SB_forin : forall d tn ns te e tes es tb b semi,            (* for namelist in explist do block end *)
      NamesTail tn ns -> E 1 d te e -> ExpTail d tes es -> BlockR d tb b ->
      StatB d (TFor :: TName :: tn ++ TIn :: te ++ tes ++ TDo :: tb ++ TEnd :: semi_toks semi)
            (N KForRange (L TFor :: L TName :: ns ++ L TIn :: e :: es ++ L TDo :: b ++ L TEnd :: semi_trees semi))
            (semi_kind semi FNoSemi)
  | SB_function : forall d tn n tp p tb b semi,                 (* function funcname funcbody *)
      FuncName tn n -> ParList tp p -> BlockR d tb b ->
      StatB d (TFunction :: tn ++ tp ++ tb ++ TEnd :: semi_toks semi)
            (N KFunc (L TFunction :: n :: N KClosure (p :: b ++ [L TEnd]) :: semi_trees semi)) (semi_kind semi FNoSemi)
  | SB_localfunction : forall d tp p tb b semi,                 (* local function Name funcbody *)
      ParList tp p -> BlockR d tb b ->
      StatB d (TLocal :: TFunction :: TName :: tp ++ tb ++ TEnd :: semi_toks semi)
            (N KLocalFunc (L TLocal :: L TFunction :: N KLocalName [L TName] :: N KClosure (p :: b ++ [L TEnd]) :: semi_trees semi))
            (semi_kind semi FNoSemi)
  | SB_local : forall d tn n tns ns semi,                       (* local attnamelist *)
      AttName ft tn n -> AttNamesTail ft tns ns ->
      StatB d (TLocal :: tn ++ tns ++ semi_toks semi) (N KLocal (L TLocal :: n :: ns ++ semi_trees semi)) (semi_kind semi FNoSemi)
  | SB_localinit : forall d tn n tns ns te e tes es semi,       (* local attnamelist '=' explist *)
      AttName ft tn n -> AttNamesTail ft tns ns -> E 1 d te e -> ExpTail d tes es ->
      StatB d (TLocal :: tn ++ tns ++ TAssign :: te ++ tes ++ semi_toks semi)
            (N KLocal (L TLocal :: n :: ns ++ L TAssign :: e :: es ++ semi_trees semi)) (semi_kind semi FExpr)
  | SB_return0 : forall d semi,                                 (* retstat ::= return [explist] [';'] *)
      StatB d (TReturn :: semi_toks semi) (N KReturn (L TReturn :: semi_trees semi)) FLast
  | SB_return : forall d te e tes es semi,
      E 1 d te e -> ExpTail d tes es ->
      StatB d (TReturn :: te ++ tes ++ semi_toks semi) (N KReturn (L TReturn :: e :: es ++ semi_trees semi)) FLast

  (** {',' var} *)
  with VarsTail : nat -> list tok -> list tree -> Prop :=
  | VT_nil : forall d, VarsTail d [] []
  | VT_cons : forall d tv v ts trs,
      Simple d tv v -> is_lvalue_tree v = true -> VarsTail d ts trs -> VarsTail d (TComma :: tv ++ ts) (L TComma :: v :: trs)

  (** {elseif exp then block} [else block] *)
  with IfTail : nat -> list tok -> list tree -> Prop :=
  | IT_nil : forall d, IfTail d [] []
  | IT_else : forall d tb b, BlockR d tb b -> IfTail d (TElse :: tb) [N KElse (L TElse :: b)]
  | IT_elseif : forall d te e tb b ts trs,
      E 1 d te e -> BlockR d tb b -> IfTail d ts trs ->
      IfTail d (TElseIf :: te ++ TThen :: tb ++ ts) (N KElseIf (L TElseIf :: e :: L TThen :: b) :: trs)

  (** [',' exp] *)
  with ForStep : nat -> list tok -> list tree -> Prop :=
  | FS_none : forall d, ForStep d [] []
  | FS_some : forall d te e, E 1 d te e -> ForStep d (TComma :: te) [L TComma; e].

  (** chunk ::= block *)
  Inductive ChunkR : nat -> list tok -> tree -> Prop :=
  | C_intro : forall d ts b, BlockR d ts b -> ChunkR d ts (N KChunk b).
End Grammar.
