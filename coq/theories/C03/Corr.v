(** C03/Corr.v — executable comparison of implementation observations with the models
    (used by the correspondence checks of C03 and C02; the harness writes [case] terms). *)
From Coq Require Import List Bool Arith NArith.
Import ListNotations.
From EV Require Import C03.Syntax C03.Spec C03.Model C03.LexModel C03.LexCorr Gen.C03_Ops Gen.C02_Graph.

(** the parser model instantiated with today's tables *)
Definition gen_chunk (lv : level) (fuel : nat) (ts : list tok) : Model.res tree :=
  Model.chunk gen_binop_of gen_unop_of gen_left gen_right gen_unary_priority (gen_features lv) LIMIT fuel ts.
Definition gen_expr (lv : level) (fuel : nat) (ts : list tok) : Model.res tree :=
  Model.expr gen_binop_of gen_unop_of gen_left gen_right gen_unary_priority (gen_features lv) LIMIT fuel ts.

(** one parsed text: language level, token kinds (trivia removed), whether the implementation
    reported a parser error (or one of the two lexer errors the model charges to operators), the
    implementation's tree when it reported none, and the nesting-level high-water of the hook *)
Record case := {
  c_level : level;
  c_toks : list tok;
  c_errs : bool;
  c_tree : option tree;
  c_depth : nat
}.

Definition check_case (c : case) : bool :=
  match gen_chunk (c_level c) (enough_fuel (c_toks c)) (c_toks c) with
  | Ok t [] =>
      negb (c_errs c)
      && match c_tree c with Some t' => tree_eqb t t' | None => true end
      && (chunk_levels t =? c_depth c)
  | Ok _ (_ :: _) => false
  | Err => c_errs c && (c_depth c <=? LIMIT)
  | Fuel => false
  end.

(** acceptance only (single-token mutants): model rejects iff the implementation reports an error *)
Definition check_accept (c : case) : bool :=
  match gen_chunk (c_level c) (enough_fuel (c_toks c)) (c_toks c) with
  | Ok _ [] => negb (c_errs c)
  | Ok _ (_ :: _) => false
  | Err => c_errs c
  | Fuel => false
  end.

(** literals: the lexical model with today's constants *)
Definition gen_zsp (c : BinNums.N) : bool := existsb (N.eqb c) gen_zsp_chars.
Definition check_lex_case_gen (c : lex_case) : bool :=
  check_lex_case_with gen_zsp (ubad_max gen_umax) c.
