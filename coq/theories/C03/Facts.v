(** C03/Facts.v — small facts used by the completeness proofs: "eventually equal" (fuel) combinators,
    consequences of the table obligation, token classes. *)
From Coq Require Import List Bool Arith Lia.
Import ListNotations.
From EV Require Import C03.Syntax C03.Spec C03.Model.

(* ------------------------------------------------------------------------------------------ *)
(** * fuel: [ev g X] = with enough fuel, g returns X *)
Definition ev {A : Type} (g : nat -> res A) (X : res A) : Prop := exists n, forall f, n <= f -> g f = X.

Lemma ev_const : forall (A : Type) (X : res A), ev (fun _ => X) X.
Proof. intros. exists 0. reflexivity. Qed.

Lemma ev_S : forall (A : Type) (g h : nat -> res A) (X : res A),
  (forall f, g (S f) = h f) -> ev h X -> ev g X.
Proof.
  intros A g h X Hs [n Hn]. exists (S n). intros f Hf. destruct f as [|f]; [lia|].
  rewrite Hs. apply Hn. lia.
Qed.

Lemma ev_ext : forall (A : Type) (g h : nat -> res A) (X : res A),
  (forall f, g f = h f) -> ev h X -> ev g X.
Proof. intros A g h X He [n Hn]. exists n. intros f Hf. rewrite He. apply Hn. exact Hf. Qed.

Lemma ev_bind : forall (A B : Type) (g : nat -> res A) (k : nat -> A -> list tok -> res B) a r (X : res B),
  ev g (Ok a r) -> ev (fun f => k f a r) X -> ev (fun f => bind (g f) (k f)) X.
Proof.
  intros A B g k a r X [n1 H1] [n2 H2]. exists (n1 + n2). intros f Hf.
  rewrite H1 by lia. cbn [bind]. apply H2. lia.
Qed.

Lemma ev_eq : forall (A : Type) (g : nat -> res A) (X Y : res A), X = Y -> ev g X -> ev g Y.
Proof. intros. subst. assumption. Qed.

(* ------------------------------------------------------------------------------------------ *)
(** * token classes *)
Lemma all_toks_complete : forall t : tok, In t all_toks.
Proof. destruct t; cbn; tauto. Qed.
Lemma all_binops_complete : forall b : binop, In b all_binops.
Proof. destruct b; cbn; tauto. Qed.

Definition nosuffixb (ts : list tok) : bool := match ts with [] => true | x :: _ => negb (suffix_start x) end.
Definition nobinopb (ts : list tok) : bool := match ts with [] => true | x :: _ => negb (is_binop_tok x) end.
(** the next operator (if any) is looser than level m, or of level m and left associative *)
Definition followb (m : nat) (ts : list tok) : bool :=
  match ts with
  | [] => true
  | x :: _ => match man_binop_of x with
              | None => true
              | Some o => (man_level o <? m) || ((man_level o =? m) && negb (man_rassoc o))
              end
  end.

Definition is_unop_tok (t : tok) : bool := match man_unop_of t with Some _ => true | None => false end.
Definition simple_start (t : tok) : bool :=
  is_literal_tok t || match t with TLBrace | TFunction | TName | TLParen => true | _ => false end.
Definition expr_start (t : tok) : bool := simple_start t || is_unop_tok t.

Lemma man_binop_of_tok : forall o, man_binop_of (binop_tok o) = Some o.
Proof. destruct o; reflexivity. Qed.
Lemma man_unop_of_tok : forall u, man_unop_of (unop_tok u) = Some u.
Proof. destruct u; reflexivity. Qed.
Lemma binop_tok_not_suffix : forall o, suffix_start (binop_tok o) = false.
Proof. destruct o; reflexivity. Qed.
Lemma simple_start_not_unop : forall t, simple_start t = true -> man_unop_of t = None.
Proof. destruct t; cbn; intros H; try reflexivity; discriminate. Qed.
Lemma is_literal_eq : forall t, is_literal t = is_literal_tok t.
Proof. destruct t; reflexivity. Qed.
Lemma level_le_12 : forall o, man_level o <= 12.
Proof. destruct o; cbn; lia. Qed.
Lemma level_ge_1 : forall o, 1 <= man_level o.
Proof. destruct o; cbn; lia. Qed.
Lemma level_not_11 : forall o, man_level o <> 11.
Proof. destruct o; cbn; lia. Qed.
Lemma same_level_rassoc : forall a o, man_level a = man_level o -> man_rassoc a = man_rassoc o.
Proof. destruct a, o; cbn; intros H; try reflexivity; discriminate. Qed.
Lemma level12_rassoc : forall a, man_level a = 12 -> man_rassoc a = true.
Proof. destruct a; cbn; intros H; try reflexivity; discriminate. Qed.
Lemma pow_is_level12 : man_level OpPow = 12.
Proof. reflexivity. Qed.

Lemma followb_mono : forall m ts, followb m ts = true -> followb (S m) ts = true.
Proof.
  intros m [|x r] H; [reflexivity|]. cbn [followb] in *. destruct (man_binop_of x) as [o|]; [|reflexivity].
  apply orb_true_iff in H. apply orb_true_iff. left. apply Nat.ltb_lt.
  destruct H as [H|H].
  - apply Nat.ltb_lt in H. lia.
  - apply andb_true_iff in H. destruct H as [H _]. apply Nat.eqb_eq in H. lia.
Qed.

Lemma followb_of_nobinop : forall m ts, nobinopb ts = true -> followb m ts = true.
Proof.
  intros m [|x r] H; [reflexivity|]. cbn [followb nobinopb] in *. unfold is_binop_tok in H.
  destruct (man_binop_of x); [discriminate|reflexivity].
Qed.

(* ------------------------------------------------------------------------------------------ *)
(** * consequences of the table obligation *)
Section Table.
  Variable binop_of : tok -> option binop.
  Variable unop_of : tok -> option unop.
  Variable bl br : binop -> nat.
  Variable up : nat.
  Hypothesis Htab : table_ok binop_of unop_of bl br up = true.

  Lemma tab_split :
    (forall a b, (br b <? bl a) = absorbs a b) /\
    (forall a, (up <? bl a) = (man_unary_level <? man_level a)) /\
    (forall a, 0 < bl a) /\
    (forall t, binop_of t = man_binop_of t) /\
    (forall t, unop_of t = man_unop_of t).
  Proof.
    pose proof Htab as H. unfold table_ok in H.
    apply andb_true_iff in H. destruct H as [H H5].
    apply andb_true_iff in H. destruct H as [H H4].
    apply andb_true_iff in H. destruct H as [H H3].
    apply andb_true_iff in H. destruct H as [H1 H2].
    rewrite forallb_forall in H1, H2, H3, H4, H5.
    repeat split.
    - intros a b. specialize (H1 a (all_binops_complete a)). rewrite forallb_forall in H1.
      specialize (H1 b (all_binops_complete b)). apply Bool.eqb_prop in H1. exact H1.
    - intros a. specialize (H2 a (all_binops_complete a)). apply Bool.eqb_prop in H2. exact H2.
    - intros a. specialize (H3 a (all_binops_complete a)). apply Nat.ltb_lt in H3. exact H3.
    - intros t. specialize (H4 t (all_toks_complete t)).
      destruct (binop_of t) as [a|], (man_binop_of t) as [b|]; try discriminate; try reflexivity.
      apply internal_binop_dec_bl in H4. subst. reflexivity.
    - intros t. specialize (H5 t (all_toks_complete t)).
      destruct (unop_of t) as [a|], (man_unop_of t) as [b|]; try discriminate; try reflexivity.
      apply internal_unop_dec_bl in H5. subst. reflexivity.
  Qed.

  Lemma tab_abs : forall a b, (br b <? bl a) = absorbs a b. Proof. apply tab_split. Qed.
  Lemma tab_un : forall a, (up <? bl a) = (man_unary_level <? man_level a). Proof. apply tab_split. Qed.
  Lemma tab_pos : forall a, 0 < bl a. Proof. apply tab_split. Qed.
  Lemma tab_binop : forall t, binop_of t = man_binop_of t. Proof. apply tab_split. Qed.
  Lemma tab_unop : forall t, unop_of t = man_unop_of t. Proof. apply tab_split. Qed.

  (** [accepts lim m]: a loop with limit lim takes every operator of level >= m *)
  Definition accepts (lim m : nat) : Prop := forall a, m <= man_level a -> lim < bl a.

  Lemma accepts_0 : forall m, accepts 0 m.
  Proof. intros m a _. apply tab_pos. Qed.

  Lemma accepts_mono : forall lim m, accepts lim m -> accepts lim (S m).
  Proof. intros lim m H a Ha. apply H. lia. Qed.

  Lemma accepts_right_left : forall o, man_rassoc o = false -> accepts (br o) (S (man_level o)).
  Proof.
    intros o Ho a Ha. apply Nat.ltb_lt. rewrite tab_abs. unfold absorbs.
    apply orb_true_iff. left. apply Nat.ltb_lt. lia.
  Qed.

  Lemma accepts_right_right : forall o, man_rassoc o = true -> accepts (br o) (man_level o).
  Proof.
    intros o Ho a Ha. apply Nat.ltb_lt. rewrite tab_abs. unfold absorbs.
    apply orb_true_iff. destruct (Nat.eq_dec (man_level a) (man_level o)) as [E|E].
    - right. rewrite E, Nat.eqb_refl. cbn. rewrite (same_level_rassoc a o E). exact Ho.
    - left. apply Nat.ltb_lt. lia.
  Qed.

  Lemma accepts_unary : accepts up 11.
  Proof.
    intros a Ha. apply Nat.ltb_lt. rewrite tab_un. unfold man_unary_level. apply Nat.ltb_lt.
    pose proof (level_not_11 a). lia.
  Qed.

  Lemma accepts_pow_right : accepts (br OpPow) 11.
  Proof.
    intros a Ha. pose proof (level_not_11 a). pose proof (level_le_12 a).
    assert (E : man_level a = 12) by lia.
    apply Nat.ltb_lt. rewrite tab_abs. unfold absorbs. apply orb_true_iff. right.
    rewrite E. cbn. apply level12_rassoc. exact E.
  Qed.

  (** after the right operand of [o] the next operator (allowed by followb at o's level) is not taken *)
  Lemma not_absorbed : forall o m x r, man_level o = m -> followb m (x :: r) = true ->
    match man_binop_of x with Some o2 => bl o2 <= br o | None => True end.
  Proof.
    intros o m x r Hm Hf. cbn [followb] in Hf. destruct (man_binop_of x) as [o2|]; [|exact I].
    apply Nat.leb_le. rewrite Nat.leb_antisym. apply negb_true_iff. rewrite tab_abs. unfold absorbs.
    apply orb_false_iff. apply orb_true_iff in Hf. destruct Hf as [Hf|Hf].
    - apply Nat.ltb_lt in Hf. split.
      + apply Nat.ltb_ge. lia.
      + apply andb_false_iff. left. apply Nat.eqb_neq. lia.
    - apply andb_true_iff in Hf. destruct Hf as [He Hr]. apply Nat.eqb_eq in He. apply negb_true_iff in Hr. split.
      + apply Nat.ltb_ge. lia.
      + apply andb_false_iff. right. exact Hr.
  Qed.

  Lemma not_absorbed_unary : forall x r, followb 11 (x :: r) = true ->
    match man_binop_of x with Some o2 => bl o2 <= up | None => True end.
  Proof.
    intros x r Hf. cbn [followb] in Hf. destruct (man_binop_of x) as [o2|]; [|exact I].
    apply Nat.leb_le. rewrite Nat.leb_antisym. apply negb_true_iff. rewrite tab_un. unfold man_unary_level.
    apply Nat.ltb_ge. apply orb_true_iff in Hf. destruct Hf as [Hf|Hf].
    - apply Nat.ltb_lt in Hf. lia.
    - apply andb_true_iff in Hf. destruct Hf as [He _]. apply Nat.eqb_eq in He. lia.
  Qed.
End Table.
