(** C03/GenProofs.v — the lemmas of Proofs.v instantiated with the tables and constants regenerated from
    today's source (Gen/C03_Ops.v, Gen/C02_Graph.v), the table obligations and the examples. *)
From Coq Require Import List Bool Arith NArith.
Import ListNotations.
From EV Require Import C03.Syntax C03.Spec C03.Model C03.Proofs C03.Corr Gen.C03_Ops Gen.C02_Graph.
From EV Require C03.LexModel C03.LexSpec C03.LexProofs C03.Facts.

Lemma ops_table_matches_manual :
  table_ok gen_binop_of gen_unop_of gen_left gen_right gen_unary_priority = true.
Proof. vm_compute. reflexivity. Qed.

Lemma expr_complete : forall (lv : level) (d : nat) (ts : list tok) (t : tree),
  E (gen_features lv) 1 d ts t -> d <= LIMIT ->
  exists n, forall fuel, n <= fuel -> gen_expr lv fuel ts = Ok t [].
Proof.
  intros lv d ts t. exact (Proofs.expr_complete _ _ _ _ _ (gen_features lv) LIMIT ops_table_matches_manual d ts t).
Qed.

Lemma expr_complete_rest : forall (lv : level) (d : nat) (ts : list tok) (t : tree) (rest : list tok) (lvl : nat),
  E (gen_features lv) 1 d ts t -> lvl + d <= LIMIT ->
  Facts.nosuffixb rest = true -> Facts.nobinopb rest = true ->
  exists n, forall fuel, n <= fuel ->
    Model.sub_expr gen_binop_of gen_unop_of gen_left gen_right gen_unary_priority (gen_features lv) LIMIT fuel lvl 0 (ts ++ rest)
    = Ok t rest.
Proof.
  intros lv d ts t rest lvl.
  exact (Proofs.expr_complete_rest _ _ _ _ _ (gen_features lv) LIMIT ops_table_matches_manual d ts t rest lvl).
Qed.

Lemma chunk_complete : forall (lv : level) (d : nat) (ts : list tok) (t : tree),
  ChunkR (gen_features lv) d ts t -> d <= LIMIT ->
  exists n, forall fuel, n <= fuel -> gen_chunk lv fuel ts = Ok t [].
Proof.
  intros lv d ts t. exact (Proofs.chunk_complete _ _ _ _ _ (gen_features lv) LIMIT ops_table_matches_manual d ts t).
Qed.

Lemma lexical_constants :
  (forall c, gen_zsp c = LexModel.lexer_zsp_fixed c) /\ gen_umax = LexModel.lua54_umax.
Proof.
  split; [|reflexivity]. intros c. unfold gen_zsp, gen_zsp_chars, LexModel.lexer_zsp_fixed, LexModel.lexer_zsp.
  cbn [existsb]. destruct (N.eqb c 32), (N.eqb c 9), (N.eqb c 13), (N.eqb c 10), (N.eqb c 11), (N.eqb c 12); reflexivity.
Qed.

Definition lit := N KLiteral [L TInt].

Lemma precedence_example :
  gen_expr Lua54 100 [TInt; TPow; TMinus; TInt; TPow; TInt]
    = Ok (N KBinary [lit; L TPow; N KUnary [L TMinus; N KBinary [lit; L TPow; lit]]]) []
  /\ gen_expr Lua54 100 [TInt; TPlus; TInt; TMul; TInt; TConcat; TInt]
    = Ok (N KBinary [N KBinary [lit; L TPlus; N KBinary [lit; L TMul; lit]]; L TConcat; lit]) []
  /\ gen_expr Lua54 100 [TInt; TConcat; TInt; TConcat; TInt]
    = Ok (N KBinary [lit; L TConcat; N KBinary [lit; L TConcat; lit]]) []
  /\ gen_expr Lua54 100 [TNot; TName; TEq; TName]
    = Ok (N KBinary [N KUnary [L TNot; N KName [L TName]]; L TEq; N KName [L TName]]) []
  /\ gen_expr Lua51 100 [TInt; TIDiv; TInt] = Err
  /\ (exists t, gen_chunk Lua54 100 [TLocal; TName; TLt; TName; TGt; TAssign; TName; TLParen; TInt; TRParen; TSemi; TReturn; TName] = Ok t [])
  /\ gen_chunk Lua53 100 [TLocal; TName; TLt; TName; TGt; TAssign; TInt] = Err.
Proof. vm_compute. repeat split; try reflexivity. eexists. reflexivity. Qed.

Lemma derivation_example : forall lv, E (gen_features lv) 1 2 [TInt; TPlus; TInt; TPlus; TInt] (Proofs.plus_tree 2).
Proof. intros lv. exact (Proofs.plus_chain_E (gen_features lv) 2). Qed.
