(** C03/LongSpec.v — long brackets of the Lua reference manual (§3.1; 5.1: §2.1): "an opening long
    bracket of level n is an opening square bracket followed by n equal signs followed by another
    opening square bracket ... A long literal starts with an opening long bracket of any level and
    ends at the first closing long bracket of the same level.  It can contain any text except a
    closing bracket of the same level."  Specification definitions only. *)
From EV Require Export Base.Text.
Local Open Scope N_scope.
Local Notation cp := N (only parsing).
Local Notation text := (list N) (only parsing).

(** [[ =^n [ ]  and  ] =^n ] *)
Definition opener (n : nat) : text := 91 :: repeat 61 n ++ [91].
Definition closer (n : nat) : text := 93 :: repeat 61 n ++ [93].

Definition is_prefix (p t : text) : Prop := exists s, t = p ++ s.

(** [body] may stand between the brackets of level [n]: in [body ++ closer n] the first closing
    bracket of level [n] is the one at the end — none starts at a position inside [body] (closing
    brackets of other levels and every other character, line breaks included, are allowed) *)
Definition long_body (n : nat) (body : text) : Prop :=
  forall i, (i < length body)%nat -> ~ is_prefix (closer n) (skipn i (body ++ closer n)).

Definition long_string (n : nat) (s : text) : Prop :=
  exists body, s = opener n ++ body ++ closer n /\ long_body n body.

(** [--] immediately followed by a long string *)
Definition long_comment (n : nat) (s : text) : Prop :=
  exists body, s = 45 :: 45 :: opener n ++ body ++ closer n /\ long_body n body.

(** ** a decision procedure for [long_body] (used by examples and by LongCorr) *)
Fixpoint prefixb (p t : text) : bool :=
  match p, t with
  | [], _ => true
  | x :: p', y :: t' => (x =? y) && prefixb p' t'
  | _ :: _, [] => false
  end.

(** [cl] does not start at any of the first [k] positions of [t] *)
Fixpoint no_closer (cl : text) (k : nat) (t : text) : bool :=
  match k with
  | O => true
  | S k' => negb (prefixb cl t) && match t with [] => true | _ :: t' => no_closer cl k' t' end
  end.

Definition long_bodyb (n : nat) (body : text) : bool :=
  no_closer (closer n) (length body) (body ++ closer n).
