(** C03/LongModel.v — lexical layer of "valid Lua is never reported as a syntax error": long brackets
    (long strings and long comments).  Executable definitions only.

    Transcribed from crates/emmylua_parser/src/lexer/lua_lexer.rs:
      [lex_long_string(sep)], [skip_sep] (= [reader.eat_when('=')]), and the arms ['['] and ['-'] of [lex]
    with the reader of crates/emmylua_parser/src/text/reader.rs: the unread part of the input is a list
    of code points, [is_eof] is "the unread part is empty" (position-based), [current_char()] is [hd 0]
    (['\0'] past the end), [bump] at EOF does nothing.

    Language levels: for Lua 5.1 .. 5.4 the features MinusAssign ([-=]) and ShortFunction ([->]) are off
    (kind/lua_features.rs), so those two guards of the ['-'] arm never fire and are not modelled.

    The [']'] arm of the loop of [lex_long_string] has a parameter [greedy]: [false] is the code as
    written (when the run of ['='] has the wrong length, or is not followed by [']'], NOTHING more is
    consumed and the loop goes on at the character after the run, which may itself be the [']'] that
    starts the real closer); [true] is a mutant that always swallows a [']'] following the run. *)
From EV Require Export Base.Text.
Local Open Scope N_scope.
(** [cp] and [text] of Base.Text are used as what they are, [N] and [list N] *)
Local Notation cp := N (only parsing).
Local Notation text := (list N) (only parsing).

(** token kinds produced by the modelled arms *)
Inductive lkind : Type :=
  TkLongString | TkLongComment | TkLeftBracket | TkShortComment | TkMinus | TkOther.

(** a token: kind, text ([reader.current_text()]), unread part, "an error was pushed" *)
Record ltoken : Type := { lt_kind : lkind; lt_text : text; lt_rest : text; lt_err : bool }.

(** [reader.eat_when('=')]: (count, unread part).  One recursive call per character. *)
Fixpoint eat_eq (t : text) : nat * text :=
  match t with
  | c :: r => if c =? 61 then match eat_eq r with (k, r') => (S k, r') end else (O, t)
  | [] => (O, [])
  end.

(** result of the loop of [lex_long_string]: characters bumped, unread part, the local [end] *)
Record lrun : Type := { lr_tok : text; lr_rest : text; lr_end : bool }.

Definition lpre (p : text) (x : lrun) : lrun :=
  {| lr_tok := p ++ lr_tok x; lr_rest := lr_rest x; lr_end := lr_end x |}.

(** [while !self.reader.is_eof() { match self.reader.current_char() { ']' => {..} _ => bump } }].
    Every iteration bumps at least one character: [fuel > length input] is enough. *)
Fixpoint long_loop (greedy : bool) (fuel sep : nat) (input : text) : lrun :=
  match fuel with
  | O => {| lr_tok := []; lr_rest := input; lr_end := false |}
  | S f =>
      match input with
      | [] => {| lr_tok := []; lr_rest := []; lr_end := false |}
      | c :: r =>
          if c =? 93 then                                   (* ']' => bump *)
            match eat_eq r with                             (* let count = eat_when('=') *)
            | (count, r1) =>
                let eaten := 93 :: repeat 61 count in
                let cur := hd 0 r1 in
                if Nat.eqb count sep && (cur =? 93)         (* count == sep && current == ']' *)
                then {| lr_tok := eaten ++ [93]; lr_rest := tl r1; lr_end := true |}
                else if greedy && (cur =? 93)               (* the mutant only *)
                then lpre (eaten ++ [93]) (long_loop greedy f sep (tl r1))
                else lpre eaten (long_loop greedy f sep r1)
            end
          else lpre [c] (long_loop greedy f sep r)          (* _ => bump *)
      end
  end.

(** [fn lex_long_string(sep)] started after the opening bracket; the error
    "unfinished long string or comment" is pushed iff [!end] *)
Definition lex_long_string (greedy : bool) (sep : nat) (input : text) : lrun :=
  long_loop greedy (S (length input)) sep input.

(** the ['['] arm of [lex], after the [bump] of the ['[']: [r] is the unread part *)
Definition lex_bracket (greedy : bool) (r : text) : ltoken :=
  match eat_eq r with                                       (* let sep = self.skip_sep() *)
  | (sep, r1) =>
      let cur := hd 0 r1 in
      if Nat.eqb sep 0 && negb (cur =? 91)
      then {| lt_kind := TkLeftBracket; lt_text := [91]; lt_rest := r1; lt_err := false |}
      else if negb (cur =? 91)                              (* "invalid long string delimiter" *)
      then {| lt_kind := TkLongString; lt_text := 91 :: repeat 61 sep; lt_rest := r1; lt_err := true |}
      else let x := lex_long_string greedy sep (tl r1) in   (* bump; lex_long_string(sep) *)
           {| lt_kind := TkLongString; lt_text := 91 :: repeat 61 sep ++ 91 :: lr_tok x;
              lt_rest := lr_rest x; lt_err := negb (lr_end x) |}
  end.

(** [reader.eat_while(|ch| ch != '\n' && ch != '\r')]: (eaten, unread); one recursive call *)
Fixpoint line_span (t : text) : text * text :=
  match t with
  | c :: r => if (c =? 10) || (c =? 13) then ([], t)
              else match line_span r with (a, b) => (c :: a, b) end
  | [] => ([], [])
  end.

(** the tail of the ['-'] arm: [eat_while(..); TkShortComment], [pre] is what was bumped before *)
Definition short_comment (pre r : text) : ltoken :=
  match line_span r with
  | (a, b) => {| lt_kind := TkShortComment; lt_text := pre ++ a; lt_rest := b; lt_err := false |}
  end.

(** the ['-'] arm of [lex] (MinusAssign and ShortFunction off), after the [bump] of the first ['-'] *)
Definition lex_minus (greedy : bool) (r : text) : ltoken :=
  match r with
  | [] => {| lt_kind := TkMinus; lt_text := [45]; lt_rest := []; lt_err := false |}
  | c :: r1 =>
      if negb (c =? 45)                                     (* current != '-' *)
      then {| lt_kind := TkMinus; lt_text := [45]; lt_rest := r; lt_err := false |}
      else                                                  (* bump the second '-' *)
        if hd 0 r1 =? 91 then                               (* current == '[' : bump *)
          match eat_eq (tl r1) with                         (* let sep = self.skip_sep() *)
          | (sep, r3) =>
              if hd 0 r3 =? 91 then                         (* bump; lex_long_string(sep); TkLongComment *)
                let x := lex_long_string greedy sep (tl r3) in
                {| lt_kind := TkLongComment;
                   lt_text := 45 :: 45 :: 91 :: repeat 61 sep ++ 91 :: lr_tok x;
                   lt_rest := lr_rest x; lt_err := negb (lr_end x) |}
              else short_comment (45 :: 45 :: 91 :: repeat 61 sep) r3
          end
        else short_comment [45; 45] r1
  end.

(** [fn lex] on a text that starts with ['['] or ['-']; [None] otherwise *)
Definition lex_long (greedy : bool) (input : text) : option ltoken :=
  match input with
  | [] => None
  | c :: r => if c =? 91 then Some (lex_bracket greedy r)
              else if c =? 45 then Some (lex_minus greedy r)
              else None
  end.
