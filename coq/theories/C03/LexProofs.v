(** C03/LexProofs.v — completeness of the lexical layer (numbers, short strings) with respect to
    the Lua reference manual (LexSpec.v), for the model of the Rust code in LexModel.v. *)
From EV Require Import Base.TextFacts C03.LexModel C03.LexSpec.
Local Open Scope N_scope.
(** [cp] and [text] of Base.Text are used as what they are, [N] and [list N], so that every list in
    these files is built with the same type argument *)
Local Notation cp := N (only parsing).
Local Notation text := (list N) (only parsing).

(** * tactics for character-class reasoning *)

(** case analysis on every comparison in the goal (boolean hypotheses are first reverted into it) *)
Ltac bgoal :=
  repeat (match goal with
          | |- context [N.eqb ?a ?b] => destruct (N.eqb_spec a b)
          | |- context [N.leb ?a ?b] => destruct (N.leb_spec a b)
          | |- context [N.ltb ?a ?b] => destruct (N.ltb_spec a b)
          end; try lia);
  cbn [andb orb negb]; cbv beta iota; intros; try discriminate; try reflexivity; try lia.

Lemma forallb_Forall : forall (p : cp -> bool) l, forallb p l = true <-> Forall (fun c => p c = true) l.
Proof.
  intros p l. rewrite forallb_forall, Forall_forall. reflexivity.
Qed.

(** * character facts *)

Lemma sdigit_is_digit : forall c, sdigit c = is_digit c.
Proof. reflexivity. Qed.
Lemma sxdigit_is_hexdigit : forall c, sxdigit c = is_hexdigit c.
Proof. reflexivity. Qed.

Lemma digit_is_hexdigit : forall c, is_digit c = true -> is_hexdigit c = true.
Proof. intros c H. unfold is_hexdigit. rewrite H. reflexivity. Qed.

(** * [num_step] facts *)

Lemma step_int_digit : forall c n, is_digit c = true -> num_step SInt c n = NCont SInt.
Proof. intros c n H. cbn [num_step]. rewrite H. reflexivity. Qed.
Lemma step_float_digit : forall c n, is_digit c = true -> num_step SFloat c n = NCont SFloat.
Proof. intros c n H. cbn [num_step]. rewrite H. reflexivity. Qed.
Lemma step_expo_digit : forall c n, is_digit c = true -> num_step SExpo c n = NCont SExpo.
Proof. intros c n H. cbn [num_step]. rewrite H. reflexivity. Qed.
Lemma step_hex_digit : forall c n, is_hexdigit c = true -> num_step SHex c n = NCont SHex.
Proof. intros c n H. cbn [num_step]. rewrite H. reflexivity. Qed.
Lemma step_hexfloat_digit : forall c n, is_hexdigit c = true -> num_step SHexFloat c n = NCont SHexFloat.
Proof. intros c n H. cbn [num_step]. rewrite H. reflexivity. Qed.

Lemma step_int_dot : forall n, num_step SInt 46 n = NCont SFloat.
Proof. reflexivity. Qed.
Lemma step_hex_dot : forall n, num_step SHex 46 n = NCont SHexFloat.
Proof. reflexivity. Qed.

Lemma step_int_e : forall m n, m = 101 \/ m = 69 -> num_step SInt m n = exp_step n.
Proof. intros m n [-> | ->]; reflexivity. Qed.
Lemma step_float_e : forall m n, m = 101 \/ m = 69 -> num_step SFloat m n = exp_step n.
Proof. intros m n [-> | ->]; reflexivity. Qed.
Lemma step_hex_p : forall m n, m = 112 \/ m = 80 -> num_step SHex m n = exp_step n.
Proof. intros m n [-> | ->]; reflexivity. Qed.
Lemma step_hexfloat_p : forall m n, m = 112 \/ m = 80 -> num_step SHexFloat m n = exp_step n.
Proof. intros m n [-> | ->]; reflexivity. Qed.

(** a character that is no letter, digit or point stops the loop in every state *)
Lemma step_stop : forall st c n,
  sletter c = false -> sdigit c = false -> c <> 46 -> num_step st c n = NBreak.
Proof.
  intros st c n Hl Hd Hp. revert Hl Hd.
  destruct st; unfold sletter, sdigit, num_step, is_hexdigit, is_digit, is_e, is_p; bgoal.
Qed.

(** * [num_loop] facts (all features off) *)

Definition mk (st : nstate) (tok rest : text) : nrun := {| nr_st := st; nr_tok := tok; nr_rest := rest |}.

Lemma loop_nil : forall st, num_loop std_features st [] = mk st [] [].
Proof. reflexivity. Qed.

Lemma loop_cont : forall st st' ch tl s tok r,
  num_step st ch (hd 0 tl) = NCont st' ->
  num_loop std_features st' tl = mk s tok r ->
  num_loop std_features st (ch :: tl) = mk s (ch :: tok) r.
Proof.
  intros st st' ch tl s tok r H1 H2.
  cbn [num_loop f_underscore std_features andb]. rewrite H1, H2. reflexivity.
Qed.

Lemma loop_cont_sign : forall st st' ch sg tl s tok r,
  num_step st ch sg = NContSign st' ->
  num_loop std_features st' tl = mk s tok r ->
  num_loop std_features st (ch :: sg :: tl) = mk s (ch :: sg :: tok) r.
Proof.
  intros st st' ch sg tl s tok r H1 H2.
  cbn [num_loop f_underscore std_features andb hd]. rewrite H1.
  fold (num_loop std_features st' tl). rewrite H2. reflexivity.
Qed.

Lemma loop_break : forall st ch tl,
  num_step st ch (hd 0 tl) = NBreak ->
  num_loop std_features st (ch :: tl) = mk st [] (ch :: tl).
Proof.
  intros st ch tl H. cbn [num_loop f_underscore std_features andb]. rewrite H. reflexivity.
Qed.

Lemma loop_stop : forall alpha st rest,
  numeral_end alpha rest -> num_loop std_features st rest = mk st [] rest.
Proof.
  intros alpha st [|c r] H; [reflexivity|].
  destruct H as (_ & Hl & Hd & Hp & _).
  apply loop_break. apply step_stop; assumption.
Qed.

(** a run of characters on which the state loops *)
Lemma loop_run : forall (p : cp -> bool) st,
  (forall c n, p c = true -> num_step st c n = NCont st) ->
  forall ds X s tok r,
    forallb p ds = true ->
    num_loop std_features st X = mk s tok r ->
    num_loop std_features st (ds ++ X) = mk s (ds ++ tok) r.
Proof.
  intros p st Hp ds. induction ds as [|d ds IH]; intros X s tok r Hds HX.
  - exact HX.
  - cbn [forallb] in Hds. apply andb_prop in Hds. destruct Hds as [Hd Hds].
    cbn [app]. eapply loop_cont.
    + apply Hp. exact Hd.
    + apply IH; assumption.
Qed.

Lemma hd_digits_app : forall ds X, digits1 ds -> is_digit (hd 0 (ds ++ X)) = true.
Proof.
  intros [|d ds] X [Hne Hds]; [contradiction|].
  unfold digits in Hds. cbn [forallb] in Hds. apply andb_prop in Hds. destruct Hds as [Hd _].
  exact Hd.
Qed.

Lemma digit_not_sign : forall c, is_digit c = true -> is_sign c = false.
Proof. intros c. unfold is_digit, is_sign. bgoal. Qed.

(** the digits of an exponent *)
Lemma loop_expo_digits : forall alpha ds rest,
  digits ds -> numeral_end alpha rest ->
  num_loop std_features SExpo (ds ++ rest) = mk SExpo ds rest.
Proof.
  intros alpha ds rest Hds Hend.
  rewrite <- (app_nil_r ds) at 2.
  apply (loop_run is_digit SExpo step_expo_digit); [exact Hds|].
  eapply loop_stop; exact Hend.
Qed.

(** an exponent, from any state that reacts to its marker *)
Lemma loop_exponent : forall alpha st lo up e rest,
  (forall m n, m = lo \/ m = up -> num_step st m n = exp_step n) ->
  exponent lo up e -> numeral_end alpha rest ->
  num_loop std_features st (e ++ rest) = mk SExpo e rest.
Proof.
  intros alpha st lo up e rest Hst He Hend.
  destruct He as [m sg ds Hm Hsg Hds].
  pose proof (loop_expo_digits alpha ds rest (proj2 Hds) Hend) as HL.
  destruct Hsg; cbn [app].
  - eapply loop_cont; [|exact HL].
    rewrite (Hst _ _ Hm). unfold exp_step.
    rewrite (digit_not_sign _ (hd_digits_app ds rest Hds)). reflexivity.
  - eapply loop_cont_sign; [|exact HL].
    rewrite (Hst _ _ Hm). reflexivity.
  - eapply loop_cont_sign; [|exact HL].
    rewrite (Hst _ _ Hm). reflexivity.
Qed.

(** the two families of numerals: (integer state, fraction state, digit class, exponent markers) *)
Section Family.
  Variables (sI sF : nstate) (p : cp -> bool) (lo up : cp).
  Hypothesis HI : forall c n, p c = true -> num_step sI c n = NCont sI.
  Hypothesis HF : forall c n, p c = true -> num_step sF c n = NCont sF.
  Hypothesis Hdot : forall n, num_step sI 46 n = NCont sF.
  Hypothesis HeI : forall m n, m = lo \/ m = up -> num_step sI m n = exp_step n.
  Hypothesis HeF : forall m n, m = lo \/ m = up -> num_step sF m n = exp_step n.

  Lemma fam_int : forall alpha a rest,
    forallb p a = true -> numeral_end alpha rest ->
    num_loop std_features sI (a ++ rest) = mk sI a rest.
  Proof.
    intros alpha a rest Ha Hend. rewrite <- (app_nil_r a) at 2.
    apply (loop_run p sI HI); [exact Ha|]. eapply loop_stop; exact Hend.
  Qed.

  Lemma fam_int_exp : forall alpha a e rest,
    forallb p a = true -> exponent lo up e -> numeral_end alpha rest ->
    num_loop std_features sI (a ++ e ++ rest) = mk SExpo (a ++ e) rest.
  Proof.
    intros alpha a e rest Ha He Hend.
    apply (loop_run p sI HI); [exact Ha|].
    eapply loop_exponent; eauto.
  Qed.

  Lemma fam_frac_tail : forall alpha b e rest,
    forallb p b = true -> exponent_opt lo up e -> numeral_end alpha rest ->
    exists st, (st = sF \/ st = SExpo) /\
               num_loop std_features sF (b ++ e ++ rest) = mk st (b ++ e) rest.
  Proof.
    intros alpha b e rest Hb He Hend. destruct He as [|e He].
    - exists sF. split; [left; reflexivity|]. cbn [app].
      apply (loop_run p sF HF); [exact Hb|]. eapply loop_stop; exact Hend.
    - exists SExpo. split; [right; reflexivity|].
      apply (loop_run p sF HF); [exact Hb|].
      eapply loop_exponent; eauto.
  Qed.

  Lemma fam_frac : forall alpha a b e rest,
    forallb p a = true -> forallb p b = true -> exponent_opt lo up e -> numeral_end alpha rest ->
    exists st, (st = sF \/ st = SExpo) /\
               num_loop std_features sI (a ++ 46 :: b ++ e ++ rest) = mk st (a ++ 46 :: b ++ e) rest.
  Proof.
    intros alpha a b e rest Ha Hb He Hend.
    destruct (fam_frac_tail alpha b e rest Hb He Hend) as (st & Hst & HL).
    exists st. split; [exact Hst|].
    apply (loop_run p sI HI); [exact Ha|].
    eapply loop_cont; [apply Hdot|]. exact HL.
  Qed.
End Family.
(** * [lex_number] *)

Definition nox (c : cp) : bool := negb ((c =? 120) || (c =? 88)).
Definition nox_head (r : text) : Prop := match r with [] => True | c :: _ => nox c = true end.

Lemma zero_prefix_other : forall r1, nox_head r1 -> zero_prefix std_features r1 = mk SInt [] r1.
Proof.
  intros [|c r] H; [reflexivity|]. cbn [nox_head] in H. unfold nox in H.
  cbn [zero_prefix f_binary f_underscore std_features andb].
  destruct ((c =? 120) || (c =? 88)); [discriminate|]. reflexivity.
Qed.

Lemma num_start_digit : forall d r1,
  is_digit d = true -> nox_head r1 -> num_start std_features d r1 = mk SInt [] r1.
Proof.
  intros d r1 Hd Hx. unfold num_start.
  destruct (N.eqb_spec d 48) as [E|E]; [apply zero_prefix_other; exact Hx|].
  destruct (N.eqb_spec d 46) as [E'|E']; [subst d; discriminate|]. reflexivity.
Qed.

Lemma num_start_dot : forall r1, num_start std_features 46 r1 = mk SFloat [] r1.
Proof. reflexivity. Qed.

Lemma num_start_hex : forall x r2,
  x = 120 \/ x = 88 -> num_start std_features 48 (x :: r2) = mk SHex [x] r2.
Proof. intros x r2 [-> | ->]; reflexivity. Qed.

Lemma nox_head_app : forall A X, forallb nox A = true -> nox_head X -> nox_head (A ++ X).
Proof.
  intros [|a A] X HA HX; [exact HX|].
  cbn [forallb] in HA. apply andb_prop in HA. destruct HA as [Ha _]. exact Ha.
Qed.

Lemma numeral_end_nox : forall alpha rest, numeral_end alpha rest -> nox_head rest.
Proof.
  intros alpha [|c r] H; [exact I|]. destruct H as (_ & Hl & _). cbn [nox_head].
  revert Hl. unfold sletter, nox. bgoal.
Qed.

Lemma forallb_impl : forall (p q : cp -> bool) l,
  (forall c, p c = true -> q c = true) -> forallb p l = true -> forallb q l = true.
Proof.
  intros p q l H. induction l as [|c l IH]; intros Hl; [reflexivity|].
  cbn [forallb] in *. apply andb_prop in Hl. destruct Hl as [Hc Hl].
  rewrite (H _ Hc), (IH Hl). reflexivity.
Qed.

(** the characters of a decimal numeral *)
Definition dchar (c : cp) : bool := is_digit c || (c =? 46) || is_e c || is_sign c.

Lemma digits_dchar : forall a, digits a -> forallb dchar a = true.
Proof.
  intros a H. apply (forallb_impl sdigit); [|exact H].
  intros c Hc. unfold dchar. rewrite <- sdigit_is_digit, Hc. reflexivity.
Qed.

Lemma sign_opt_dchar : forall sg, sign_opt sg -> forallb dchar sg = true.
Proof. intros sg H. destruct H; reflexivity. Qed.

Lemma exponent_dchar : forall e, exponent 101 69 e -> forallb dchar e = true.
Proof.
  intros e H. destruct H as [m sg ds Hm Hsg Hds].
  cbn [forallb]. rewrite forallb_app, (sign_opt_dchar _ Hsg), (digits_dchar _ (proj2 Hds)).
  destruct Hm as [-> | ->]; reflexivity.
Qed.

Lemma exponent_opt_dchar : forall e, exponent_opt 101 69 e -> forallb dchar e = true.
Proof. intros e H. destruct H as [|e H]; [reflexivity|]. apply exponent_dchar. exact H. Qed.

Lemma dchar_nox : forall c, dchar c = true -> nox c = true.
Proof. intros c. unfold dchar, nox, is_digit, is_e, is_sign. bgoal. Qed.

Lemma lex_number_run : forall alpha first r1 st0 pre r2 st body rest,
  numeral_end alpha rest ->
  num_start std_features first r1 = mk st0 pre r2 ->
  num_loop std_features st0 r2 = mk st body rest ->
  lex_number std_features alpha (first :: r1) =
    {| tk_kind := kind_of_state st; tk_text := first :: pre ++ body; tk_rest := rest; tk_err := false |}.
Proof.
  intros alpha first r1 st0 pre r2 st body rest Hend H0 H1.
  unfold lex_number. cbn [hd tl]. rewrite H0. cbn [mk nr_st nr_rest nr_tok]. rewrite H1.
  cbn [mk nr_st nr_rest nr_tok f_complex f_ll std_features andb app].
  f_equal. destruct rest as [|c r]; [reflexivity|]. destruct Hend as [Ha _]. exact Ha.
Qed.

Lemma starts_number_digit : forall d X, is_digit d = true -> starts_number (d :: X) = true.
Proof. intros d X H. cbn [starts_number]. rewrite H. reflexivity. Qed.

Definition tok (k : tkind) (s rest : text) : token :=
  {| tk_kind := k; tk_text := s; tk_rest := rest; tk_err := false |}.

(** decimal numerals that start with a digit: the scan goes on in state [SInt] *)
Lemma lex_number_dec : forall alpha d body rest st,
  numeral_end alpha rest -> is_digit d = true -> forallb dchar body = true ->
  num_loop std_features SInt (body ++ rest) = mk st body rest ->
  lex_number std_features alpha (d :: body ++ rest) = tok (kind_of_state st) (d :: body) rest.
Proof.
  intros alpha d body rest st Hend Hd Hb HL.
  eapply (lex_number_run alpha d (body ++ rest) SInt [] (body ++ rest) st body rest Hend); [|exact HL].
  apply num_start_digit; [exact Hd|].
  apply nox_head_app; [|eapply numeral_end_nox; exact Hend].
  apply (forallb_impl dchar); [exact dchar_nox|exact Hb].
Qed.

Lemma digits_forallb : forall a, digits a -> forallb is_digit a = true.
Proof. intros a H. exact H. Qed.
Lemma xdigits_forallb : forall a, xdigits a -> forallb is_hexdigit a = true.
Proof. intros a H. exact H. Qed.

Lemma number_lex_complete : forall alpha v s i rest,
  numeral v s i -> numeral_end alpha rest ->
  starts_number (s ++ rest) = true /\
  lex_number std_features alpha (s ++ rest) = tok (if i then TkInt else TkFloat) s rest.
Proof.
  intros alpha v s i rest Hn Hend.
  destruct Hn as [a Ha | a e Ha He | a b e Ha Hb Hne He | x a Hx Ha | x a e _ Hx Ha He
                 | x a b e _ Hx Ha Hb Hne He].
  - (* decimal integer *)
    destruct a as [|d a']; [destruct Ha as [Hne _]; contradiction|].
    destruct Ha as [_ Ha]. unfold digits in Ha. cbn [forallb] in Ha.
    apply andb_prop in Ha. destruct Ha as [Hd Ha']. rewrite sdigit_is_digit in Hd.
    cbn [app]. split; [apply starts_number_digit; exact Hd|].
    apply (lex_number_dec alpha d a' rest SInt Hend Hd (digits_dchar _ Ha')).
    exact (fam_int SInt is_digit step_int_digit alpha a' rest Ha' Hend).
  - (* decimal with exponent *)
    destruct a as [|d a']; [destruct Ha as [Hne _]; contradiction|].
    destruct Ha as [_ Ha]. unfold digits in Ha. cbn [forallb] in Ha.
    apply andb_prop in Ha. destruct Ha as [Hd Ha']. rewrite sdigit_is_digit in Hd.
    rewrite <- app_assoc. cbn [app]. split; [apply starts_number_digit; exact Hd|].
    rewrite (app_assoc a' e rest).
    apply (lex_number_dec alpha d (a' ++ e) rest SExpo Hend Hd).
    + rewrite forallb_app, (digits_dchar _ Ha'), (exponent_dchar _ He). reflexivity.
    + rewrite <- app_assoc.
      exact (fam_int_exp SInt is_digit 101 69 step_int_digit step_int_e alpha a' e rest Ha' He Hend).
  - (* decimal with a point *)
    destruct a as [|d a'].
    + (* .5 *)
      assert (Hb1 : digits1 b) by (split; [destruct Hne as [H|H]; [contradiction|exact H]|exact Hb]).
      cbn [app]. rewrite <- app_assoc.
      split.
      { cbn [starts_number]. change (46 =? 46) with true. rewrite (hd_digits_app b (e ++ rest) Hb1).
        reflexivity. }
      destruct (fam_frac_tail SFloat is_digit 101 69 step_float_digit step_float_e alpha b e rest Hb He Hend)
        as (st & Hst & HL).
      rewrite (lex_number_run alpha 46 (b ++ e ++ rest) SFloat [] (b ++ e ++ rest) st (b ++ e) rest Hend
                 (num_start_dot _) HL).
      destruct Hst as [-> | ->]; reflexivity.
    + unfold digits in Ha. cbn [forallb] in Ha.
      apply andb_prop in Ha. destruct Ha as [Hd Ha']. rewrite sdigit_is_digit in Hd.
      destruct (fam_frac SInt SFloat is_digit 101 69 step_int_digit step_float_digit step_int_dot
                  step_float_e alpha a' b e rest Ha' Hb He Hend) as (st & Hst & HL).
      replace (((d :: a') ++ 46 :: b ++ e) ++ rest) with (d :: (a' ++ 46 :: b ++ e) ++ rest)
        by (cbn [app]; rewrite <- !app_assoc; cbn [app]; rewrite <- !app_assoc; reflexivity).
      split; [apply starts_number_digit; exact Hd|].
      rewrite (lex_number_dec alpha d (a' ++ 46 :: b ++ e) rest st Hend Hd).
      * destruct Hst as [-> | ->]; reflexivity.
      * rewrite forallb_app. cbn [forallb]. rewrite forallb_app.
        rewrite (digits_dchar _ Ha'), (digits_dchar _ Hb), (exponent_opt_dchar _ He). reflexivity.
      * rewrite <- HL. f_equal. rewrite <- !app_assoc. cbn [app]. rewrite <- !app_assoc. reflexivity.
  - (* hexadecimal integer *)
    cbn [app]. split; [reflexivity|].
    refine (eq_trans (lex_number_run alpha 48 (x :: a ++ rest) SHex [x] (a ++ rest) SHex a rest Hend
               (num_start_hex x _ Hx)
               (fam_int SHex is_hexdigit step_hex_digit alpha a rest (proj2 Ha) Hend)) _).
    reflexivity.
  - (* hexadecimal with exponent *)
    cbn [app]. split; [reflexivity|]. rewrite <- app_assoc.
    refine (eq_trans (lex_number_run alpha 48 (x :: a ++ e ++ rest) SHex [x] (a ++ e ++ rest) SExpo (a ++ e) rest Hend
               (num_start_hex x _ Hx)
               (fam_int_exp SHex is_hexdigit 112 80 step_hex_digit step_hex_p alpha a e rest (proj2 Ha) He Hend)) _).
    reflexivity.
  - (* hexadecimal with a point *)
    cbn [app]. split; [reflexivity|].
    destruct (fam_frac SHex SHexFloat is_hexdigit 112 80 step_hex_digit step_hexfloat_digit step_hex_dot
                step_hexfloat_p alpha a b e rest Ha Hb He Hend) as (st & Hst & HL).
    replace ((a ++ 46 :: b ++ e) ++ rest) with (a ++ 46 :: b ++ e ++ rest)
      by (rewrite <- !app_assoc; cbn [app]; rewrite <- !app_assoc; reflexivity).
    refine (eq_trans (lex_number_run alpha 48 (x :: a ++ 46 :: b ++ e ++ rest) SHex [x] _ st _ rest Hend
               (num_start_hex x _ Hx) HL) _).
    destruct Hst as [-> | ->]; reflexivity.
Qed.
(** * checker side of numbers *)

Definition ne (c x : cp) : bool := negb (x =? c).

Lemma filter_id : forall (p : cp -> bool) l, forallb p l = true -> filter p l = l.
Proof.
  intros p l. induction l as [|c l IH]; intros H; [reflexivity|].
  cbn [forallb] in H. apply andb_prop in H. destruct H as [Hc Hl].
  cbn [filter]. rewrite Hc, (IH Hl). reflexivity.
Qed.

Lemma strip_us_id : forall l, forallb (ne 95) l = true -> strip_us l = l.
Proof. intros l H. apply filter_id. exact H. Qed.

Lemma strip_us_cons_ne : forall c r, c <> 95 -> strip_us (c :: r) = c :: strip_us r.
Proof.
  intros c r H. unfold strip_us. cbn [filter].
  destruct (N.eqb_spec c 95) as [E|_]; [contradiction|]. reflexivity.
Qed.

Lemma span_all : forall p a, forallb p a = true -> span p a = (a, []).
Proof.
  intros p a. induction a as [|c a IH]; intros H; [reflexivity|].
  cbn [forallb] in H. apply andb_prop in H. destruct H as [Hc Ha].
  cbn [span]. rewrite Hc, (IH Ha). reflexivity.
Qed.

Definition head_fails (p : cp -> bool) (X : text) : Prop :=
  match X with [] => True | c :: _ => p c = false end.

Lemma span_app : forall p a X,
  forallb p a = true -> head_fails p X -> span p (a ++ X) = (a, X).
Proof.
  intros p a X. induction a as [|c a IH]; intros H HX.
  - destruct X as [|x X]; [reflexivity|]. cbn [head_fails] in HX. cbn [app span]. rewrite HX. reflexivity.
  - cbn [forallb] in H. apply andb_prop in H. destruct H as [Hc Ha].
    cbn [app span]. rewrite Hc, (IH Ha HX). reflexivity.
Qed.

Lemma span_rev_none : forall (p q : cp -> bool) l,
  (forall c, q c = true -> p c = false) -> forallb q l = true -> span p (rev l) = ([], rev l).
Proof.
  intros p q l Hpq Hl. destruct (rev l) as [|c r] eqn:E; [reflexivity|].
  assert (Hin : In c l) by (apply in_rev; rewrite E; left; reflexivity).
  rewrite forallb_forall in Hl. cbn [span]. rewrite (Hpq _ (Hl _ Hin)). reflexivity.
Qed.

(** ** integer parsing *)

Definition dv_ok (radix : N) (c : cp) : bool :=
  match digit_val radix c with Some _ => true | None => false end.

Lemma parse_digits_ok_or_ovf : forall radix lim ovf ds,
  forallb (dv_ok radix) ds = true ->
  forall acc, (exists v, parse_digits radix lim ovf acc ds = IOk v) \/
              parse_digits radix lim ovf acc ds = IErr ovf.
Proof.
  intros radix lim ovf ds. induction ds as [|c ds IH]; intros H acc.
  - left. exists acc. reflexivity.
  - cbn [forallb] in H. apply andb_prop in H. destruct H as [Hc Hds].
    cbn [parse_digits]. unfold dv_ok in Hc. destruct (digit_val radix c) as [d|]; [|discriminate].
    destruct (lim <? acc * radix + d); [right; reflexivity|]. apply IH. exact Hds.
Qed.

Lemma digit_dv10 : forall c, is_digit c = true -> dv_ok 10 c = true.
Proof.
  intros c H. unfold dv_ok, digit_val. rewrite H. revert H. unfold is_digit.
  destruct (N.ltb_spec (c - 48) 10) as [L|L]; [reflexivity|]. bgoal.
Qed.

Lemma hexdigit_val : forall c, is_hexdigit c = true -> digit_val 16 c = Some (hex_digit_val c).
Proof.
  intros c. unfold digit_val, hex_digit_val, is_hexdigit. change (sdigit c) with (is_digit c).
  destruct (is_digit c) eqn:D.
  - intros _. unfold is_digit in D. revert D.
    destruct (N.ltb_spec (c - 48) 16) as [L|L]; [reflexivity|]. bgoal.
  - cbn [orb]. destruct (N.leb_spec 97 c) as [L1|L1].
    + destruct (N.leb_spec c 122) as [L2|L2].
      * cbn [andb]. destruct (N.ltb_spec (c - 87) 16) as [L|L]; [reflexivity|]. bgoal.
      * bgoal.
    + cbn [andb]. destruct (N.leb_spec 65 c) as [L3|L3]; [|bgoal].
      destruct (N.leb_spec c 90) as [L4|L4]; [|bgoal].
      cbn [andb]. destruct (N.ltb_spec (c - 55) 16) as [L|L]; [reflexivity|]. bgoal.
Qed.

Lemma hexdigit_dv16 : forall c, is_hexdigit c = true -> dv_ok 16 c = true.
Proof. intros c H. unfold dv_ok. rewrite (hexdigit_val c H). reflexivity. Qed.

Lemma from_str_radix_nosign : forall sg radix mp mn c r,
  is_sign c = false ->
  from_str_radix sg radix mp mn (c :: r) = parse_digits radix mp IPosOverflow 0 (c :: r).
Proof.
  intros sg radix mp mn c r H. unfold from_str_radix. unfold is_sign in H. rewrite H. reflexivity.
Qed.

Lemma hexdigit_not_sign : forall c, is_hexdigit c = true -> is_sign c = false.
Proof. intros c. unfold is_hexdigit, is_digit, is_sign. bgoal. Qed.

(** ** [f64_ok] on mantissas *)

Definition dstart (c : cp) : bool := is_digit c || (c =? 46).

Lemma dstart_lower : forall c, dstart c = true -> lower c = c.
Proof. intros c. unfold dstart, is_digit, lower. bgoal. Qed.

Lemma dstart_facts : forall c, dstart c = true ->
  is_sign c = false /\ (lower c =? 105) = false /\ (lower c =? 110) = false.
Proof.
  intros c H. rewrite (dstart_lower c H). revert H. unfold dstart, is_digit, is_sign.
  intros H. repeat split; revert H; bgoal.
Qed.

Lemma f64_ok_unfold : forall c r, dstart c = true ->
  f64_ok (c :: r) =
    (let t := c :: r in
     let ip := fst (span is_digit t) in
     let r1 := snd (span is_digit t) in
     let no_point := match ip with [] => false | _ => f64_exp_ok r1 end in
     match r1 with
     | c :: r2 =>
         if c =? 46 then
           match ip, fst (span is_digit r2) with
           | [], [] => false
           | _, _ => f64_exp_ok (snd (span is_digit r2))
           end
         else no_point
     | [] => no_point
     end).
Proof.
  intros c r H. destruct (dstart_facts c H) as (H1 & H2 & H3).
  unfold f64_ok. cbn [strip_sign]. rewrite H1. cbn [map text_eqb]. rewrite H2, H3.
  reflexivity.
Qed.

Lemma digit_dstart : forall c, is_digit c = true -> dstart c = true.
Proof. intros c H. unfold dstart. rewrite H. reflexivity. Qed.

Lemma f64_ok_int : forall a, digits1 a -> f64_ok a = true.
Proof.
  intros [|d a] [Hne Ha]; [contradiction|].
  pose proof Ha as Ha'. unfold digits in Ha'. cbn [forallb] in Ha'. apply andb_prop in Ha'.
  destruct Ha' as [Hd _]. rewrite sdigit_is_digit in Hd.
  rewrite (f64_ok_unfold d a (digit_dstart d Hd)). cbv zeta.
  rewrite (span_all is_digit (d :: a) Ha). reflexivity.
Qed.

Lemma f64_ok_point : forall a b, digits a -> digits b -> a <> [] \/ b <> [] -> f64_ok (a ++ 46 :: b) = true.
Proof.
  intros a b Ha Hb Hne.
  assert (HF : head_fails is_digit (46 :: b)) by reflexivity.
  destruct a as [|d a].
  - cbn [app]. refine (eq_trans (f64_ok_unfold 46 b eq_refl) _). cbv zeta.
    change (span is_digit (46 :: b)) with (@nil cp, 46 :: b). cbn [fst snd].
    change (46 =? 46) with true. cbv iota.
    rewrite (span_all is_digit b Hb). cbn [fst snd].
    destruct b as [|x b]; [destruct Hne as [H|H]; contradiction|]. reflexivity.
  - pose proof Ha as Ha'. unfold digits in Ha'. cbn [forallb] in Ha'. apply andb_prop in Ha'.
    destruct Ha' as [Hd _]. rewrite sdigit_is_digit in Hd.
    change ((d :: a) ++ 46 :: b) with (d :: (a ++ 46 :: b)).
    refine (eq_trans (f64_ok_unfold d (a ++ 46 :: b) (digit_dstart d Hd)) _). cbv zeta.
    change (d :: a ++ 46 :: b) with ((d :: a) ++ 46 :: b).
    rewrite (span_app is_digit (d :: a) (46 :: b) Ha HF). cbn [fst snd].
    change (46 =? 46) with true. cbv iota.
    rewrite (span_all is_digit b Hb). cbn [fst snd].
    destruct b; reflexivity.
Qed.

(** ** [find_split] *)

Lemma find_split_none : forall c l, forallb (ne c) l = true -> find_split c l = None.
Proof.
  intros c l. induction l as [|x l IH]; intros H; [reflexivity|].
  cbn [forallb] in H. apply andb_prop in H. destruct H as [Hx Hl].
  cbn [find_split]. unfold ne in Hx. apply negb_true_iff in Hx. rewrite Hx, (IH Hl). reflexivity.
Qed.

Lemma find_split_app : forall c a b, forallb (ne c) a = true -> find_split c (a ++ c :: b) = Some (a, b).
Proof.
  intros c a b. induction a as [|x a IH]; intros H.
  - cbn [app find_split]. rewrite N.eqb_refl. reflexivity.
  - cbn [forallb] in H. apply andb_prop in H. destruct H as [Hx Ha].
    cbn [app find_split]. unfold ne in Hx. apply negb_true_iff in Hx. rewrite Hx, (IH Ha). reflexivity.
Qed.

(** mantissa characters / characters after the exponent marker *)
Definition mchar (c : cp) : bool := is_digit c || (c =? 46).
Definition xchar (c : cp) : bool := is_digit c || is_sign c.

Lemma mchar_ne_e : forall c, mchar c = true -> ne 101 c = true /\ ne 69 c = true.
Proof. intros c. unfold mchar, is_digit, ne. intros H; split; revert H; bgoal. Qed.
Lemma xchar_ne_e : forall c, xchar c = true -> ne 101 c = true /\ ne 69 c = true.
Proof. intros c. unfold xchar, is_digit, is_sign, ne. intros H; split; revert H; bgoal. Qed.

Lemma digits_mchar : forall a, digits a -> forallb mchar a = true.
Proof.
  intros a H. apply (forallb_impl sdigit); [|exact H].
  intros c Hc. unfold mchar. rewrite <- sdigit_is_digit, Hc. reflexivity.
Qed.

Lemma exponent_tail_xchar : forall sg ds, sign_opt sg -> digits ds -> forallb xchar (sg ++ ds) = true.
Proof.
  intros sg ds Hsg Hds. rewrite forallb_app.
  assert (H1 : forallb xchar sg = true) by (destruct Hsg; reflexivity).
  rewrite H1. apply (forallb_impl sdigit); [|exact Hds].
  intros c Hc. unfold xchar. rewrite <- sdigit_is_digit, Hc. reflexivity.
Qed.

Lemma float_part_is_mantissa : forall mant e,
  forallb mchar mant = true -> exponent_opt 101 69 e ->
  match find_split 101 (mant ++ e) with
  | Some (a, _) => a
  | None => match find_split 69 (mant ++ e) with
            | Some (a, _) => a
            | None => mant ++ e
            end
  end = mant.
Proof.
  intros mant e Hm He.
  assert (M1 : forallb (ne 101) mant = true)
    by (apply (forallb_impl mchar); [intros c Hc; apply mchar_ne_e; exact Hc|exact Hm]).
  assert (M2 : forallb (ne 69) mant = true)
    by (apply (forallb_impl mchar); [intros c Hc; apply mchar_ne_e; exact Hc|exact Hm]).
  destruct He as [|e He].
  - rewrite app_nil_r, (find_split_none 101 mant M1), (find_split_none 69 mant M2). reflexivity.
  - destruct He as [m sg ds Hmk Hsg Hds]. destruct Hmk as [-> | ->].
    + rewrite (find_split_app 101 mant (sg ++ ds) M1). reflexivity.
    + pose proof (exponent_tail_xchar sg ds Hsg (proj2 Hds)) as HX.
      assert (X1 : forallb (ne 101) (mant ++ @cons cp 69 (sg ++ ds)) = true).
      { rewrite forallb_app, M1. cbn [forallb andb]. change (ne 101 69) with true. cbn [andb].
        apply (forallb_impl xchar); [intros c Hc; apply xchar_ne_e; exact Hc|exact HX]. }
      rewrite (find_split_none 101 _ X1), (find_split_app 69 mant (sg ++ ds) M2). reflexivity.
Qed.

(** ** prefixes and suffixes *)

Lemma dchar_ne95 : forall c, dchar c = true -> ne 95 c = true.
Proof. intros c. unfold dchar, is_digit, is_e, is_sign, ne. bgoal. Qed.

Definition no_xb (c : cp) : bool := negb ((c =? 120) || (c =? 88) || (c =? 98) || (c =? 66)).

Lemma dchar_no_xb : forall c, dchar c = true -> no_xb c = true.
Proof. intros c. unfold dchar, is_digit, is_e, is_sign, no_xb. bgoal. Qed.

Lemma starts2_no_xb : forall s, forallb no_xb s = true -> hex_prefixed s = false /\ bin_prefixed s = false.
Proof.
  intros [|x [|y s]] H; [split; reflexivity|split; reflexivity|].
  cbn [forallb] in H. apply andb_prop in H. destruct H as [_ H]. apply andb_prop in H. destruct H as [Hy _].
  unfold hex_prefixed, bin_prefixed, starts2. revert Hy. unfold no_xb.
  destruct (x =? 48); cbn [andb]; [|split; reflexivity].
  destruct (y =? 120), (y =? 88), (y =? 98), (y =? 66); cbn [orb negb]; intros; try discriminate;
    split; reflexivity.
Qed.

Lemma dchar_not_ul : forall c, dchar c = true -> is_ul c = false.
Proof. intros c. unfold dchar, is_digit, is_e, is_sign, is_ul. bgoal. Qed.

(** ** [int_token_value] *)

Lemma int_token_ok_dec : forall a, digits1 a -> int_token_ok a = true.
Proof.
  intros a Ha. pose proof (digits_dchar a (proj2 Ha)) as HD.
  unfold int_token_ok. cbv zeta.
  rewrite (strip_us_id a (forallb_impl dchar (ne 95) a dchar_ne95 HD)).
  destruct (starts2_no_xb a (forallb_impl dchar no_xb a dchar_no_xb HD)) as [Hh Hb].
  rewrite Hh, Hb.
  rewrite (span_rev_none is_ul dchar a dchar_not_ul HD). cbn [fst snd existsb].
  rewrite rev_involutive.
  destruct a as [|d a']; [destruct Ha as [Hne _]; contradiction|].
  destruct Ha as [_ Ha]. pose proof Ha as Ha2. unfold digits in Ha2. cbn [forallb] in Ha2.
  apply andb_prop in Ha2. destruct Ha2 as [Hd _]. rewrite sdigit_is_digit in Hd.
  unfold i64_from_str_radix. rewrite (from_str_radix_nosign _ _ _ _ d a' (digit_not_sign d Hd)).
  destruct (parse_digits_ok_or_ovf 10 i64_max IPosOverflow (d :: a')
              (forallb_impl is_digit (dv_ok 10) _ digit_dv10 Ha) 0) as [[v Hv]|Hv]; rewrite Hv.
  - reflexivity.
  - apply f64_ok_int. split; [discriminate|exact Ha].
Qed.

Definition hchar (c : cp) : bool := is_hexdigit c || (c =? 120) || (c =? 88).

Lemma hchar_ne95 : forall c, hchar c = true -> ne 95 c = true.
Proof. intros c. unfold hchar, is_hexdigit, is_digit, ne. bgoal. Qed.
Lemma hchar_not_ul : forall c, hchar c = true -> is_ul c = false.
Proof. intros c. unfold hchar, is_hexdigit, is_digit, is_ul. bgoal. Qed.

Lemma int_token_ok_hex : forall x a, x = 120 \/ x = 88 -> xdigits1 a -> int_token_ok (48 :: x :: a) = true.
Proof.
  intros x a Hx Ha.
  assert (HC : forallb hchar (48 :: x :: a) = true).
  { cbn [forallb]. change (hchar 48) with true.
    assert (Hxc : hchar x = true) by (destruct Hx as [-> | ->]; reflexivity). rewrite Hxc. cbn [andb].
    apply (forallb_impl is_hexdigit); [|exact (proj2 Ha)].
    intros c Hc. unfold hchar. rewrite Hc. reflexivity. }
  unfold int_token_ok. cbv zeta.
  rewrite (strip_us_id _ (forallb_impl hchar (ne 95) _ hchar_ne95 HC)).
  assert (Hh : hex_prefixed (48 :: x :: a) = true) by (destruct Hx as [-> | ->]; reflexivity).
  rewrite Hh.
  rewrite (span_rev_none is_ul hchar _ hchar_not_ul HC). cbn [fst snd existsb].
  rewrite rev_involutive. cbn [skipn].
  destruct a as [|d a']; [destruct Ha as [Hne _]; contradiction|].
  destruct Ha as [_ Ha]. pose proof Ha as Ha2. unfold xdigits in Ha2. cbn [forallb] in Ha2.
  apply andb_prop in Ha2. destruct Ha2 as [Hd _]. rewrite sxdigit_is_hexdigit in Hd.
  unfold i64_from_str_radix. rewrite (from_str_radix_nosign _ _ _ _ d a' (hexdigit_not_sign d Hd)).
  destruct (parse_digits_ok_or_ovf 16 i64_max IPosOverflow (d :: a')
              (forallb_impl is_hexdigit (dv_ok 16) _ hexdigit_dv16 Ha) 0) as [[v Hv]|Hv]; rewrite Hv;
    reflexivity.
Qed.

(** ** [float_token_value] *)

Lemma float_token_ok_hex : forall x r, x = 120 \/ x = 88 -> float_token_ok (48 :: x :: r) = true.
Proof.
  intros x r Hx. unfold float_token_ok. cbv zeta.
  rewrite (strip_us_cons_ne 48) by lia.
  rewrite (strip_us_cons_ne x) by (destruct Hx; lia).
  destruct Hx as [-> | ->]; reflexivity.
Qed.

Lemma mchar_dchar : forall c, mchar c = true -> dchar c = true.
Proof. intros c. unfold mchar, dchar. intros H. rewrite H. reflexivity. Qed.

Lemma float_token_ok_dec : forall mant e,
  forallb mchar mant = true -> exponent_opt 101 69 e -> f64_ok mant = true ->
  float_token_ok (mant ++ e) = true.
Proof.
  intros mant e Hm He Hok.
  assert (HD : forallb dchar (mant ++ e) = true).
  { rewrite forallb_app, (forallb_impl mchar dchar mant mchar_dchar Hm), (exponent_opt_dchar e He).
    reflexivity. }
  unfold float_token_ok. cbv zeta.
  rewrite (strip_us_id _ (forallb_impl dchar (ne 95) _ dchar_ne95 HD)).
  destruct (starts2_no_xb _ (forallb_impl dchar no_xb _ dchar_no_xb HD)) as [Hh _].
  rewrite Hh, (float_part_is_mantissa mant e Hm He). exact Hok.
Qed.

Lemma number_check_complete : forall v s i,
  numeral v s i -> number_token_ok (if i then TkInt else TkFloat) s = true.
Proof.
  intros v s i Hn.
  destruct Hn as [a Ha | a e Ha He | a b e Ha Hb Hne He | x a Hx Ha | x a e _ Hx Ha He
                 | x a b e _ Hx Ha Hb Hne He]; cbn [number_token_ok].
  - apply int_token_ok_dec. exact Ha.
  - apply float_token_ok_dec; [apply digits_mchar; exact (proj2 Ha)|apply EO_some; exact He|].
    apply f64_ok_int. exact Ha.
  - replace (a ++ 46 :: b ++ e) with ((a ++ 46 :: b) ++ e)
      by (rewrite <- app_assoc; reflexivity).
    apply float_token_ok_dec; [|exact He|apply f64_ok_point; assumption].
    rewrite forallb_app. cbn [forallb]. rewrite (digits_mchar a Ha), (digits_mchar b Hb). reflexivity.
  - apply int_token_ok_hex; assumption.
  - apply float_token_ok_hex. exact Hx.
  - apply float_token_ok_hex. exact Hx.
Qed.

(** * numbers: the theorem *)

(** Every numeral of the reference manual (any of Lua 5.1 .. 5.4), followed by the end of the input
    or by a character that cannot continue it, is dispatched to [lex_number], which consumes exactly
    the numeral, pushes no error, and yields [TkInt] for an integer literal and [TkFloat] otherwise;
    the checker's validation of that token ([int_token_value] / [float_token_value]) returns Ok. *)
Theorem number_complete : forall (alpha : cp -> bool) (v : lua_version) (s rest : text) (i : bool),
  numeral v s i -> numeral_end alpha rest ->
  starts_number (s ++ rest) = true /\
  lex_number std_features alpha (s ++ rest) =
    {| tk_kind := if i then TkInt else TkFloat; tk_text := s; tk_rest := rest; tk_err := false |} /\
  number_token_ok (if i then TkInt else TkFloat) s = true.
Proof.
  intros alpha v s rest i Hn Hend.
  destruct (number_lex_complete alpha v s i rest Hn Hend) as [H1 H2].
  split; [exact H1|]. split; [exact H2|].
  exact (number_check_complete v s i Hn).
Qed.

(** the same when the follower is ASCII: nothing is assumed about [char::is_alphabetic] except that
    it is "ASCII letter" below 128 *)
Corollary number_complete_ascii : forall (alpha : cp -> bool) (v : lua_version) (s rest : text) (i : bool),
  (forall c, c < 128 -> alpha c = sletter c) ->
  numeral v s i -> numeral_end_ascii rest ->
  starts_number (s ++ rest) = true /\
  lex_number std_features alpha (s ++ rest) =
    {| tk_kind := if i then TkInt else TkFloat; tk_text := s; tk_rest := rest; tk_err := false |} /\
  number_token_ok (if i then TkInt else TkFloat) s = true.
Proof.
  intros alpha v s rest i Halpha Hn Hend. apply (number_complete alpha v s rest i Hn).
  destruct rest as [|c r]; [exact I|].
  destruct Hend as (Hc & Hl & Hd & Hp & Hu).
  cbn [numeral_end]. rewrite (Halpha c Hc). repeat split; assumption.
Qed.

(** Lua 5.1 numerals are numerals of every later version (5.1 is a sub-language) *)
Lemma numeral_lua51_sub : forall v s i, numeral Lua51 s i -> numeral v s i.
Proof.
  intros v s i H.
  destruct H as [a Ha | a e Ha He | a b e Ha Hb Hne He | x a Hx Ha | x a e Hv Hx Ha He
                | x a b e Hv Hx Ha Hb Hne He].
  - apply Num_dec_int; assumption.
  - apply Num_dec_exp; assumption.
  - apply Num_dec_frac; assumption.
  - apply Num_hex_int; assumption.
  - exfalso. apply Hv. reflexivity.
  - exfalso. apply Hv. reflexivity.
Qed.

Lemma numeral_sub_lua54 : forall v s i, numeral v s i -> numeral Lua54 s i.
Proof.
  intros v s i H.
  destruct H as [a Ha | a e Ha He | a b e Ha Hb Hne He | x a Hx Ha | x a e Hv Hx Ha He
                | x a b e Hv Hx Ha Hb Hne He].
  - apply Num_dec_int; assumption.
  - apply Num_dec_exp; assumption.
  - apply Num_dec_frac; assumption.
  - apply Num_hex_int; assumption.
  - apply Num_hex_exp; try assumption. discriminate.
  - apply Num_hex_frac; try assumption. discriminate.
Qed.

(** * [lex_string] *)

Definition head_not_nl (X : text) : Prop :=
  match X with [] => True | c :: _ => c <> 10 /\ c <> 13 end.

Section StrLex.
  Variable zsp : cp -> bool.
  Hypothesis Hzsp : forall c, zsp c = true -> lua_space c = true.
  Variable q : cp.
  Hypothesis Hq : q = 34 \/ q = 39.

  Lemma zsp_not_space : forall c, lua_space c = false -> zsp c = false.
  Proof.
    intros c H. destruct (zsp c) eqn:E; [|reflexivity].
    apply Hzsp in E. rewrite E in H. discriminate.
  Qed.

  Lemma q_not_space : lua_space q = false.
  Proof. destruct Hq as [-> | ->]; reflexivity. Qed.

  Lemma str_loop_mode : forall m c tl,
    m && zsp c = false -> str_loop zsp q m (c :: tl) = str_loop zsp q false (c :: tl).
  Proof. intros m c tl H. cbn [str_loop]. rewrite H. cbn [andb]. reflexivity. Qed.

  Lemma str_loop_skip : forall c tl T R,
    zsp c = true -> str_loop zsp q true tl = (T, R) -> str_loop zsp q true (c :: tl) = (c :: T, R).
  Proof. intros c tl T R H HT. cbn [str_loop andb]. rewrite H, HT. reflexivity. Qed.

  Lemma str_loop_plain : forall c tl T R,
    plain_char q c = true -> str_loop zsp q false tl = (T, R) ->
    str_loop zsp q false (c :: tl) = (c :: T, R).
  Proof.
    intros c tl T R H HT. cbn [str_loop andb]. rewrite HT. revert H. unfold plain_char.
    destruct (c =? 92), (c =? q), (c =? 10), (c =? 13); cbn [orb negb]; intros H;
      try discriminate; reflexivity.
  Qed.

  Lemma str_loop_quote : forall m rest, str_loop zsp q m (q :: rest) = ([], q :: rest).
  Proof.
    intros m rest. rewrite str_loop_mode.
    - cbn [str_loop andb]. rewrite N.eqb_refl. reflexivity.
    - rewrite (zsp_not_space q q_not_space). apply andb_false_r.
  Qed.

  Lemma plain_any_mode : forall c X T R,
    plain_char q c = true -> (forall m, str_loop zsp q m X = (T, R)) ->
    forall m, str_loop zsp q m (c :: X) = (c :: T, R).
  Proof.
    intros c X T R Hc HX m. destruct (m && zsp c) eqn:E.
    - apply andb_prop in E. destruct E as [-> Ez]. apply str_loop_skip; [exact Ez|apply HX].
    - rewrite (str_loop_mode m c X E). apply str_loop_plain; [exact Hc|apply HX].
  Qed.

  Lemma plain_run : forall l X T R,
    forallb (plain_char q) l = true -> (forall m, str_loop zsp q m X = (T, R)) ->
    forall m, str_loop zsp q m (l ++ X) = (l ++ T, R).
  Proof.
    intros l X T R. induction l as [|c l IH]; intros Hl HX; [exact HX|].
    cbn [forallb] in Hl. apply andb_prop in Hl. destruct Hl as [Hc Hl].
    cbn [app]. apply plain_any_mode; [exact Hc|]. apply IH; assumption.
  Qed.

  Lemma zsp_run : forall zs X T R,
    forallb zsp zs = true -> str_loop zsp q true X = (T, R) ->
    str_loop zsp q true (zs ++ X) = (zs ++ T, R).
  Proof.
    intros zs X T R. induction zs as [|c zs IH]; intros Hz HX; [exact HX|].
    cbn [forallb] in Hz. apply andb_prop in Hz. destruct Hz as [Hc Hz].
    cbn [app]. apply str_loop_skip; [exact Hc|]. apply IH; assumption.
  Qed.

  (** the loop body after a backslash *)
  Definition bs_body (c2 : cp) (tl2 : text) : text * text :=
    if c2 =? 122 then scons 92 (scons c2 (str_loop zsp q true tl2))
    else if c2 =? 10 then
      match tl2 with
      | c3 :: tl3 => if c3 =? 13 then scons 92 (scons c2 (scons c3 (str_loop zsp q false tl3)))
                     else scons 92 (scons c2 (str_loop zsp q false tl2))
      | [] => scons 92 (scons c2 (str_loop zsp q false tl2))
      end
    else if c2 =? 13 then
      match tl2 with
      | c3 :: tl3 => if c3 =? 10 then scons 92 (scons c2 (scons c3 (str_loop zsp q false tl3)))
                     else scons 92 (scons c2 (str_loop zsp q false tl2))
      | [] => scons 92 (scons c2 (str_loop zsp q false tl2))
      end
    else scons 92 (scons c2 (str_loop zsp q false tl2)).

  Lemma str_bs : forall m c2 tl2, str_loop zsp q m (92 :: c2 :: tl2) = bs_body c2 tl2.
  Proof.
    intros m c2 tl2. rewrite str_loop_mode.
    - cbn [str_loop andb].
      assert (E : (92 =? q) = false) by (destruct Hq as [-> | ->]; reflexivity).
      rewrite E. change (92 =? 10) with false. change (92 =? 13) with false.
      change (92 =? 92) with true. cbn [orb negb]. reflexivity.
    - rewrite (zsp_not_space 92 eq_refl). apply andb_false_r.
  Qed.

  Lemma step_other : forall c2 tl2 T R m,
    c2 <> 122 -> c2 <> 10 -> c2 <> 13 -> str_loop zsp q false tl2 = (T, R) ->
    str_loop zsp q m (92 :: c2 :: tl2) = (92 :: c2 :: T, R).
  Proof.
    intros c2 tl2 T R m H1 H2 H3 HT. rewrite str_bs. unfold bs_body.
    destruct (N.eqb_spec c2 122) as [E|_]; [contradiction|].
    destruct (N.eqb_spec c2 10) as [E|_]; [contradiction|].
    destruct (N.eqb_spec c2 13) as [E|_]; [contradiction|].
    rewrite HT. reflexivity.
  Qed.

  Lemma step_z : forall tl2 T R m,
    str_loop zsp q true tl2 = (T, R) -> str_loop zsp q m (92 :: 122 :: tl2) = (92 :: 122 :: T, R).
  Proof.
    intros tl2 T R m HT. rewrite str_bs. unfold bs_body. change (122 =? 122) with true. cbv iota.
    rewrite HT. reflexivity.
  Qed.

  Lemma step_lf : forall tl2 T R m,
    head_not_nl tl2 -> str_loop zsp q false tl2 = (T, R) ->
    str_loop zsp q m (92 :: 10 :: tl2) = (92 :: 10 :: T, R).
  Proof.
    intros tl2 T R m Hh HT. rewrite str_bs. unfold bs_body.
    change (10 =? 122) with false. change (10 =? 10) with true. cbv iota.
    destruct tl2 as [|c3 tl3]; [rewrite HT; reflexivity|].
    destruct Hh as [_ Hh]. destruct (N.eqb_spec c3 13) as [E|_]; [contradiction|].
    rewrite HT. reflexivity.
  Qed.

  Lemma step_cr : forall tl2 T R m,
    head_not_nl tl2 -> str_loop zsp q false tl2 = (T, R) ->
    str_loop zsp q m (92 :: 13 :: tl2) = (92 :: 13 :: T, R).
  Proof.
    intros tl2 T R m Hh HT. rewrite str_bs. unfold bs_body.
    change (13 =? 122) with false. change (13 =? 10) with false. change (13 =? 13) with true. cbv iota.
    destruct tl2 as [|c3 tl3]; [rewrite HT; reflexivity|].
    destruct Hh as [Hh _]. destruct (N.eqb_spec c3 10) as [E|_]; [contradiction|].
    rewrite HT. reflexivity.
  Qed.

  Lemma step_lfcr : forall tl3 T R m,
    str_loop zsp q false tl3 = (T, R) ->
    str_loop zsp q m (92 :: 10 :: 13 :: tl3) = (92 :: 10 :: 13 :: T, R).
  Proof.
    intros tl3 T R m HT. rewrite str_bs. unfold bs_body.
    change (10 =? 122) with false. change (10 =? 10) with true. change (13 =? 13) with true. cbv iota.
    rewrite HT. reflexivity.
  Qed.

  Lemma step_crlf : forall tl3 T R m,
    str_loop zsp q false tl3 = (T, R) ->
    str_loop zsp q m (92 :: 13 :: 10 :: tl3) = (92 :: 13 :: 10 :: T, R).
  Proof.
    intros tl3 T R m HT. rewrite str_bs. unfold bs_body.
    change (13 =? 122) with false. change (13 =? 10) with false. change (13 =? 13) with true.
    change (10 =? 10) with true. cbv iota.
    rewrite HT. reflexivity.
  Qed.

  Lemma body_head : forall v zr t rest, str_body v zr q t -> head_not_nl (t ++ q :: rest).
  Proof.
    intros v zr t rest H. destruct H; cbn [app head_not_nl]; try (split; discriminate).
    - destruct Hq as [-> | ->]; split; discriminate.
    - revert H. unfold plain_char. destruct (N.eqb_spec c 10), (N.eqb_spec c 13); intros Hp; split;
        try assumption; exfalso; revert Hp; destruct (c =? 92), (c =? q); discriminate.
  Qed.

  (** classes of plain characters *)
  Lemma digit_plain : forall c, sdigit c = true -> plain_char q c = true.
  Proof.
    intros c. unfold sdigit, plain_char. destruct Hq as [-> | ->]; bgoal.
  Qed.
  Lemma xdigit_plain : forall c, sxdigit c = true -> plain_char q c = true.
  Proof.
    intros c. unfold sxdigit, sdigit, plain_char. destruct Hq as [-> | ->]; bgoal.
  Qed.
  Lemma hspace_plain : forall c, hspace c = true -> plain_char q c = true.
  Proof.
    intros c. unfold hspace, plain_char. destruct Hq as [-> | ->]; bgoal.
  Qed.
  Lemma brace_plain : plain_char q 123 = true /\ plain_char q 125 = true.
  Proof. destruct Hq as [-> | ->]; split; reflexivity. Qed.

  Lemma simple_escape_other : forall c, simple_escape c = true -> c <> 122 /\ c <> 10 /\ c <> 13.
  Proof.
    intros c. unfold simple_escape. intros H. repeat split; intros E; subst c; discriminate.
  Qed.

  Lemma digit_other : forall c, sdigit c = true -> c <> 122 /\ c <> 10 /\ c <> 13.
  Proof. intros c H. repeat split; intros E; subst c; discriminate. Qed.

  (** the loop consumes exactly the body of a valid string and stops at the closing quote *)
  Lemma str_loop_body : forall v t,
    str_body v (z_split zsp) q t ->
    forall rest m, str_loop zsp q m (t ++ q :: rest) = (t, q :: rest).
  Proof.
    intros v t H.
    induction H as [| c t Hc Ht IH | c t Hc Ht IH | nl t Hnl Ht IH | ds t Hds Hlen Hval Hnext Ht IH
                   | ws t Hv Hws Ht IH | h1 h2 t Hv Hh1 Hh2 Ht IH | hs t Hv Hhs Hval Ht IH];
      intros rest m.
    - apply str_loop_quote.
    - cbn [app]. apply plain_any_mode; [exact Hc|]. intros m'. apply IH.
    - cbn [app]. destruct (simple_escape_other c Hc) as (H1 & H2 & H3).
      apply step_other; try assumption. apply IH.
    - pose proof (body_head v _ t rest Ht) as Hh.
      destruct Hnl; cbn [app].
      + apply step_lf; [exact Hh|apply IH].
      + apply step_cr; [exact Hh|apply IH].
      + apply step_crlf. apply IH.
      + apply step_lfcr. apply IH.
    - destruct ds as [|d ds]; [destruct Hds as [Hne _]; contradiction|].
      destruct Hds as [_ Hds]. unfold digits in Hds. cbn [forallb] in Hds.
      apply andb_prop in Hds. destruct Hds as [Hd Hds].
      cbn [app]. rewrite <- app_assoc.
      destruct (digit_other d Hd) as (H1 & H2 & H3).
      apply step_other; try assumption.
      apply plain_run; [|intros m'; apply IH].
      apply (forallb_impl sdigit); [exact digit_plain|exact Hds].
    - cbn [app]. rewrite <- app_assoc. apply step_z.
      destruct Hws as (zs & hs & -> & Hzs & Hhs). rewrite <- !app_assoc.
      apply zsp_run; [exact Hzs|].
      apply plain_run; [|intros m'; apply IH].
      apply (forallb_impl hspace); [exact hspace_plain|exact Hhs].
    - cbn [app]. apply step_other; try discriminate.
      apply (plain_run [h1; h2]); [|intros m'; apply IH].
      cbn [forallb]. rewrite (xdigit_plain h1 Hh1), (xdigit_plain h2 Hh2). reflexivity.
    - cbn [app]. rewrite <- app_assoc. cbn [app]. apply step_other; try discriminate.
      assert (E1 : forall Y, 123 :: hs ++ 125 :: Y = (123 :: hs ++ [125]) ++ Y)
        by (intros Y; cbn [app]; rewrite <- app_assoc; reflexivity).
      assert (HP : forallb (plain_char q) (123 :: hs ++ [125]) = true).
      { destruct brace_plain as [B1 B2].
        cbn [forallb app]. rewrite B1, forallb_app. cbn [forallb]. rewrite B2.
        rewrite (forallb_impl sxdigit (plain_char q) hs xdigit_plain (proj2 Hhs)). reflexivity. }
      pose proof (plain_run (123 :: hs ++ [125]) (t ++ q :: rest) t (q :: rest) HP
                    (fun m' => IH rest m') false) as HR.
      rewrite <- !E1 in HR. exact HR.
  Qed.

  (** [lex] on a valid short string delimited by [q] *)
  Lemma lex_quoted_body : forall v body rest,
    str_body v (z_split zsp) q body ->
    lex_quoted std_features zsp ((q :: body ++ [q]) ++ rest) =
      Some {| tk_kind := TkString; tk_text := q :: body ++ [q]; tk_rest := rest; tk_err := false |}.
  Proof.
    intros v body rest Hb.
    replace ((q :: body ++ [q]) ++ rest) with (q :: body ++ q :: rest)
      by (cbn [app]; rewrite <- app_assoc; reflexivity).
    pose proof (str_loop_body v body Hb rest false) as HL.
    unfold lex_quoted, lex_string. rewrite HL. cbn [fst snd]. rewrite N.eqb_refl.
    cbn [tk_kind tk_text tk_rest tk_err].
    destruct Hq as [-> | ->]; reflexivity.
  Qed.
End StrLex.

(** * [check_normal_string_error] *)

Lemma digit_val_lt : forall radix c d, digit_val radix c = Some d -> d < radix.
Proof.
  intros radix c d. unfold digit_val.
  destruct (if is_digit c then Some (c - 48)
            else if (97 <=? c) && (c <=? 122) then Some (c - 87)
            else if (65 <=? c) && (c <=? 90) then Some (c - 55) else None) as [x|]; [|discriminate].
  destruct (N.ltb_spec x radix) as [L|L]; [|discriminate].
  intros E. inversion E. subst. exact L.
Qed.

(** the value computed by the digit loop is the value of the specification *)
Lemma parse_hex_value : forall lim ovf hs acc,
  forallb is_hexdigit hs = true ->
  match parse_digits 16 lim ovf acc hs with
  | IOk v => v = hex_value_from acc hs
  | IErr _ => True
  end.
Proof.
  intros lim ovf hs. induction hs as [|c hs IH]; intros acc H.
  - reflexivity.
  - cbn [forallb] in H. apply andb_prop in H. destruct H as [Hc Hhs].
    cbn [parse_digits hex_value_from]. rewrite (hexdigit_val c Hc).
    destruct (lim <? acc * 16 + hex_digit_val c); [exact I|]. apply IH. exact Hhs.
Qed.

Lemma hexdigit_ascii : forall c, is_hexdigit c = true -> blen c = 1.
Proof.
  intros c H. apply ascii_blen. revert H. unfold is_hexdigit, is_digit. bgoal.
Qed.

Lemma span_ne_app : forall stop hs X,
  forallb (ne stop) hs = true -> span_ne stop (hs ++ stop :: X) = (hs, X).
Proof.
  intros stop hs X. induction hs as [|c hs IH]; intros H.
  - cbn [app span_ne]. rewrite N.eqb_refl. reflexivity.
  - cbn [forallb] in H. apply andb_prop in H. destruct H as [Hc Hhs].
    unfold ne in Hc. apply negb_true_iff in Hc.
    cbn [app span_ne]. rewrite Hc, (IH Hhs). reflexivity.
Qed.

Lemma hexdigit_ne_brace : forall c, is_hexdigit c = true -> ne 125 c = true.
Proof. intros c. unfold is_hexdigit, is_digit, ne. bgoal. Qed.

Lemma skip_digits_stop : forall n X, head_fails is_digit X -> skip_digits n X = X.
Proof.
  intros [|n] [|c X] H; try reflexivity. cbn [head_fails] in H. cbn [skip_digits]. rewrite H. reflexivity.
Qed.

Lemma skip_digits_S : forall n c X, is_digit c = true -> skip_digits (S n) (c :: X) = skip_digits n X.
Proof. intros n c X H. cbn [skip_digits]. rewrite H. reflexivity. Qed.

Lemma skip_digits_app : forall ds X,
  forallb is_digit ds = true -> (length ds <= 2)%nat ->
  ((length ds < 2)%nat -> head_fails is_digit X) ->
  skip_digits 2 (ds ++ X) = X.
Proof.
  intros ds X Hds Hlen Hnext.
  destruct ds as [|a [|b [|c ds]]]; cbn [length] in *.
  - apply skip_digits_stop. apply Hnext. lia.
  - cbn [forallb] in Hds. apply andb_prop in Hds. destruct Hds as [Ha _].
    cbn [app]. rewrite (skip_digits_S 1 a X Ha). apply skip_digits_stop. apply Hnext. lia.
  - cbn [forallb] in Hds. apply andb_prop in Hds. destruct Hds as [Ha Hds].
    apply andb_prop in Hds. destruct Hds as [Hb _].
    cbn [app]. rewrite (skip_digits_S 1 a (b :: X) Ha), (skip_digits_S 0 b X Hb). reflexivity.
  - lia.
Qed.

Lemma lua_space_whitespace : forall c, lua_space c = true -> is_whitespace c = true.
Proof.
  intros c. unfold lua_space, is_whitespace.
  destruct (N.leb_spec 9 c), (N.leb_spec c 13); cbn [andb orb]; try reflexivity;
    destruct (N.eqb_spec c 32); cbn [orb]; intros; try discriminate; reflexivity.
Qed.

Lemma drop_ws_app : forall ws X, forallb lua_space ws = true -> drop_ws (ws ++ X) = drop_ws X.
Proof.
  intros ws X. induction ws as [|c ws IH]; intros H; [reflexivity|].
  cbn [forallb] in H. apply andb_prop in H. destruct H as [Hc Hws].
  cbn [app drop_ws]. rewrite (lua_space_whitespace c Hc). apply IH. exact Hws.
Qed.

Section StrChk.
  Variable ubad : N -> bool.
  Hypothesis Hubad : forall x, x <= 2147483647 -> ubad x = false.

  (** the body of the arm for a backslash followed by [n] *)
  Definition esc_body (f : nat) (d n : cp) (r2 : text) : bool :=
    if chk_simple n then chk_loop ubad f d r2
    else if n =? 120 then
      let hex := firstn 2 r2 in
      if (bytes hex =? 2) && forallb is_hexdigit hex then
        match u8_from_str_radix 16 hex with
        | IErr _ => false
        | IOk _ => chk_loop ubad f d (skipn 2 r2)
        end
      else false
    else if n =? 117 then
      match r2 with
      | [] => true
      | b :: r3 =>
          if b =? 123 then
            let hex := fst (span_ne 125 r3) in
            let r4 := snd (span_ne 125 r3) in
            match u32_from_str_radix 16 hex with
            | IOk v => if ubad v then false else chk_loop ubad f d r4
            | IErr _ => chk_loop ubad f d r4
            end
          else chk_loop ubad f d r3
      end
    else if is_digit n then chk_loop ubad f d (skip_digits 2 r2)
    else if n =? 122 then chk_loop ubad f d (drop_ws r2)
    else chk_loop ubad f d r2.

  Lemma chk_bs : forall f d n r2, chk_loop ubad (S f) d (92 :: n :: r2) = esc_body f d n r2.
  Proof. intros f d n r2. cbn [chk_loop]. change (92 =? 92) with true. reflexivity. Qed.

  Lemma chk_step_plain : forall f d c X,
    c <> 92 -> c <> d -> chk_loop ubad f d X = true -> chk_loop ubad (S f) d (c :: X) = true.
  Proof.
    intros f d c X H1 H2 HX. cbn [chk_loop].
    destruct (N.eqb_spec c 92) as [E|_]; [contradiction|].
    destruct (N.eqb_spec c d) as [E|_]; [contradiction|]. exact HX.
  Qed.

  Lemma chk_step_delim : forall f d X, d <> 92 -> chk_loop ubad (S f) d (d :: X) = true.
  Proof.
    intros f d X H. cbn [chk_loop]. destruct (N.eqb_spec d 92) as [E|_]; [contradiction|].
    rewrite N.eqb_refl. reflexivity.
  Qed.

  Lemma chk_step_simple : forall f d n X,
    chk_simple n = true -> chk_loop ubad f d X = true -> chk_loop ubad (S f) d (92 :: n :: X) = true.
  Proof. intros f d n X Hn HX. rewrite chk_bs. unfold esc_body. rewrite Hn. exact HX. Qed.

  Lemma digit_esc_facts : forall n, is_digit n = true ->
    chk_simple n = false /\ (n =? 120) = false /\ (n =? 117) = false.
  Proof.
    intros n. unfold is_digit, chk_simple. intros H. repeat split; revert H; bgoal.
  Qed.

  Lemma chk_step_dec : forall f d n X,
    is_digit n = true -> chk_loop ubad f d (skip_digits 2 X) = true ->
    chk_loop ubad (S f) d (92 :: n :: X) = true.
  Proof.
    intros f d n X Hn HX. rewrite chk_bs. unfold esc_body.
    destruct (digit_esc_facts n Hn) as (E1 & E2 & E3). rewrite E1, E2, E3, Hn. exact HX.
  Qed.

  Lemma chk_step_z : forall f d X,
    chk_loop ubad f d (drop_ws X) = true -> chk_loop ubad (S f) d (92 :: 122 :: X) = true.
  Proof. intros f d X HX. rewrite chk_bs. exact HX. Qed.

  Lemma u8_two_hex : forall h1 h2, is_hexdigit h1 = true -> is_hexdigit h2 = true ->
    exists v, u8_from_str_radix 16 [h1; h2] = IOk v.
  Proof.
    intros h1 h2 H1 H2. unfold u8_from_str_radix.
    rewrite (from_str_radix_nosign _ _ _ _ h1 [h2] (hexdigit_not_sign h1 H1)).
    cbn [parse_digits]. rewrite (hexdigit_val h1 H1), (hexdigit_val h2 H2).
    pose proof (digit_val_lt 16 h1 _ (hexdigit_val h1 H1)) as L1.
    pose proof (digit_val_lt 16 h2 _ (hexdigit_val h2 H2)) as L2.
    unfold u8_max.
    destruct (N.ltb_spec 255 (0 * 16 + hex_digit_val h1)) as [L|_]; [lia|].
    destruct (N.ltb_spec 255 ((0 * 16 + hex_digit_val h1) * 16 + hex_digit_val h2)) as [L|_]; [lia|].
    eexists. reflexivity.
  Qed.

  Lemma chk_step_x : forall f d h1 h2 X,
    is_hexdigit h1 = true -> is_hexdigit h2 = true -> chk_loop ubad f d X = true ->
    chk_loop ubad (S f) d (92 :: 120 :: h1 :: h2 :: X) = true.
  Proof.
    intros f d h1 h2 X H1 H2 HX. rewrite chk_bs. unfold esc_body.
    change (chk_simple 120) with false. change (120 =? 120) with true. cbv iota zeta.
    cbn [firstn skipn bytes forallb]. rewrite (hexdigit_ascii h1 H1), (hexdigit_ascii h2 H2), H1, H2.
    change (1 + (1 + 0) =? 2) with true. cbn [andb].
    destruct (u8_two_hex h1 h2 H1 H2) as [v Hv]. rewrite Hv. exact HX.
  Qed.

  Lemma chk_step_u : forall f d hs X,
    xdigits1 hs -> hex_value hs <= 2147483647 -> chk_loop ubad f d X = true ->
    chk_loop ubad (S f) d (92 :: 117 :: 123 :: hs ++ 125 :: X) = true.
  Proof.
    intros f d hs X [Hne Hhs] Hval HX. rewrite chk_bs. unfold esc_body.
    change (chk_simple 117) with false. change (117 =? 120) with false. change (117 =? 117) with true.
    change (123 =? 123) with true. cbv iota zeta.
    rewrite (span_ne_app 125 hs X (forallb_impl is_hexdigit (ne 125) hs hexdigit_ne_brace Hhs)).
    cbn [fst snd].
    destruct hs as [|h hs]; [contradiction|].
    pose proof Hhs as Hhs2. unfold xdigits in Hhs2. cbn [forallb] in Hhs2. apply andb_prop in Hhs2.
    destruct Hhs2 as [Hh _]. rewrite sxdigit_is_hexdigit in Hh.
    unfold u32_from_str_radix. rewrite (from_str_radix_nosign _ _ _ _ h hs (hexdigit_not_sign h Hh)).
    pose proof (parse_hex_value u32_max IPosOverflow (h :: hs) 0 Hhs) as HP.
    destruct (parse_digits 16 u32_max IPosOverflow 0 (h :: hs)) as [v|e]; [|exact HX].
    subst v. fold (hex_value (h :: hs)). rewrite (Hubad _ Hval). exact HX.
  Qed.

  Variable q : cp.
  Hypothesis Hq : q = 34 \/ q = 39.

  Lemma q_ne_bs : q <> 92.
  Proof. destruct Hq as [-> | ->]; discriminate. Qed.

  Lemma q_not_ws : is_whitespace q = false.
  Proof. destruct Hq as [-> | ->]; reflexivity. Qed.

  Lemma q_not_digit : is_digit q = false.
  Proof. destruct Hq as [-> | ->]; reflexivity. Qed.

  Lemma plain_ne : forall c, plain_char q c = true -> c <> 92 /\ c <> q.
  Proof.
    intros c. unfold plain_char.
    destruct (N.eqb_spec c 92), (N.eqb_spec c q); cbn [orb negb]; intros H; try discriminate;
      split; assumption.
  Qed.

  Lemma simple_escape_chk : forall c, simple_escape c = true -> chk_simple c = true.
  Proof. intros c. unfold simple_escape, chk_simple. bgoal. Qed.

  Lemma next_head_fails : forall t rest, next_not_digit t -> head_fails is_digit (t ++ q :: rest).
  Proof.
    intros [|c t] rest H; cbn [app head_fails].
    - exact q_not_digit.
    - exact H.
  Qed.

  (** on a valid body the loop reaches the closing quote without error; the same holds after the
      whitespace skip of a preceding [\z] *)
  Lemma chk_body : forall v t,
    str_body v z_any q t ->
    forall rest fuel, (length (t ++ q :: rest) <= fuel)%nat ->
      chk_loop ubad fuel q (t ++ q :: rest) = true /\
      chk_loop ubad fuel q (drop_ws (t ++ q :: rest)) = true.
  Proof.
    intros v t H.
    induction H as [| c t Hc Ht IH | c t Hc Ht IH | nl t Hnl Ht IH | ds t Hds Hlen Hval Hnext Ht IH
                   | ws t Hv Hws Ht IH | h1 h2 t Hv Hh1 Hh2 Ht IH | hs t Hv Hhs Hval Ht IH];
      intros rest fuel Hf.
    - cbn [app] in *. destruct fuel as [|f]; [cbn [length] in Hf; lia|].
      assert (P1 : chk_loop ubad (S f) q (q :: rest) = true) by (apply chk_step_delim; exact q_ne_bs).
      split; [exact P1|]. cbn [drop_ws]. rewrite q_not_ws. exact P1.
    - cbn [app] in *. destruct fuel as [|f]; [cbn [length] in Hf; lia|]. cbn [length] in Hf.
      destruct (plain_ne c Hc) as [N1 N2].
      assert (P1 : chk_loop ubad (S f) q (c :: t ++ q :: rest) = true).
      { apply chk_step_plain; try assumption. apply IH. lia. }
      split; [exact P1|]. cbn [drop_ws]. destruct (is_whitespace c); [|exact P1].
      apply IH. lia.
    - cbn [app] in *. destruct fuel as [|f]; [cbn [length] in Hf; lia|]. cbn [length] in Hf.
      assert (P1 : chk_loop ubad (S f) q (92 :: c :: t ++ q :: rest) = true).
      { apply chk_step_simple; [apply simple_escape_chk; exact Hc|]. apply IH. lia. }
      split; exact P1.
    - destruct fuel as [|f]; [cbn [app length] in Hf; lia|].
      destruct Hnl; cbn [app length] in *.
      + assert (P1 : chk_loop ubad (S f) q (92 :: 10 :: t ++ q :: rest) = true).
        { apply chk_step_simple; [reflexivity|]. apply IH. lia. }
        split; exact P1.
      + assert (P1 : chk_loop ubad (S f) q (92 :: 13 :: t ++ q :: rest) = true).
        { apply chk_step_simple; [reflexivity|]. apply IH. lia. }
        split; exact P1.
      + destruct f as [|f]; [lia|].
        assert (P1 : chk_loop ubad (S (S f)) q (92 :: 13 :: 10 :: t ++ q :: rest) = true).
        { apply chk_step_simple; [reflexivity|].
          apply chk_step_plain; [discriminate|destruct Hq as [-> | ->]; discriminate|].
          apply IH. lia. }
        split; exact P1.
      + destruct f as [|f]; [lia|].
        assert (P1 : chk_loop ubad (S (S f)) q (92 :: 10 :: 13 :: t ++ q :: rest) = true).
        { apply chk_step_simple; [reflexivity|].
          apply chk_step_plain; [discriminate|destruct Hq as [-> | ->]; discriminate|].
          apply IH. lia. }
        split; exact P1.
    - destruct ds as [|d ds]; [destruct Hds as [Hne _]; contradiction|].
      destruct Hds as [_ Hds]. unfold digits in Hds. cbn [forallb] in Hds.
      apply andb_prop in Hds. destruct Hds as [Hd Hds].
      cbn [app length] in *. rewrite <- app_assoc in *. rewrite app_length in Hf.
      destruct fuel as [|f]; [lia|].
      assert (P1 : chk_loop ubad (S f) q (92 :: d :: ds ++ t ++ q :: rest) = true).
      { apply chk_step_dec; [exact Hd|].
        rewrite (skip_digits_app ds (t ++ q :: rest) Hds).
        - apply IH. lia.
        - lia.
        - intros L. apply next_head_fails. apply Hnext. lia. }
      split; exact P1.
    - cbn [app length] in *. rewrite <- app_assoc in *. rewrite app_length in Hf.
      destruct fuel as [|f]; [lia|].
      assert (P1 : chk_loop ubad (S f) q (92 :: 122 :: ws ++ t ++ q :: rest) = true).
      { apply chk_step_z. rewrite (drop_ws_app ws _ Hws). apply IH. lia. }
      split; exact P1.
    - cbn [app length] in *. destruct fuel as [|f]; [lia|].
      assert (P1 : chk_loop ubad (S f) q (92 :: 120 :: h1 :: h2 :: t ++ q :: rest) = true).
      { apply chk_step_x; [exact Hh1|exact Hh2|]. apply IH. lia. }
      split; exact P1.
    - cbn [app length] in *. rewrite <- app_assoc in *. cbn [app] in *.
      rewrite app_length in Hf. cbn [length] in Hf.
      destruct fuel as [|f]; [lia|].
      assert (P1 : chk_loop ubad (S f) q (92 :: 117 :: 123 :: hs ++ 125 :: t ++ q :: rest) = true).
      { apply chk_step_u; [exact Hhs|exact Hval|]. apply IH. lia. }
      split; exact P1.
  Qed.

  Lemma check_string_body : forall v body,
    str_body v z_any q body -> check_string ubad (q :: body ++ [q]) = true.
  Proof.
    intros v body Hb. unfold check_string.
    destruct (bytes (q :: body ++ [q]) <? 2); [reflexivity|].
    exact (proj1 (chk_body v body Hb [] (length (body ++ [q])) (le_n _))).
  Qed.
End StrChk.

(** * short strings: the theorems *)

Lemma str_body_zrun_mono : forall v (z1 z2 : text -> Prop) q t,
  (forall ws, z1 ws -> z2 ws) -> str_body v z1 q t -> str_body v z2 q t.
Proof.
  intros v z1 z2 q t Hz H.
  induction H as [| c t Hc Ht IH | c t Hc Ht IH | nl t Hnl Ht IH | ds t Hds Hlen Hval Hnext Ht IH
                 | ws t Hv Hws Ht IH | h1 h2 t Hv Hh1 Hh2 Ht IH | hs t Hv Hhs Hval Ht IH].
  - apply SB_end.
  - apply SB_plain; assumption.
  - apply SB_simple; assumption.
  - apply SB_newline; assumption.
  - apply SB_dec; assumption.
  - apply SB_z; [assumption|apply Hz; assumption|assumption].
  - apply SB_x; assumption.
  - apply SB_u; assumption.
Qed.

Lemma lexer_zsp_space : forall c, lexer_zsp c = true -> lua_space c = true.
Proof. intros c. unfold lexer_zsp, lua_space. bgoal. Qed.
Lemma lexer_zsp_fixed_space : forall c, lexer_zsp_fixed c = true -> lua_space c = true.
Proof. intros c. unfold lexer_zsp_fixed, lexer_zsp, lua_space. bgoal. Qed.
Lemma space_lexer_zsp_fixed : forall c, lua_space c = true -> lexer_zsp_fixed c = true.
Proof. intros c. unfold lexer_zsp_fixed, lexer_zsp, lua_space. bgoal. Qed.
Lemma hspace_space : forall c, hspace c = true -> lua_space c = true.
Proof. intros c. unfold hspace, lua_space. bgoal. Qed.

(** with the six-character skip every whitespace run is handled *)
Lemma z_any_split_fixed : forall ws, z_any ws -> z_split lexer_zsp_fixed ws.
Proof.
  intros ws H. exists ws, []. rewrite app_nil_r. split; [reflexivity|]. split; [|reflexivity].
  apply (forallb_impl lua_space); [exact space_lexer_zsp_fixed|exact H].
Qed.

Lemma z_split_any : forall zsp ws,
  (forall c, zsp c = true -> lua_space c = true) -> z_split zsp ws -> z_any ws.
Proof.
  intros zsp ws Hz (zs & hs & -> & Hzs & Hhs). unfold z_any. rewrite forallb_app.
  rewrite (forallb_impl zsp lua_space zs Hz Hzs), (forallb_impl hspace lua_space hs hspace_space Hhs).
  reflexivity.
Qed.

(** the lexer, for any [\z] skip set made of whitespace, on the strings whose [\z] runs it can handle *)
Theorem string_lex_complete_gen : forall (zsp : cp -> bool),
  (forall c, zsp c = true -> lua_space c = true) ->
  forall (v : lua_version) (s rest : text),
    short_string_with v (z_split zsp) s ->
    lex_quoted std_features zsp (s ++ rest) =
      Some {| tk_kind := TkString; tk_text := s; tk_rest := rest; tk_err := false |}.
Proof.
  intros zsp Hz v s rest (q & body & Hq & -> & Hb).
  exact (lex_quoted_body zsp Hz q Hq v body rest Hb).
Qed.

(** the checker, for any test of [\u{..}] values that accepts everything up to 0x7FFFFFFF *)
Theorem string_check_complete : forall (ubad : N -> bool),
  (forall x, x <= 2147483647 -> ubad x = false) ->
  forall (v : lua_version) (s : text), short_string v s -> check_string ubad s = true.
Proof.
  intros ubad Hu v s (q & body & Hq & -> & Hb).
  exact (check_string_body ubad Hu q Hq v body Hb).
Qed.

Lemma ubad_max_lua54 : forall x, x <= 2147483647 -> ubad_max lua54_umax x = false.
Proof.
  intros x H. unfold ubad_max, lua54_umax. destruct (N.ltb_spec 2147483647 x) as [L|_]; [lia|reflexivity].
Qed.

(** Every short string of the reference manual (any of Lua 5.1 .. 5.4; escapes [\z \x] from 5.2,
    [\u{..}] from 5.3 with the 5.4 range), whatever follows it, is consumed exactly by [lex] /
    [lex_string] (with the [\z] skip over all six whitespace characters) without the
    "unfinished string" error, and [check_normal_string_error] (error iff a [\u] value exceeds
    0x7FFFFFFF) returns Ok on the token.  No assumption about U+0000 is needed: the reader decides
    end of input by position (reader.rs, [is_eof]). *)
Theorem string_escape_complete : forall (v : lua_version) (s rest : text),
  short_string v s ->
  lex_quoted std_features lexer_zsp_fixed (s ++ rest) =
    Some {| tk_kind := TkString; tk_text := s; tk_rest := rest; tk_err := false |} /\
  check_string_umax lua54_umax s = true.
Proof.
  intros v s rest H. split.
  - apply (string_lex_complete_gen lexer_zsp_fixed lexer_zsp_fixed_space v).
    destruct H as (q & body & Hq & E & Hb). exists q, body. split; [exact Hq|]. split; [exact E|].
    exact (str_body_zrun_mono v z_any _ q body z_any_split_fixed Hb).
  - exact (string_check_complete (ubad_max lua54_umax) ubad_max_lua54 v s H).
Qed.

(** the same for the four-character [\z] skip (space, tab, CR, LF), outside the refuted class: every
    [\z] run is made of those four characters followed by whitespace without line breaks *)
Theorem string_escape_complete_zsp4 : forall (v : lua_version) (s rest : text),
  short_string_with v (z_split lexer_zsp) s ->
  lex_quoted std_features lexer_zsp (s ++ rest) =
    Some {| tk_kind := TkString; tk_text := s; tk_rest := rest; tk_err := false |} /\
  check_string_umax lua54_umax s = true.
Proof.
  intros v s rest H. split.
  - exact (string_lex_complete_gen lexer_zsp lexer_zsp_space v s rest H).
  - apply (string_check_complete (ubad_max lua54_umax) ubad_max_lua54 v s).
    destruct H as (q & body & Hq & E & Hb). exists q, body. split; [exact Hq|]. split; [exact E|].
    exact (str_body_zrun_mono v _ z_any q body (fun ws => z_split_any lexer_zsp ws lexer_zsp_space) Hb).
Qed.

(** earlier versions are sub-languages *)
Lemma short_string_sub_lua54 : forall v s, short_string v s -> short_string Lua54 s.
Proof.
  intros v s (q & body & Hq & E & Hb). exists q, body. split; [exact Hq|]. split; [exact E|].
  clear E.
  induction Hb as [| c t Hc Ht IH | c t Hc Ht IH | nl t Hnl Ht IH | ds t Hds Hlen Hval Hnext Ht IH
                  | ws t Hv Hws Ht IH | h1 h2 t Hv Hh1 Hh2 Ht IH | hs t Hv Hhs Hval Ht IH].
  - apply SB_end.
  - apply SB_plain; assumption.
  - apply SB_simple; assumption.
  - apply SB_newline; assumption.
  - apply SB_dec; assumption.
  - apply SB_z; [discriminate|assumption|assumption].
  - apply SB_x; [discriminate|assumption|assumption|assumption].
  - apply SB_u; [right; reflexivity|assumption|assumption|assumption].
Qed.

(** * refutations of the unrepaired predicates *)

(** the string ["\u{D800}"] *)
Definition surrogate_string : text := [34; 92; 117; 123; 68; 56; 48; 48; 125; 34].

Lemma surrogate_string_valid : short_string Lua54 surrogate_string.
Proof.
  exists 34, [92; 117; 123; 68; 56; 48; 48; 125]. split; [left; reflexivity|]. split; [reflexivity|].
  apply (SB_u Lua54 z_any 34 [68; 56; 48; 48] []).
  - right. reflexivity.
  - split; [discriminate|reflexivity].
  - apply N.leb_le. reflexivity.
  - apply SB_end.
Qed.

(** the original test of [\u{..}] ([char::from_u32(cp).is_none()]) rejects a valid Lua 5.4 string *)
Lemma string_escape_old_refuted : exists s, short_string Lua54 s /\ check_string_old s = false.
Proof.
  exists surrogate_string. split; [exact surrogate_string_valid|]. vm_compute. reflexivity.
Qed.

(** the string ["\z<VT><LF>"] *)
Definition vtab_string : text := [34; 92; 122; 11; 10; 34].

Lemma vtab_string_valid : short_string Lua54 vtab_string.
Proof.
  exists 34, [92; 122; 11; 10]. split; [left; reflexivity|]. split; [reflexivity|].
  apply (SB_z Lua54 z_any 34 [11; 10] []).
  - discriminate.
  - reflexivity.
  - apply SB_end.
Qed.

(** the original four-character [\z] skip reports "unfinished string" on a valid Lua 5.2-5.4 string *)
Lemma string_z_vtab_refuted :
  exists s, short_string Lua54 s /\
    exists t, lex_quoted std_features lexer_zsp s = Some t /\ tk_err t = true.
Proof.
  exists vtab_string. split; [exact vtab_string_valid|].
  eexists. split; [vm_compute; reflexivity|reflexivity].
Qed.

(** * examples: the hypotheses are satisfiable, on non-trivial inputs *)

Ltac side := first [ reflexivity | discriminate | left; reflexivity | right; reflexivity
                   | left; discriminate | right; discriminate
                   | split; [discriminate|reflexivity] | apply N.leb_le; reflexivity ].

(** [0x.8p-3] followed by a space *)
Example ex_hex_float :
  let s := [48; 120; 46; 56; 112; 45; 51] in
  numeral Lua54 s false /\ numeral_end ascii_letter [32] /\
  lex_number std_features ascii_letter (s ++ [32]) =
    {| tk_kind := TkFloat; tk_text := s; tk_rest := [32]; tk_err := false |} /\
  number_token_ok TkFloat s = true.
Proof.
  split.
  - apply (Num_hex_frac Lua54 120 [] [56] [112; 45; 51]); try side.
    apply EO_some. apply (Exponent 112 80 112 [45] [51]); try side. apply SO_minus.
  - split; [repeat split; discriminate|]. vm_compute. split; reflexivity.
Qed.

(** [3.e+10] at the end of the input *)
Example ex_dec_float :
  let s := [51; 46; 101; 43; 49; 48] in
  numeral Lua51 s false /\
  lex_number std_features ascii_letter (s ++ []) =
    {| tk_kind := TkFloat; tk_text := s; tk_rest := []; tk_err := false |} /\
  number_token_ok TkFloat s = true.
Proof.
  split.
  - apply (Num_dec_frac Lua51 [51] [] [101; 43; 49; 48]); try side.
    apply EO_some. apply (Exponent 101 69 101 [43] [49; 48]); try side. apply SO_plus.
  - vm_compute. split; reflexivity.
Qed.

(** [9223372036854775808] (2^63: overflows [i64], still an integer literal) followed by [)] *)
Example ex_dec_overflow :
  let s := [57; 50; 50; 51; 51; 55; 50; 48; 51; 54; 56; 53; 52; 55; 55; 53; 56; 48; 56] in
  numeral Lua54 s true /\
  lex_number std_features ascii_letter (s ++ [41]) =
    {| tk_kind := TkInt; tk_text := s; tk_rest := [41]; tk_err := false |} /\
  i64_from_str_radix 10 s = IErr IPosOverflow /\
  number_token_ok TkInt s = true.
Proof.
  split.
  - apply Num_dec_int. side.
  - vm_compute. repeat split; reflexivity.
Qed.

(** [0xffffffffffffffffff] (72 bits) *)
Example ex_hex_overflow :
  let s := [48; 120; 102; 102; 102; 102; 102; 102; 102; 102; 102; 102; 102; 102; 102; 102; 102; 102;
            102; 102] in
  numeral Lua51 s true /\
  lex_number std_features ascii_letter (s ++ [10]) =
    {| tk_kind := TkInt; tk_text := s; tk_rest := [10]; tk_err := false |} /\
  u64_from_str_radix 16 (skipn 2 s) = IErr IPosOverflow /\
  number_token_ok TkInt s = true.
Proof.
  split.
  - apply (Num_hex_int Lua51 120); side.
  - vm_compute. repeat split; reflexivity.
Qed.

(** ["a\z  <LF> b\x41\u{7FFFFFFF}\065\<LF>"] followed by [..] *)
Example ex_string :
  let s := [34; 97; 92; 122; 32; 32; 10; 32; 98; 92; 120; 52; 49;
            92; 117; 123; 55; 70; 70; 70; 70; 70; 70; 70; 125; 92; 48; 54; 53; 92; 10; 34] in
  short_string Lua54 s /\
  lex_quoted std_features lexer_zsp_fixed (s ++ [46; 46]) =
    Some {| tk_kind := TkString; tk_text := s; tk_rest := [46; 46]; tk_err := false |} /\
  lex_quoted std_features lexer_zsp (s ++ [46; 46]) =
    Some {| tk_kind := TkString; tk_text := s; tk_rest := [46; 46]; tk_err := false |} /\
  check_string_umax lua54_umax s = true /\ check_string_old s = false.
Proof.
  split.
  - exists 34, [97; 92; 122; 32; 32; 10; 32; 98; 92; 120; 52; 49;
                92; 117; 123; 55; 70; 70; 70; 70; 70; 70; 70; 125; 92; 48; 54; 53; 92; 10].
    split; [left; reflexivity|]. split; [reflexivity|].
    apply SB_plain; [reflexivity|].
    apply (SB_z Lua54 z_any 34 [32; 32; 10; 32]); [discriminate|reflexivity|].
    apply SB_plain; [reflexivity|].
    apply SB_x; [discriminate|reflexivity|reflexivity|].
    apply (SB_u Lua54 z_any 34 [55; 70; 70; 70; 70; 70; 70; 70]); try side.
    apply (SB_dec Lua54 z_any 34 [48; 54; 53]).
    + split; [discriminate|reflexivity].
    + cbn [length]. lia.
    + apply N.leb_le. reflexivity.
    + cbn [length]. intros L. lia.
    + apply (SB_newline Lua54 z_any 34 [10]); [apply LB_lf|apply SB_end].
  - vm_compute. repeat split; reflexivity.
Qed.
