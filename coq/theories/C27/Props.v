(** C27/Props.v — property theorems only.  Each is closed by [exact] of a lemma of Proofs.v. *)
From Coq Require Import List NArith Bool String.
Import ListNotations.
From EV Require Import Base.LTS Gen.C27_Notify Gen.C27_Sync C27.Model C27.Proofs.
From EV Require C29.Model C29.Proofs.
Local Open Scope N_scope.

(** TABLE OBLIGATION (re-checked against today's dispatch_notification! lists): didOpen, didChange
    and didClose are all awaited inline on the main loop. *)
Theorem today_all_inline : all_inline today = true.
Proof. exact Proofs.today_all_inline. Qed.

(** If open/change/close are all handled inline then — for EVERY environment, initial state,
    notification sequence and EVERY schedule (interleaving of the main loop with the spawned
    handlers of all other notifications) — at quiescence the documents are exactly what handling
    the notifications one after the other in message order gives; in particular every document
    holds the text of the last notification about it (editor text always, analysed text for
    workspace files), and a document closed last holds no editor text and is gone from the
    analysis when it is not on disk, resp. analysed with its on-disk content when it is a
    workspace module on disk. *)
Theorem inline_in_order :
  forall (e : env) (tb : table) (d0 : docs) (ns : list notif) (sched : list label) (s : state),
    all_inline tb = true ->
    run (step e tb) (init d0 ns) sched = Some s ->
    quiescent (step e tb) s ->
    s_docs s = apply_all e ns d0 /\
    forall u,
      match last_of u ns LNone with
      | LText t => d_open (s_docs s) u = Some t /\ (is_ws e u = true -> d_vfs (s_docs s) u = Some t)
      | LClosed => d_open (s_docs s) u = None /\ (on_disk e u = false -> d_vfs (s_docs s) u = None) /\
                   (forall t, on_disk e u = true -> is_mod e u = true -> disk_text e u = Some t ->
                              d_vfs (s_docs s) u = None \/ d_vfs (s_docs s) u = Some t)
      | LNone => d_open (s_docs s) u = d_open d0 u /\ d_vfs (s_docs s) u = d_vfs d0 u
      end.
Proof. exact Proofs.inline_in_order. Qed.

(** The same for the tables read off today's source. *)
Theorem today_in_order :
  forall (e : env) (d0 : docs) (ns : list notif) (sched : list label) (s : state),
    run (step e today) (init d0 ns) sched = Some s ->
    quiescent (step e today) s ->
    s_docs s = apply_all e ns d0.
Proof. exact Proofs.today_in_order. Qed.

(** Every schedule is finite (bounded by a measure of the initial state) and can be completed to
    a quiescent state: the hypothesis of [inline_in_order] is always reachable. *)
Theorem schedules_terminate :
  forall (e : env) (tb : table) (d0 : docs) (ns : list notif) (sched : list label) (s : state),
    run (step e tb) (init d0 ns) sched = Some s ->
    (List.length sched <= measure (init d0 ns))%nat /\
    exists sched' s', run (step e tb) s sched' = Some s' /\ quiescent (step e tb) s'.
Proof. exact Proofs.schedules_terminate. Qed.

(** With didOpen spawned and didChange inline (the table before the repair) the statement is
    false: a schedule of the main loop and ONE spawned task ends with the analysis on the didOpen
    text although the last notification was the didChange. *)
Definition open_spawned : table := fun k => match k with KOpen => false | _ => true end.

Theorem spawned_open_refuted :
  exists (e : env) (ns : list notif) (sched : list label) (s : state),
    run (step e open_spawned) (init empty_docs ns) sched = Some s /\
    quiescent (step e open_spawned) s /\
    is_ws e 1 = true /\
    last_of 1 ns LNone = LText 20 /\
    d_vfs (s_docs s) 1 = Some 10 /\ d_open (s_docs s) 1 = Some 10.
Proof. exact Proofs.spawned_open_refuted. Qed.

(** ------------------------------------------------------------------ across a workspace reload
    [inline_in_order] treats every task other than the three document handlers as a non-writer of
    document texts.  The one task that does write them is a workspace reload (it re-indexes the
    workspace with a SNAPSHOT of the open documents and then re-applies what changed meanwhile, decided
    by the open-documents version).  That interleaving is the LTS of C29/Model.v; the statement below is
    its convergence theorem (C29/Proofs.reload_converges) instantiated with the bump rule read off
    TODAY's source, so it — and this property's proof side — breaks when [sync_open_file] stops bumping
    the version on every call.

    TABLE OBLIGATION: sync_open_file / close_open_file bump the version unconditionally, and the
    handler / reload section orders are the modelled ones. *)
Theorem today_version_bumps :
  sync_bumps_always = true /\ close_bumps_always = true /\ handler_sections_ok = true /\ reload_sections_ok = true.
Proof. exact Proofs.today_version_bumps. Qed.

(** For every disk, start state, list of document notifications, number of reload requests and EVERY
    interleaving of the inline handlers' sections with the reload's sections: at quiescence the editor
    texts are the message-order result and every open workspace document is analysed with the text of
    its last notification (a closed one with its disk content, or not at all). *)
Theorem last_text_wins_across_reload :
  forall (disk : C29.Model.uri -> option C29.Model.text) (s0 s : C29.Model.st),
    C29.Model.start disk s0 ->
    C29.Model.reach disk sync_bumps_always s0 s ->
    C29.Model.quiescent s ->
    forall u,
      C29.Model.wopen s u = C29.Model.editor (C29.Model.wopen s0) (C29.Model.queue s0) u /\
      C29.Model.an s u = match C29.Model.wopen s u with Some t => Some t | None => disk u end.
Proof. exact Proofs.last_text_wins_across_reload. Qed.

(** With a version that is bumped only for documents that were not open before, an edit of an already
    open document that lands between the reload's snapshot and its re-index is lost: quiescent, editor
    text 2, analysed text 1. *)
Theorem bump_only_new_refuted :
  C29.Model.start C29.Proofs.no_disk C29.Proofs.stale_start /\
  exists s, C29.Model.reach C29.Proofs.no_disk false C29.Proofs.stale_start s /\ C29.Model.quiescent s /\
            C29.Model.wopen s 0%nat = Some 2%nat /\ C29.Model.an s 0%nat = Some 1%nat.
Proof. exact Proofs.bump_only_new_refuted. Qed.

(** non-vacuity: three documents, re-open after close, an empty change, spawned didSave tasks
    interleaved at arbitrary points; the run is quiescent and ends in message order *)
Example inline_example :
  let e := {| is_ws := fun u => u <? 10; on_disk := fun u => u =? 2; is_mod := fun u => u <? 10; disk_text := fun u => if u =? 2 then Some 0 else None |} in
  let all := (fun _ : kind => true) in
  let ns := [NOpen 1 10; NOther false 2; NChange 1 (Some 11); NOpen 2 20; NClose 1; NOther false 1;
             NOpen 1 12; NChange 2 None; NClose 2; NOpen 30 40; NChange 1 (Some 13)] in
  let sched := [LMain; LMain; LMain; LMain; LMain; LTask 0; LMain; LMain; LMain; LMain; LMain; LMain; LTask 0;
                LMain; LMain; LMain; LMain; LMain; LMain; LMain; LMain; LTask 1; LMain; LMain; LMain; LMain; LMain;
                LMain; LMain; LMain; LMain; LMain; LMain; LMain; LMain; LMain; LTask 0; LTask 0] in
  match run (step e all) (init empty_docs ns) sched with
  | Some s => quiescentb s = true /\
              d_open (s_docs s) 1 = Some 13 /\ d_vfs (s_docs s) 1 = Some 13 /\
              d_open (s_docs s) 2 = None /\ d_vfs (s_docs s) 2 = Some 0 /\
              d_open (s_docs s) 30 = Some 40 /\ d_vfs (s_docs s) 30 = None
  | None => False
  end.
Proof. exact Proofs.inline_example. Qed.
