(** C27/Corr.v — executable comparison of the final document state observed on the real server
    with the model's prediction (trace validation; the harness writes [case] terms).

    By theorem [today_in_order] every schedule of the model ends, at quiescence, in the state
    [apply_all] computes (the message-order semantics), so that single state is the prediction.
    (When the table obligation [today_all_inline] fails the theorem is gone; the comparison is
    still made against the message-order state, which is what the property demands.) *)
From Coq Require Import List NArith Bool String.
Import ListNotations.
From EV Require Import Base.LTS Gen.C27_Notify C27.Model.
Local Open Scope list_scope.

Record case := {
  k_ws : list uri;                 (* documents inside the workspace *)
  k_disk : list uri;               (* documents that exist on disk *)
  k_disk_txt : txt;                (* the content of every on-disk document (harness convention) *)
  k_init : list (uri * txt);       (* analysed text before the history (observed) *)
  k_reload : bool;                 (* the history contains a workspace reload *)
  k_hist : list notif;
  k_obs : list (uri * (option txt * option txt))   (* uri, (editor text, analysed text) after quiescence *)
}.

Definition mem (u : uri) (l : list uri) : bool := existsb (N.eqb u) l.
Definition lookup (l : list (uri * txt)) (u : uri) : option txt :=
  match find (fun p => N.eqb (fst p) u) l with Some p => Some (snd p) | None => None end.
Definition opt_eqb (a b : option txt) : bool :=
  match a, b with Some x, Some y => N.eqb x y | None, None => true | _, _ => false end.

Definition predicted (k : case) : docs :=
  let e := {| is_ws := fun u => mem u (k_ws k); on_disk := fun u => mem u (k_disk k);
              is_mod := fun u => mem u (k_ws k);
              disk_text := fun u => if mem u (k_disk k) then Some (k_disk_txt k) else None |} in
  apply_all e (k_hist k) {| d_open := fun _ => None; d_vfs := lookup (k_init k) |}.

(** With a reload in the history the prediction is that of [last_text_wins_across_reload]: the
    editor texts are the message-order result; a workspace document is analysed with its editor
    text, or with its disk content when it is closed; a document outside the workspace is not
    analysed. *)
Definition predicted_vfs (k : case) (d : docs) (u : uri) : option txt :=
  if k_reload k then
    if mem u (k_ws k) then
      match d_open d u with
      | Some t => Some t
      | None => if mem u (k_disk k) then Some (k_disk_txt k) else None
      end
    else None
  else d_vfs d u.

Definition check_case (k : case) : bool :=
  let d := predicted k in
  forallb (fun p => opt_eqb (d_open d (fst p)) (fst (snd p)) && opt_eqb (predicted_vfs k d (fst p)) (snd (snd p))) (k_obs k).
