(** C27/Proofs.v — lemmas about the notification LTS of Model.v. *)
From Coq Require Import List NArith Bool String Arith Lia.
Import ListNotations.
From EV Require Import Base.LTS Gen.C27_Notify C27.Model.
Local Open Scope list_scope.

Arguments N.eqb : simpl never.

(** ------------------------------------------------------------------ handler programs *)
Lemma pc_size_pos : forall p, 1 <= pc_size p.
Proof. destruct p; cbn; lia. Qed.

Lemma exec_size : forall e p d d' q, exec e p d = (d', Some q) -> pc_size q < pc_size p.
Proof.
  intros e p d d' q H. destruct p; cbn [exec] in H.
  - inversion H; subst; cbn; lia.
  - destruct sp; inversion H; subst; cbn; lia.
  - inversion H.
  - inversion H; subst; cbn; lia.
  - destruct (negb (on_disk e u)); [inversion H|].
    destruct (d_vfs d u) as [cur|]; [|inversion H].
    destruct (negb (is_mod e u)); [inversion H; subst; cbn; lia|].
    destruct (disk_text e u) as [t|]; [|inversion H].
    destruct (N.eqb cur t); inversion H; subst; cbn; lia.
  - inversion H.
  - inversion H.
  - destruct k; inversion H; subst; cbn; lia.
Qed.

Lemma finish_fuel : forall e n m p d,
  pc_size p <= n -> pc_size p <= m -> finish n e p d = finish m e p d.
Proof.
  intros e. induction n as [|n IH]; intros m p d Hn Hm.
  - pose proof (pc_size_pos p). lia.
  - destruct m as [|m]; [pose proof (pc_size_pos p); lia|].
    cbn [finish]. destruct (exec e p d) as [d' [q|]] eqn:E; [|reflexivity].
    apply exec_size in E. apply IH; lia.
Qed.

Lemma fin_unfold : forall e p d,
  fin e p d = match exec e p d with (d', None) => d' | (d', Some q) => fin e q d' end.
Proof.
  intros e p d. unfold fin. pose proof (pc_size_pos p) as Hp.
  destruct (pc_size p) as [|m] eqn:Es; [lia|]. cbn [finish].
  destruct (exec e p d) as [d' [q|]] eqn:E; [|reflexivity].
  apply exec_size in E. apply finish_fuel; lia.
Qed.

Lemma fin_nop : forall e k d, fin e (PNop k) d = d.
Proof.
  intros e. induction k as [|k IH]; intros d; rewrite fin_unfold; cbn [exec]; [reflexivity|apply IH].
Qed.

Lemma fin_oc : forall e u t d,
  fin e (POC1 u t) d =
  if is_some (d_vfs d u) || is_ws e u then set_vfs u (Some t) (set_open u (Some t) d)
  else set_open u (Some t) d.
Proof.
  intros. rewrite fin_unfold. cbn [exec]. rewrite fin_unfold. cbn [exec].
  destruct (is_some (d_vfs d u) || is_ws e u); [|reflexivity].
  rewrite fin_unfold. reflexivity.
Qed.

Definition after_close (e : env) (u : uri) (d1 : docs) : docs :=
  if negb (on_disk e u) then set_vfs u None d1
  else match d_vfs d1 u with
       | None => d1
       | Some cur =>
           if negb (is_mod e u) then set_vfs u None d1
           else match disk_text e u with
                | Some t => if N.eqb cur t then d1 else set_vfs u (Some t) d1
                | None => d1
                end
       end.

Lemma fin_cl : forall e u d, fin e (PCL1 u) d = after_close e u (set_open u None d).
Proof.
  intros. rewrite fin_unfold. cbn [exec]. rewrite fin_unfold. cbn [exec]. unfold after_close.
  destruct (negb (on_disk e u)); [reflexivity|].
  destruct (d_vfs (set_open u None d) u) as [cur|]; [|reflexivity].
  destruct (negb (is_mod e u)); [rewrite fin_unfold; reflexivity|].
  destruct (disk_text e u) as [t|]; [|reflexivity].
  destruct (N.eqb cur t); [reflexivity|]. rewrite fin_unfold. reflexivity.
Qed.

(** ------------------------------------------------------------------ list helpers *)
Definition is_nop (p : pc) : Prop := exists k, p = PNop k.

Lemma Forall_remove_nth : forall {A} (P : A -> Prop) k l, Forall P l -> Forall P (remove_nth k l).
Proof.
  intros A P. induction k as [|k IH]; intros [|x r] H; cbn [remove_nth]; try constructor.
  - inversion H; assumption.
  - inversion H; assumption.
  - inversion H; subst. apply IH. assumption.
Qed.

Lemma Forall_replace_nth : forall {A} (P : A -> Prop) k y l, P y -> Forall P l -> Forall P (replace_nth k y l).
Proof.
  intros A P. induction k as [|k IH]; intros y [|x r] Hy H; cbn [replace_nth]; try constructor.
  - assumption.
  - inversion H; assumption.
  - inversion H; assumption.
  - inversion H; subst. apply IH; assumption.
Qed.

Lemma Forall_nth_error : forall {A} (P : A -> Prop) l k x, Forall P l -> nth_error l k = Some x -> P x.
Proof.
  intros A P l. induction l as [|y r IH]; intros [|k] x H E; cbn [nth_error] in E; try discriminate.
  - inversion E; subst. inversion H; assumption.
  - inversion H; subst. eapply IH; eassumption.
Qed.

(** ------------------------------------------------------------------ inline handling = message order *)
Definition cur (e : env) (s : state) : docs :=
  match s_main s with Some p => fin e p (s_docs s) | None => s_docs s end.

Definition inv (e : env) (d0 : docs) (ns : list notif) (s : state) : Prop :=
  Forall is_nop (s_tasks s) /\ apply_all e (s_input s) (cur e s) = apply_all e ns d0.

Lemma inv_step : forall e tb d0 ns l s s',
  all_inline tb = true -> inv e d0 ns s -> step e tb l s = Some s' -> inv e d0 ns s'.
Proof.
  intros e tb d0 ns l s s' Hall [Hnop Heq] Hstep.
  unfold all_inline in Hall. apply andb_true_iff in Hall as [Hall Hc]. apply andb_true_iff in Hall as [Ho Hch].
  destruct l as [|k]; cbn [step] in Hstep.
  - destruct (s_main s) as [p|] eqn:Em.
    + destruct (exec e p (s_docs s)) as [d' p'] eqn:E. inversion Hstep; subst s'; clear Hstep.
      split; [exact Hnop|]. unfold cur in *. cbn [s_main s_docs s_input]. rewrite Em in Heq.
      rewrite fin_unfold, E in Heq. destruct p'; exact Heq.
    + destruct (s_input s) as [|n r] eqn:Ei; [discriminate|]. inversion Hstep; subst s'; clear Hstep.
      unfold cur in Heq. rewrite Em in Heq. unfold apply_all in Heq. cbn [fold_left] in Heq.
      unfold apply_notif at 2 in Heq.
      destruct (first_pc n) as [p|] eqn:Ef.
      * destruct (inline_of tb n) eqn:Ein.
        -- split; [exact Hnop|]. unfold cur. cbn [s_main s_docs s_input]. exact Heq.
        -- (* only an [NOther false k] can be spawned *)
           destruct n as [u t|u t|u|sync k]; cbn [inline_of] in Ein; try congruence.
           cbn [first_pc] in Ef. inversion Ef; subst p. subst sync.
           split.
           ++ cbn [s_tasks]. apply Forall_app. split; [exact Hnop|]. constructor; [exists k; reflexivity|constructor].
           ++ unfold cur. cbn [s_main s_docs s_input]. rewrite fin_nop in Heq. exact Heq.
      * split; [exact Hnop|]. unfold cur. cbn [s_main s_docs s_input]. exact Heq.
  - destruct (nth_error (s_tasks s) k) as [p|] eqn:En; [|discriminate].
    destruct (Forall_nth_error _ _ _ _ Hnop En) as [j Hj]. subst p. cbn [exec] in Hstep.
    inversion Hstep; subst s'; clear Hstep. split.
    + cbn [s_tasks]. destruct j.
      * apply Forall_remove_nth. exact Hnop.
      * apply Forall_replace_nth; [exists j; reflexivity|exact Hnop].
    + unfold cur in *. cbn [s_main s_docs s_input]. exact Heq.
Qed.

Lemma quiescent_shape : forall e tb s,
  quiescent (step e tb) s -> s_main s = None /\ s_input s = [] /\ s_tasks s = [].
Proof.
  intros e tb s Hq. pose proof (Hq LMain) as Hm. pose proof (Hq (LTask 0)) as Ht. cbn [step] in Hm, Ht.
  destruct (s_main s) as [p|].
  - destruct (exec e p (s_docs s)). discriminate.
  - destruct (s_input s); [|discriminate]. split; [reflexivity|]. split; [reflexivity|].
    destruct (s_tasks s) as [|p r]; [reflexivity|]. cbn [nth_error] in Ht.
    destruct (exec e p (s_docs s)). discriminate.
Qed.

Lemma quiescentb_sound : forall e tb s, quiescentb s = true -> quiescent (step e tb) s.
Proof.
  intros e tb s H. unfold quiescentb in H.
  destruct (s_main s) eqn:Em; [discriminate|]. destruct (s_input s) eqn:Ei; [|discriminate].
  destruct (s_tasks s) eqn:Et; [|discriminate].
  intros [|k]; cbn [step]; rewrite ?Em, ?Ei, ?Et; [reflexivity|]. destruct k; reflexivity.
Qed.

Lemma inline_run : forall e tb d0 ns sched s,
  all_inline tb = true ->
  run (step e tb) (init d0 ns) sched = Some s -> quiescent (step e tb) s ->
  s_docs s = apply_all e ns d0.
Proof.
  intros e tb d0 ns sched s Hall Hr Hq.
  assert (Hi : inv e d0 ns s).
  { eapply (run_invariant _ _ (step e tb) (inv e d0 ns)); [| |exact Hr].
    - intros l s1 s2 H1 H2. eapply inv_step; eassumption.
    - split; [constructor|reflexivity]. }
  destruct Hi as [_ Heq]. destruct (quiescent_shape e tb s Hq) as [Hm [Hi _]].
  unfold cur in Heq. rewrite Hm, Hi in Heq. exact Heq.
Qed.

(** ------------------------------------------------------------------ what message order means *)
Definition holds (e : env) (u : uri) (a : last_about) (d0 d : docs) : Prop :=
  match a with
  | LNone => d_open d u = d_open d0 u /\ d_vfs d u = d_vfs d0 u
  | LText t => d_open d u = Some t /\ (is_ws e u = true -> d_vfs d u = Some t)
  | LClosed => d_open d u = None /\ (on_disk e u = false -> d_vfs d u = None) /\
               (forall t, on_disk e u = true -> is_mod e u = true -> disk_text e u = Some t ->
                          d_vfs d u = None \/ d_vfs d u = Some t)
  end.

Lemma upd_same : forall f u v, upd f u v u = v.
Proof. intros. unfold upd. rewrite N.eqb_refl. reflexivity. Qed.

Lemma upd_other : forall f u v x, N.eqb u x = false -> upd f u v x = f x.
Proof. intros. unfold upd. rewrite N.eqb_sym, H. reflexivity. Qed.

Lemma oc_frame : forall e v t d u, N.eqb v u = false ->
  d_open (fin e (POC1 v t) d) u = d_open d u /\ d_vfs (fin e (POC1 v t) d) u = d_vfs d u.
Proof.
  intros. rewrite fin_oc. destruct (is_some (d_vfs d v) || is_ws e v);
    cbn [set_vfs set_open d_open d_vfs]; rewrite ?upd_other by assumption; split; reflexivity.
Qed.

Lemma oc_hit : forall e u t d,
  d_open (fin e (POC1 u t) d) u = Some t /\ (is_ws e u = true -> d_vfs (fin e (POC1 u t) d) u = Some t).
Proof.
  intros. rewrite fin_oc. destruct (is_some (d_vfs d u) || is_ws e u) eqn:E;
    cbn [set_vfs set_open d_open d_vfs]; rewrite ?upd_same; split; try reflexivity.
  intros Hw. rewrite Hw, orb_true_r in E. discriminate.
Qed.

Lemma cl_frame : forall e v d u, N.eqb v u = false ->
  d_open (fin e (PCL1 v) d) u = d_open d u /\ d_vfs (fin e (PCL1 v) d) u = d_vfs d u.
Proof.
  intros. rewrite fin_cl. unfold after_close.
  destruct (negb (on_disk e v)); [|destruct (d_vfs (set_open v None d) v) as [cur|];
    [destruct (negb (is_mod e v)); [|destruct (disk_text e v) as [t|]; [destruct (N.eqb cur t)|]]|]];
    cbn [set_vfs set_open d_open d_vfs]; rewrite ?upd_other by assumption; split; reflexivity.
Qed.

Lemma cl_hit : forall e u d,
  d_open (fin e (PCL1 u) d) u = None /\ (on_disk e u = false -> d_vfs (fin e (PCL1 u) d) u = None) /\
  (forall t, on_disk e u = true -> is_mod e u = true -> disk_text e u = Some t ->
             d_vfs (fin e (PCL1 u) d) u = None \/ d_vfs (fin e (PCL1 u) d) u = Some t).
Proof.
  intros. rewrite fin_cl. unfold after_close.
  destruct (negb (on_disk e u)) eqn:E.
  - cbn [set_vfs set_open d_open d_vfs]. rewrite !upd_same. split; [reflexivity|]. split; [reflexivity|]. intros; left; reflexivity.
  - apply negb_false_iff in E.
    destruct (d_vfs (set_open u None d) u) as [cur|] eqn:Ev.
    + destruct (negb (is_mod e u)) eqn:Em.
      * cbn [set_vfs set_open d_open d_vfs]. rewrite !upd_same. split; [reflexivity|]. split; [reflexivity|]. intros; left; reflexivity.
      * destruct (disk_text e u) as [t|] eqn:Ed.
        -- destruct (N.eqb cur t) eqn:Ec.
           ++ apply N.eqb_eq in Ec. subst cur. cbn [set_open d_open]. rewrite upd_same. split; [reflexivity|].
              split; [intros Hd; congruence|]. intros t' _ _ Ht. inversion Ht; subst. right. exact Ev.
           ++ cbn [set_vfs set_open d_open d_vfs]. rewrite !upd_same. split; [reflexivity|].
              split; [intros Hd; congruence|]. intros t' _ _ Ht. inversion Ht; subst. right. reflexivity.
        -- cbn [set_open d_open]. rewrite upd_same. split; [reflexivity|]. split; [intros Hd; congruence|]. intros; discriminate.
    + cbn [set_open d_open]. rewrite upd_same. split; [reflexivity|]. split; [intros; exact Ev|]. intros; left; exact Ev.
Qed.

Lemma holds_step : forall e u acc d0 d n,
  holds e u acc d0 d ->
  holds e u (match about u n with LNone => acc | x => x end) d0 (apply_notif e d n).
Proof.
  intros e u acc d0 d n H. unfold apply_notif.
  assert (Hframe : forall d', d_open d' u = d_open d u -> d_vfs d' u = d_vfs d u -> holds e u acc d0 d').
  { intros d' Ho Hv. unfold holds in *. destruct acc; rewrite Ho, Hv; exact H. }
  destruct n as [v t|v [t|]|v|sync k]; cbn [about first_pc].
  - destruct (N.eqb v u) eqn:E.
    + apply N.eqb_eq in E. subst v. apply oc_hit.
    + destruct (oc_frame e v t d u E). apply Hframe; assumption.
  - destruct (N.eqb v u) eqn:E.
    + apply N.eqb_eq in E. subst v. apply oc_hit.
    + destruct (oc_frame e v t d u E). apply Hframe; assumption.
  - exact H.
  - destruct (N.eqb v u) eqn:E.
    + apply N.eqb_eq in E. subst v. apply cl_hit.
    + destruct (cl_frame e v d u E). apply Hframe; assumption.
  - rewrite fin_nop. exact H.
Qed.

Lemma holds_all : forall e u ns acc d0 d,
  holds e u acc d0 d -> holds e u (last_of u ns acc) d0 (apply_all e ns d).
Proof.
  intros e u. induction ns as [|n r IH]; intros acc d0 d H; [exact H|].
  unfold apply_all. cbn [fold_left last_of]. apply IH. apply holds_step. exact H.
Qed.

Lemma last_wins : forall e u ns d0, holds e u (last_of u ns LNone) d0 (apply_all e ns d0).
Proof. intros. apply holds_all. split; reflexivity. Qed.

(** ------------------------------------------------------------------ termination *)
Definition measure (s : state) : nat :=
  fold_right (fun n acc => 1 + match first_pc n with Some p => pc_size p | None => 0 end + acc) 0 (s_input s)
  + match s_main s with Some p => pc_size p | None => 0 end
  + fold_right (fun p acc => pc_size p + acc) 0 (s_tasks s).

Definition tasks_size (l : list pc) : nat := fold_right (fun p acc => pc_size p + acc) 0 l.

Lemma tasks_size_cons : forall x r, tasks_size (x :: r) = pc_size x + tasks_size r.
Proof. reflexivity. Qed.

Lemma tasks_size_app : forall a b, tasks_size (a ++ b) = tasks_size a + tasks_size b.
Proof.
  induction a as [|x a IH]; intros b; cbn [app]; [reflexivity|].
  rewrite !tasks_size_cons, IH. lia.
Qed.

Lemma tasks_size_remove : forall k l p, nth_error l k = Some p -> tasks_size l = pc_size p + tasks_size (remove_nth k l).
Proof.
  induction k as [|k IH]; intros [|x r] p H; cbn [nth_error] in H; try discriminate.
  - inversion H; subst. reflexivity.
  - cbn [remove_nth]. rewrite !tasks_size_cons, (IH r p H). lia.
Qed.

Lemma tasks_size_replace : forall k l p q, nth_error l k = Some p ->
  tasks_size (replace_nth k q l) + pc_size p = tasks_size l + pc_size q.
Proof.
  induction k as [|k IH]; intros [|x r] p q H; cbn [nth_error] in H; try discriminate.
  - inversion H; subst. cbn [replace_nth]. rewrite !tasks_size_cons. lia.
  - cbn [replace_nth]. rewrite !tasks_size_cons. specialize (IH r p q H). lia.
Qed.

Lemma step_measure : forall e tb l s s', step e tb l s = Some s' -> measure s' < measure s.
Proof.
  intros e tb l s s' H. unfold measure. fold (tasks_size (s_tasks s)). fold (tasks_size (s_tasks s')).
  destruct l as [|k]; cbn [step] in H.
  - destruct (s_main s) as [p|] eqn:Em.
    + destruct (exec e p (s_docs s)) as [d' p'] eqn:E. inversion H; subst s'; clear H.
      cbn [s_input s_main s_tasks]. destruct p' as [q|].
      * apply exec_size in E. lia.
      * pose proof (pc_size_pos p). lia.
    + destruct (s_input s) as [|n r] eqn:Ei; [discriminate|]. inversion H; subst s'; clear H.
      cbn [fold_right]. destruct (first_pc n) as [p|].
      * destruct (inline_of tb n); cbn [s_input s_main s_tasks]; rewrite ?tasks_size_app, ?tasks_size_cons; cbn [tasks_size fold_right]; lia.
      * cbn [s_input s_main s_tasks]. lia.
  - destruct (nth_error (s_tasks s) k) as [p|] eqn:En; [|discriminate].
    destruct (exec e p (s_docs s)) as [d' p'] eqn:E. inversion H; subst s'; clear H.
    cbn [s_input s_main s_tasks]. destruct p' as [q|].
    + apply exec_size in E. pose proof (tasks_size_replace k _ p q En). lia.
    + pose proof (tasks_size_remove k _ p En). pose proof (pc_size_pos p). lia.
Qed.

Definition pick (s : state) : option label :=
  match s_tasks s with
  | _ :: _ => Some (LTask 0)
  | [] => match s_main s, s_input s with
          | None, [] => None
          | _, _ => Some LMain
          end
  end.

Lemma pick_spec : forall e tb s,
  match pick s with
  | Some l => exists s', step e tb l s = Some s'
  | None => quiescent (step e tb) s
  end.
Proof.
  intros e tb s. unfold pick. destruct (s_tasks s) as [|p r] eqn:Et.
  - destruct (s_main s) as [p|] eqn:Em.
    + cbn [step]. rewrite Em. destruct (exec e p (s_docs s)). eexists; reflexivity.
    + destruct (s_input s) as [|n r] eqn:Ei.
      * apply quiescentb_sound. unfold quiescentb. rewrite Em, Ei, Et. reflexivity.
      * cbn [step]. rewrite Em, Ei. eexists; reflexivity.
  - cbn [step]. rewrite Et. cbn [nth_error]. destruct (exec e p (s_docs s)). eexists; reflexivity.
Qed.

Lemma schedules_terminate :
  forall (e : env) (tb : table) (d0 : docs) (ns : list notif) (sched : list label) (s : state),
    run (step e tb) (init d0 ns) sched = Some s ->
    (List.length sched <= measure (init d0 ns))%nat /\
    exists sched' s', run (step e tb) s sched' = Some s' /\ quiescent (step e tb) s'.
Proof.
  intros e tb d0 ns sched s Hr. split.
  - pose proof (run_measure _ _ (step e tb) measure (step_measure e tb) sched (init d0 ns) s Hr). lia.
  - eapply (reaches_quiescence _ _ (step e tb) measure pick (step_measure e tb) (pick_spec e tb) (measure s)). lia.
Qed.

(** ------------------------------------------------------------------ theorems of Props.v *)
Lemma inline_in_order :
  forall (e : env) (tb : table) (d0 : docs) (ns : list notif) (sched : list label) (s : state),
    all_inline tb = true ->
    run (step e tb) (init d0 ns) sched = Some s ->
    quiescent (step e tb) s ->
    s_docs s = apply_all e ns d0 /\
    forall u,
      match last_of u ns LNone with
      | LText t => d_open (s_docs s) u = Some t /\ (is_ws e u = true -> d_vfs (s_docs s) u = Some t)
      | LClosed => d_open (s_docs s) u = None /\ (on_disk e u = false -> d_vfs (s_docs s) u = None) /\
                   (forall t, on_disk e u = true -> is_mod e u = true -> disk_text e u = Some t ->
                              d_vfs (s_docs s) u = None \/ d_vfs (s_docs s) u = Some t)
      | LNone => d_open (s_docs s) u = d_open d0 u /\ d_vfs (s_docs s) u = d_vfs d0 u
      end.
Proof.
  intros e tb d0 ns sched s Hall Hr Hq.
  pose proof (inline_run e tb d0 ns sched s Hall Hr Hq) as Heq. split; [exact Heq|].
  intros u. rewrite Heq. pose proof (last_wins e u ns d0) as H. unfold holds in H.
  destruct (last_of u ns LNone); exact H.
Qed.

Lemma today_all_inline : all_inline today = true.
Proof. vm_compute. reflexivity. Qed.

Lemma today_in_order :
  forall (e : env) (d0 : docs) (ns : list notif) (sched : list label) (s : state),
    run (step e today) (init d0 ns) sched = Some s ->
    quiescent (step e today) s ->
    s_docs s = apply_all e ns d0.
Proof. intros. eapply inline_run; [exact today_all_inline|eassumption|assumption]. Qed.

Definition open_spawned : table := fun k => match k with KOpen => false | _ => true end.

Lemma spawned_open_refuted :
  exists (e : env) (ns : list notif) (sched : list label) (s : state),
    run (step e open_spawned) (init empty_docs ns) sched = Some s /\
    quiescent (step e open_spawned) s /\
    is_ws e 1%N = true /\
    last_of 1%N ns LNone = LText 20%N /\
    d_vfs (s_docs s) 1%N = Some 10%N /\ d_open (s_docs s) 1%N = Some 10%N.
Proof.
  set (e := {| is_ws := fun _ => true; on_disk := fun _ => false; is_mod := fun _ => true; disk_text := fun _ => None |}).
  set (ns := [NOpen 1%N 10%N; NChange 1%N (Some 20%N)]).
  (* main: dequeue didOpen (spawned), dequeue didChange, run its three sections; then the task *)
  set (sched := [LMain; LMain; LMain; LMain; LMain; LTask 0; LTask 0; LTask 0]).
  destruct (run (step e open_spawned) (init empty_docs ns) sched) as [s|] eqn:E; [|vm_compute in E; discriminate].
  exists e, ns, sched, s. split; [exact E|].
  vm_compute in E. inversion E; subst s; clear E.
  split; [apply quiescentb_sound; reflexivity|].
  repeat split; reflexivity.
Qed.

Local Open Scope N_scope.
Lemma inline_example :
  let e := {| is_ws := fun u => u <? 10; on_disk := fun u => u =? 2; is_mod := fun u => u <? 10; disk_text := fun u => if u =? 2 then Some 0 else None |} in
  let all := (fun _ : kind => true) in
  let ns := [NOpen 1 10; NOther false 2; NChange 1 (Some 11); NOpen 2 20; NClose 1; NOther false 1;
             NOpen 1 12; NChange 2 None; NClose 2; NOpen 30 40; NChange 1 (Some 13)] in
  let sched := [LMain; LMain; LMain; LMain; LMain; LTask 0; LMain; LMain; LMain; LMain; LMain; LMain; LTask 0;
                LMain; LMain; LMain; LMain; LMain; LMain; LMain; LMain; LTask 1; LMain; LMain; LMain; LMain; LMain;
                LMain; LMain; LMain; LMain; LMain; LMain; LMain; LMain; LMain; LTask 0; LTask 0] in
  match run (step e all) (init empty_docs ns) sched with
  | Some s => quiescentb s = true /\
              d_open (s_docs s) 1 = Some 13 /\ d_vfs (s_docs s) 1 = Some 13 /\
              d_open (s_docs s) 2 = None /\ d_vfs (s_docs s) 2 = Some 0 /\
              d_open (s_docs s) 30 = Some 40 /\ d_vfs (s_docs s) 30 = None
  | None => False
  end.
Proof. vm_compute. repeat split; reflexivity. Qed.

(** ------------------------------------------------------------------ across a workspace reload
    The interleaving of the inline handlers with a workspace reload (snapshot / clear / re-index /
    version loop) is the LTS of C29/Model.v, parametrised by whether [sync_open_file] bumps the
    open-documents version on every call; C29/Proofs.v proves convergence for [always = true].
    Here the parameter is instantiated with the fact regenerated from today's source. *)
Require EV.C29.Model EV.C29.Proofs.
Require Import EV.Gen.C27_Sync.

Lemma today_version_bumps :
  sync_bumps_always = true /\ close_bumps_always = true /\ handler_sections_ok = true /\ reload_sections_ok = true.
Proof. repeat split; reflexivity. Qed.

Lemma last_text_wins_across_reload :
  forall (disk : C29.Model.uri -> option C29.Model.text) (s0 s : C29.Model.st),
    C29.Model.start disk s0 ->
    C29.Model.reach disk sync_bumps_always s0 s ->
    C29.Model.quiescent s ->
    forall u,
      C29.Model.wopen s u = C29.Model.editor (C29.Model.wopen s0) (C29.Model.queue s0) u /\
      C29.Model.an s u = match C29.Model.wopen s u with Some t => Some t | None => disk u end.
Proof.
  intros disk s0 s H0 Hr Hq u. destruct today_version_bumps as [Hb _]. rewrite Hb in Hr.
  exact (C29.Proofs.reload_converges disk s0 s H0 Hr Hq u).
Qed.

Lemma bump_only_new_refuted :
  C29.Model.start C29.Proofs.no_disk C29.Proofs.stale_start /\
  exists s, C29.Model.reach C29.Proofs.no_disk false C29.Proofs.stale_start s /\ C29.Model.quiescent s /\
            C29.Model.wopen s 0%nat = Some 2%nat /\ C29.Model.an s 0%nat = Some 1%nat.
Proof. exact C29.Proofs.bump_only_new_refuted. Qed.
