(** C27/Model.v — document notifications (didOpen / didChange / didClose) of emmylua_ls as a
    labelled transition system.  Executable definitions only.  Transcribed from

      crates/emmylua_ls/src/handlers/notification_handler.rs   dispatch_notification! (sync: awaited inline on
                                                                the main loop; async: tokio::spawn)
      crates/emmylua_ls/src/handlers/text_document/text_document_handler.rs
                                                                on_did_open_text_document, on_did_change_text_document,
                                                                on_did_close_document
      crates/emmylua_ls/src/context/workspace_manager.rs        sync_open_file, close_open_file, is_workspace_file
      crates/emmylua_code_analysis/src/lib.rs, vfs/mod.rs        update_file_by_uri, remove_file_by_uri, get_file_id

    The sync/async split comes from the generated file Gen/C27_Notify.v.

    State: per uri the editor text held by the workspace manager ([open_file_texts]) and the text
    held by the analysis (vfs file content).  A handler is a short program; each of its steps is
    one lock-protected section of the Rust function (the locks make the section atomic), and
    between two steps any other task may run.  The main loop executes the program of an inline
    (sync) notification to its end before it dequeues the next message; a spawned (async)
    notification's program becomes a task.  A schedule is a list of labels (main loop / k-th task). *)
From Coq Require Import List NArith Bool String.
Import ListNotations.
From EV Require Import Base.LTS Gen.C27_Notify.
Local Open Scope string_scope.
Local Open Scope list_scope.

Definition uri := N.
Definition txt := N.     (* texts are compared for equality only *)

(** static facts about a uri *)
Record env := {
  is_ws : uri -> bool;     (* WorkspaceManager::is_workspace_file *)
  on_disk : uri -> bool;   (* uri_to_file_path(uri).exists() *)
  is_mod : uri -> bool;    (* the module index has an entry for the file *)
  disk_text : uri -> option N   (* read_file_with_encoding(path): the content on disk, if readable *)
}.

Record docs := {
  d_open : uri -> option txt;   (* WorkspaceManager::open_file_texts *)
  d_vfs : uri -> option txt     (* Vfs file content = the text being analysed *)
}.

Definition upd (f : uri -> option txt) (u : uri) (v : option txt) : uri -> option txt :=
  fun x => if N.eqb x u then v else f x.
Definition set_open (u : uri) (v : option txt) (d : docs) : docs :=
  {| d_open := upd (d_open d) u v; d_vfs := d_vfs d |}.
Definition set_vfs (u : uri) (v : option txt) (d : docs) : docs :=
  {| d_open := d_open d; d_vfs := upd (d_vfs d) u v |}.
Definition is_some {A} (o : option A) : bool := match o with Some _ => true | None => false end.

Inductive notif :=
| NOpen (u : uri) (t : txt)
| NChange (u : uri) (t : option txt)  (* [None]: empty contentChanges — the handler returns at once *)
| NClose (u : uri)
| NOther (sync : bool) (k : nat).     (* any other notification: inline or spawned, k steps, none of
                                         which touches a document text (didSave, setTrace, …) *)

Inductive kind := KOpen | KChange | KClose.

(** program counters of the handlers *)
Inductive pc :=
| POC1 (u : uri) (t : txt)               (* open/change: analysis.read  -> should_process *)
| POC2 (u : uri) (t : txt) (sp : bool)   (* workspace_manager.write -> sync_open_file; return if !should_process *)
| POC3 (u : uri) (t : txt)               (* analysis.write -> update_file_by_uri(uri, Some(text)) *)
| PCL1 (u : uri)                         (* close: workspace_manager.write -> close_open_file *)
| PCL2 (u : uri)                         (* file gone from disk: analysis.write -> remove_file_by_uri;
                                            else analysis.read: unknown -> return; not a module -> PCL3;
                                            a module: compare the analysed text with the file on disk *)
| PCL3 (u : uri)                         (* analysis.write -> remove_file_by_uri *)
| PCL4 (u : uri) (t : txt)               (* analysis.write -> update_file_by_uri(uri, Some(disk_text)) *)
| PNop (k : nat).

(** one lock-protected section *)
Definition exec (e : env) (p : pc) (d : docs) : docs * option pc :=
  match p with
  | POC1 u t => (d, Some (POC2 u t (is_some (d_vfs d u) || is_ws e u)))
  | POC2 u t sp => (set_open u (Some t) d, if sp then Some (POC3 u t) else None)
  | POC3 u t => (set_vfs u (Some t) d, None)
  | PCL1 u => (set_open u None d, Some (PCL2 u))
  | PCL2 u => if negb (on_disk e u) then (set_vfs u None d, None)
              else (d, match d_vfs d u with
                       | None => None                          (* get_file_id(uri)? *)
                       | Some cur =>
                           if negb (is_mod e u) then Some (PCL3 u)
                           else match disk_text e u with
                                | Some t => if N.eqb cur t then None else Some (PCL4 u t)
                                | None => None
                                end
                       end)
  | PCL3 u => (set_vfs u None d, None)
  | PCL4 u t => (set_vfs u (Some t) d, None)
  | PNop k => (d, match k with O => None | S k' => Some (PNop k') end)
  end.

Definition pc_size (p : pc) : nat :=
  match p with
  | POC1 _ _ => 3 | POC2 _ _ _ => 2 | POC3 _ _ => 1
  | PCL1 _ => 3 | PCL2 _ => 2 | PCL3 _ => 1 | PCL4 _ _ => 1
  | PNop k => S k
  end.

(** run a handler program to its end without interruption *)
Fixpoint finish (n : nat) (e : env) (p : pc) (d : docs) : docs :=
  match n with
  | O => d
  | S n' => match exec e p d with
            | (d', None) => d'
            | (d', Some q) => finish n' e q d'
            end
  end.
Definition fin (e : env) (p : pc) (d : docs) : docs := finish (pc_size p) e p d.

Definition first_pc (n : notif) : option pc :=
  match n with
  | NOpen u t => Some (POC1 u t)
  | NChange u (Some t) => Some (POC1 u t)
  | NChange _ None => None
  | NClose u => Some (PCL1 u)
  | NOther _ k => Some (PNop k)
  end.

(** the message-order semantics: every handler runs to its end before the next starts *)
Definition apply_notif (e : env) (d : docs) (n : notif) : docs :=
  match first_pc n with Some p => fin e p d | None => d end.
Definition apply_all (e : env) (ns : list notif) (d : docs) : docs := fold_left (apply_notif e) ns d.

(** which handlers are awaited inline *)
Definition table := kind -> bool.
Definition method_of (k : kind) : string :=
  match k with
  | KOpen => "textDocument/didOpen"
  | KChange => "textDocument/didChange"
  | KClose => "textDocument/didClose"
  end.
Definition today : table := fun k => existsb (String.eqb (method_of k)) sync_notifications.

Definition inline_of (tb : table) (n : notif) : bool :=
  match n with
  | NOpen _ _ => tb KOpen
  | NChange _ _ => tb KChange
  | NClose _ => tb KClose
  | NOther sync _ => sync
  end.

Record state := {
  s_docs : docs;
  s_input : list notif;      (* notifications not dequeued yet *)
  s_main : option pc;        (* the inline handler the main loop is executing *)
  s_tasks : list pc          (* spawned handler tasks *)
}.

Definition init (d0 : docs) (ns : list notif) : state :=
  {| s_docs := d0; s_input := ns; s_main := None; s_tasks := [] |}.

Inductive label := LMain | LTask (k : nat).

Fixpoint remove_nth {A} (k : nat) (l : list A) : list A :=
  match l with
  | [] => []
  | x :: r => match k with O => r | S k' => x :: remove_nth k' r end
  end.
Fixpoint replace_nth {A} (k : nat) (y : A) (l : list A) : list A :=
  match l with
  | [] => []
  | x :: r => match k with O => y :: r | S k' => x :: replace_nth k' y r end
  end.

Definition step (e : env) (tb : table) (l : label) (s : state) : option state :=
  match l with
  | LMain =>
      match s_main s with
      | Some p =>
          let (d', p') := exec e p (s_docs s) in
          Some {| s_docs := d'; s_input := s_input s; s_main := p'; s_tasks := s_tasks s |}
      | None =>
          match s_input s with
          | [] => None
          | n :: r =>
              Some match first_pc n with
                   | None => {| s_docs := s_docs s; s_input := r; s_main := None; s_tasks := s_tasks s |}
                   | Some p =>
                       if inline_of tb n
                       then {| s_docs := s_docs s; s_input := r; s_main := Some p; s_tasks := s_tasks s |}
                       else {| s_docs := s_docs s; s_input := r; s_main := None; s_tasks := s_tasks s ++ [p] |}
                   end
          end
      end
  | LTask k =>
      match nth_error (s_tasks s) k with
      | None => None
      | Some p =>
          let (d', p') := exec e p (s_docs s) in
          Some {| s_docs := d'; s_input := s_input s; s_main := s_main s;
                  s_tasks := match p' with
                             | Some q => replace_nth k q (s_tasks s)
                             | None => remove_nth k (s_tasks s)
                             end |}
      end
  end.

Definition quiescentb (s : state) : bool :=
  match s_main s, s_input s, s_tasks s with
  | None, [], [] => true
  | _, _, _ => false
  end.

(** ------------------------------------------------------------------ "last notification" *)
Inductive last_about := LNone | LText (t : txt) | LClosed.

Definition about (u : uri) (n : notif) : last_about :=
  match n with
  | NOpen v t => if N.eqb v u then LText t else LNone
  | NChange v (Some t) => if N.eqb v u then LText t else LNone
  | NClose v => if N.eqb v u then LClosed else LNone
  | _ => LNone
  end.

(** the last notification (in message order) that concerns [u] *)
Fixpoint last_of (u : uri) (ns : list notif) (acc : last_about) : last_about :=
  match ns with
  | [] => acc
  | n :: r => last_of u r (match about u n with LNone => acc | x => x end)
  end.

Definition all_inline (tb : table) : bool := tb KOpen && tb KChange && tb KClose.

Definition empty_docs : docs := {| d_open := fun _ => None; d_vfs := fun _ => None |}.
