(** C26/Corr.v — (a) correspondence of the encoder model with the real [SemanticBuilder] (through the hook
    emmylua_ls::verif_semantic_push_and_build); (b) the verified checker applied to the results the real server
    returned for one document. *)
From EV Require Import C26.Model.
Local Open Scope N_scope.

(* ---- (a) encoder correspondence *)
Record bcase := {
  bc_text : text;
  bc_ml : bool;
  bc_pushes : list (N * N * N * N);
  bc_out : res (list (N * N * N * N * N))
}.

Definition t5_eqb (a b : N * N * N * N * N) : bool :=
  let '(a1, a2, a3, a4, a5) := a in let '(b1, b2, b3, b4, b5) := b in
  (a1 =? b1) && (a2 =? b2) && (a3 =? b3) && (a4 =? b4) && (a5 =? b5).

Fixpoint list_eqb {A} (eqb : A -> A -> bool) (x y : list A) : bool :=
  match x, y with
  | [], [] => true
  | a :: x', b :: y' => eqb a b && list_eqb eqb x' y'
  | _, _ => false
  end.

Definition check_bcase (c : bcase) : bool :=
  match push_and_build (bc_ml c) (bc_text c) (bc_pushes c), bc_out c with
  | Val m, Val o => list_eqb t5_eqb m o
  | Panic, Panic => true
  | Nothing, Nothing => true
  | _, _ => false
  end.

(* ---- (b) the checker on observed results *)
Record case := {
  c_text : text;
  c_legend : N * N;                       (* number of token types / modifiers advertised *)
  c_tokens_sl : list N;                   (* semanticTokens/full data, client without multilineTokenSupport *)
  c_tokens_ml : list N;                   (* ... with multilineTokenSupport *)
  c_symbols : list sym;
  c_folds : list fold;
  c_selections : list (list range);       (* innermost first *)
  c_completions : list (pos * list range);
  c_edit_sets : list (list range);        (* edits for this file of each workspace edit *)
  c_sel_model : list (list (N * N) * list range);
                                          (* selection chain correspondence: candidate offset ranges (token, then
                                             ancestors) the handler feeds to push_growing_range, and the chain
                                             the real server answered *)
  c_ranges : list range                   (* EVERY range / position any result returned for this document *)
}.

(** the selection-range handler on the model: growing chain of the candidates, converted with [to_lsp_range] *)
Fixpoint lsp_chain (t : text) (c : list (N * N)) : option (list range) :=
  match c with
  | [] => Some []
  | (a, b) :: r =>
      match to_lsp_range (parse t) t a b, lsp_chain t r with
      | Val pq, Some l => Some (pq :: l)
      | _, _ => None
      end
  end.

Definition check_sel_model (c : case) : bool :=
  forallb (fun '(cands, chain) =>
             match lsp_chain (c_text c) (growing_chain cands) with
             | Some m => list_eqb range_eqb m chain
             | None => false
             end) (c_sel_model c).

(** generic part of the property: every returned range lies inside the document with start <= end — except the
    named known class (open finding): the whole-document range of [get_document_lsp_range] *)
Definition range_ok_or_known (t : text) (lens : list N) (r : range) : bool :=
  range_in_doc lens r || range_eqb r (document_lsp_range t).
Definition check_ranges (c : case) : bool :=
  forallb (range_ok_or_known (c_text c) (line_lens (c_text c))) (c_ranges c).

Definition check_tokens (c : case) : bool :=
  let lens := line_lens (c_text c) in
  tokens_ok lens (fst (c_legend c)) (snd (c_legend c)) false (c_tokens_sl c)
  && tokens_ok lens (fst (c_legend c)) (snd (c_legend c)) true (c_tokens_ml c).
Definition check_symbols (c : case) : bool := symbols_ok (line_lens (c_text c)) (c_symbols c).
Definition check_folds (c : case) : bool := folds_ok (line_lens (c_text c)) (c_folds c).
Definition check_selections (c : case) : bool := forallb (chain_ok (line_lens (c_text c))) (c_selections c).
Definition check_completions (c : case) : bool :=
  let lens := line_lens (c_text c) in
  forallb (fun '(cur, es) => forallb (completion_edit_ok lens cur) es) (c_completions c).
Definition check_edits (c : case) : bool := forallb (edits_ok (line_lens (c_text c))) (c_edit_sets c).

Definition check_case (c : case) : bool :=
  check_tokens c && check_symbols c && check_folds c && check_selections c && check_completions c && check_edits c
  && check_sel_model c && check_ranges c.

(** which parts fail: 1 tokens, 2 symbols, 3 folds, 4 selections, 5 completions, 6 edits, 7 selection model, 8 ranges *)
Definition failing_parts (c : case) : list N :=
  (if check_tokens c then [] else [1]) ++ (if check_symbols c then [] else [2]) ++ (if check_folds c then [] else [3])
  ++ (if check_selections c then [] else [4]) ++ (if check_completions c then [] else [5]) ++ (if check_edits c then [] else [6])
  ++ (if check_sel_model c then [] else [7]) ++ (if check_ranges c then [] else [8]).
