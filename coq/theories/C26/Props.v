(** C26/Props.v — property theorems only.  Each is closed by [exact] of a lemma of Proofs.v.

    PROVED about the code (all inputs): the semantic-token encoder [SemanticBuilder::build] and the selection-range
    chain builder.  For document symbols, folding ranges, completion edits and workspace edits the theorems
    below give the MEANING of the executable validity predicates that the check runs on the real server's
    results: that is a verified checker, not a proof that the handlers always produce valid results. *)
From EV Require Import C26.Model C26.Proofs.
Local Open Scope N_scope.

(** Whatever tokens the handlers push, a client that decodes the emitted deltas reads exactly the sorted and
    flattened token list: the delta encoding loses nothing. *)
Theorem decode_build : forall (data : list tok), decode 0 0 (build data) = flatten (sort data).
Proof. exact Proofs.decode_build. Qed.

(** Whatever tokens the handlers push (overlapping, nested, duplicated, empty), the decoded stream is strictly
    ordered, its tokens never overlap, and none is empty. *)
Theorem build_ordered_no_overlap : forall (data : list tok),
  no_overlap (decode 0 0 (build data)) /\ Forall (fun t => 0 < t_len t) (decode 0 0 (build data)).
Proof. exact Proofs.build_no_overlap. Qed.

(** If the pushed tokens are already non-empty and pairwise disjoint, the client reads exactly those tokens,
    sorted: the overlap repair changes nothing on a well-formed stream. *)
Theorem build_disjoint_input : forall (data : list tok),
  NoDup data ->
  (forall a b, In a data -> In b data -> a <> b -> disjoint a b) ->
  (forall a, In a data -> 0 < t_len a) ->
  decode 0 0 (build data) = sort data.
Proof. exact Proofs.build_disjoint_input. Qed.

(** De-duplicating by start position and sorting alone (what [build] did before the fix) is NOT enough: a long
    token followed by one that starts inside it survives as an overlap.  The real handlers produced this
    (doc comments, multi-line split pieces); replayed on the server before commit "fix: semantic tokens never
    overlap". *)
Theorem overlap_possible_refuted : exists (data : list tok),
  NoDup (map (fun t => (t_line t, t_col t)) data) /\ ~ no_overlap (sort data).
Proof. exact Proofs.overlap_possible_refuted. Qed.

(** The selection-range chain built by [push_growing_range] from ANY sequence of candidate ranges strictly grows
    outward: each range contains the previous one and differs from it. *)
Theorem selection_chain_strict : forall (rs : list (N * N)), strict_chain_off (growing_chain rs).
Proof. exact Proofs.growing_chain_strict. Qed.

(** Meaning of the validity predicates (the verified checker). *)
Theorem symbols_nested_spec : forall (lens : list N) (l : list sym),
  symbols_ok lens l = true <-> Forall (Nested lens None) l.
Proof. exact Proofs.symbols_nested_spec. Qed.

Theorem folds_valid_spec : forall (lens : list N) (l : list fold),
  folds_ok lens l = true <-> Forall (FoldValid lens) l.
Proof. exact Proofs.folds_valid_spec. Qed.

Theorem selection_strictly_growing_spec : forall (lens : list N) (c : list range),
  chain_ok lens c = true <-> Forall (RangeInDoc lens) c /\ StrictChain c.
Proof. exact Proofs.selection_strictly_growing_spec. Qed.

Theorem completion_edit_spec : forall (lens : list N) (cursor : pos) (r : range),
  completion_edit_ok lens cursor r = true <->
  RangeInDoc lens r /\ fst (fst r) = fst (snd r) /\ PosLe (fst r) cursor /\ PosLe cursor (snd r).
Proof. exact Proofs.completion_edit_spec. Qed.

Theorem edits_disjoint_spec : forall (lens : list N) (es : list range),
  edits_ok lens es = true <-> Forall (RangeInDoc lens) es /\ ForallOrdPairs NoOverlap es.
Proof. exact Proofs.edits_disjoint_spec. Qed.

Theorem tokens_valid_spec : forall (lens : list N) (ntypes nmods : N) (ml : bool) (data : list N),
  tokens_ok lens ntypes nmods ml data = true <->
  exists g, group5 data = Some g /\ TokensValid lens ntypes nmods ml None (decode 0 0 g).
Proof. exact Proofs.tokens_valid_spec. Qed.

(** OPEN FINDING (recorded, not repaired: a unit test pins the convention).  The "whole document" range of
    [LuaDocument::get_document_lsp_range] — returned by formatting, incoming calls of a chunk-level caller,
    goto-definition of a module file — is NEVER inside its document: its end line does not exist. *)
Theorem document_lsp_range_refuted : forall (t : text), range_in_doc (line_lens t) (document_lsp_range t) = false.
Proof. exact Proofs.document_lsp_range_refuted. Qed.

(** The generic walk over ALL result kinds (verified checker): every observed range or position lies inside the
    document with start <= end — the full statement minus the one named known class above. *)
Theorem ranges_checked_spec : forall (t : text) (rs : list range),
  forallb (fun r => range_in_doc (line_lens t) r || range_eqb r (document_lsp_range t)) rs = true <->
  Forall (fun r => RangeInDoc (line_lens t) r \/ r = document_lsp_range t) rs.
Proof. exact Proofs.ranges_checked_spec. Qed.

(** non-vacuity: a comment token with a nested tag and a same-start duplicate is split around the inner token;
    the checkers accept a valid and reject an invalid instance of every kind *)
Example build_example :
  decode 0 0 (build [mk 0 0 20 17 0; mk 0 10 4 15 0; mk 0 0 3 21 0; mk 2 5 0 1 0; mk 1 2 3 8 1])
  = [mk 0 0 3 21 0; mk 0 3 7 17 0; mk 0 10 4 15 0; mk 0 14 6 17 0; mk 1 2 3 8 1]
  /\ growing_chain [(4, 6); (4, 6); (2, 9); (3, 5); (0, 20)] = [(4, 6); (2, 9); (0, 20)]
  /\ (let lens := line_lens [97; 128512; 98; 13; 10; 99; 100; 10] in
      lens = [5; 2; 0]
      /\ symbols_ok lens [Sym ((0, 0), (1, 2)) ((0, 1), (0, 3)) [Sym ((1, 0), (1, 2)) ((1, 0), (1, 1)) []]] = true
      /\ symbols_ok lens [Sym ((0, 0), (0, 3)) ((0, 1), (0, 3)) [Sym ((1, 0), (1, 2)) ((1, 0), (1, 1)) []]] = false
      /\ folds_ok lens [(0, None, 1, None)] = true /\ folds_ok lens [(1, None, 0, None)] = false
      /\ folds_ok lens [(0, None, 3, None)] = false
      /\ chain_ok lens [((0, 1), (0, 2)); ((0, 0), (0, 4)); ((0, 0), (1, 2))] = true
      /\ chain_ok lens [((0, 1), (0, 2)); ((0, 1), (0, 2))] = false
      /\ completion_edit_ok lens (0, 2) ((0, 1), (0, 4)) = true /\ completion_edit_ok lens (1, 0) ((0, 1), (1, 1)) = false
      /\ edits_ok lens [((0, 0), (0, 1)); ((0, 1), (0, 1)); ((0, 1), (0, 3)); ((1, 0), (1, 2))] = true
      /\ edits_ok lens [((0, 0), (0, 2)); ((0, 1), (0, 3))] = false
      /\ tokens_ok lens 24 10 false [0; 0; 1; 8; 0; 0; 1; 2; 18; 1; 1; 0; 2; 8; 512] = true
      /\ tokens_ok lens 24 10 false [0; 0; 3; 8; 0; 0; 1; 2; 18; 1] = false
      /\ tokens_ok lens 24 10 false [0; 0; 1; 24; 0] = false
      /\ tokens_ok lens 24 10 false [0; 4; 9999; 8; 0] = false).
Proof. vm_compute. repeat split; reflexivity. Qed.
