(** C26/Proofs.v — lemmas for C26/Props.v *)
From EV Require Import C26.Model.
From Coq Require Import Permutation.
Local Open Scope N_scope.

(* ================================================================ the token encoder *)

(** [gf L p l]: [l] is strictly ordered and non-overlapping, every token is non-empty, and the first one
    starts at or after column [p] of line [L] (or on a later line) *)
Fixpoint gf (L p : N) (l : list tok) : Prop :=
  match l with
  | [] => True
  | a :: r => ((t_line a = L /\ p <= t_col a) \/ L < t_line a) /\ 0 < t_len a /\ gf (t_line a) (tend a) r
  end.

(** [sf L p l]: [l] is sorted by start (line, col), weakly, from (L, p) on *)
Fixpoint sf (L p : N) (l : list tok) : Prop :=
  match l with
  | [] => True
  | a :: r => ((t_line a = L /\ p <= t_col a) \/ L < t_line a) /\ sf (t_line a) (t_col a) r
  end.

(** [seg L p l q]: like [gf] but all on line [L] and ending at or before [q] *)
Fixpoint seg (L p : N) (l : list tok) (q : N) : Prop :=
  match l with
  | [] => p <= q
  | a :: r => t_line a = L /\ p <= t_col a /\ 0 < t_len a /\ seg L (tend a) r q
  end.

Lemma gf_weaken : forall l L1 p1 L2 p2,
  gf L2 p2 l -> (L1 < L2 \/ (L1 = L2 /\ p1 <= p2)) -> gf L1 p1 l.
Proof.
  intros [|a r] L1 p1 L2 p2 H W; cbn [gf] in *; [exact I|].
  destruct H as [H1 [H2 H3]]. split; [|split; assumption]. lia.
Qed.

Lemma sf_weaken : forall l L1 p1 L2 p2,
  sf L2 p2 l -> (L1 < L2 \/ (L1 = L2 /\ p1 <= p2)) -> sf L1 p1 l.
Proof.
  intros [|a r] L1 p1 L2 p2 H W; cbn [sf] in *; [exact I|].
  destruct H as [H1 H2]. split; [|assumption]. lia.
Qed.

Lemma gf_sf : forall l L p, gf L p l -> sf L p l.
Proof.
  induction l as [|a r IH]; intros L p H; cbn [gf sf] in *; [exact I|].
  destruct H as [H1 [H2 H3]]. split; [exact H1|].
  apply IH. eapply gf_weaken; [exact H3|]. right. split; [reflexivity|]. unfold tend. lia.
Qed.

Lemma seg_gf_app : forall em L p q rest L2 p2,
  seg L p em q -> gf L2 p2 rest -> (L < L2 \/ (L = L2 /\ q <= p2)) -> gf L p (em ++ rest).
Proof.
  induction em as [|a r IH]; intros L p q rest L2 p2 S G W; cbn [seg app] in *.
  - eapply gf_weaken; [exact G|]. lia.
  - destruct S as [S1 [S2 [S3 S4]]]. cbn [gf]. split; [left; split; assumption|]. split; [exact S3|].
    rewrite S1. eapply IH; eassumption.
Qed.

Lemma seg_app : forall a L p q b r, seg L p a q -> seg L q b r -> seg L p (a ++ b) r.
Proof.
  induction a as [|x a IH]; intros L p q b r S1 S2; cbn [seg app] in *.
  - destruct b as [|y b]; cbn [seg] in *; [lia|].
    destruct S2 as [E1 [E2 [E3 E4]]]. repeat split; try assumption. lia.
  - destruct S1 as [E1 [E2 [E3 E4]]]. repeat split; try assumption. eapply IH; eassumption.
Qed.

Lemma seg_gf : forall em L p q, seg L p em q -> gf L p em.
Proof.
  intros em L p q S. rewrite <- (app_nil_r em).
  eapply (seg_gf_app em L p q [] L q); [exact S|exact I|]. right. split; [reflexivity|lia].
Qed.

Definition on_line (L : N) (l : list tok) : Prop := Forall (fun t => t_line t = L) l.

Lemma close_spec : forall open pos limit L em o' p',
  on_line L open -> close open pos limit = (em, o', p') ->
  seg L pos em p' /\ on_line L o' /\
  (forall l, limit = Some l -> pos <= l -> p' <= l) /\
  (limit = None -> o' = []).
Proof.
  induction open as [|top rest IH]; intros pos limit L em o' p' HL E; cbn [close] in E.
  - inversion E; subst. cbn [seg]. split; [lia|]. split; [constructor|]. split; [intros; assumption|reflexivity].
  - inversion HL as [|x y Htop Hrest]; subst x y.
    set (e := tend top) in *.
    set (still := match limit with Some l => l <? e | None => false end) in *.
    set (stop := if still then match limit with Some l => l | None => e end else e) in *.
    set (start := N.max (t_col top) pos) in *.
    assert (Hstop : forall l, limit = Some l -> stop <= l).
    { intros l El. subst stop still. rewrite El. destruct (N.ltb_spec l e); lia. }
    revert E. destruct (N.ltb_spec start stop) as [Lt|Ge]; intros E.
    + (* a piece is emitted *)
      destruct still eqn:Es.
      * inversion E; subst em o' p'. cbn [seg mk t_line t_col t_len]. split.
        { split; [exact Htop|]. split; [subst start; lia|]. split; [lia|].
          unfold tend; cbn [t_col t_len mk]. lia. }
        split; [exact HL|]. split.
        { intros l El Hp. apply Hstop. exact El. }
        { intros En. subst still. rewrite En in Es. discriminate. }
      * destruct (close rest stop limit) as [[em1 st] p] eqn:Ec.
        inversion E; subst em o' p'.
        destruct (IH stop limit L em1 st p Hrest Ec) as [I1 [I2 [I3 I4]]].
        cbn [app seg mk t_line t_col t_len]. split.
        { split; [exact Htop|]. split; [subst start; lia|]. split; [lia|].
          unfold tend at 1; cbn [t_col t_len mk].
          replace (start + (stop - start)) with stop by lia. exact I1. }
        split; [exact I2|]. split.
        { intros l El Hp. apply (I3 l El). apply Hstop. exact El. }
        { exact I4. }
    + (* nothing is emitted for [top] *)
      destruct still eqn:Es.
      * inversion E; subst em o' p'. cbn [seg]. split; [lia|]. split; [exact HL|]. split.
        { intros l El Hp. exact Hp. }
        { intros En. subst still. rewrite En in Es. discriminate. }
      * destruct (close rest pos limit) as [[em1 st] p] eqn:Ec.
        inversion E; subst em o' p'. cbn [app].
        exact (IH pos limit L em1 st p Hrest Ec).
Qed.

Lemma sweep_spec : forall input open line pos,
  on_line line open -> sf line pos input -> gf line pos (sweep input open line pos).
Proof.
  induction input as [|tk r IH]; intros open line pos HL HS; cbn [sweep].
  - destruct (close open pos None) as [[em o'] p'] eqn:E.
    destruct (close_spec _ _ _ _ _ _ _ HL E) as [C1 _].
    eapply seg_gf; exact C1.
  - cbn [sf] in HS. destruct HS as [HB HS].
    destruct (N.eqb_spec (t_line tk) line) as [El|Nl].
    + (* same line *)
      assert (pos <= t_col tk) as Hp by (destruct HB as [[_ H]|H]; lia).
      destruct (close open pos (Some (t_col tk))) as [[em o'] p'] eqn:E.
      destruct (close_spec _ _ _ _ _ _ _ HL E) as [C1 [C2 [C3 _]]].
      specialize (C3 _ eq_refl Hp).
      eapply (seg_gf_app em line pos p' _ line p'); [exact C1| |right; split; [reflexivity|lia]].
      apply IH.
      * constructor; [exact El|exact C2].
      * eapply sf_weaken; [exact HS|]. right. split; [symmetry; exact El|exact C3].
    + (* a later line *)
      assert (line < t_line tk) as Hl by (destruct HB as [[H _]|H]; [congruence|exact H]).
      destruct (close open pos None) as [[em1 o1] p1] eqn:E.
      destruct (close_spec _ _ _ _ _ _ _ HL E) as [C1 [_ [_ C4]]]. rewrite (C4 eq_refl). cbn [close app].
      eapply (seg_gf_app em1 line pos p1 _ (t_line tk) 0); [exact C1| |left; exact Hl].
      apply IH.
      * constructor; [reflexivity|constructor].
      * eapply sf_weaken; [exact HS|]. right. split; [reflexivity|lia].
Qed.

Lemma flatten_good : forall l, sf 0 0 l -> gf 0 0 (flatten l).
Proof. intros l H. unfold flatten. apply sweep_spec; [constructor|exact H]. Qed.

(* ---- sorting *)
Fixpoint ks (l : list tok) : Prop :=
  match l with
  | a :: ((b :: _) as r) => kle a b = true /\ ks r
  | _ => True
  end.

Lemma kle_total : forall a b, kle a b = false -> kle b a = true.
Proof.
  intros a b. unfold kle.
  repeat match goal with |- context [?x <? ?y] => destruct (N.ltb_spec x y) end;
  repeat match goal with |- context [?x <=? ?y] => destruct (N.leb_spec x y) end;
  try discriminate; try reflexivity; try lia.
Qed.

Lemma kle_start : forall a b, kle a b = true ->
  t_line a < t_line b \/ (t_line a = t_line b /\ t_col a <= t_col b).
Proof.
  intros a b. unfold kle.
  destruct (N.ltb_spec (t_line a) (t_line b)); [intros; lia|].
  destruct (N.ltb_spec (t_line b) (t_line a)); [discriminate|].
  destruct (N.ltb_spec (t_col a) (t_col b)); [intros; lia|].
  destruct (N.ltb_spec (t_col b) (t_col a)); [discriminate|].
  intros _. lia.
Qed.

Lemma insert_ks : forall x l, ks l -> ks (insert x l).
Proof.
  intros x l. induction l as [|y r IH]; intros H; cbn [insert].
  - exact I.
  - destruct (kle x y) eqn:E.
    + cbn [ks]. split; assumption.
    + destruct r as [|z r'].
      * cbn [insert ks]. split; [apply kle_total; exact E|exact I].
      * cbn [ks] in H. destruct H as [H1 H2]. specialize (IH H2).
        cbn [insert] in *. destruct (kle x z) eqn:E2.
        -- cbn [ks]. split; [apply kle_total; exact E|]. exact IH.
        -- cbn [ks]. split; [exact H1|]. exact IH.
Qed.

Lemma sort_ks : forall l, ks (sort l).
Proof. induction l as [|x r IH]; cbn [sort]; [exact I|apply insert_ks; exact IH]. Qed.

Lemma insert_perm : forall x l, Permutation (insert x l) (x :: l).
Proof.
  intros x l. induction l as [|y r IH]; cbn [insert]; [apply Permutation_refl|].
  destruct (kle x y); [apply Permutation_refl|].
  eapply Permutation_trans; [apply perm_skip; exact IH|apply perm_swap].
Qed.

Lemma sort_perm : forall l, Permutation (sort l) l.
Proof.
  induction l as [|x r IH]; cbn [sort]; [apply Permutation_refl|].
  eapply Permutation_trans; [apply insert_perm|apply perm_skip; exact IH].
Qed.

Lemma ks_sf_tail : forall r a, ks (a :: r) -> sf (t_line a) (t_col a) r.
Proof.
  induction r as [|b r IH]; intros a H; cbn [sf]; [exact I|].
  cbn [ks] in H. destruct H as [H1 H2]. split.
  - apply kle_start in H1. lia.
  - apply IH. exact H2.
Qed.

Lemma ks_sf : forall l, ks l -> sf 0 0 l.
Proof.
  intros [|a r] H; cbn [sf]; [exact I|]. split; [lia|]. apply ks_sf_tail. exact H.
Qed.

(* ---- delta encoding *)
Lemma decode_encode : forall l L p, sf L p l -> decode L p (encode L p l) = l.
Proof.
  induction l as [|a r IH]; intros L p H; cbn [encode decode]; [reflexivity|].
  cbn [sf] in H. destruct H as [HB HS].
  rewrite (IH _ _ HS) || idtac.
  assert (L + (t_line a - L) = t_line a) as E1 by lia.
  rewrite E1.
  destruct (N.eqb_spec (t_line a - L) 0) as [Z|NZ].
  - assert (t_line a = L) as EL by lia.
    assert (p <= t_col a) as HP by (destruct HB as [[_ H]|H]; lia).
    replace (p + (t_col a - p)) with (t_col a) by lia.
    f_equal; [destruct a; reflexivity|]. apply IH. exact HS.
  - replace (t_col a - 0) with (t_col a) by lia.
    f_equal; [destruct a; reflexivity|]. apply IH. exact HS.
Qed.

(* ---- the readable no-overlap statement *)
Fixpoint no_overlap (l : list tok) : Prop :=
  match l with
  | a :: ((b :: _) as r) => (t_line a < t_line b \/ (t_line a = t_line b /\ tend a <= t_col b)) /\ no_overlap r
  | _ => True
  end.

Lemma gf_no_overlap : forall l L p, gf L p l -> no_overlap l /\ Forall (fun t => 0 < t_len t) l.
Proof.
  induction l as [|a r IH]; intros L p H; [split; [exact I|constructor]|].
  cbn [gf] in H. destruct H as [H1 [H2 H3]]. destruct (IH _ _ H3) as [N1 N2].
  split; [|constructor; assumption].
  destruct r as [|b r']; [exact I|]. cbn [no_overlap]. split; [|exact N1].
  cbn [gf] in H3. destruct H3 as [H4 _]. lia.
Qed.

(* ---- flatten changes nothing on a well-formed stream *)
Lemma mk_eta : forall a, mk (t_line a) (t_col a) (t_len a) (t_typ a) (t_mod a) = a.
Proof. intros []; reflexivity. Qed.

Lemma close_single : forall a pos limit,
  pos <= t_col a -> 0 < t_len a ->
  match limit with Some l => tend a <= l | None => True end ->
  close [a] pos limit = ([a], [], tend a).
Proof.
  intros a pos limit Hp Hn Hl. cbn [close].
  assert ((match limit with Some l => l <? tend a | None => false end) = false) as Es.
  { destruct limit as [l|]; [|reflexivity]. destruct (N.ltb_spec l (tend a)); [lia|reflexivity]. }
  rewrite Es.
  replace (N.max (t_col a) pos) with (t_col a) by lia.
  assert (t_col a <? tend a = true) as Elt by (apply N.ltb_lt; unfold tend; lia).
  rewrite Elt. cbn [app].
  replace (tend a - t_col a) with (t_len a) by (unfold tend; lia).
  rewrite mk_eta. reflexivity.
Qed.

Lemma sweep_id : forall input a pos,
  pos <= t_col a -> 0 < t_len a -> gf (t_line a) (tend a) input ->
  sweep input [a] (t_line a) pos = a :: input.
Proof.
  induction input as [|b r IH]; intros a pos Hp Hn G; cbn [sweep].
  - rewrite (close_single a pos None Hp Hn I). reflexivity.
  - cbn [gf] in G. destruct G as [G1 [G2 G3]].
    destruct (N.eqb_spec (t_line b) (t_line a)) as [El|Nl].
    + assert (tend a <= t_col b) as Hb by (destruct G1 as [[_ H]|H]; lia).
      rewrite (close_single a pos (Some (t_col b)) Hp Hn Hb). cbn [app].
      f_equal. rewrite <- El. apply IH; [exact Hb|exact G2|exact G3].
    + rewrite (close_single a pos None Hp Hn I). cbn [close app].
      f_equal. apply IH; [lia|exact G2|exact G3].
Qed.

Lemma flatten_id : forall l, gf 0 0 l -> flatten l = l.
Proof.
  intros [|a r] G; [reflexivity|].
  cbn [gf] in G. destruct G as [G1 [G2 G3]].
  unfold flatten. cbn [sweep].
  destruct (N.eqb_spec (t_line a) 0) as [Z|NZ]; cbn [close app].
  - rewrite <- Z. apply sweep_id; [lia|exact G2|exact G3].
  - apply sweep_id; [lia|exact G2|exact G3].
Qed.

(* ---- the theorems about [build] *)
Lemma decode_build : forall data, decode 0 0 (build data) = flatten (sort data).
Proof.
  intros data. unfold build. apply decode_encode. apply gf_sf.
  apply flatten_good. apply ks_sf. apply sort_ks.
Qed.

Lemma build_no_overlap : forall data,
  no_overlap (decode 0 0 (build data)) /\ Forall (fun t => 0 < t_len t) (decode 0 0 (build data)).
Proof.
  intros data. rewrite decode_build. eapply gf_no_overlap.
  apply flatten_good. apply ks_sf. apply sort_ks.
Qed.

Definition disjoint (a b : tok) : Prop :=
  t_line a <> t_line b \/ tend a <= t_col b \/ tend b <= t_col a.

Lemma ks_disjoint_gf : forall l,
  ks l -> NoDup l ->
  (forall a b, In a l -> In b l -> a <> b -> disjoint a b) ->
  (forall a, In a l -> 0 < t_len a) ->
  forall L p, match l with [] => True | a :: _ => (t_line a = L /\ p <= t_col a) \/ L < t_line a end ->
  gf L p l.
Proof.
  induction l as [|a r IH]; intros K ND D P L p HB; cbn [gf]; [exact I|].
  split; [exact HB|]. split; [apply P; left; reflexivity|].
  inversion ND as [|x y Hnin ND']; subst x y.
  apply IH.
  - destruct r as [|b r']; [exact I|]. cbn [ks] in K. destruct K as [_ K]. exact K.
  - exact ND'.
  - intros x y Hx Hy. apply D; right; assumption.
  - intros x Hx. apply P. right. exact Hx.
  - destruct r as [|b r']; [exact I|].
    cbn [ks] in K. destruct K as [K1 _]. apply kle_start in K1.
    assert (a <> b) as Hab by (intros ->; apply Hnin; left; reflexivity).
    pose proof (D a b (or_introl eq_refl) (or_intror (or_introl eq_refl)) Hab) as Dab.
    pose proof (P b (or_intror (or_introl eq_refl))) as Pb.
    unfold disjoint, tend in *. lia.
Qed.

Lemma build_disjoint_input : forall data,
  NoDup data ->
  (forall a b, In a data -> In b data -> a <> b -> disjoint a b) ->
  (forall a, In a data -> 0 < t_len a) ->
  decode 0 0 (build data) = sort data.
Proof.
  intros data ND D P. rewrite decode_build. apply flatten_id.
  pose proof (sort_perm data) as PM.
  apply ks_disjoint_gf.
  - apply sort_ks.
  - eapply Permutation_NoDup; [apply Permutation_sym; exact PM|exact ND].
  - intros a b Ha Hb. apply D; eapply Permutation_in; eassumption.
  - intros a Ha. apply P. eapply Permutation_in; eassumption.
  - destruct (sort data); [exact I|]. lia.
Qed.

(** de-duplication by start offset plus sorting alone (the code before the fix) does not prevent overlap:
    a long token and a token starting inside it *)
Lemma overlap_possible_refuted : exists data,
  NoDup (map (fun t => (t_line t, t_col t)) data) /\ ~ no_overlap (sort data).
Proof.
  exists [mk 0 0 20 17 0; mk 0 10 4 15 0]. split.
  - cbn. constructor; [intros [H|[]]; discriminate|]. constructor; [intros []|constructor].
  - cbn. intros [[H|[_ H]] _]; unfold tend in H; cbn in H; lia.
Qed.

(* ================================================================ selection ranges *)
Fixpoint strict_chain_off (c : list (N * N)) : Prop :=
  match c with
  | a :: ((b :: _) as r) => (rcontains b a = true /\ a <> b) /\ strict_chain_off r
  | _ => True
  end.

(** [acc] (outermost first) read backwards is a strict chain *)
Fixpoint strict_rev (acc : list (N * N)) : Prop :=
  match acc with
  | b :: ((a :: _) as r) => (rcontains b a = true /\ a <> b) /\ strict_rev r
  | _ => True
  end.

Lemma req_false_neq : forall a b : N * N, req a b = false -> a <> b.
Proof.
  intros [a1 a2] [b1 b2] H E. inversion E; subst. unfold req in H. cbn in H.
  rewrite !N.eqb_refl in H. discriminate.
Qed.

Lemma push_growing_strict : forall acc r, strict_rev acc -> strict_rev (push_growing acc r).
Proof.
  intros [|l acc] r H; cbn [push_growing]; [exact I|].
  destruct (req r l) eqn:E1; cbn [orb]; [exact H|].
  destruct (rcontains r l) eqn:E2; cbn [negb]; [|exact H].
  cbn [strict_rev]. split; [|exact H]. split; [exact E2|].
  intros E. apply (req_false_neq _ _ E1). symmetry. exact E.
Qed.

Lemma fold_push_strict : forall rs acc, strict_rev acc -> strict_rev (fold_left push_growing rs acc).
Proof.
  induction rs as [|r rs IH]; intros acc H; cbn [fold_left]; [exact H|].
  apply IH. apply push_growing_strict. exact H.
Qed.

Lemma strict_rev_snoc : forall acc x y,
  strict_chain_off (rev acc ++ [x]) -> rcontains y x = true /\ x <> y ->
  strict_chain_off ((rev acc ++ [x]) ++ [y]).
Proof.
  intros acc x y. generalize (rev acc). intros l. induction l as [|a l IH]; intros H C.
  - cbn. split; [exact C|exact I].
  - destruct l as [|b l'].
    + cbn in *. destruct H as [H1 _]. split; [exact H1|]. split; [exact C|exact I].
    + cbn [app] in *. cbn [strict_chain_off] in *. destruct H as [H1 H2].
      split; [exact H1|]. apply IH; assumption.
Qed.

Lemma strict_rev_chain : forall acc, strict_rev acc -> strict_chain_off (rev acc).
Proof.
  induction acc as [|b acc IH]; intros H; [exact I|].
  destruct acc as [|a acc'].
  - exact I.
  - cbn [strict_rev] in H. destruct H as [H1 H2]. specialize (IH H2).
    cbn [rev] in *. apply strict_rev_snoc; assumption.
Qed.

Lemma growing_chain_strict : forall rs, strict_chain_off (growing_chain rs).
Proof.
  intros rs. unfold growing_chain. apply strict_rev_chain. apply fold_push_strict. exact I.
Qed.

(* ================================================================ meaning of the validity predicates *)
Definition PosLe (p q : pos) : Prop := fst p < fst q \/ (fst p = fst q /\ snd p <= snd q).
Definition InDoc (lens : list N) (p : pos) : Prop :=
  exists n, nth_error lens (N.to_nat (fst p)) = Some n /\ snd p <= n.
Definition RangeInDoc (lens : list N) (r : range) : Prop :=
  InDoc lens (fst r) /\ InDoc lens (snd r) /\ PosLe (fst r) (snd r).
Definition Contains (outer inner : range) : Prop :=
  PosLe (fst outer) (fst inner) /\ PosLe (snd inner) (snd outer).

Lemma pos_leb_spec : forall p q, pos_leb p q = true <-> PosLe p q.
Proof.
  intros p q. unfold pos_leb, PosLe.
  destruct (N.ltb_spec (fst p) (fst q)); destruct (N.eqb_spec (fst p) (fst q));
  destruct (N.leb_spec (snd p) (snd q)); cbn; split; intros HH; try reflexivity; try discriminate; try lia.
Qed.

Lemma nth_len_spec : forall lens i, nth_len lens i = nth_error lens (N.to_nat i).
Proof.
  intros lens i. unfold nth_len.
  destruct (N.leb_spec (N.of_nat (length lens)) i) as [H|H]; [|reflexivity].
  symmetry. apply nth_error_None. lia.
Qed.

Lemma pos_in_doc_spec : forall lens p, pos_in_doc lens p = true <-> InDoc lens p.
Proof.
  intros lens p. unfold pos_in_doc, InDoc. rewrite nth_len_spec.
  destruct (nth_error lens (N.to_nat (fst p))) as [n|].
  - destruct (N.leb_spec (snd p) n) as [Le|Gt]; split; intros HH.
    + exists n. split; [reflexivity|assumption].
    + reflexivity.
    + discriminate.
    + destruct HH as [m [E L]]. inversion E; subst. lia.
  - split; [discriminate|]. intros [m [E _]]. discriminate.
Qed.

Lemma range_in_doc_spec : forall lens r, range_in_doc lens r = true <-> RangeInDoc lens r.
Proof.
  intros lens r. unfold range_in_doc, RangeInDoc.
  rewrite !andb_true_iff, !pos_in_doc_spec, pos_leb_spec. tauto.
Qed.

Lemma contains_spec : forall o i, contains o i = true <-> Contains o i.
Proof. intros o i. unfold contains, Contains. rewrite andb_true_iff, !pos_leb_spec. tauto. Qed.

Lemma pos_eqb_spec : forall p q : pos, pos_eqb p q = true <-> p = q.
Proof.
  intros [a b] [c d]. unfold pos_eqb. cbn [fst snd]. rewrite andb_true_iff, !N.eqb_eq.
  split; [intros [-> ->]; reflexivity|intros E; inversion E; split; reflexivity].
Qed.

Lemma range_eqb_spec : forall a b : range, range_eqb a b = true <-> a = b.
Proof.
  intros [a1 a2] [b1 b2]. unfold range_eqb. cbn [fst snd]. rewrite andb_true_iff, !pos_eqb_spec.
  split; [intros [-> ->]; reflexivity|intros E; inversion E; split; reflexivity].
Qed.

(* ---- document symbols *)
Inductive Nested (lens : list N) : option range -> sym -> Prop :=
| Nested_intro : forall parent r sel ch,
    RangeInDoc lens r -> RangeInDoc lens sel -> Contains r sel ->
    (forall p, parent = Some p -> Contains p r) ->
    Forall (Nested lens (Some r)) ch ->
    Nested lens parent (Sym r sel ch).

Lemma symbol_ok_spec : forall lens s parent, symbol_ok lens parent s = true <-> Nested lens parent s.
Proof.
  intros lens. fix IH 1. intros [r sel ch] parent. cbn [symbol_ok].
  rewrite !andb_true_iff, !range_in_doc_spec, contains_spec.
  assert (Hch : (fix all (l : list sym) : bool :=
                   match l with [] => true | c :: k => symbol_ok lens (Some r) c && all k end) ch = true
                <-> Forall (Nested lens (Some r)) ch).
  { induction ch as [|c k IHk].
    - split; [constructor|reflexivity].
    - rewrite andb_true_iff, IHk, (IH c (Some r)). split.
      + intros [A B]. constructor; assumption.
      + intros H. inversion H; subst. split; assumption. }
  rewrite Hch.
  assert (Hp : match parent with Some p => contains p r | None => true end = true
               <-> (forall p, parent = Some p -> Contains p r)).
  { destruct parent as [p|].
    - rewrite contains_spec. split; [intros H q E; inversion E; subst; exact H|intros H; apply H; reflexivity].
    - split; [intros _ q E; discriminate|reflexivity]. }
  rewrite Hp. split.
  - intros [[[[A B] C] D] E]. constructor; assumption.
  - intros H. inversion H; subst. tauto.
Qed.

Lemma symbols_nested_spec : forall lens l,
  symbols_ok lens l = true <-> Forall (Nested lens None) l.
Proof.
  intros lens l. unfold symbols_ok. rewrite forallb_forall, Forall_forall.
  split; intros H x Hx; apply symbol_ok_spec; apply H; exact Hx.
Qed.

(* ---- folding ranges *)
Definition FoldValid (lens : list N) (f : fold) : Prop :=
  let '(sl, sc, el, ec) := f in
  exists ns ne,
    nth_error lens (N.to_nat sl) = Some ns /\ nth_error lens (N.to_nat el) = Some ne /\
    sl <= el /\
    (forall c, sc = Some c -> c <= ns) /\ (forall c, ec = Some c -> c <= ne) /\
    PosLe (sl, match sc with Some c => c | None => 0 end) (el, match ec with Some c => c | None => ne end).

Lemma fold_ok_spec : forall lens f, fold_ok lens f = true <-> FoldValid lens f.
Proof.
  intros lens [[[sl sc] el] ec]. unfold fold_ok, FoldValid. rewrite !nth_len_spec.
  destruct (nth_error lens (N.to_nat sl)) as [ns|]; [|split; [discriminate|intros [a [b [E _]]]; discriminate]].
  destruct (nth_error lens (N.to_nat el)) as [ne|]; [|split; [discriminate|intros [a [b [_ [E _]]]]; discriminate]].
  rewrite !andb_true_iff, !N.leb_le, pos_leb_spec. split.
  - intros [[[A B] C] D]. exists ns, ne. repeat split; try reflexivity; try assumption.
    + intros c ->. exact A.
    + intros c ->. exact B.
  - intros [a [b [E1 [E2 [D [A [B C]]]]]]]. inversion E1; inversion E2; subst a b.
    repeat split; try assumption.
    + destruct sc as [c|]; [apply A; reflexivity|lia].
    + destruct ec as [c|]; [apply B; reflexivity|lia].
Qed.

Lemma folds_valid_spec : forall lens l, folds_ok lens l = true <-> Forall (FoldValid lens) l.
Proof.
  intros lens l. unfold folds_ok. rewrite forallb_forall, Forall_forall.
  split; intros H x Hx; apply fold_ok_spec; apply H; exact Hx.
Qed.

(* ---- selection ranges *)
Fixpoint StrictChain (c : list range) : Prop :=
  match c with
  | a :: ((b :: _) as r) => (Contains b a /\ a <> b) /\ StrictChain r
  | _ => True
  end.

Lemma selection_strictly_growing_spec : forall lens c,
  chain_ok lens c = true <-> Forall (RangeInDoc lens) c /\ StrictChain c.
Proof.
  intros lens. induction c as [|a r IH]; cbn [chain_ok].
  - split; [intros _; split; [constructor|exact I]|reflexivity].
  - rewrite !andb_true_iff, IH, range_in_doc_spec.
    destruct r as [|b r'].
    + split.
      * intros [[A _] [B _]]. split; [constructor; assumption|exact I].
      * intros [A _]. inversion A; subst. split; [split; [assumption|reflexivity]|]. split; [constructor|exact I].
    + rewrite andb_true_iff, contains_spec, negb_true_iff. cbn [StrictChain]. split.
      * intros [[A [B C]] [D E]]. split; [constructor; assumption|]. split; [|exact E].
        split; [exact B|]. intros ->. rewrite (proj2 (range_eqb_spec b b) eq_refl) in C. discriminate.
      * intros [A [[B C] E]]. inversion A as [|x y A1 A2]; subst x y.
        split; [|split; [exact A2|exact E]]. split; [exact A1|]. split; [exact B|].
        destruct (range_eqb a b) eqn:Q; [|reflexivity]. apply range_eqb_spec in Q. contradiction.
Qed.

(* ---- completion edits *)
Lemma completion_edit_spec : forall lens cursor r,
  completion_edit_ok lens cursor r = true <->
  RangeInDoc lens r /\ fst (fst r) = fst (snd r) /\ PosLe (fst r) cursor /\ PosLe cursor (snd r).
Proof.
  intros lens cursor r. unfold completion_edit_ok.
  rewrite !andb_true_iff, range_in_doc_spec, N.eqb_eq, !pos_leb_spec. tauto.
Qed.

(* ---- workspace edits *)
Definition NoOverlap (a b : range) : Prop := PosLe (snd a) (fst b) \/ PosLe (snd b) (fst a).

Lemma edits_disjoint_spec : forall lens es,
  edits_ok lens es = true <-> Forall (RangeInDoc lens) es /\ ForallOrdPairs NoOverlap es.
Proof.
  intros lens. induction es as [|a r IH]; cbn [edits_ok].
  - split; [intros _; split; constructor|reflexivity].
  - rewrite !andb_true_iff, IH, range_in_doc_spec, forallb_forall.
    assert (Hf : (forall x, In x r -> no_overlap_edits a x = true) <-> Forall (NoOverlap a) r).
    { rewrite Forall_forall. unfold no_overlap_edits, NoOverlap.
      split; intros H x Hx; specialize (H x Hx); rewrite orb_true_iff, !pos_leb_spec in *; exact H. }
    rewrite Hf. split.
    + intros [[A B] [C D]]. split; constructor; assumption.
    + intros [A B]. inversion A; subst. inversion B; subst. tauto.
Qed.

(* ---- semantic tokens against document and legend *)
Fixpoint TokensValid (lens : list N) (ntypes nmods : N) (ml : bool) (prev : option tok) (l : list tok) : Prop :=
  match l with
  | [] => True
  | t :: r =>
      (t_typ t < ntypes /\ t_mod t < 2 ^ nmods) /\
      (exists n, nth_error lens (N.to_nat (t_line t)) = Some n /\ t_col t <= n /\ (ml = true \/ tend t <= n)) /\
      (forall p, prev = Some p -> t_line p < t_line t \/ (t_line p = t_line t /\ tend p <= t_col t)) /\
      TokensValid lens ntypes nmods ml (Some t) r
  end.

Lemma toks_ok_spec : forall lens ntypes nmods ml l prev,
  toks_ok lens ntypes nmods ml prev l = true <-> TokensValid lens ntypes nmods ml prev l.
Proof.
  intros lens ntypes nmods ml. induction l as [|t r IH]; intros prev; cbn [toks_ok TokensValid].
  - split; [intros _; exact I|reflexivity].
  - rewrite !andb_true_iff, IH, !N.ltb_lt, nth_len_spec.
    assert (H1 : match nth_error lens (N.to_nat (t_line t)) with
                 | Some n => (t_col t <=? n) && (ml || (tend t <=? n))
                 | None => false
                 end = true <->
                 exists n, nth_error lens (N.to_nat (t_line t)) = Some n /\ t_col t <= n /\ (ml = true \/ tend t <= n)).
    { destruct (nth_error lens (N.to_nat (t_line t))) as [n|].
      - rewrite andb_true_iff, orb_true_iff, !N.leb_le. split.
        + intros [A B]. exists n. split; [reflexivity|]. split; assumption.
        + intros [m [E [A B]]]. inversion E; subst. split; assumption.
      - split; [discriminate|intros [m [E _]]; discriminate]. }
    assert (H2 : match prev with
                 | Some p => (t_line p <? t_line t) || ((t_line p =? t_line t) && (tend p <=? t_col t))
                 | None => true
                 end = true <->
                 forall p, prev = Some p -> t_line p < t_line t \/ (t_line p = t_line t /\ tend p <= t_col t)).
    { destruct prev as [p|].
      - rewrite orb_true_iff, andb_true_iff, N.ltb_lt, N.eqb_eq, N.leb_le. split.
        + intros H q E. inversion E; subst. exact H.
        + intros H. apply H. reflexivity.
      - split; [intros _ q E; discriminate|reflexivity]. }
    rewrite H1, H2. tauto.
Qed.

Lemma tokens_valid_spec : forall lens ntypes nmods ml data,
  tokens_ok lens ntypes nmods ml data = true <->
  exists g, group5 data = Some g /\ TokensValid lens ntypes nmods ml None (decode 0 0 g).
Proof.
  intros lens ntypes nmods ml data. unfold tokens_ok.
  destruct (group5 data) as [g|].
  - rewrite toks_ok_spec. split; [intros H; exists g; split; [reflexivity|exact H]|].
    intros [g' [E H]]. inversion E; subst. exact H.
  - split; [discriminate|intros [g [E _]]; discriminate].
Qed.

(* ================================================================ the whole-document range (open finding) *)
Lemma line_lens_scan_length : forall t cur off asc,
  length (line_lens_from t cur) = S (length (fst (scan t off asc))).
Proof.
  induction t as [|c r IH]; intros cur off asc; cbn [line_lens_from scan].
  - reflexivity.
  - destruct (is_break c r).
    + specialize (IH 0 (off + blen c) true).
      destruct (scan r (off + blen c) true) as [ss fs]. cbn [fst length] in *. rewrite IH. reflexivity.
    + apply IH.
Qed.

Lemma line_lens_count : forall t, N.of_nat (length (line_lens t)) = line_count (parse t).
Proof.
  intros t. unfold line_lens, line_count, parse.
  rewrite (line_lens_scan_length t 0 0 true).
  destruct (scan t 0 true) as [ss fs]. cbn [fst line_offsets length]. reflexivity.
Qed.

Lemma document_lsp_range_refuted : forall t, range_in_doc (line_lens t) (document_lsp_range t) = false.
Proof.
  intros t. unfold range_in_doc, document_lsp_range. cbn [fst snd].
  assert (pos_in_doc (line_lens t) (line_count (parse t), 0) = false) as E.
  { unfold pos_in_doc, nth_len. cbn [fst snd]. rewrite line_lens_count.
    destruct (N.leb_spec (line_count (parse t)) (line_count (parse t))); [reflexivity|lia]. }
  rewrite E. rewrite andb_false_r. reflexivity.
Qed.

(* ================================================================ the generic range walk *)
Lemma ranges_checked_spec : forall (t : text) (rs : list range),
  forallb (fun r => range_in_doc (line_lens t) r || range_eqb r (document_lsp_range t)) rs = true <->
  Forall (fun r => RangeInDoc (line_lens t) r \/ r = document_lsp_range t) rs.
Proof.
  intros t rs. rewrite forallb_forall, Forall_forall.
  split; intros H x Hx; specialize (H x Hx).
  - apply orb_true_iff in H. destruct H as [H|H]; [left; apply range_in_doc_spec; exact H|right; apply range_eqb_spec; exact H].
  - apply orb_true_iff. destruct H as [H|H]; [left; apply range_in_doc_spec; exact H|right; apply range_eqb_spec; exact H].
Qed.
