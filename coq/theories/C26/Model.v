(** C26/Model.v — (1) transcription of the semantic-token encoder
    crates/emmylua_ls/src/handlers/semantic_token/semantic_token_builder.rs
    ([SemanticBuilder::push_data], [line_length], [build], [flatten_overlaps], [close_open_tokens]);
    (2) transcription of [push_growing_range] of handlers/document_selection_range/mod.rs;
    (3) the validity predicates of LSP results as executable booleans (their meaning is proved in Proofs.v).
    Executable definitions only.  Numbers are unbounded [N] (Rust u32; texts < 4 GiB, so no u32 saturation). *)
From EV Require Export C22.Model.
Local Open Scope N_scope.

(* ------------------------------------------------------------------ tokens *)
Record tok := { t_line : N; t_col : N; t_len : N; t_typ : N; t_mod : N }.
Definition mk (l c n ty md : N) : tok := {| t_line := l; t_col := c; t_len := n; t_typ := ty; t_mod := md |}.
Definition tend (t : tok) : N := t_col t + t_len t.

(** [close_open_tokens(open, pos, limit, out)]: [open] has the innermost (last pushed) token first.
    Returns (emitted tokens, remaining stack, new pos). *)
Fixpoint close (open : list tok) (pos : N) (limit : option N) : list tok * list tok * N :=
  match open with
  | [] => ([], [], pos)
  | top :: rest =>
      let e := tend top in
      let still := match limit with Some l => l <? e | None => false end in
      let stop := if still then match limit with Some l => l | None => e end else e in
      let start := N.max (t_col top) pos in
      let emit := if start <? stop then [mk (t_line top) start (stop - start) (t_typ top) (t_mod top)] else [] in
      let pos' := if start <? stop then stop else pos in
      if still then (emit, open, pos')
      else let '(em, st, p) := close rest pos' limit in (emit ++ em, st, p)
  end.

(** the [for token in sorted] loop of [flatten_overlaps] *)
Fixpoint sweep (input open : list tok) (line pos : N) : list tok :=
  match input with
  | [] => let '(em, _, _) := close open pos None in em
  | tk :: r =>
      if t_line tk =? line then
        let '(em, open', pos') := close open pos (Some (t_col tk)) in
        em ++ sweep r (tk :: open') line pos'
      else
        let '(em1, open1, _) := close open pos None in
        let '(em2, open2, pos2) := close open1 0 (Some (t_col tk)) in
        em1 ++ em2 ++ sweep r (tk :: open2) (t_line tk) pos2
  end.

Definition flatten (sorted : list tok) : list tok := sweep sorted [] 0 0.

(** the sort key of [build]: (line, col, Reverse(length), typ, modifiers) — a total order on whole tokens *)
Definition kle (a b : tok) : bool :=
  if t_line a <? t_line b then true else if t_line b <? t_line a then false else
  if t_col a <? t_col b then true else if t_col b <? t_col a then false else
  if t_len b <? t_len a then true else if t_len a <? t_len b then false else
  if t_typ a <? t_typ b then true else if t_typ b <? t_typ a then false else
  t_mod a <=? t_mod b.

Fixpoint insert (x : tok) (l : list tok) : list tok :=
  match l with
  | [] => [x]
  | y :: r => if kle x y then x :: l else y :: insert x r
  end.

Fixpoint sort (l : list tok) : list tok :=
  match l with [] => [] | x :: r => insert x (sort r) end.

(** the delta encoding loop of [build] *)
Fixpoint encode (prev_line prev_col : N) (l : list tok) : list (N * N * N * N * N) :=
  match l with
  | [] => []
  | tk :: r =>
      let dl := t_line tk - prev_line in
      let pc := if dl =? 0 then prev_col else 0 in
      (dl, t_col tk - pc, t_len tk, t_typ tk, t_mod tk) :: encode (t_line tk) (t_col tk) r
  end.

Definition build (data : list tok) : list (N * N * N * N * N) := encode 0 0 (flatten (sort data)).

(** how an LSP client reads the data (specification 3.17, "Integer Encoding for Tokens") *)
Fixpoint decode (line col : N) (d : list (N * N * N * N * N)) : list tok :=
  match d with
  | [] => []
  | (dl, dc, n, ty, md) :: r =>
      let line' := line + dl in
      let col' := if dl =? 0 then col + dc else dc in
      mk line' col' n ty md :: decode line' col' r
  end.

(* ---------------------------------------------------- push_data / line_length *)
Definition strip_last (c : cp) (s : text) : text :=
  match rev s with x :: r => if x =? c then rev r else s | [] => s end.

(** [SemanticBuilder::line_length] *)
Definition line_length (li : line_index) (t : text) (line : N) : res N :=
  match get_line_range li t line with
  | None => Val 0
  | Some (a, b) => match slice t a b with
                   | None => Panic
                   | Some s => Val (u16s (strip_last CR (strip_last NL s)))
                   end
  end.

Fixpoint nseq (from : N) (count : nat) : list N :=
  match count with O => [] | S k => from :: nseq (from + 1) k end.

Fixpoint map_res {A B} (f : A -> res B) (l : list A) : res (list B) :=
  match l with
  | [] => Val []
  | x :: r => match f x with
              | Val y => match map_res f r with Val ys => Val (y :: ys) | Nothing => Nothing | Panic => Panic end
              | Nothing => Nothing
              | Panic => Panic
              end
  end.

Record builder := { b_seen : list N; b_data : list tok }.

(** [push_data(range = s..e, typ, modifiers)] *)
Definition push_data (ml : bool) (li : line_index) (t : text) (b : builder) (p : N * N * N * N) : res builder :=
  let '(s, e, ty, md) := p in
  if existsb (N.eqb s) (b_seen b) then Val b else
  let seen := s :: b_seen b in
  match get_line_col li t s with
  | Nothing => Val {| b_seen := seen; b_data := b_data b |}
  | Panic => Panic
  | Val (sl, sc) =>
      match get_line_col li t e with
      | Nothing => Val {| b_seen := seen; b_data := b_data b |}
      | Panic => Panic
      | Val (el, ec) =>
          if negb ml && negb (sl =? el) then
            match line_length li t sl, map_res (fun i => match line_length li t i with
                                                          | Val n => Val (mk i 0 n ty md)
                                                          | Nothing => Nothing
                                                          | Panic => Panic
                                                          end) (nseq (sl + 1) (N.to_nat (el - (sl + 1)))) with
            | Val n0, Val mids =>
                Val {| b_seen := seen; b_data := b_data b ++ [mk sl sc (n0 - sc) ty md] ++ mids ++ [mk el 0 ec ty md] |}
            | _, _ => Panic
            end
          else Val {| b_seen := seen; b_data := b_data b ++ [mk sl sc (ec - sc) ty md] |}
      end
  end.

Fixpoint push_all (ml : bool) (li : line_index) (t : text) (b : builder) (ps : list (N * N * N * N)) : res builder :=
  match ps with
  | [] => Val b
  | p :: r => match push_data ml li t b p with
              | Val b' => push_all ml li t b' r
              | Nothing => Nothing
              | Panic => Panic
              end
  end.

(** the whole hook: push every range, then build *)
Definition push_and_build (ml : bool) (t : text) (ps : list (N * N * N * N)) : res (list (N * N * N * N * N)) :=
  match push_all ml (parse t) t {| b_seen := []; b_data := [] |} ps with
  | Val b => Val (build (b_data b))
  | Nothing => Nothing
  | Panic => Panic
  end.

(* ------------------------------------------------ selection ranges (offset level) *)
Definition rcontains (outer inner : N * N) : bool := (fst outer <=? fst inner) && (snd inner <=? snd outer).
Definition req (a b : N * N) : bool := (fst a =? fst b) && (snd a =? snd b).

(** [push_growing_range(ranges, range)]; [acc] has the last pushed (outermost) range first *)
Definition push_growing (acc : list (N * N)) (r : N * N) : list (N * N) :=
  match acc with
  | last :: _ => if req r last || negb (rcontains r last) then acc else r :: acc
  | [] => [r]
  end.

Definition growing_chain (rs : list (N * N)) : list (N * N) := rev (fold_left push_growing rs []).

(* ------------------------------------------------------- LSP validity predicates *)
Definition pos := (N * N)%type.
Definition range := (pos * pos)%type.

Definition pos_leb (p q : pos) : bool := (fst p <? fst q) || ((fst p =? fst q) && (snd p <=? snd q)).
Definition pos_eqb (p q : pos) : bool := (fst p =? fst q) && (snd p =? snd q).
Definition range_eqb (a b : range) : bool := pos_eqb (fst a) (fst b) && pos_eqb (snd a) (snd b).

(** UTF-16 length of every line of a text; lines end at LF, CRLF or a lone CR (LSP); the CR of a CRLF pair is
    counted as content, as the server's line index does (lenient by one unit on CRLF lines) *)
Fixpoint line_lens_from (t : text) (cur : N) : list N :=
  match t with
  | [] => [cur]
  | c :: r => if is_break c r then cur :: line_lens_from r 0 else line_lens_from r (cur + u16len c)
  end.
Definition line_lens (t : text) : list N := line_lens_from t 0.

(** [nth_error lens i] without building a huge unary index for an out-of-range [i] *)
Definition nth_len (lens : list N) (i : N) : option N :=
  if N.of_nat (length lens) <=? i then None else nth_error lens (N.to_nat i).

Definition pos_in_doc (lens : list N) (p : pos) : bool :=
  match nth_len lens (fst p) with Some n => snd p <=? n | None => false end.

Definition range_in_doc (lens : list N) (r : range) : bool :=
  pos_in_doc lens (fst r) && pos_in_doc lens (snd r) && pos_leb (fst r) (snd r).

Definition contains (outer inner : range) : bool := pos_leb (fst outer) (fst inner) && pos_leb (snd inner) (snd outer).

(** [LuaDocument::get_document_lsp_range] (vfs/document.rs): (0,0) .. (line_count, 0) *)
Definition document_lsp_range (t : text) : range := ((0, 0), (line_count (parse t), 0)).

(** document symbols *)
Inductive sym := Sym (r sel : range) (children : list sym).

Fixpoint symbol_ok (lens : list N) (parent : option range) (s : sym) : bool :=
  match s with
  | Sym r sel ch =>
      range_in_doc lens r && range_in_doc lens sel && contains r sel
      && match parent with Some p => contains p r | None => true end
      && (fix all (l : list sym) : bool := match l with [] => true | c :: k => symbol_ok lens (Some r) c && all k end) ch
  end.
Definition symbols_ok (lens : list N) (l : list sym) : bool := forallb (symbol_ok lens None) l.

(** folding ranges: (startLine, startCharacter?, endLine, endCharacter?) *)
Definition fold := (N * option N * N * option N)%type.
Definition fold_ok (lens : list N) (f : fold) : bool :=
  let '(sl, sc, el, ec) := f in
  match nth_len lens sl, nth_len lens el with
  | Some ns, Some ne =>
      let c1 := match sc with Some c => c | None => ns end in
      let c2 := match ec with Some c => c | None => ne end in
      (c1 <=? ns) && (c2 <=? ne) && pos_leb (sl, match sc with Some c => c | None => 0 end) (el, c2) && (sl <=? el)
  | _, _ => false
  end.
Definition folds_ok (lens : list N) (l : list fold) : bool := forallb (fold_ok lens) l.

(** a selection-range chain, innermost first *)
Fixpoint chain_ok (lens : list N) (c : list range) : bool :=
  match c with
  | [] => true
  | a :: r => range_in_doc lens a
              && match r with b :: _ => contains b a && negb (range_eqb a b) | [] => true end
              && chain_ok lens r
  end.

(** the main edit(s) of the completion items offered at [cursor] *)
Definition completion_edit_ok (lens : list N) (cursor : pos) (r : range) : bool :=
  range_in_doc lens r && (fst (fst r) =? fst (snd r)) && pos_leb (fst r) cursor && pos_leb cursor (snd r).

(** the edits for one file of a workspace edit *)
Definition no_overlap_edits (a b : range) : bool := pos_leb (snd a) (fst b) || pos_leb (snd b) (fst a).
Fixpoint edits_ok (lens : list N) (es : list range) : bool :=
  match es with
  | [] => true
  | a :: r => range_in_doc lens a && forallb (no_overlap_edits a) r && edits_ok lens r
  end.

(** raw semantic-token data against the document and the advertised legend.
    [ml]: the client announced multilineTokenSupport (a token may then run past its line). *)
Fixpoint group5 (d : list N) : option (list (N * N * N * N * N)) :=
  match d with
  | [] => Some []
  | a :: b :: c :: e :: f :: r => match group5 r with Some g => Some ((a, b, c, e, f) :: g) | None => None end
  | _ => None
  end.

Fixpoint toks_ok (lens : list N) (ntypes nmods : N) (ml : bool) (prev : option tok) (l : list tok) : bool :=
  match l with
  | [] => true
  | t :: r =>
      (t_typ t <? ntypes) && (t_mod t <? 2 ^ nmods)
      && match nth_len lens (t_line t) with
         | Some n => (t_col t <=? n) && (ml || (tend t <=? n))
         | None => false
         end
      && match prev with
         | Some p => (t_line p <? t_line t) || ((t_line p =? t_line t) && (tend p <=? t_col t))
         | None => true
         end
      && toks_ok lens ntypes nmods ml (Some t) r
  end.

Definition tokens_ok (lens : list N) (ntypes nmods : N) (ml : bool) (data : list N) : bool :=
  match group5 data with
  | Some g => toks_ok lens ntypes nmods ml None (decode 0 0 g)
  | None => false
  end.
