(** C29/Props.v — property theorems only *)
From Coq Require Import List Arith Bool PeanoNat.
From EV Require Import C29.Model C29.Proofs.
Import ListNotations.

(** For every disk, every start state, every list of document notifications, every number of reload
    requests and EVERY interleaving of the inline handlers' sections with the reload's sections (snapshot,
    clear, init, version loop): at quiescence the editor texts are the message-order result, every open
    workspace file is analysed with its latest editor text and every closed one holds its disk content or
    is absent when it is not on disk. *)
Theorem reload_converges : forall (disk : uri -> option text) (s0 s : st),
  start disk s0 -> reach disk true s0 s -> quiescent s ->
  forall u,
    wopen s u = editor (wopen s0) (queue s0) u /\
    an s u = match wopen s u with Some t => Some t | None => disk u end.
Proof. exact Proofs.reload_converges. Qed.

(** The invariant behind it: a stale uri is always covered by the running handler or by a reload stage. *)
Theorem stale_is_covered : forall (disk : uri -> option text) (s0 s : st),
  start disk s0 -> reach disk true s0 s ->
  forall u, an s u = target disk s u \/ midu s u \/ covered s u.
Proof. intros disk s0 s H0 Hr. exact (proj2 (proj2 (Proofs.inv_reach disk s0 s H0 Hr))). Qed.

(** Before quiescence the system can always move ... *)
Theorem reload_progress : forall (disk : uri -> option text) (s : st), ~ quiescent s ->
  exists s', step disk true s s' /\ (mid s' <> mid s \/ rs s' <> rs s).
Proof. exact Proofs.progress. Qed.

(** ... and every step other than a new reload request consumes a natural-number measure: with finitely
    many reload requests every execution reaches quiescence. *)
Theorem reload_terminates : forall (disk : uri -> option text) (s0 s s' : st),
  start disk s0 -> reach disk true s0 s -> step disk true s s' ->
  mu s' < mu s \/ (pend s' = true /\ queue s' = queue s /\ mid s' = mid s /\ rs s' = rs s).
Proof.
  intros disk s0 s s' H0 Hr Hst. apply (Proofs.step_decreases disk); [|assumption].
  exact (proj1 (proj2 (Proofs.inv_reach disk s0 s H0 Hr))).
Qed.

(** The theorems above are about [always = true]: [sync_open_file] bumps the version on every call.  If it
    bumped it only for uris that were not open before, an edit of an already open file that lands between
    the reload's snapshot and init_analysis is lost: quiescent, editor text 2, analysed text 1. *)
Theorem bump_only_new_refuted :
  start no_disk stale_start /\
  exists s, reach no_disk false stale_start s /\ quiescent s /\ wopen s 0 = Some 2 /\ an s 0 = Some 1.
Proof. exact Proofs.bump_only_new_refuted. Qed.

(** non-vacuity: a reload interleaved with didOpen and didClose of an on-disk file *)
Example reload_example :
  start ex_disk ex_start /\
  exists s, reach ex_disk true ex_start s /\ quiescent s /\ wopen s 0 = None /\ an s 0 = Some 7 /\ ver s = 2.
Proof. exact Proofs.reload_example. Qed.
