(** C29/Model.v — labelled transition system of a workspace reload interleaved with the document
    notification handlers.  Definitions only.

    Transcribed from crates/emmylua_ls/src:
    - context/workspace_manager.rs: [sync_open_file]/[close_open_file] (editor texts + [open_file_state_version]),
      [spawn_workspace_reload_task] ([reload_lock] + [reload_generation]: reloads are serialised, a reload
      request that is superseded before it starts is skipped), [apply_workspace_reload] (three separate
      write sections: match state + snapshot under workspace_manager.write(); [clear_non_std_workspaces];
      [init_analysis] -> [EmmyLuaAnalysis::reload_workspace_files]: disk files, open snapshot texts override,
      files neither on disk nor in the snapshot are removed), [sync_reloaded_open_files] (the version loop:
      under workspace_manager.read() compare versions, take the next snapshot, compute the removed uris;
      then [apply_open_file_sync] under analysis.write(): next snapshot texts, removed uris restored from
      disk or removed);
    - handlers/text_document/text_document_handler.rs: didOpen/didChange = section 1 (workspace_manager.write():
      editor text, version+1), section 2 (analysis.write(): update_file_by_uri); didClose = section 1
      (close_open_file, version+1), section 2 (the analysed text becomes the disk content again, or the file
      is removed when it is not on disk);
    - handlers/notification_handler.rs: the three document notifications run inline on the main loop, so
      their handlers do not overlap each other.
    Uris range over workspace files; the disk is static during a run. *)
From Coq Require Import List Arith Bool PeanoNat.
Import ListNotations.

Definition uri := nat.
Definition text := nat.

Inductive notif := NSet (u : uri) (t : text)   (* didOpen / didChange with full text *)
                 | NClose (u : uri).

Record snap := mkSnap { sver : nat; sfiles : uri -> option text }.

Inductive rstage :=
| RIdle
| RPre (S : snap) (cleared : bool)   (* snapshot taken; clear / init_analysis pending *)
| RLoop (S : snap)                   (* head of the version loop, [S] has been applied *)
| RApply (S N : snap).               (* next snapshot [N] taken, apply_open_file_sync pending *)

Record st := mkSt {
  wopen : uri -> option text;   (* WorkspaceManager.open_file_texts *)
  ver : nat;                    (* open_file_state_version *)
  an : uri -> option text;      (* text held by the analysis (vfs) *)
  queue : list notif;           (* notifications not yet handled *)
  mid : option notif;           (* the inline handler is between its two sections *)
  pend : bool;                  (* a reload has been requested and has not started *)
  rs : rstage
}.

Definition upd {A} (f : uri -> A) (u : uri) (v : A) : uri -> A :=
  fun x => if Nat.eqb x u then v else f x.

Definition isin (S : snap) (u : uri) : bool := match sfiles S u with Some _ => true | None => false end.

Section Sys.
  Variable disk : uri -> option text.
  (** does [sync_open_file] bump [open_file_state_version] on EVERY call (true: what the version loop needs),
      or only when the uri was not open before (false)?  Read off the source on every run: Gen/C29_Sync.v *)
  Variable always : bool.

  Definition view (f : uri -> option text) (u : uri) : option text :=
    match f u with Some t => Some t | None => disk u end.

  (** what the analysis should hold *)
  Definition target (s : st) (u : uri) : option text := view (wopen s) u.

  Definition notif_uri (n : notif) : uri := match n with NSet u _ => u | NClose u => u end.

  Definition sect1 (n : notif) (s : st) : st :=
    match n with
    | NSet u t => mkSt (upd (wopen s) u (Some t))
                       (if always || (match wopen s u with None => true | Some _ => false end) then S (ver s) else ver s)
                       (an s) (tl (queue s)) (Some n) (pend s) (rs s)
    | NClose u => mkSt (upd (wopen s) u None) (S (ver s)) (an s) (tl (queue s)) (Some n) (pend s) (rs s)
    end.

  Definition sect2 (n : notif) (s : st) : st :=
    match n with
    | NSet u t => mkSt (wopen s) (ver s) (upd (an s) u (Some t)) (queue s) None (pend s) (rs s)
    | NClose u => mkSt (wopen s) (ver s) (upd (an s) u (disk u)) (queue s) None (pend s) (rs s)
    end.

  Definition set_rs (s : st) (r : rstage) : st :=
    mkSt (wopen s) (ver s) (an s) (queue s) (mid s) (pend s) r.

  Definition set_an_rs (s : st) (a : uri -> option text) (r : rstage) : st :=
    mkSt (wopen s) (ver s) a (queue s) (mid s) (pend s) r.

  Inductive step : st -> st -> Prop :=
  | s_sect1 : forall s n q, queue s = n :: q -> mid s = None -> step s (sect1 n s)
  | s_sect2 : forall s n, mid s = Some n -> step s (sect2 n s)
  | s_trigger : forall s, step s (mkSt (wopen s) (ver s) (an s) (queue s) (mid s) true (rs s))
  | r_start : forall s, rs s = RIdle -> pend s = true ->
      step s (mkSt (wopen s) (ver s) (an s) (queue s) (mid s) false (RPre (mkSnap (ver s) (wopen s)) false))
  | r_clear : forall s S, rs s = RPre S false -> step s (set_rs s (RPre S true))
  | r_init : forall s S, rs s = RPre S true -> step s (set_an_rs s (view (sfiles S)) (RLoop S))
  | r_same : forall s S, rs s = RLoop S -> sver S = ver s -> step s (set_rs s RIdle)
  | r_next : forall s S, rs s = RLoop S -> sver S <> ver s ->
      step s (set_rs s (RApply S (mkSnap (ver s) (wopen s))))
  | r_apply : forall s S N, rs s = RApply S N ->
      step s (set_an_rs s (fun u => if isin S u || isin N u then view (sfiles N) u else an s u) (RLoop N)).

  Inductive reach (s0 : st) : st -> Prop :=
  | reach0 : reach s0 s0
  | reachS : forall s s', reach s0 s -> step s s' -> reach s0 s'.

  (** a start state: everything consistent, nothing in flight *)
  Definition start (s : st) : Prop :=
    mid s = None /\ rs s = RIdle /\ forall u, an s u = target s u.

  Definition quiescent (s : st) : Prop :=
    queue s = [] /\ mid s = None /\ pend s = false /\ rs s = RIdle.

  (** the editor's view after a list of notifications *)
  Fixpoint editor (f : uri -> option text) (ns : list notif) : uri -> option text :=
    match ns with
    | [] => f
    | NSet u t :: r => editor (upd f u (Some t)) r
    | NClose u :: r => editor (upd f u None) r
    end.
End Sys.
