(** C29/Proofs.v — the invariant "stale => somebody will repair it" and its consequences *)
From Coq Require Import List Arith Bool PeanoNat Lia.
From EV Require Import C29.Model.
Import ListNotations.

Lemma upd_eq : forall A (f : uri -> A) u v, upd f u v u = v.
Proof. intros. unfold upd. rewrite Nat.eqb_refl. reflexivity. Qed.

Lemma upd_neq : forall A (f : uri -> A) u v x, x <> u -> upd f u v x = f x.
Proof. intros A f u v x H. unfold upd. apply Nat.eqb_neq in H. rewrite H. reflexivity. Qed.

Section P.
  Variable disk : uri -> option text.
  Notation view := (view disk).
  Notation target := (target disk).
  Notation step := (step disk true).
  Notation sect2 := (sect2 disk).
  Notation sect1 := (sect1 true).

  Definition midu (s : st) (u : uri) : Prop := exists n, mid s = Some n /\ notif_uri n = u.

  (** the running handler's section 1 is still in force (handlers are sequential) *)
  Definition mid_ok (s : st) : Prop :=
    match mid s with
    | Some (NSet u t) => wopen s u = Some t
    | Some (NClose u) => wopen s u = None
    | None => True
    end.

  (** a stored snapshot is never from the future, and one with today's version has today's texts *)
  Definition snap_ok (s : st) (X : snap) : Prop :=
    sver X <= ver s /\ (sver X = ver s -> forall u, sfiles X u = wopen s u).

  Definition snaps_ok (s : st) : Prop :=
    match rs s with
    | RIdle => True
    | RPre X0 _ => snap_ok s X0
    | RLoop X0 => snap_ok s X0
    | RApply X0 N => snap_ok s X0 /\ snap_ok s N
    end.

  Definition isopen (s : st) (u : uri) : Prop := wopen s u <> None.

  (** which reload stage will repair a stale uri *)
  Definition covered (s : st) (u : uri) : Prop :=
    match rs s with
    | RIdle => pend s = true
    | RPre _ _ => True
    | RLoop X0 => sver X0 <> ver s /\ (isin X0 u = true \/ isopen s u)
    | RApply X0 N => (isin X0 u = true \/ isin N u = true) \/ (sver N <> ver s /\ isopen s u)
    end.

  Definition inv (s : st) : Prop :=
    mid_ok s /\ snaps_ok s /\ forall u, an s u = target s u \/ midu s u \/ covered s u.

  Lemma snap_ok_bump : forall s s' X, snap_ok s X -> ver s' = S (ver s) -> snap_ok s' X.
  Proof. intros s s' X [H1 H2] Hv. split; [lia|]. intros He. lia. Qed.

  Lemma snap_ok_same : forall s s' X, snap_ok s X -> ver s' = ver s -> wopen s' = wopen s -> snap_ok s' X.
  Proof. intros s s' X H Hv Hw. unfold snap_ok in *. rewrite Hv, Hw. assumption. Qed.

  Lemma isin_false_view : forall X u, isin X u = false -> view (sfiles X) u = disk u.
  Proof. intros X u H. unfold isin in H. unfold Model.view. destruct (sfiles X u); [discriminate | reflexivity]. Qed.

  Lemma not_open_target : forall s u, ~ isopen s u -> target s u = disk u.
  Proof.
    intros s u H. unfold Model.target, Model.view, isopen in *. destruct (wopen s u); [exfalso; apply H; discriminate | reflexivity].
  Qed.

  Lemma snap_same_view : forall s X u, snap_ok s X -> sver X = ver s -> view (sfiles X) u = target s u.
  Proof. intros s X u [_ H] He. unfold Model.target, Model.view. rewrite (H He u). reflexivity. Qed.

  Lemma isin_dec : forall X u, isin X u = true \/ isin X u = false.
  Proof. intros. destruct (isin X u); auto. Qed.

  Lemma isopen_dec : forall s u, isopen s u \/ ~ isopen s u.
  Proof. intros s u. unfold isopen. destruct (wopen s u); [left; discriminate | right; intros H; apply H; reflexivity]. Qed.

  Lemma inv_start : forall s, start disk s -> inv s.
  Proof.
    intros s [Hm [Hr Ha]]. split; [|split].
    - unfold mid_ok. rewrite Hm. exact I.
    - unfold snaps_ok. rewrite Hr. exact I.
    - intros u. left. apply Ha.
  Qed.

  (** ** the inline handler *)
  Lemma inv_sect1 : forall s n q, inv s -> queue s = n :: q -> mid s = None -> inv (sect1 n s).
  Proof.
    intros s n q [Hm [Hs Hi]] Hq Hmid.
    assert (Hv : ver (sect1 n s) = S (ver s)) by (destruct n; reflexivity).
    assert (Hrs : rs (sect1 n s) = rs s) by (destruct n; reflexivity).
    assert (Hmid' : mid (sect1 n s) = Some n) by (destruct n; reflexivity).
    assert (Han : an (sect1 n s) = an s) by (destruct n; reflexivity).
    assert (Hpend : pend (sect1 n s) = pend s) by (destruct n; reflexivity).
    assert (Hw : forall x, x <> notif_uri n -> wopen (sect1 n s) x = wopen s x).
    { intros x Hx. destruct n; cbn [sect1 wopen notif_uri] in *; apply upd_neq; assumption. }
    split; [|split].
    - unfold mid_ok. rewrite Hmid'. destruct n; cbn [sect1 wopen]; apply upd_eq.
    - unfold snaps_ok in *. rewrite Hrs. destruct (rs s) as [|X0 c|X0|X0 N]; try exact I.
      + eapply snap_ok_bump; eassumption.
      + eapply snap_ok_bump; eassumption.
      + destruct Hs. split; eapply snap_ok_bump; eassumption.
    - intros u. destruct (Nat.eq_dec u (notif_uri n)) as [-> | Hne].
      + right. left. exists n. split; [assumption | reflexivity].
      + destruct (Hi u) as [Ht | [[m [Hm' _]] | Hc]].
        * left. rewrite Han. rewrite Ht. unfold Model.target, Model.view. rewrite (Hw u Hne). reflexivity.
        * congruence.
        * right. right. unfold covered in *. rewrite Hrs, Hpend, Hv. unfold snaps_ok in Hs.
          destruct (rs s) as [|X0 c|X0|X0 N]; try assumption.
          -- destruct Hs as [Hle _]. destruct Hc as [_ Hc]. split; [lia|].
             destruct Hc as [Hc | Hc]; [left; assumption | right]. unfold isopen in *. rewrite (Hw u Hne). assumption.
          -- destruct Hs as [_ [Hle _]]. destruct Hc as [Hc | [_ Hc]]; [left; assumption | right].
             split; [lia|]. unfold isopen in *. rewrite (Hw u Hne). assumption.
  Qed.

  Lemma inv_sect2 : forall s n, inv s -> mid s = Some n -> inv (sect2 n s).
  Proof.
    intros s n [Hm [Hs Hi]] Hmid.
    assert (Hv : ver (sect2 n s) = ver s) by (destruct n; reflexivity).
    assert (Hrs : rs (sect2 n s) = rs s) by (destruct n; reflexivity).
    assert (Hw : wopen (sect2 n s) = wopen s) by (destruct n; reflexivity).
    assert (Hpend : pend (sect2 n s) = pend s) by (destruct n; reflexivity).
    assert (Hmid' : mid (sect2 n s) = None) by (destruct n; reflexivity).
    split; [|split].
    - unfold mid_ok. rewrite Hmid'. exact I.
    - unfold snaps_ok in *. rewrite Hrs.
      destruct (rs s) as [|X0 c|X0|X0 N]; try exact I; try (eapply snap_ok_same; eassumption).
      destruct Hs. split; eapply snap_ok_same; eassumption.
    - intros u. destruct (Nat.eq_dec u (notif_uri n)) as [-> | Hne].
      + left. unfold mid_ok in Hm. rewrite Hmid in Hm. unfold Model.target, Model.view. rewrite Hw.
        destruct n as [u t | u]; cbn [sect2 an notif_uri]; rewrite upd_eq; rewrite Hm; reflexivity.
      + destruct (Hi u) as [Ht | [[m [Hm' Hu]] | Hc]].
        * left. unfold Model.target. rewrite Hw. fold (target s u). rewrite <- Ht.
          destruct n; cbn [sect2 an notif_uri] in *; apply upd_neq; assumption.
        * rewrite Hmid in Hm'. inversion Hm'; subst. contradiction.
        * right. right. unfold covered, isopen in *. rewrite Hrs, Hpend, Hv, Hw. assumption.
  Qed.

  (** ** the reload task *)
  Lemma inv_step : forall s s', inv s -> step s s' -> inv s'.
  Proof.
    intros s s' Hinv Hst.
    destruct Hst as [s n q Hq Hm0 | s n Hm0 | s | s Hr0 Hp0 | s X0 H | s X0 H | s X0 H He0 | s X0 H Hne0 | s X0 N H].
    - eapply inv_sect1; eassumption.
    - eapply inv_sect2; eassumption.
    - (* a reload is requested *)
      destruct Hinv as [Hm [Hs Hi]]. split; [exact Hm | split; [exact Hs|]].
      intros u. destruct (Hi u) as [Ht | [Hmu | Hc]]; [left; exact Ht | right; left; exact Hmu | right; right].
      unfold covered in *. cbn [rs pend wopen ver]. destruct (rs s); try assumption. reflexivity.
    - (* the reload starts: snapshot *)
      destruct Hinv as [Hm [Hs Hi]]. split; [exact Hm | split].
      + unfold snaps_ok. cbn [rs]. split; cbn [sver sfiles ver wopen]; [lia | reflexivity].
      + intros u. right. right. unfold covered. cbn [rs]. exact I.
    - (* clear_non_std_workspaces: no text changes *)
      destruct Hinv as [Hm [Hs Hi]]. split; [exact Hm | split].
      + unfold snaps_ok in *. rewrite H in Hs. cbn [set_rs rs]. exact Hs.
      + intros u. right. right. unfold covered. cbn [set_rs rs]. exact I.
    - (* init_analysis: everything from the snapshot and the disk *)
      destruct Hinv as [Hm [Hs Hi]]. unfold snaps_ok in Hs. rewrite H in Hs.
      split; [exact Hm | split].
      + unfold snaps_ok. cbn [set_an_rs rs]. exact Hs.
      + intros u. cbn [set_an_rs an]. unfold covered. cbn [set_an_rs rs ver wopen].
        destruct (Nat.eq_dec (sver X0) (ver s)) as [He | Hne].
        * left. apply snap_same_view; assumption.
        * destruct (isin_dec X0 u) as [Hin | Hin]; [right; right; split; [assumption | left; assumption]|].
          destruct (isopen_dec s u) as [Ho | Ho]; [right; right; split; [assumption | right; assumption]|].
          left. rewrite (isin_false_view _ _ Hin). symmetry. apply not_open_target. assumption.
    - (* the loop sees the version it applied: done *)
      destruct Hinv as [Hm [Hs Hi]]. split; [exact Hm | split].
      + unfold snaps_ok. cbn [set_rs rs]. exact I.
      + intros u. destruct (Hi u) as [Ht | [Hmu | Hc]]; [left; exact Ht | right; left; exact Hmu|].
        unfold covered in Hc. rewrite H in Hc. destruct Hc as [Hc _]. contradiction.
    - (* the loop sees a newer version: next snapshot *)
      destruct Hinv as [Hm [Hs Hi]]. unfold snaps_ok in Hs. rewrite H in Hs. split; [exact Hm | split].
      + unfold snaps_ok. cbn [set_rs rs]. split; [exact Hs|]. split; cbn [set_rs sver sfiles ver wopen]; [lia | reflexivity].
      + intros u. destruct (Hi u) as [Ht | [Hmu | Hc]]; [left; exact Ht | right; left; exact Hmu | right; right].
        unfold covered in *. rewrite H in Hc. cbn [set_rs rs]. destruct Hc as [_ [Hc | Hc]]; left; [left; assumption | right].
        unfold isin, isopen in *. cbn [sfiles]. destruct (wopen s u); [reflexivity | exfalso; apply Hc; reflexivity].
    - (* apply_open_file_sync *)
      destruct Hinv as [Hm [Hs Hi]]. unfold snaps_ok in Hs. rewrite H in Hs. destruct Hs as [HS HN].
      split; [exact Hm | split].
      + unfold snaps_ok. cbn [set_an_rs rs]. exact HN.
      + intros u. cbn [set_an_rs an]. unfold covered. cbn [set_an_rs rs ver wopen].
        destruct (isin X0 u || isin N u) eqn:Hin.
        * destruct (Nat.eq_dec (sver N) (ver s)) as [He | Hne].
          -- left. apply snap_same_view; assumption.
          -- destruct (isin_dec N u) as [HinN | HinN]; [right; right; split; [assumption | left; assumption]|].
             destruct (isopen_dec s u) as [Ho | Ho]; [right; right; split; [assumption | right; assumption]|].
             left. rewrite (isin_false_view _ _ HinN). symmetry. apply not_open_target. assumption.
        * apply orb_false_iff in Hin. destruct Hin as [HinS HinN].
          destruct (Hi u) as [Ht | [Hmu | Hc]]; [left; exact Ht | right; left; exact Hmu|].
          unfold covered in Hc. rewrite H in Hc. destruct Hc as [[Hc | Hc] | [Hne Ho]]; try congruence.
          right. right. split; [assumption | right; assumption].
  Qed.

  Lemma inv_reach : forall s0 s, start disk s0 -> reach disk true s0 s -> inv s.
  Proof.
    intros s0 s H0 Hr. induction Hr; [apply inv_start; assumption | eapply inv_step; eassumption].
  Qed.

  (** the editor texts follow the notifications in order *)
  Definition ed_ok (s0 s : st) : Prop :=
    forall u, editor (wopen s) (queue s) u = editor (wopen s0) (queue s0) u.

  Lemma ed_step : forall s0 s s', ed_ok s0 s -> step s s' -> ed_ok s0 s'.
  Proof.
    intros s0 s s' He Hst u. rewrite <- (He u). destruct Hst; try reflexivity.
    - destruct n; cbn [sect1 wopen queue]; rewrite H; reflexivity.
    - destruct n; reflexivity.
  Qed.

  Lemma ed_reach : forall s0 s, reach disk true s0 s -> ed_ok s0 s.
  Proof.
    intros s0 s Hr. induction Hr; [intros u; reflexivity | eapply ed_step; eassumption].
  Qed.

  Theorem reload_converges : forall s0 s, start disk s0 -> reach disk true s0 s -> quiescent s ->
    forall u,
      wopen s u = editor (wopen s0) (queue s0) u /\
      an s u = match wopen s u with Some t => Some t | None => disk u end.
  Proof.
    intros s0 s H0 Hr [Hq [Hmid [Hp Hrs]]] u. split.
    - pose proof (ed_reach _ _ Hr u) as He. rewrite Hq in He. exact He.
    - destruct (inv_reach _ _ H0 Hr) as [_ [_ Hi]]. destruct (Hi u) as [Ht | [[n [Hn _]] | Hc]].
      + exact Ht.
      + congruence.
      + unfold covered in Hc. rewrite Hrs in Hc. congruence.
  Qed.


  (** ** progress and termination *)
  Lemma progress : forall s, ~ quiescent s ->
    exists s', step s s' /\ (mid s' <> mid s \/ rs s' <> rs s).
  Proof.
    intros s Hnq. destruct (mid s) as [n|] eqn:Hmid.
    - exists (sect2 n s). split; [apply s_sect2; assumption|]. left.
      assert (H : mid (sect2 n s) = None) by (destruct n; reflexivity). rewrite H. discriminate.
    - destruct (rs s) as [|X0 c|X0|X0 N] eqn:Hrs.
      + destruct (pend s) eqn:Hp.
        * eexists. split; [apply r_start; assumption|]. right. cbn [rs]. discriminate.
        * destruct (queue s) as [|n q] eqn:Hq.
          -- exfalso. apply Hnq. repeat split; assumption.
          -- exists (sect1 n s). split; [eapply s_sect1; eassumption|]. left.
             assert (H : mid (sect1 n s) = Some n) by (destruct n; reflexivity). rewrite H. discriminate.
      + destruct c.
        * eexists. split; [eapply r_init; eassumption|]. right. cbn [set_an_rs rs]. discriminate.
        * eexists. split; [eapply r_clear; eassumption|]. right. cbn [set_rs rs]. intros He. inversion He.
      + destruct (Nat.eq_dec (sver X0) (ver s)).
        * eexists. split; [eapply r_same; eassumption|]. right. cbn [set_rs rs]. discriminate.
        * eexists. split; [eapply r_next; eassumption|]. right. cbn [set_rs rs]. discriminate.
      + eexists. split; [eapply r_apply; eassumption|]. right. cbn [set_an_rs rs]. discriminate.
  Qed.

  (** version increments the snapshot [X] has not seen yet, counting the notifications still queued *)
  Definition gap (s : st) (X : snap) : nat := (ver s + List.length (queue s) + (match mid s with Some _ => 0 | None => 0 end)) - sver X.

  Definition mu (s : st) : nat :=
    8 * List.length (queue s) + (match mid s with Some _ => 4 | None => 0 end)
    + (if pend s then 3 * List.length (queue s) + 7 else 0)
    + match rs s with
      | RIdle => 0
      | RPre X false => 3 * gap s X + 6
      | RPre X true => 3 * gap s X + 5
      | RLoop X => 3 * gap s X + 2
      | RApply _ N => 3 * gap s N + 3
      end.

  (** every step other than a new reload request consumes *)
  Lemma step_decreases : forall s s', snaps_ok s -> step s s' ->
    mu s' < mu s \/ (pend s' = true /\ queue s' = queue s /\ mid s' = mid s /\ rs s' = rs s).
  Proof.
    intros s s' Hs Hst.
    destruct Hst as [s n q Hq Hm0 | s n Hm0 | s | s Hr0 Hp0 | s X0 H | s X0 H | s X0 H He0 | s X0 H Hne0 | s X0 N H].
    - left. unfold mu, gap.
      assert (Hq' : queue (sect1 n s) = q) by (destruct n; cbn [sect1 queue]; rewrite Hq; reflexivity).
      assert (Hv : ver (sect1 n s) = S (ver s)) by (destruct n; reflexivity).
      assert (Hrs : rs (sect1 n s) = rs s) by (destruct n; reflexivity).
      assert (Hmid' : mid (sect1 n s) = Some n) by (destruct n; reflexivity).
      assert (Hpend : pend (sect1 n s) = pend s) by (destruct n; reflexivity).
      rewrite Hq', Hv, Hrs, Hmid', Hpend, Hq, Hm0. cbn [List.length].
      destruct (pend s); destruct (rs s) as [|X c|X|X Y]; try destruct c; lia.
    - left. unfold mu, gap.
      assert (Hq' : queue (sect2 n s) = queue s) by (destruct n; reflexivity).
      assert (Hv : ver (sect2 n s) = ver s) by (destruct n; reflexivity).
      assert (Hrs : rs (sect2 n s) = rs s) by (destruct n; reflexivity).
      assert (Hmid' : mid (sect2 n s) = None) by (destruct n; reflexivity).
      assert (Hpend : pend (sect2 n s) = pend s) by (destruct n; reflexivity).
      rewrite Hq', Hv, Hrs, Hmid', Hpend, Hm0.
      destruct (pend s); destruct (rs s) as [|X c|X|X Y]; try destruct c; lia.
    - right. cbn. repeat split; reflexivity.
    - left. unfold mu, gap. cbn [queue mid pend rs ver sver]. rewrite Hr0, Hp0. destruct (mid s); lia.
    - left. unfold mu, gap. cbn [set_rs queue mid pend rs ver]. rewrite H. destruct (pend s); destruct (mid s); lia.
    - left. unfold mu, gap. cbn [set_an_rs queue mid pend rs ver]. rewrite H. destruct (pend s); destruct (mid s); lia.
    - left. unfold mu, gap. cbn [set_rs queue mid pend rs ver]. rewrite H. destruct (pend s); destruct (mid s); lia.
    - left. unfold snaps_ok in Hs. rewrite H in Hs. destruct Hs as [Hle _].
      unfold mu, gap. cbn [set_rs queue mid pend rs ver sver]. rewrite H. destruct (pend s); destruct (mid s); lia.
    - left. unfold mu, gap. cbn [set_an_rs queue mid pend rs ver]. rewrite H. destruct (pend s); destruct (mid s); lia.
  Qed.
End P.

(** * non-vacuity: a reload interleaved with an open and a close of an on-disk file *)
Section Example.
  Definition ex_disk (u : uri) : option text := match u with 0 => Some 7 | _ => None end.
  Notation reachE := (reach ex_disk true).
  Notation stepE := (step ex_disk true).

  Lemma reach_front : forall (s0 s1 s : st), stepE s0 s1 -> reachE s1 s -> reachE s0 s.
  Proof.
    intros s0 s1 s H Hr. induction Hr.
    - eapply reachS; [apply reach0 | assumption].
    - eapply reachS; eassumption.
  Qed.

  Definition ex_start : st :=
    mkSt (fun _ => None) 0 ex_disk [NSet 0 1; NClose 0] None true RIdle.

  Lemma reload_example :
    start ex_disk ex_start /\
    exists s, reachE ex_start s /\ quiescent s /\ wopen s 0 = None /\ an s 0 = Some 7 /\ ver s = 2.
  Proof.
    split.
    - repeat split; reflexivity.
    - eexists. split.
      + eapply reach_front; [eapply r_start; reflexivity|]. cbn [wopen ver an queue mid pend rs].
        eapply reach_front; [eapply (s_sect1 _ _ _ (NSet 0 1)); reflexivity|]. cbn [sect1 wopen ver an queue mid pend rs tl].
        eapply reach_front; [eapply r_clear; reflexivity|]. cbn [set_rs wopen ver an queue mid pend rs].
        eapply reach_front; [eapply r_init; reflexivity|]. cbn [set_an_rs wopen ver an queue mid pend rs].
        eapply reach_front; [eapply (s_sect2 _ _ _ (NSet 0 1)); reflexivity|]. cbn [sect2 wopen ver an queue mid pend rs].
        eapply reach_front; [eapply r_next; [reflexivity | cbn; discriminate]|]. cbn [set_rs wopen ver an queue mid pend rs].
        eapply reach_front; [eapply (s_sect1 _ _ _ (NClose 0)); reflexivity|]. cbn [sect1 wopen ver an queue mid pend rs tl].
        eapply reach_front; [eapply r_apply; reflexivity|]. cbn [set_an_rs wopen ver an queue mid pend rs].
        eapply reach_front; [eapply (s_sect2 _ _ _ (NClose 0)); reflexivity|]. cbn [sect2 wopen ver an queue mid pend rs].
        eapply reach_front; [eapply r_next; [reflexivity | cbn; discriminate]|]. cbn [set_rs wopen ver an queue mid pend rs].
        eapply reach_front; [eapply r_apply; reflexivity|]. cbn [set_an_rs wopen ver an queue mid pend rs].
        eapply reach_front; [eapply r_same; reflexivity|]. cbn [set_rs wopen ver an queue mid pend rs].
        apply reach0.
      + vm_compute. repeat split; reflexivity.
  Qed.
End Example.

(** * if [sync_open_file] bumped the version only for uris that were not open, an edit of an open file that
      lands between the reload's snapshot and init_analysis would be lost *)
Section Refute.
  Definition no_disk (u : uri) : option text := None.
  Notation reachF := (reach no_disk false).
  Notation stepF := (step no_disk false).

  Lemma reach_frontF : forall (s0 s1 s : st), stepF s0 s1 -> reachF s1 s -> reachF s0 s.
  Proof.
    intros s0 s1 s H Hr. induction Hr.
    - eapply reachS; [apply reach0 | assumption].
    - eapply reachS; eassumption.
  Qed.

  Definition stale_start : st :=
    mkSt (fun u => match u with 0 => Some 1 | _ => None end) 0
         (fun u => match u with 0 => Some 1 | _ => None end) [NSet 0 2] None true RIdle.

  Lemma bump_only_new_refuted :
    start no_disk stale_start /\
    exists s, reachF stale_start s /\ quiescent s /\ wopen s 0 = Some 2 /\ an s 0 = Some 1.
  Proof.
    split.
    - repeat split; try reflexivity. intros [|u]; reflexivity.
    - eexists. split.
      + eapply reach_frontF; [eapply r_start; reflexivity|]. cbn [wopen ver an queue mid pend rs].
        eapply reach_frontF; [eapply (s_sect1 _ _ _ (NSet 0 2)); reflexivity|]. cbn [sect1 wopen ver an queue mid pend rs tl orb].
        eapply reach_frontF; [eapply (s_sect2 _ _ _ (NSet 0 2)); reflexivity|]. cbn [sect2 wopen ver an queue mid pend rs].
        eapply reach_frontF; [eapply r_clear; reflexivity|]. cbn [set_rs wopen ver an queue mid pend rs].
        eapply reach_frontF; [eapply r_init; reflexivity|]. cbn [set_an_rs wopen ver an queue mid pend rs].
        eapply reach_frontF; [eapply r_same; [reflexivity | vm_compute; reflexivity]|]. cbn [set_rs wopen ver an queue mid pend rs].
        apply reach0.
      + vm_compute. repeat split; reflexivity.
  Qed.
End Refute.
