(** C29/Today.v — obligations over the facts regenerated from today's source (Gen/C29_Sync.v, written by
    lib/c29_c30_anchors.py on every run): the model of C29/Model.v is the model of TODAY's code only if they hold. *)
From Coq Require Import List Bool.
From EV Require Import C29.Model C29.Proofs Gen.C29_Sync.

(** sync_open_file and close_open_file bump open_file_state_version unconditionally *)
Theorem today_version_bumped_on_every_sync : sync_bumps_always = true /\ close_bumps_always = true.
Proof. split; reflexivity. Qed.

(** the handlers have the section order of the model: editor text (workspace_manager.write) before the analysis
    write; the reload takes its snapshot under workspace_manager.write before it touches the analysis, and
    the version loop reads the snapshot under workspace_manager before apply_open_file_sync *)
Theorem today_section_order : handler_sections_ok = true /\ reload_sections_ok = true.
Proof. split; reflexivity. Qed.

Theorem today_reload_converges : forall (disk : uri -> option text) (s0 s : st),
  start disk s0 -> reach disk sync_bumps_always s0 s -> quiescent s ->
  forall u, an s u = match wopen s u with Some t => Some t | None => disk u end.
Proof.
  intros disk s0 s H0 Hr Hq u. destruct today_version_bumped_on_every_sync as [Hb _]. rewrite Hb in Hr.
  exact (proj2 (Proofs.reload_converges disk s0 s H0 Hr Hq u)).
Qed.
