(** C29/Corr.v — executable comparison of the real server's quiescent observations with the state that
    [reload_converges] predicts for the history (the prediction does not depend on the schedule). *)
From Coq Require Import List Arith Bool PeanoNat NArith.
From EV Require Import C29.Model.
Import ListNotations.

Record case := {
  c_disk : list (uri * text);                           (* files on disk *)
  c_hist : list notif;                                   (* document notifications in message order *)
  c_obs : list (uri * (option text * option text))      (* uri, (editor text held by the workspace manager, analysed text) *)
}.

Definition disk_of (l : list (uri * text)) (u : uri) : option text :=
  match find (fun e => Nat.eqb (fst e) u) l with Some e => Some (snd e) | None => None end.

Definition opt_eqb (a b : option text) : bool :=
  match a, b with Some x, Some y => Nat.eqb x y | None, None => true | _, _ => false end.

Definition check_case (c : case) : bool :=
  let ed := editor (fun _ => None) (c_hist c) in
  forallb (fun e =>
             let u := fst e in
             opt_eqb (fst (snd e)) (ed u)
             && opt_eqb (snd (snd e)) (match ed u with Some t => Some t | None => disk_of (c_disk c) u end))
          (c_obs c).

(** the same with binary numbers (what the check driver writes) *)
Record caseN := {
  n_disk : list (N * N);
  n_hist : list (bool * N * N);                      (* (true, u, t) = didOpen/didChange u t ; (false, u, _) = didClose u *)
  n_obs : list (N * (option N * option N))
}.

Definition toN (c : caseN) : case :=
  {| c_disk := map (fun e => (N.to_nat (fst e), N.to_nat (snd e))) (n_disk c);
     c_hist := map (fun e => match e with
                             | (true, u, t) => NSet (N.to_nat u) (N.to_nat t)
                             | (false, u, _) => NClose (N.to_nat u)
                             end) (n_hist c);
     c_obs := map (fun e => (N.to_nat (fst e), (option_map N.to_nat (fst (snd e)), option_map N.to_nat (snd (snd e))))) (n_obs c) |}.

Definition check_caseN (c : caseN) : bool := check_case (toN c).
