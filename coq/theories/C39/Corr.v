(** C39/Corr.v — evaluation of the model on system-call traces of the real [luafmt --write]
    (strace, converted by checks/C39.py; paths renamed so that the target is [TARGET]). *)
From EV Require Import C39.Model Gen.C39_Writes.
Local Open Scope N_scope.

Record case := {
  c_old : data;            (* content of the target before the run *)
  c_new : data;            (* the formatted text (from an undisturbed run on a copy) *)
  c_trace : list op;       (* every mutating call of the whole run, in order *)
  c_final : option data;   (* the target read back after the run *)
  c_tmp : path;            (* the temp file used for this target *)
  c_oracle : oracle;       (* the results of the fallible calls for this target, in program order *)
  c_killed : bool;         (* the process was killed: the calls are a prefix of a run *)
  c_changed : bool         (* formatting changes this file (otherwise the program must not touch it at all) *)
}.

Definition opt_data_eqb (a b : option data) : bool :=
  match a, b with
  | Some x, Some y => data_eqb x y
  | None, None => true
  | _, _ => false
  end.

Definition op_eqb (a b : op) : bool :=
  match a, b with
  | OOpenTrunc p, OOpenTrunc q | OCreate p, OCreate q | OOpenWrite p, OOpenWrite q
  | OWriteFail p, OWriteFail q | OChmod p, OChmod q | OChmodFail p, OChmodFail q
  | OFsync p, OFsync q | OFsyncFail p, OFsyncFail q | OClose p, OClose q | OUnlink p, OUnlink q => p =? q
  | OWrite p d, OWrite q e => (p =? q) && data_eqb d e
  | OPwrite p o d, OPwrite q o' e => (p =? q) && (o =? o') && data_eqb d e
  | OTruncate p n, OTruncate q m => (p =? q) && (n =? m)
  | ORename a1 b1, ORename a2 b2 | ORenameFail a1 b1, ORenameFail a2 b2 => (a1 =? a2) && (b1 =? b2)
  | _, _ => false
  end.

(** [a] is a prefix of [b] (equal when [exact]) *)
Fixpoint ops_match (exact : bool) (a b : list op) : bool :=
  match a, b with
  | [], [] => true
  | [], _ :: _ => negb exact
  | x :: a', y :: b' => op_eqb x y && ops_match exact a' b'
  | _ :: _, [] => false
  end.

Definition op_paths (o : op) : list path :=
  match o with
  | OOpenTrunc p | OCreate p | OOpenWrite p | OWrite p _ | OPwrite p _ _ | OWriteFail p | OTruncate p _
  | OChmod p | OChmodFail p | OFsync p | OFsyncFail p | OClose p | OUnlink p => [p]
  | ORename a b | ORenameFail a b => [a; b]
  end.

Definition mentions (ps : list path) (o : op) : bool :=
  existsb (fun p => existsb (N.eqb p) ps) (op_paths o).

(** the file-system model explains the observation: it predicts the content read back *)
Definition check_model (c : case) : bool :=
  opt_data_eqb (vol (run (c_trace c) (init (c_old c))) TARGET) (c_final c).

(** every crash point of the observed run leaves the old or the new content *)
Definition check_safe (c : case) : bool := protocol_safe (c_old c) (c_new c) (c_trace c).
Definition check_power_safe (c : case) : bool := protocol_power_safe (c_old c) (c_new c) (c_trace c).

(** the calls on the target and its temp file are exactly those of the modelled program of the
    protocol the source uses, under the observed results *)
Definition check_instance (c : case) : bool :=
  if c_changed c then
    ops_match (negb (c_killed c))
              (filter (mentions [TARGET; c_tmp c]) (c_trace c))
              (program source_protocol (c_tmp c) (c_new c) (c_oracle c))
  else match filter (mentions [TARGET]) (c_trace c) with [] => true | _ :: _ => false end.

Definition check_case (c : case) : bool := check_model c && check_safe c && check_instance c.
