(** C39/Model.v — a file-system semantics for the write protocols of [luafmt --write]
    (crates/emmylua_formatter/src/bin/luafmt.rs, [main], branch [args.write];
     crates/emmylua_formatter/src/workspace.rs, [write_file_atomically]).

    Executable definitions only.

    * a file content is a list of bytes; paths are numbers, [TARGET] is the file being formatted;
    * a run of the program is a list of [op]s (the mutating system calls it issued, with their results:
      a write carries exactly the bytes the kernel accepted, a failed call is a separate constructor);
    * the state has the *visible* content of every path ([vol], what any process reads — this is what
      survives a killed process) and the *durable* content ([dur], what survives a power loss);
    * a crash can happen after ANY prefix of the run: the crash states are [run (firstn k tr) (init old)];
    * the two protocols are given as programs over a fault oracle (one [outcome] per fallible call):
      [trunc_write] is [std::fs::write] (open(O_TRUNC), write_all, close),
      [tmp_rename] is [write_file_atomically] (create_new temp, set permissions, write_all, sync_all,
      close, rename over the target; on any error: close, remove the temp file). *)
From EV Require Export Base.Text.
Local Open Scope N_scope.

Definition byte := N.
Definition data := list byte.
Definition path := N.
Definition TARGET : path := 0.

Inductive op : Type :=
| OOpenTrunc (p : path)            (* open(p, O_WRONLY|O_CREAT|O_TRUNC) succeeded *)
| OCreate (p : path)               (* open(p, O_WRONLY|O_CREAT|O_EXCL) succeeded: a new empty file *)
| OOpenWrite (p : path)            (* open(p, O_WRONLY) without O_TRUNC: offset 0, content kept *)
| OWrite (p : path) (d : data)     (* write(fd of p) accepted exactly the bytes [d] (a short write carries the accepted prefix) *)
| OPwrite (p : path) (o : N) (d : data) (* pwrite64 at offset [o] *)
| OWriteFail (p : path)            (* write returned an error (ENOSPC, EFBIG, EIO, EINTR ...) : nothing written *)
| OTruncate (p : path) (n : N)     (* ftruncate *)
| OChmod (p : path)                (* fchmod / chmod: no effect on contents *)
| OChmodFail (p : path)
| OFsync (p : path)                (* fsync / fdatasync succeeded *)
| OFsyncFail (p : path)
| OClose (p : path)
| ORename (src dst : path)         (* rename(src, dst) succeeded: atomic replacement of dst *)
| ORenameFail (src dst : path)
| OUnlink (p : path).

Definition fmap (A : Type) := path -> A.
Definition upd {A} (m : fmap A) (p : path) (v : A) : fmap A := fun q => if q =? p then v else m q.

Record st := { vol : fmap (option data); dur : fmap (option data); off : fmap nat }.

(** writing [d] at offset [o] into content [c] (a hole is filled with zero bytes) *)
Definition write_at (c : data) (o : nat) (d : data) : data :=
  firstn o c ++ repeat 0 (o - length c)%nat ++ d ++ skipn (o + length d)%nat c.

Definition truncate_to (c : data) (n : nat) : data := firstn n c ++ repeat 0 (n - length c)%nat.

Definition content (s : st) (p : path) : data := match vol s p with Some c => c | None => [] end.

(** one system call.  Meta-data operations (creation, truncation, rename, unlink) are taken to be
    durable at once and in order (a journalling file system); file *data* becomes durable only by
    [fsync] — the pessimistic reading for the protocols below. *)
Definition step (s : st) (o : op) : st :=
  match o with
  | OOpenTrunc p => {| vol := upd (vol s) p (Some []); dur := upd (dur s) p (Some []); off := upd (off s) p 0%nat |}
  | OCreate p => {| vol := upd (vol s) p (Some []); dur := upd (dur s) p (Some []); off := upd (off s) p 0%nat |}
  | OOpenWrite p => {| vol := vol s; dur := dur s; off := upd (off s) p 0%nat |}
  | OWrite p d =>
      {| vol := upd (vol s) p (Some (write_at (content s p) (off s p) d)); dur := dur s;
         off := upd (off s) p (off s p + length d)%nat |}
  | OPwrite p o d =>
      {| vol := upd (vol s) p (Some (write_at (content s p) (N.to_nat o) d)); dur := dur s; off := off s |}
  | OTruncate p n =>
      {| vol := upd (vol s) p (Some (truncate_to (content s p) (N.to_nat n)));
         dur := upd (dur s) p (Some (truncate_to (match dur s p with Some c => c | None => [] end) (N.to_nat n)));
         off := off s |}
  | OFsync p => {| vol := vol s; dur := upd (dur s) p (vol s p); off := off s |}
  | ORename a b =>
      {| vol := upd (upd (vol s) b (vol s a)) a None; dur := upd (upd (dur s) b (dur s a)) a None; off := off s |}
  | OUnlink p => {| vol := upd (vol s) p None; dur := upd (dur s) p None; off := off s |}
  | OWriteFail _ | OChmod _ | OChmodFail _ | OFsyncFail _ | OClose _ | ORenameFail _ _ => s
  end.

Definition run (tr : list op) (s : st) : st := fold_left step tr s.

Definition init (old : data) : st :=
  {| vol := upd (fun _ => None) TARGET (Some old); dur := upd (fun _ => None) TARGET (Some old); off := fun _ => 0%nat |}.

(* ---------------------------------------------------------------- the property, per state *)
Fixpoint data_eqb (a b : data) : bool :=
  match a, b with
  | [], [] => true
  | x :: a', y :: b' => (x =? y) && data_eqb a' b'
  | _, _ => false
  end.

Definition is_b (c : option data) (x : data) : bool :=
  match c with Some d => data_eqb d x | None => false end.

(** a killed process: the target shows exactly the old or exactly the new content *)
Definition kill_ok (old new : data) (s : st) : Prop := vol s TARGET = Some old \/ vol s TARGET = Some new.
(** a power loss: the same for the durable content *)
Definition power_ok (old new : data) (s : st) : Prop := dur s TARGET = Some old \/ dur s TARGET = Some new.

Definition kill_okb (old new : data) (s : st) : bool := is_b (vol s TARGET) old || is_b (vol s TARGET) new.
Definition power_okb (old new : data) (s : st) : bool := is_b (dur s TARGET) old || is_b (dur s TARGET) new.

(** every crash point of the run [tr] started on a target holding [old] *)
Definition crash_safe (old new : data) (tr : list op) : Prop :=
  forall k : nat, kill_ok old new (run (firstn k tr) (init old)).
Definition power_safe (old new : data) (tr : list op) : Prop :=
  forall k : nat, power_ok old new (run (firstn k tr) (init old)).

(* ---------------------------------------------------------------- executable checkers (one pass) *)
Fixpoint all_states (okb : st -> bool) (s : st) (tr : list op) : bool :=
  okb s && match tr with [] => true | o :: r => all_states okb (step s o) r end.

(** the checker evaluated on the system-call traces of the real binary *)
Definition protocol_safe (old new : data) (tr : list op) : bool := all_states (kill_okb old new) (init old) tr.
Definition protocol_power_safe (old new : data) (tr : list op) : bool := all_states (power_okb old new) (init old) tr.

(* ---------------------------------------------------------------- the protocols as programs *)
Inductive outcome := Ok | Short (n : nat) | Err.
Definition oracle := list outcome.
Definition next (fs : oracle) : outcome * oracle := match fs with [] => (Ok, []) | o :: r => (o, r) end.

(** [io::Write::write_all]: loop [write(buf)] until the buffer is empty; an error ends it; a call that
    accepts 0 bytes is the error [WriteZero].  Returns the calls issued, whether all of [buf] was
    written, and the rest of the oracle.  [fuel] bounds the number of calls (each accepts >= 1 byte). *)
Fixpoint write_all (fuel : nat) (p : path) (buf : data) (fs : oracle) : list op * bool * oracle :=
  match buf with
  | [] => ([], true, fs)
  | _ :: _ =>
      match fuel with
      | O => ([], false, fs)
      | S fuel' =>
          match next fs with
          | (Err, fs') => ([OWriteFail p], false, fs')
          | (Ok, fs') => ([OWrite p buf], true, fs')
          | (Short n, fs') =>
              let k := Nat.min n (length buf) in
              match k with
              | O => ([OWrite p []], false, fs')
              | S _ =>
                  let '(ops, ok, fs'') := write_all fuel' p (skipn k buf) fs' in
                  (OWrite p (firstn k buf) :: ops, ok, fs'')
              end
          end
      end
  end.

(** [std::fs::write(path, new)] : what [luafmt --write] did before the repair *)
Definition trunc_write (new : data) (fs : oracle) : list op :=
  match next fs with
  | (Err, _) => []                                  (* open failed: nothing happened *)
  | (_, fs1) =>
      let '(ws, _, _) := write_all (length new) TARGET new fs1 in
      OOpenTrunc TARGET :: ws ++ [OClose TARGET]
  end.

(** [write_file_atomically(path, new)] (workspace.rs) with the temp file [tmp]:
    create_new(tmp) ; set_permissions (fchmod) ; write_all ; sync_all ; close ; rename(tmp, target) ;
    on an error after the creation: close, remove_file(tmp) *)
Definition cleanup (tmp : path) : list op := [OClose tmp; OUnlink tmp].

Definition tmp_rename (tmp : path) (new : data) (fs : oracle) : list op :=
  match next fs with
  | (Err, _) => []                                  (* the temp file could not be created *)
  | (_, fs0) =>
      OCreate tmp ::
      match next fs0 with
      | (Err, _) => OChmodFail tmp :: cleanup tmp
      | (_, fs1) =>
          let '(ws, ok, fs2) := write_all (length new) tmp new fs1 in
          OChmod tmp :: ws ++
          (if negb ok then cleanup tmp
           else match next fs2 with
                | (Err, _) => OFsyncFail tmp :: cleanup tmp
                | (_, fs3) =>
                    OFsync tmp :: OClose tmp ::
                    match next fs3 with
                    | (Err, _) => [ORenameFail tmp TARGET; OUnlink tmp]
                    | (_, _) => [ORename tmp TARGET]
                    end
                end)
      end
  end.

(** the same without the [sync_all] — safe for a killed process but not for a power loss *)
Definition tmp_rename_nosync (tmp : path) (new : data) (fs : oracle) : list op :=
  match next fs with
  | (Err, _) => []
  | (_, fs1) =>
      let '(ws, ok, fs2) := write_all (length new) tmp new fs1 in
      OCreate tmp :: ws ++
      (if negb ok then cleanup tmp
       else OClose tmp ::
            match next fs2 with
            | (Err, _) => [ORenameFail tmp TARGET; OUnlink tmp]
            | (_, _) => [ORename tmp TARGET]
            end)
  end.

Inductive protocol := TruncWrite | TmpRename.

Definition program (pr : protocol) (tmp : path) (new : data) (fs : oracle) : list op :=
  match pr with
  | TruncWrite => trunc_write new fs
  | TmpRename => tmp_rename tmp new fs
  end.

(** [pre] is a proper prefix of [l] *)
Definition proper_prefix (pre l : data) : Prop := exists suf, suf <> [] /\ l = pre ++ suf.
