(** C39/Model.v — a file-system semantics for the write protocols of [luafmt --write]
    (crates/emmylua_formatter/src/bin/luafmt.rs, [main], branch [args.write];
     crates/emmylua_formatter/src/workspace.rs, [write_file_atomically]).

    Executable definitions only.

    * a file content is a list of bytes; paths are numbers, [TARGET] is the file being formatted;
    * a run of the program is a list of [op]s (the mutating system calls it issued, with their results:
      a write carries exactly the bytes the kernel accepted, a failed call is a separate constructor);
    * the state has the *visible* content of every path ([vol], what any process reads — this is what
      survives a killed process) and the *durable* content ([dur], what survives a power loss);
    * a crash can happen after ANY prefix of the run: the crash states are [run (firstn k tr) (init old)];
    * the two protocols are given as programs over a fault oracle (one [outcome] per fallible call):
      [trunc_write] is [std::fs::write] (open(O_TRUNC), write_all, close),
      [tmp_rename] is [write_file_atomically] (create_new temp, set permissions, write_all, sync_all,
      close, rename over the target; on any error: close, remove the temp file). *)
From EV Require Export Base.Text.
Local Open Scope N_scope.

Definition byte := N.
Definition data := list byte.
Definition path := N.
Definition TARGET : path := 0.

Inductive op : Type :=
| OOpenTrunc (p : path)            (* open(p, O_WRONLY|O_CREAT|O_TRUNC) succeeded *)
| OCreate (p : path)               (* open(p, O_WRONLY|O_CREAT|O_EXCL) succeeded: a new empty file *)
| OOpenWrite (p : path)            (* open(p, O_WRONLY) without O_TRUNC: offset 0, content kept *)
| OWrite (p : path) (d : data)     (* write(fd of p) accepted exactly the bytes [d] (a short write carries the accepted prefix) *)
| OPwrite (p : path) (o : N) (d : data) (* pwrite64 at offset [o] *)
| OWriteFail (p : path)            (* write returned an error (ENOSPC, EFBIG, EIO, EINTR ...) : nothing written *)
| OTruncate (p : path) (n : N)     (* ftruncate *)
| OChmod (p : path)                (* fchmod / chmod: no effect on contents *)
| OChmodFail (p : path)
| OFsync (p : path)                (* fsync / fdatasync succeeded *)
| OFsyncFail (p : path)
| OClose (p : path)
| ORename (src dst : path)         (* rename(src, dst) succeeded: atomic replacement of dst *)
| ORenameFail (src dst : path)
| OUnlink (p : path).

Definition fmap (A : Type) := path -> A.
Definition upd {A} (m : fmap A) (p : path) (v : A) : fmap A := fun q => if q =? p then v else m q.

Record st := { vol : fmap (option data); dur : fmap (option data); off : fmap nat }.

(** writing [d] at offset [o] into content [c] (a hole is filled with zero bytes) *)
Definition write_at (c : data) (o : nat) (d : data) : data :=
  firstn o c ++ repeat 0 (o - length c)%nat ++ d ++ skipn (o + length d)%nat c.

Definition truncate_to (c : data) (n : nat) : data := firstn n c ++ repeat 0 (n - length c)%nat.

Definition content (s : st) (p : path) : data := match vol s p with Some c => c | None => [] end.

(** one system call.  Meta-data operations (creation, truncation, rename, unlink) are taken to be
    durable at once and in order (a journalling file system); file *data* becomes durable only by
    [fsync] — the pessimistic reading for the protocols below. *)
Definition step (s : st) (o : op) : st :=
  match o with
  | OOpenTrunc p => {| vol := upd (vol s) p (Some []); dur := upd (dur s) p (Some []); off := upd (off s) p 0%nat |}
  | OCreate p => {| vol := upd (vol s) p (Some []); dur := upd (dur s) p (Some []); off := upd (off s) p 0%nat |}
  | OOpenWrite p => {| vol := vol s; dur := dur s; off := upd (off s) p 0%nat |}
  | OWrite p d =>
      {| vol := upd (vol s) p (Some (write_at (content s p) (off s p) d)); dur := dur s;
         off := upd (off s) p (off s p + length d)%nat |}
  | OPwrite p o d =>
      {| vol := upd (vol s) p (Some (write_at (content s p) (N.to_nat o) d)); dur := dur s; off := off s |}
  | OTruncate p n =>
      {| vol := upd (vol s) p (Some (truncate_to (content s p) (N.to_nat n)));
         dur := upd (dur s) p (Some (truncate_to (match dur s p with Some c => c | None => [] end) (N.to_nat n)));
         off := off s |}
  | OFsync p => {| vol := vol s; dur := upd (dur s) p (vol s p); off := off s |}
  | ORename a b =>
      {| vol := upd (upd (vol s) b (vol s a)) a None; dur := upd (upd (dur s) b (dur s a)) a None; off := off s |}
  | OUnlink p => {| vol := upd (vol s) p None; dur := upd (dur s) p None; off := off s |}
  | OWriteFail _ | OChmod _ | OChmodFail _ | OFsyncFail _ | OClose _ | ORenameFail _ _ => s
  end.

Definition run (tr : list op) (s : st) : st := fold_left step tr s.

Definition init (old : data) : st :=
  {| vol := upd (fun _ => None) TARGET (Some old); dur := upd (fun _ => None) TARGET (Some old); off := fun _ => 0%nat |}.

(* ---------------------------------------------------------------- the property, per state *)
Fixpoint data_eqb (a b : data) : bool :=
  match a, b with
  | [], [] => true
  | x :: a', y :: b' => (x =? y) && data_eqb a' b'
  | _, _ => false
  end.

Definition is_b (c : option data) (x : data) : bool :=
  match c with Some d => data_eqb d x | None => false end.

(** a killed process: the target shows exactly the old or exactly the new content *)
Definition kill_ok (old new : data) (s : st) : Prop := vol s TARGET = Some old \/ vol s TARGET = Some new.
(** a power loss: the same for the durable content *)
Definition power_ok (old new : data) (s : st) : Prop := dur s TARGET = Some old \/ dur s TARGET = Some new.

Definition kill_okb (old new : data) (s : st) : bool := is_b (vol s TARGET) old || is_b (vol s TARGET) new.
Definition power_okb (old new : data) (s : st) : bool := is_b (dur s TARGET) old || is_b (dur s TARGET) new.

(** every crash point of the run [tr] started on a target holding [old] *)
Definition crash_safe (old new : data) (tr : list op) : Prop :=
  forall k : nat, kill_ok old new (run (firstn k tr) (init old)).
Definition power_safe (old new : data) (tr : list op) : Prop :=
  forall k : nat, power_ok old new (run (firstn k tr) (init old)).

(* ---------------------------------------------------------------- executable checkers (one pass) *)
Fixpoint all_states (okb : st -> bool) (s : st) (tr : list op) : bool :=
  okb s && match tr with [] => true | o :: r => all_states okb (step s o) r end.

(** the checker evaluated on the system-call traces of the real binary *)
Definition protocol_safe (old new : data) (tr : list op) : bool := all_states (kill_okb old new) (init old) tr.
Definition protocol_power_safe (old new : data) (tr : list op) : bool := all_states (power_okb old new) (init old) tr.

(* ---------------------------------------------------------------- the protocols as programs *)
(** result of one fallible call: success; a short write of [n] bytes; an error; [EINTR] (retried by [write_all]) *)
Inductive outcome := Ok | Short (n : nat) | Err | Intr.
Definition oracle := list outcome.
Definition next (fs : oracle) : outcome * oracle := match fs with [] => (Ok, []) | o :: r => (o, r) end.

(** [io::Write::write_all]: loop [write(buf)] until the buffer is empty; an error ends it; a call that
    accepts 0 bytes is the error [WriteZero].  Returns the calls issued, whether all of [buf] was
    written, and the rest of the oracle.  [fuel] bounds the number of calls: each accepts >= 1 byte or
    consumes one [Intr] of the oracle, so [length buf + length fs] is enough. *)
Fixpoint write_all (fuel : nat) (p : path) (buf : data) (fs : oracle) : list op * bool * oracle :=
  match buf with
  | [] => ([], true, fs)
  | _ :: _ =>
      match fuel with
      | O => ([], false, fs)
      | S fuel' =>
          match next fs with
          | (Err, fs') => ([OWriteFail p], false, fs')
          | (Intr, fs') =>
              let '(ops, ok, fs'') := write_all fuel' p buf fs' in
              (OWriteFail p :: ops, ok, fs'')
          | (Ok, fs') => ([OWrite p buf], true, fs')
          | (Short n, fs') =>
              let k := Nat.min n (length buf) in
              match k with
              | O => ([OWrite p []], false, fs')
              | S _ =>
                  let '(ops, ok, fs'') := write_all fuel' p (skipn k buf) fs' in
                  (OWrite p (firstn k buf) :: ops, ok, fs'')
              end
          end
      end
  end.

Definition failed (fs : oracle) : bool := match fst (next fs) with Err => true | _ => false end.
Definition rest (fs : oracle) : oracle := snd (next fs).

(** [std::fs::write(path, new)] : what [luafmt --write] did before the repair *)
Definition trunc_write (new : data) (fs : oracle) : list op :=
  if failed fs then []                              (* open failed: nothing happened *)
  else let '(ws, _, _) := write_all (length new + length fs) TARGET new (rest fs) in
       OOpenTrunc TARGET :: ws ++ [OClose TARGET].

(** [write_file_atomically(path, new)] (workspace.rs) with the temp file [tmp]:
    create_new(tmp) ; set_permissions (fchmod) ; write_all ; sync_all ; close ; rename(tmp, target) ;
    on an error after the creation: close, remove_file(tmp) *)
Definition cleanup (tmp : path) : list op := [OClose tmp; OUnlink tmp].

Definition tr_finish (tmp : path) (fs : oracle) : list op :=
  if failed fs then [ORenameFail tmp TARGET; OUnlink tmp] else [ORename tmp TARGET].

Definition tr_sync (tmp : path) (fs : oracle) : list op :=
  if failed fs then OFsyncFail tmp :: cleanup tmp
  else OFsync tmp :: OClose tmp :: tr_finish tmp (rest fs).

Definition tr_write (tmp : path) (new : data) (fs : oracle) : list op :=
  let '(ws, ok, fs') := write_all (length new + length fs) tmp new fs in
  OChmod tmp :: ws ++ (if ok then tr_sync tmp fs' else cleanup tmp).

Definition tr_chmod (tmp : path) (new : data) (fs : oracle) : list op :=
  if failed fs then OChmodFail tmp :: cleanup tmp else tr_write tmp new (rest fs).

Definition tmp_rename (tmp : path) (new : data) (fs : oracle) : list op :=
  if failed fs then []                              (* the temp file could not be created *)
  else OCreate tmp :: tr_chmod tmp new (rest fs).

(** the same without the [sync_all] — safe for a killed process but not for a power loss *)
Definition tmp_rename_nosync (tmp : path) (new : data) (fs : oracle) : list op :=
  if failed fs then []
  else let '(ws, ok, fs') := write_all (length new + length fs) tmp new (rest fs) in
       OCreate tmp :: ws ++ (if ok then OClose tmp :: tr_finish tmp fs' else cleanup tmp).

Inductive protocol := TruncWrite | TmpRename.

Definition program (pr : protocol) (tmp : path) (new : data) (fs : oracle) : list op :=
  match pr with
  | TruncWrite => trunc_write new fs
  | TmpRename => tmp_rename tmp new fs
  end.

(** the library calls of [write_file_atomically] in source order (read off the source by the translator of
    checks/C39.py into Gen/C39_Writes.v); [tmp_rename] above is the program made of exactly these *)
Inductive stepk := SCreateNew | SSetPerm | SWriteAll | SSyncAll | SRename | SRemoveOnError | SFsWrite.
Definition model_steps (pr : protocol) : list stepk :=
  match pr with
  | TruncWrite => [SFsWrite]
  | TmpRename => [SCreateNew; SSetPerm; SWriteAll; SSyncAll; SRename; SRemoveOnError]
  end.

(** [pre] is a proper prefix of [l] *)
Definition proper_prefix (pre l : data) : Prop := exists suf, suf <> [] /\ l = pre ++ suf.
