(** C39/Props.v — property theorems only. *)
From EV Require Import C39.Model C39.Proofs Gen.C39_Writes.
Local Open Scope N_scope.

(** Truncate-then-write ([std::fs::write]): there is a crash point at which the target holds a proper
    prefix of the new text that is neither the old nor the new content. *)
Theorem trunc_write_unsafe_refuted : exists (old new : data) (fs : oracle) (k : nat),
  let s := run (firstn k (trunc_write new fs)) (init old) in
  exists pre, vol s TARGET = Some pre /\ proper_prefix pre new /\ pre <> old /\ pre <> new /\
              ~ kill_ok old new s.
Proof. exact Proofs.trunc_write_unsafe_refuted. Qed.

(** ... and this is no accident of the witness: for ALL non-empty old and new contents and all fault
    sequences in which the open succeeds, the file is empty right after the open. *)
Theorem trunc_write_unsafe_all : forall (old new : data) (fs : oracle),
  old <> [] -> new <> [] -> failed fs = false ->
  vol (run (firstn 1%nat (trunc_write new fs)) (init old)) TARGET = Some [] /\
  ~ kill_ok old new (run (firstn 1%nat (trunc_write new fs)) (init old)).
Proof. exact Proofs.trunc_write_unsafe_all. Qed.

(** Without any crash: a size limit or a full disk after [n] accepted bytes leaves exactly the first [n]
    bytes of the new text in the file. *)
Theorem trunc_write_fault_truncates : forall (old new : data) (n : nat),
  (0 < n < length new)%nat ->
  vol (run (trunc_write new [Ok; Short n; Err]) (init old)) TARGET = Some (firstn n new).
Proof. exact Proofs.trunc_write_fault_truncates. Qed.

(** Write-temp-then-rename: for ALL contents, ALL fault sequences (any call may fail, any write may be
    short) and ALL crash points, the target holds exactly the old or exactly the new content — for a
    killed process (visible content) and for a power loss (durable content). *)
Theorem tmp_rename_safe : forall (old new : data) (tmp : path) (fs : oracle) (k : nat),
  tmp <> TARGET ->
  kill_ok old new (run (firstn k (tmp_rename tmp new fs)) (init old)) /\
  power_ok old new (run (firstn k (tmp_rename tmp new fs)) (init old)).
Proof. exact Proofs.tmp_rename_safe. Qed.

(** ... and when nothing fails the target does receive the new content. *)
Theorem tmp_rename_completes : forall (old new : data) (tmp : path),
  tmp <> TARGET -> vol (run (tmp_rename tmp new []) (init old)) TARGET = Some new.
Proof. exact Proofs.tmp_rename_completes. Qed.

(** The executable checker run on the observed system-call traces is sound (and exact): it accepts a
    trace iff every crash point of that trace leaves the old or the new content. *)
Theorem protocol_safe_sound : forall (old new : data) (tr : list op),
  protocol_safe old new tr = true -> forall k : nat, kill_ok old new (run (firstn k tr) (init old)).
Proof. exact Proofs.protocol_safe_sound. Qed.

Theorem protocol_safe_complete : forall (old new : data) (tr : list op),
  (forall k : nat, kill_ok old new (run (firstn k tr) (init old))) -> protocol_safe old new tr = true.
Proof. exact Proofs.protocol_safe_complete. Qed.

(** The [sync_all] matters for a power loss: without it there is a crash point with an empty target. *)
Theorem nosync_power_refuted : exists (old new : data) (k : nat),
  ~ power_ok old new (run (firstn k (tmp_rename_nosync 1 new [])) (init old)) /\
  dur (run (firstn k (tmp_rename_nosync 1 new [])) (init old)) TARGET = Some [].
Proof. exact Proofs.nosync_power_refuted. Qed.

(** The protocol that today's source uses (Gen/C39_Writes.v, regenerated from /repo on every run) is the
    safe one, with the library calls in the modelled order. *)
Theorem source_protocol_safe : forall (old new : data) (tmp : path) (fs : oracle) (k : nat),
  tmp <> TARGET ->
  kill_ok old new (run (firstn k (program source_protocol tmp new fs)) (init old)) /\
  power_ok old new (run (firstn k (program source_protocol tmp new fs)) (init old)).
Proof. exact Proofs.tmp_rename_safe. Qed.

Theorem source_steps_modelled : source_steps = model_steps source_protocol.
Proof. reflexivity. Qed.

(** non-vacuity: a short write, then a failing write in the temp file: the temp file is removed, the
    target keeps the old content at all 7 crash points; without faults the last state has the new one *)
Example tmp_rename_example :
  let old := [111; 108; 100] in let new := [110; 101; 119; 33] in
  tmp_rename 1 new [Ok; Ok; Short 2; Err] =
    [OCreate 1; OChmod 1; OWrite 1 [110; 101]; OWriteFail 1; OClose 1; OUnlink 1] /\
  protocol_safe old new (tmp_rename 1 new [Ok; Ok; Short 2; Err]) = true /\
  vol (run (tmp_rename 1 new [Ok; Ok; Short 2; Err]) (init old)) 1 = None /\
  protocol_safe old new (trunc_write new [Ok; Short 2; Err]) = false /\
  vol (run (tmp_rename 1 new [Ok; Ok; Short 3; Ok]) (init old)) TARGET = Some new.
Proof. exact Proofs.tmp_rename_example. Qed.
