(** C39/Proofs.v — lemmas about the file-system model of C39/Model.v. *)
From EV Require Import C39.Model.
From Coq Require Import Arith Lia.
Local Open Scope N_scope.

(* ------------------------------------------------------------------ runs *)
Lemma run_app : forall a b s, run (a ++ b) s = run b (run a s).
Proof. intros. unfold run. apply fold_left_app. Qed.

Lemma run_cons : forall o r s, run (o :: r) s = run r (step s o).
Proof. reflexivity. Qed.

Lemma run_nil : forall s, run [] s = s.
Proof. reflexivity. Qed.

Lemma upd_same : forall A (m : fmap A) p v, upd m p v p = v.
Proof. intros. unfold upd. rewrite N.eqb_refl. reflexivity. Qed.

Lemma upd_other : forall A (m : fmap A) p q v, q <> p -> upd m p v q = m q.
Proof. intros A m p q v H. unfold upd. apply N.eqb_neq in H. rewrite H. reflexivity. Qed.

(* ------------------------------------------------------------------ boolean reflections *)
Lemma data_eqb_eq : forall a b, data_eqb a b = true <-> a = b.
Proof.
  induction a as [|x a IH]; destruct b as [|y b]; cbn [data_eqb]; split; intros H;
    try reflexivity; try discriminate.
  - apply andb_true_iff in H. destruct H as [H1 H2]. apply N.eqb_eq in H1. apply IH in H2.
    subst. reflexivity.
  - inversion H; subst. apply andb_true_iff. split; [apply N.eqb_refl|]. apply IH. reflexivity.
Qed.

Lemma is_b_spec : forall c x, is_b c x = true <-> c = Some x.
Proof.
  intros [d|] x; cbn [is_b]; split; intros H; try discriminate.
  - apply data_eqb_eq in H. subst. reflexivity.
  - inversion H; subst. apply data_eqb_eq. reflexivity.
Qed.

Lemma kill_okb_spec : forall old new s, kill_okb old new s = true <-> kill_ok old new s.
Proof.
  intros. unfold kill_okb, kill_ok. rewrite orb_true_iff, !is_b_spec. reflexivity.
Qed.

Lemma power_okb_spec : forall old new s, power_okb old new s = true <-> power_ok old new s.
Proof.
  intros. unfold power_okb, power_ok. rewrite orb_true_iff, !is_b_spec. reflexivity.
Qed.

(* ------------------------------------------------------------------ the one-pass checker *)
Lemma all_states_sound : forall okb tr s,
  all_states okb s tr = true -> forall k, okb (run (firstn k tr) s) = true.
Proof.
  induction tr as [|o r IH]; intros s H k; cbn [all_states] in H;
    apply andb_true_iff in H; destruct H as [H1 H2].
  - destruct k; exact H1.
  - destruct k as [|k]; [exact H1|]. cbn [firstn]. rewrite run_cons. apply IH. exact H2.
Qed.

Lemma all_states_complete : forall okb tr s,
  (forall k, okb (run (firstn k tr) s) = true) -> all_states okb s tr = true.
Proof.
  induction tr as [|o r IH]; intros s H; cbn [all_states]; apply andb_true_iff; split.
  - exact (H 0%nat).
  - reflexivity.
  - exact (H 0%nat).
  - apply IH. intros k. specialize (H (S k)). cbn [firstn] in H. rewrite run_cons in H. exact H.
Qed.

Lemma protocol_safe_sound : forall old new tr,
  protocol_safe old new tr = true -> crash_safe old new tr.
Proof.
  intros old new tr H k. apply kill_okb_spec. apply (all_states_sound _ _ _ H).
Qed.

Lemma protocol_safe_complete : forall old new tr,
  crash_safe old new tr -> protocol_safe old new tr = true.
Proof.
  intros old new tr H. apply all_states_complete. intros k. apply kill_okb_spec. apply H.
Qed.

Lemma protocol_power_safe_sound : forall old new tr,
  protocol_power_safe old new tr = true -> power_safe old new tr.
Proof.
  intros old new tr H k. apply power_okb_spec. apply (all_states_sound _ _ _ H).
Qed.

Lemma protocol_power_safe_complete : forall old new tr,
  power_safe old new tr -> protocol_power_safe old new tr = true.
Proof.
  intros old new tr H. apply all_states_complete. intros k. apply power_okb_spec. apply H.
Qed.

(* ------------------------------------------------------------------ calls that leave the target alone *)
Definition touches_target (o : op) : bool :=
  match o with
  | OOpenTrunc p | OCreate p | OWrite p _ | OPwrite p _ _ | OTruncate p _ | OFsync p | OUnlink p => TARGET =? p
  | ORename a b => (TARGET =? a) || (TARGET =? b)
  | _ => false
  end.

Definition untouched (tr : list op) : Prop := Forall (fun o => touches_target o = false) tr.

Lemma step_untouched : forall s o, touches_target o = false ->
  vol (step s o) TARGET = vol s TARGET /\ dur (step s o) TARGET = dur s TARGET.
Proof.
  intros s o H. destruct o; cbn [touches_target] in H; cbn [step vol dur]; unfold upd;
    try (rewrite H; split; reflexivity); try (split; reflexivity).
  apply orb_false_iff in H. destruct H as [Ha Hb]. rewrite Ha, Hb. split; reflexivity.
Qed.

Lemma run_untouched : forall tr s, untouched tr ->
  vol (run tr s) TARGET = vol s TARGET /\ dur (run tr s) TARGET = dur s TARGET.
Proof.
  induction tr as [|o r IH]; intros s H; [split; reflexivity|].
  inversion H as [|? ? Ho Hr]; subst. rewrite run_cons.
  destruct (IH (step s o) Hr) as [E1 E2]. destruct (step_untouched s o Ho) as [F1 F2].
  rewrite E1, E2, F1, F2. split; reflexivity.
Qed.

Lemma untouched_firstn : forall k tr, untouched tr -> untouched (firstn k tr).
Proof.
  induction k as [|k IH]; intros tr H; [constructor|].
  destruct tr as [|o r]; [constructor|]. inversion H; subst. cbn [firstn]. constructor; [assumption|].
  apply IH. assumption.
Qed.

Lemma untouched_app : forall a b, untouched a -> untouched b -> untouched (a ++ b).
Proof. intros a b Ha Hb. apply Forall_app. split; assumption. Qed.

Lemma init_vol : forall old, vol (init old) TARGET = Some old.
Proof. intros. cbn [init vol]. apply upd_same. Qed.

Lemma init_dur : forall old, dur (init old) TARGET = Some old.
Proof. intros. cbn [init dur]. apply upd_same. Qed.

Lemma untouched_safe : forall old new tr, untouched tr -> crash_safe old new tr /\ power_safe old new tr.
Proof.
  intros old new tr H. split; intros k;
    destruct (run_untouched (firstn k tr) (init old) (untouched_firstn k tr H)) as [E1 E2].
  - left. rewrite E1. apply init_vol.
  - left. rewrite E2. apply init_dur.
Qed.

(** a run that leaves the target alone and then renames a complete, synced temp file over it *)
Lemma shape_safe : forall old new tmp pre,
  tmp <> TARGET -> untouched pre ->
  vol (run pre (init old)) tmp = Some new -> dur (run pre (init old)) tmp = Some new ->
  crash_safe old new (pre ++ [ORename tmp TARGET]) /\ power_safe old new (pre ++ [ORename tmp TARGET]).
Proof.
  intros old new tmp pre Hne Hu Hv Hd.
  assert (Hcase : forall k, firstn k (pre ++ [ORename tmp TARGET]) = firstn k pre \/
                            firstn k (pre ++ [ORename tmp TARGET]) = pre ++ [ORename tmp TARGET]).
  { intros k. rewrite firstn_app. destruct (k - length pre)%nat as [|j] eqn:E.
    - left. cbn [firstn]. apply app_nil_r.
    - right. rewrite firstn_all2 by lia. cbn [firstn]. rewrite firstn_nil. reflexivity. }
  assert (Hne' : TARGET <> tmp) by congruence.
  split; intros k; destruct (Hcase k) as [E|E]; rewrite E.
  - destruct (run_untouched (firstn k pre) (init old) (untouched_firstn k pre Hu)) as [E1 _].
    left. rewrite E1. apply init_vol.
  - right. rewrite run_app, run_cons, run_nil. cbn [step vol].
    rewrite upd_other by exact Hne'. rewrite upd_same. exact Hv.
  - destruct (run_untouched (firstn k pre) (init old) (untouched_firstn k pre Hu)) as [_ E2].
    left. rewrite E2. apply init_dur.
  - right. rewrite run_app, run_cons, run_nil. cbn [step dur].
    rewrite upd_other by exact Hne'. rewrite upd_same. exact Hd.
Qed.

(* ------------------------------------------------------------------ write_all *)
Lemma write_at_append : forall c d, write_at c (length c) d = c ++ d.
Proof.
  intros c d. unfold write_at. rewrite firstn_all, Nat.sub_diag. cbn [repeat app].
  rewrite skipn_all2 by lia. rewrite app_nil_r. reflexivity.
Qed.

Lemma notarget : forall p, p <> TARGET -> (TARGET =? p) = false.
Proof. intros p H. apply N.eqb_neq. congruence. Qed.

Lemma write_all_untouched : forall fuel p buf fs ws ok fs',
  p <> TARGET -> write_all fuel p buf fs = (ws, ok, fs') -> untouched ws.
Proof.
  induction fuel as [|fuel IH]; intros p buf fs ws ok fs' Hp H; destruct buf as [|b bs];
    cbn [write_all] in H.
  - inversion H; subst. constructor.
  - inversion H; subst. constructor.
  - inversion H; subst. constructor.
  - destruct (next fs) as [[|n| |] fs1].
    + inversion H; subst. constructor; [|constructor]. cbn [touches_target]. apply notarget, Hp.
    + cbv zeta in H. destruct (Nat.min n (length (b :: bs))) as [|k] eqn:Ek.
      * inversion H; subst. constructor; [|constructor]. cbn [touches_target]. apply notarget, Hp.
      * destruct (write_all fuel p (skipn (S k) (b :: bs)) fs1) as [[ops ok1] fs2] eqn:Er.
        inversion H; subst. constructor.
        -- cbn [touches_target]. apply notarget, Hp.
        -- eapply IH; eassumption.
    + inversion H; subst. constructor; [|constructor]. reflexivity.
    + destruct (write_all fuel p (b :: bs) fs1) as [[ops ok1] fs2] eqn:Er.
      inversion H; subst. constructor; [reflexivity|]. eapply IH; eassumption.
Qed.

Lemma step_write_append : forall s p c d,
  vol s p = Some c -> off s p = length c ->
  vol (step s (OWrite p d)) p = Some (c ++ d) /\ off (step s (OWrite p d)) p = length (c ++ d).
Proof.
  intros s p c d Hv Ho. cbn [step vol off]. rewrite !upd_same. unfold content. rewrite Hv, Ho.
  rewrite write_at_append, app_length. split; reflexivity.
Qed.

(** a successful [write_all] in append position leaves exactly the old content followed by the buffer *)
Lemma write_all_content : forall fuel p buf fs ws fs' s c,
  write_all fuel p buf fs = (ws, true, fs') ->
  vol s p = Some c -> off s p = length c ->
  vol (run ws s) p = Some (c ++ buf) /\ off (run ws s) p = length (c ++ buf).
Proof.
  induction fuel as [|fuel IH]; intros p buf fs ws fs' s c H Hv Ho; destruct buf as [|b bs];
    cbn [write_all] in H.
  - inversion H; subst. rewrite run_nil, app_nil_r. split; assumption.
  - discriminate H.
  - inversion H; subst. rewrite run_nil, app_nil_r. split; assumption.
  - destruct (next fs) as [[|n| |] fs1].
    + inversion H; subst. rewrite run_cons, run_nil. apply step_write_append; assumption.
    + cbv zeta in H. destruct (Nat.min n (length (b :: bs))) as [|k] eqn:Ek; [discriminate H|].
      destruct (write_all fuel p (skipn (S k) (b :: bs)) fs1) as [[ops ok1] fs2] eqn:Er.
      inversion H; subst. rewrite run_cons.
      destruct (step_write_append s p c (firstn (S k) (b :: bs)) Hv Ho) as [Hv1 Ho1].
      destruct (IH p _ fs1 ops fs' _ _ Er Hv1 Ho1) as [Hv2 Ho2].
      rewrite <- app_assoc, firstn_skipn in Hv2, Ho2. split; assumption.
    + discriminate H.
    + destruct (write_all fuel p (b :: bs) fs1) as [[ops ok1] fs2] eqn:Er.
      inversion H; subst. rewrite run_cons. cbn [step]. eapply IH; eassumption.
Qed.

(* ------------------------------------------------------------------ write-temp-then-rename *)
Lemma untouched_cleanup : forall tmp, tmp <> TARGET -> untouched (cleanup tmp).
Proof.
  intros tmp H. unfold cleanup. constructor; [reflexivity|]. constructor; [|constructor].
  cbn [touches_target]. apply notarget, H.
Qed.

(** every run of the protocol either never touches the target, or is such a run followed by the
    rename of a temp file that holds, visibly and durably, exactly the new content *)
Lemma tmp_rename_shape : forall tmp new fs, tmp <> TARGET ->
  untouched (tmp_rename tmp new fs) \/
  exists pre, tmp_rename tmp new fs = pre ++ [ORename tmp TARGET] /\ untouched pre /\
              forall old, vol (run pre (init old)) tmp = Some new /\ dur (run pre (init old)) tmp = Some new.
Proof.
  intros tmp new fs Hne. pose proof (notarget tmp Hne) as Hnt.
  unfold tmp_rename. destruct (failed fs); [left; constructor|].
  unfold tr_chmod. destruct (failed (rest fs)).
  { left. constructor; [cbn [touches_target]; exact Hnt|]. constructor; [reflexivity|].
    apply untouched_cleanup, Hne. }
  unfold tr_write.
  destruct (write_all (length new + length (rest (rest fs))) tmp new (rest (rest fs))) as [[ws ok] fs2] eqn:Ew.
  pose proof (write_all_untouched _ _ _ _ _ _ _ Hne Ew) as Hws.
  destruct ok.
  2:{ left. constructor; [cbn [touches_target]; exact Hnt|]. constructor; [reflexivity|].
      apply untouched_app; [exact Hws|apply untouched_cleanup, Hne]. }
  unfold tr_sync. destruct (failed fs2).
  { left. constructor; [cbn [touches_target]; exact Hnt|]. constructor; [reflexivity|].
    apply untouched_app; [exact Hws|]. constructor; [reflexivity|]. apply untouched_cleanup, Hne. }
  unfold tr_finish. destruct (failed (rest fs2)).
  { left. constructor; [cbn [touches_target]; exact Hnt|]. constructor; [reflexivity|].
    apply untouched_app; [exact Hws|].
    constructor; [cbn [touches_target]; exact Hnt|]. constructor; [reflexivity|].
    constructor; [reflexivity|]. constructor; [cbn [touches_target]; exact Hnt|constructor]. }
  right. exists (OCreate tmp :: OChmod tmp :: ws ++ [OFsync tmp; OClose tmp]).
  split; [|split].
  - cbn [app]. rewrite <- app_assoc. reflexivity.
  - constructor; [cbn [touches_target]; exact Hnt|]. constructor; [reflexivity|].
    apply untouched_app; [exact Hws|].
    constructor; [cbn [touches_target]; exact Hnt|]. constructor; [reflexivity|constructor].
  - intros old. rewrite !run_cons, run_app, !run_cons, run_nil.
    set (s1 := step (step (init old) (OCreate tmp)) (OChmod tmp)).
    assert (Hv1 : vol s1 tmp = Some []) by (subst s1; cbn [step vol]; apply upd_same).
    assert (Ho1 : off s1 tmp = length (@nil byte)) by (subst s1; cbn [step off]; apply upd_same).
    destruct (write_all_content _ _ _ _ _ _ s1 [] Ew Hv1 Ho1) as [Hv2 _]. cbn [app] in Hv2.
    cbn [step vol dur]. rewrite upd_same. split; exact Hv2.
Qed.

Lemma tmp_rename_safe : forall old new tmp fs k,
  tmp <> TARGET ->
  kill_ok old new (run (firstn k (tmp_rename tmp new fs)) (init old)) /\
  power_ok old new (run (firstn k (tmp_rename tmp new fs)) (init old)).
Proof.
  intros old new tmp fs k Hne.
  destruct (tmp_rename_shape tmp new fs Hne) as [Hu|[pre [E [Hu Hc]]]].
  - destruct (untouched_safe old new _ Hu) as [A B]. split; [apply A|apply B].
  - rewrite E. destruct (Hc old) as [Hv Hd].
    destruct (shape_safe old new tmp pre Hne Hu Hv Hd) as [A B]. split; [apply A|apply B].
Qed.

Lemma tmp_rename_passes_checker : forall old new tmp fs,
  tmp <> TARGET ->
  protocol_safe old new (tmp_rename tmp new fs) = true /\
  protocol_power_safe old new (tmp_rename tmp new fs) = true.
Proof.
  intros old new tmp fs Hne. split.
  - apply protocol_safe_complete. intros k. apply (tmp_rename_safe old new tmp fs k Hne).
  - apply protocol_power_safe_complete. intros k. apply (tmp_rename_safe old new tmp fs k Hne).
Qed.

Lemma write_all_no_fault : forall new p extra,
  write_all (length new + extra) p new [] = (match new with [] => [] | _ :: _ => [OWrite p new] end, true, []).
Proof. intros [|b bs] p extra; [destruct extra|]; reflexivity. Qed.

(** when no call fails the target ends up with the new content *)
Lemma tmp_rename_completes : forall old new tmp,
  tmp <> TARGET -> vol (run (tmp_rename tmp new []) (init old)) TARGET = Some new.
Proof.
  intros old new tmp Hne.
  unfold tmp_rename, tr_chmod, tr_write. cbn [failed rest next fst snd].
  pose proof (write_all_no_fault new tmp (length (@nil outcome))) as Ew. rewrite Ew.
  unfold tr_sync, tr_finish. cbn [failed rest next fst snd].
  rewrite !run_cons, run_app, !run_cons, run_nil.
  set (s1 := step (step (init old) (OCreate tmp)) (OChmod tmp)).
  assert (Hv1 : vol s1 tmp = Some []) by (subst s1; cbn [step vol]; apply upd_same).
  assert (Ho1 : off s1 tmp = length (@nil byte)) by (subst s1; cbn [step off]; apply upd_same).
  destruct (write_all_content _ _ _ _ _ _ s1 [] Ew Hv1 Ho1) as [Hv2 _]. cbn [app] in Hv2.
  cbn [step vol]. rewrite upd_other by congruence. rewrite upd_same. exact Hv2.
Qed.

(* ------------------------------------------------------------------ truncate-then-write *)
Lemma trunc_write_head : forall new fs,
  failed fs = false -> exists r, trunc_write new fs = OOpenTrunc TARGET :: r.
Proof.
  intros new fs H. unfold trunc_write. rewrite H.
  destruct (write_all (length new + length fs) TARGET new (rest fs)) as [[ws ok] fs']. eexists. reflexivity.
Qed.

(** whatever the contents: right after the open the file is empty *)
Lemma trunc_write_unsafe_all : forall old new fs,
  old <> [] -> new <> [] -> failed fs = false ->
  vol (run (firstn 1%nat (trunc_write new fs)) (init old)) TARGET = Some [] /\
  ~ kill_ok old new (run (firstn 1%nat (trunc_write new fs)) (init old)).
Proof.
  intros old new fs Ho Hn Hf. destruct (trunc_write_head new fs Hf) as [r E]. rewrite E.
  cbn [firstn]. rewrite run_cons, run_nil.
  assert (Hv : vol (step (init old) (OOpenTrunc TARGET)) TARGET = Some []) by (cbn [step vol]; apply upd_same).
  split; [exact Hv|]. intros [H|H]; rewrite Hv in H; inversion H; subst; congruence.
Qed.

Lemma write_all_short_then_err : forall fuel p new n,
  (0 < n < length new)%nat ->
  write_all (S (S fuel)) p new [Short n; Err] = ([OWrite p (firstn n new); OWriteFail p], false, []).
Proof.
  intros fuel p new n Hn. destruct new as [|b bs]; [cbn [length] in Hn; lia|].
  cbn [length] in Hn. cbn [length write_all next]. cbv zeta.
  assert (Em : Nat.min n (S (length bs)) = n) by (apply Nat.min_l; lia). rewrite Em.
  destruct n as [|n']; [lia|].
  destruct (skipn (S n') (b :: bs)) as [|c cs] eqn:E.
  { apply (f_equal (@length _)) in E. rewrite skipn_length in E. cbn [length] in E. lia. }
  reflexivity.
Qed.

(** a size limit / full disk: the kernel accepts [n] bytes, the next write fails, the program closes the
    file and reports the error — the file is left with the first [n] bytes of the new text *)
Lemma trunc_write_fault_truncates : forall old new n,
  (0 < n < length new)%nat ->
  vol (run (trunc_write new [Ok; Short n; Err]) (init old)) TARGET = Some (firstn n new).
Proof.
  intros old new n Hn. unfold trunc_write. cbn [failed rest next fst snd].
  replace (length new + length [Ok; Short n; Err])%nat with (S (S (S (length new)))) by (cbn [length]; lia).
  rewrite (write_all_short_then_err _ TARGET new n Hn). cbn [app].
  rewrite !run_cons, run_nil.
  assert (Hv0 : vol (step (init old) (OOpenTrunc TARGET)) TARGET = Some []) by (cbn [step vol]; apply upd_same).
  assert (Ho0 : off (step (init old) (OOpenTrunc TARGET)) TARGET = length (@nil byte)) by (cbn [step off]; apply upd_same).
  destruct (step_write_append _ TARGET [] (firstn n new) Hv0 Ho0) as [Hv1 _].
  cbn [app] in Hv1. cbn [step vol] in *. exact Hv1.
Qed.

Lemma trunc_write_unsafe_refuted : exists (old new : data) (fs : oracle) (k : nat),
  let s := run (firstn k (trunc_write new fs)) (init old) in
  exists pre, vol s TARGET = Some pre /\ proper_prefix pre new /\ pre <> old /\ pre <> new /\
              ~ kill_ok old new s.
Proof.
  exists [111; 108; 100], [110; 101; 119; 33], [Ok; Short 2], 2%nat. cbv zeta.
  exists [110; 101].
  split; [vm_compute; reflexivity|].
  split; [exists [119; 33]; split; [discriminate|reflexivity]|].
  split; [discriminate|]. split; [discriminate|].
  intros [H|H]; vm_compute in H; discriminate H.
Qed.

Lemma nosync_power_refuted : exists (old new : data) (k : nat),
  ~ power_ok old new (run (firstn k (tmp_rename_nosync 1 new [])) (init old)) /\
  dur (run (firstn k (tmp_rename_nosync 1 new [])) (init old)) TARGET = Some [].
Proof.
  exists [111; 108; 100], [110; 101; 119; 33], 9%nat.
  split; [intros [H|H]; vm_compute in H; discriminate H|vm_compute; reflexivity].
Qed.

Lemma tmp_rename_example :
  let old := [111; 108; 100] in let new := [110; 101; 119; 33] in
  tmp_rename 1 new [Ok; Ok; Short 2; Err] =
    [OCreate 1; OChmod 1; OWrite 1 [110; 101]; OWriteFail 1; OClose 1; OUnlink 1] /\
  protocol_safe old new (tmp_rename 1 new [Ok; Ok; Short 2; Err]) = true /\
  vol (run (tmp_rename 1 new [Ok; Ok; Short 2; Err]) (init old)) 1 = None /\
  protocol_safe old new (trunc_write new [Ok; Short 2; Err]) = false /\
  vol (run (tmp_rename 1 new [Ok; Ok; Short 3; Ok]) (init old)) TARGET = Some new.
Proof. vm_compute. repeat split; reflexivity. Qed.
