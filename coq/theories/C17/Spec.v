(** C17/Spec.v — what the round-trip theorem talks about: the size / well-formedness predicate [small],
    the token-level printer [ptoks], the syntax tree [tree_of] a rendered type must parse to, and the union
    normal form [norm] the analyzer builds from that tree.  Definitions only. *)
From EV Require Export C17.Model.
From Coq Require Import String.
Local Open Scope N_scope.

(* ------------------------------------------------------------------------------------------ *)
(** * Which types are covered *)

(** characters after the first one of a (possibly dotted) type name *)
Fixpoint name_tail_ok (s : text) : bool :=
  match s with
  | [] => true
  | c :: r =>
      if name_cont c then name_tail_ok r
      else if c =? 46 then match r with c2 :: _ => name_cont c2 && name_tail_ok r | [] => false end
      else false
  end.

Definition fun_words : list text := [T"fun"; T"async"; T"sync"].

(** a class / alias / enum name as it is written in an annotation: ASCII identifier segments joined
    by single dots, not a built-in type name, not a keyword of the doc grammar *)
Definition ref_name_ok (n : text) : bool :=
  match n with
  | c :: r => name_start c && name_tail_ok r
  | [] => false
  end
  && match builtin_of_name n with None => true | Some _ => false end
  && is_plain_name n
  && negb (mem_text n fun_words).

(** a parameter name: an ASCII identifier that is not a doc keyword *)
Definition param_name_ok (n : text) : bool :=
  match n with
  | c :: r => name_start c && forallb name_cont r
  | [] => false
  end && is_plain_name n.

Definition I64_MAX : Z := 9223372036854775807.

Definition int_ok (z : Z) : bool := Z.leb (- I64_MAX) z && Z.leb z I64_MAX.

Definition key_ok (k : key) : bool :=
  match k with
  | KInt z => Z.leb 0 z && Z.leb z I64_MAX
  | KName _ => true
  end.

Fixpoint keys_sorted (ks : list key) : bool :=
  match ks with
  | [] => true
  | k :: r => match r with [] => true | k2 :: _ => key_ltb k k2 end && keys_sorted r
  end.

Fixpoint nodup_text (l : list text) : bool :=
  match l with
  | [] => true
  | x :: r => negb (mem_text x r) && nodup_text r
  end.

Definition non_nil (ms : list ty) : list ty := filter (fun m => negb (is_nil m)) ms.

Definition is_minimal (l : level) : bool := level_eqb l Minimal.

(** [small lvl depth t]: [t] is in the sub-grammar and is rendered in full (no [...], no [{...}]) when
    it is written at render level [lvl] and nesting depth [depth] *)
Fixpoint small (lvl : level) (depth : nat) (t : ty) {struct t} : bool :=
  (depth <? DEFAULT_MAX_DEPTH)%nat &&
  let sub := small (next_level lvl) (S depth) in
  match t with
  | TPrim _ | TStr _ | TBool _ => true
  | TInt z => int_ok z
  | TRef n => ref_name_ok n
  | TTableConst => false
  | TArray b => sub b
  | TTableGeneric ps =>
      negb (is_minimal lvl) && (1 <=? List.length ps)%nat && (List.length ps <=? max_items lvl)%nat
      && forallb sub ps
  | TObject fs =>
      negb (is_minimal lvl) && (List.length fs <=? max_items lvl)%nat
      && forallb key_ok (map fst fs) && keys_sorted (map fst fs)
      && forallb (fun f : key * ty => sub (snd f)) fs
  | TFun ps =>
      negb (is_minimal lvl)
      && forallb (fun p : text * option ty =>
                    param_name_ok (fst p) && match snd p with Some pt => sub pt | None => true end) ps
  | TUnion _ ms =>
      (2 <=? List.length ms)%nat
      && (1 <=? List.length (non_nil ms))%nat
      && (List.length (non_nil ms) <=? max_union_items lvl)%nat
      && forallb (fun m => negb (is_union m)) ms
      && nodup_text (map (write_type (next_level lvl) (S depth)) (non_nil ms))
      && forallb sub ms
  end.

(** the theorem's hypothesis: the type fits at the top level, and is not the bare [table]
    (which an annotation reads as a fresh table instance, [infer_special_table_type]) *)
Definition Small (t : ty) : Prop :=
  small Documentation 0 t = true /\ t <> TPrim PTable.

(* ------------------------------------------------------------------------------------------ *)
(** * Token-level printer and expected tree *)

Fixpoint sep_by {A} (s : list A) (l : list (list A)) : list A :=
  match l with
  | [] => []
  | [x] => x
  | x :: r => x ++ s ++ sep_by s r
  end.

Definition key_toks (k : key) : list token :=
  match k with
  | KInt z => [TkLBracket; TkInt (show_Z z); TkRBracket]
  | KName s => if is_plain_field_name s then [TkName s] else [TkLBracket; TkString (quoted s); TkRBracket]
  end.

Definition union_parens (nn : list ty) (has_nil : bool) : bool :=
  (1 <? List.length nn)%nat || ((List.length nn =? 1)%nat && existsb is_function nn && has_nil).

Fixpoint ptoks (t : ty) {struct t} : list token :=
  match t with
  | TPrim p => [TkName (prim_name p)]
  | TStr s => [TkString (quoted s)]
  | TInt z => match z with
              | Zneg p => [TkMinus; TkInt (dec_of_N (Npos p))]
              | _ => [TkInt (show_Z z)]
              end
  | TBool b => [TkName (if b then T"true" else T"false")]
  | TRef n => [TkName n]
  | TTableConst => [TkName T"table"]
  | TArray b =>
      (if array_base_needs_parens b then TkLParen :: ptoks b ++ [TkRParen] else ptoks b)
      ++ [TkLBracket; TkRBracket]
  | TTableGeneric ps => TkName T"table" :: TkLt :: sep_by [TkComma] (map ptoks ps) ++ [TkGt]
  | TObject fs =>
      TkLBrace :: sep_by [TkComma] (map (fun f : key * ty => key_toks (fst f) ++ TkColon :: ptoks (snd f)) fs)
      ++ [TkRBrace]
  | TFun ps =>
      TkName T"fun" :: TkLParen
      :: sep_by [TkComma] (map (fun p : text * option ty =>
                                  TkName (fst p) :: match snd p with
                                                    | Some pt => TkColon :: ptoks pt
                                                    | None => []
                                                    end) ps)
      ++ [TkRParen]
  | TUnion _ ms =>
      let has_nil := existsb is_nil ms in
      let core := sep_by [TkOr]
                    ((fix go (l : list ty) : list (list token) :=
                        match l with
                        | [] => []
                        | m :: r => if is_nil m then go r else ptoks m :: go r
                        end) ms) in
      (if union_parens (non_nil ms) has_nil then TkLParen :: core ++ [TkRParen] else core)
      ++ (if has_nil then [TkQuestion] else [])
  end.

Definition key_tree (k : key) : text + dt :=
  match k with
  | KInt z => inr (DLitInt (show_Z z))
  | KName s => if is_plain_field_name s then inl s else inr (DLitStr (quoted s))
  end.

(** left-nested chain of [|] *)
Definition union_chain (ds : list dt) : dt :=
  match ds with
  | [] => DLitQ                       (* not reached for [small] types *)
  | d :: r => fold_left (fun acc x => DBinary BUnion acc x) r d
  end.

Fixpoint tree_of (t : ty) {struct t} : dt :=
  match t with
  | TPrim p => DName (prim_name p)
  | TStr s => DLitStr (quoted s)
  | TInt z => match z with
              | Zneg p => DUnary UNeg (DLitInt (dec_of_N (Npos p)))
              | _ => DLitInt (show_Z z)
              end
  | TBool b => DLitBool b
  | TRef n => DName n
  | TTableConst => DName T"table"
  | TArray b => DArray (tree_of b)
  | TTableGeneric ps => DGeneric T"table" (map tree_of ps)
  | TObject fs => DObject (map (fun f : key * ty => (key_tree (fst f), false, Some (tree_of (snd f)))) fs)
  | TFun ps => DFun (map (fun p : text * option ty => (fst p, false, option_map tree_of (snd p))) ps)
  | TUnion _ ms =>
      let base := union_chain
                    ((fix go (l : list ty) : list dt :=
                        match l with
                        | [] => []
                        | m :: r => if is_nil m then go r else tree_of m :: go r
                        end) ms) in
      if existsb is_nil ms then DNullable base else base
  end.

(* ------------------------------------------------------------------------------------------ *)
(** * The union normal form the analyzer builds *)

(** [T?] as [infer_type] reads it *)
Definition mk_nullable (e : env) (t : ty) : ty :=
  if is_unknown t then TPrim PUnknown else if is_nullable t then t else union_with_nil e t.

(** [T[]] as [infer_type] reads it *)
Definition mk_array (t : ty) : ty := if is_unknown t then TPrim PUnknown else TArray t.

(** [a | b | c ...] read left to right *)
Definition mk_union (ts : list ty) : ty :=
  match ts with
  | [] => TPrim PNil
  | t :: r => fold_left binary_union r t
  end.

(** rebuilding a type bottom-up with the analyzer's own constructors: members of a union are merged by
    [LuaType::from_vec] in rendering order (nil last, through [union_type]) *)
Fixpoint norm (e : env) (t : ty) {struct t} : ty :=
  match t with
  | TArray b => mk_array (norm e b)
  | TTableGeneric ps => TTableGeneric (map (norm e) ps)
  | TObject fs => TObject (obj_new (map (fun f : key * ty => (fst f, norm e (snd f))) fs))
  | TFun ps => TFun (map (fun p : text * option ty => (fst p, option_map (norm e) (snd p))) ps)
  | TUnion _ ms =>
      let base := mk_union
                    ((fix go (l : list ty) : list ty :=
                        match l with
                        | [] => []
                        | m :: r => if is_nil m then go r else norm e m :: go r
                        end) ms) in
      if existsb is_nil ms then mk_nullable e base else base
  | _ => t
  end.

(* ------------------------------------------------------------------------------------------ *)
(** * "The same type": equality modulo the order of union members (what [PartialEq for LuaUnionType] means) *)

Definition ukind_eqb (a b : ukind) : bool :=
  match a, b with UBasic, UBasic | UNullable, UNullable | UMulti, UMulti => true | _, _ => false end.

Fixpoint ty_eqv (a b : ty) {struct a} : bool :=
  match a, b with
  | TPrim p, TPrim q => prim_eqb p q
  | TStr s, TStr s' => text_eqb s s'
  | TInt z, TInt z' => Z.eqb z z'
  | TBool x, TBool y => Bool.eqb x y
  | TRef n, TRef n' => text_eqb n n'
  | TTableConst, TTableConst => true
  | TArray x, TArray y => ty_eqv x y
  | TTableGeneric xs, TTableGeneric ys =>
      (fix go (xs ys : list ty) : bool :=
         match xs, ys with
         | [], [] => true
         | x :: xs', y :: ys' => ty_eqv x y && go xs' ys'
         | _, _ => false
         end) xs ys
  | TObject xs, TObject ys =>
      (fix go (xs ys : list (key * ty)) : bool :=
         match xs, ys with
         | [], [] => true
         | (k, x) :: xs', (k', y) :: ys' => key_eqb k k' && ty_eqv x y && go xs' ys'
         | _, _ => false
         end) xs ys
  | TFun xs, TFun ys =>
      (fix go (xs ys : list (text * option ty)) : bool :=
         match xs, ys with
         | [], [] => true
         | (n, ox) :: xs', (n', oy) :: ys' =>
             text_eqb n n'
             && match ox, oy with
                | Some x, Some y => ty_eqv x y
                | None, None => true
                | _, _ => false
                end
             && go xs' ys'
         | _, _ => false
         end) xs ys
  | TUnion k xs, TUnion k' ys =>
      ukind_eqb k k' && (List.length xs =? List.length ys)%nat
      && (fix all (l : list ty) : bool :=
            match l with [] => true | x :: r => existsb (ty_eqv x) ys && all r end) xs
      && forallb (fun y => (fix any (l : list ty) : bool :=
                              match l with [] => false | x :: r => ty_eqv x y || any r end) xs) ys
  | _, _ => false
  end.

(** the variant [LuaUnionType::from_vec] gives a member list *)
Definition kind_of (ms : list ty) : ukind :=
  if all_prim ms then UBasic
  else if (List.length ms =? 2)%nat && existsb is_nil ms then UNullable
  else UMulti.

Fixpoint nodup_ty (l : list ty) : bool :=
  match l with
  | [] => true
  | x :: r => negb (mem_ty x r) && nodup_ty r
  end.

(** [T?] of a single member [T] is absorbed or expanded by the reader when [T] is [unknown], or is (an alias
    of) [any], [never], [nil] or a union *)
Definition nullable_base_ok (e : env) (x : ty) : bool :=
  negb (is_unknown x)
  && match real_type e x with
     | TPrim PAny | TPrim PNever | TPrim PNil | TUnion _ _ => false
     | _ => true
     end.

(** the shape the annotation reader gives its types (variants and arities of unions, no array of [unknown]) *)
Fixpoint annot_form (e : env) (t : ty) {struct t} : bool :=
  match t with
  | TArray b => negb (is_unknown b) && annot_form e b
  | TTableGeneric ps => forallb (annot_form e) ps
  | TObject fs => forallb (fun f : key * ty => annot_form e (snd f)) fs
  | TFun ps => forallb (fun p : text * option ty => match snd p with Some pt => annot_form e pt | None => true end) ps
  | TUnion k ms =>
      ukind_eqb k (kind_of ms)
      && (List.length ms =? List.length (non_nil ms) + (if existsb is_nil ms then 1 else 0))%nat
      && forallb (annot_form e) ms
  | _ => true
  end.

(** the two recorded classes of unions whose reading back is a different (semantically equal) type:
    an optional [T?] whose only member is absorbed or expanded ([any?], [unknown?], [never?]), or two members
    with the same normal form *)
Fixpoint known (e : env) (t : ty) {struct t} : bool :=
  match t with
  | TArray b => known e b
  | TTableGeneric ps => existsb (known e) ps
  | TObject fs => existsb (fun f : key * ty => known e (snd f)) fs
  | TFun ps => existsb (fun p : text * option ty => match snd p with Some pt => known e pt | None => false end) ps
  | TUnion _ ms =>
      match non_nil ms with [x] => negb (nullable_base_ok e x) | _ => false end
      || negb (nodup_ty (map (norm e) (non_nil ms)))
      || existsb (known e) ms
  | _ => false
  end.
